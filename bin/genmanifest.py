#!/usr/bin/env python3
"""Regenerates MANIFEST.json and known_findings.json from props/*.json (one file per property)."""
import json, os, subprocess
root = os.path.dirname(os.path.dirname(os.path.abspath(__file__)))
ALL = ["C%02d" % i for i in range(1, 21)]
props = {}
for f in sorted(os.listdir(os.path.join(root, "props"))):
    if f.endswith(".json"):
        c = json.load(open(os.path.join(root, "props", f)))
        props[c["id"]] = c
claimed = {k: v for k, v in props.items() if not v.get("not_applicable")}
PENDING = "machinery for this property is not yet built in this tree; designed in DESIGN.md §5 (Lean model + theorems + correspondence) and not claimed until it runs"
hook_commits = []
hc = os.path.join(root, "hook_commits.txt")
if os.path.exists(hc):
    hook_commits = [l.split()[0] for l in open(hc) if l.strip() and not l.startswith("#")]
m = {
 "version": 1,
 "setup_cmd": "bin/setup",
 "hooks": {"guard": "verif", "enable": "go build -tags verif (harness module: replace github.com/php-any/origami => /repo)",
           "baseline_off_cmd": "cd /repo && go build ./... && go test -vet=off -count=1 -timeout 25m ./...",
           "source_commits": hook_commits, "add_only": True},
 "engines": [
  {"name": "lean", "path": "lean", "serves_properties": sorted(claimed), "kind_free_text": "Lean 4.33 Lake project: Model (executable models), Spec, Proofs (theorems), Generated (translator output), Drivers (vm_cXX line-protocol executables)"},
  {"name": "harness", "path": "harness", "serves_properties": sorted(claimed), "kind_free_text": "Go correspondence + violation-search harness (cmd/cXX), built from /repo's working tree on every run"},
  {"name": "extract", "path": "extract", "serves_properties": sorted(k for k, v in claimed.items() if v.get("extract")), "kind_free_text": "go/ast translators: source facts -> lean/Generated/*.lean, regenerated on every run"},
 ],
 "checks": [],
 "notes": "Every check = Lean theorems about a model (lake build + #print axioms audit) + a tie to /repo checked on every run (regenerated facts and/or differential correspondence through vm_cXX) + a violation search with a model-independent oracle. See DESIGN.md.",
 "not_applicable": [],
}
known = []
for pid in ALL:
    c = props.get(pid)
    if c is None or c.get("not_applicable"):
        m["not_applicable"].append({"property_id": pid, "reason": (c or {}).get("not_applicable") or PENDING})
        continue
    m["checks"].append({
        "property_id": pid,
        "quick_cmd": f"bin/check {pid} quick",
        "thorough_cmd": f"bin/check {pid} thorough",
        "evidence_file": f"evidence/{pid}.json",
        "replay_cmd_template": f"bin/check {pid} quick --replay {{path}}",
        "engine": "lean+harness",
        "level_claimed": {"category": "proof", "text": c["text"], "design_ref": f"DESIGN.md §5 {pid}"},
        "level_note": c["note"],
        "technique": c["technique"],
    })
    for k in c.get("known_findings", []):
        known.append(dict(property=pid, **k))
json.dump(m, open(os.path.join(root, "MANIFEST.json"), "w"), indent=1, ensure_ascii=False)
json.dump(known, open(os.path.join(root, "known_findings.json"), "w"), indent=1, ensure_ascii=False)
print("checks:", [c["property_id"] for c in m["checks"]], "known:", len([k for k in known if k["status"] == "known"]), "fixed:", len([k for k in known if k["status"] == "fixed"]))
