#!/usr/bin/env python3
"""Regenerates MANIFEST.json from bin/manifest_src.py (single source for checks + not_applicable)."""
import json, os, sys
sys.path.insert(0, os.path.dirname(os.path.abspath(__file__)))
from manifest_src import CHECKS, NOT_APPLICABLE, HOOK_COMMITS, NOTES
root = os.path.dirname(os.path.dirname(os.path.abspath(__file__)))
m = {
 "version": 1,
 "setup_cmd": "bin/setup",
 "hooks": {"guard": "verif", "enable": "go build -tags verif (the harness module replaces github.com/php-any/origami => /repo)",
           "baseline_off_cmd": "cd /repo && go build ./... && go test -vet=off -count=1 -timeout 25m ./...",
           "source_commits": HOOK_COMMITS, "add_only": True},
 "engines": [
  {"name": "lean", "path": "lean", "serves_properties": sorted(CHECKS), "kind_free_text": "Lean 4.33 Lake project: Model (executable models), Spec, Proofs (theorems), Generated (translator output), Drivers (vm_cXX line-protocol executables)"},
  {"name": "harness", "path": "harness", "serves_properties": sorted(CHECKS), "kind_free_text": "Go correspondence + violation-search harness (cmd/vh), built from /repo's working tree on every run"},
  {"name": "extract", "path": "extract", "serves_properties": sorted(k for k, v in CHECKS.items() if v.get("extract")), "kind_free_text": "go/ast translator: source facts -> lean/Generated/*.lean"},
 ],
 "checks": [],
 "notes": NOTES,
 "not_applicable": [{"property_id": k, "reason": v} for k, v in sorted(NOT_APPLICABLE.items())],
}
for pid in sorted(CHECKS):
    c = CHECKS[pid]
    m["checks"].append({
        "property_id": pid,
        "quick_cmd": f"bin/check {pid} quick",
        "thorough_cmd": f"bin/check {pid} thorough",
        "evidence_file": f"evidence/{pid}.json",
        "replay_cmd_template": f"bin/check {pid} quick --replay {{path}}",
        "engine": "lean+harness",
        "level_claimed": {"category": "proof", "text": c["text"], "design_ref": f"DESIGN.md §5 {pid}"},
        "level_note": c["note"],
        "technique": c["technique"],
    })
json.dump(m, open(os.path.join(root, "MANIFEST.json"), "w"), indent=1, ensure_ascii=False)
print("checks:", sorted(CHECKS), "not_applicable:", sorted(NOT_APPLICABLE))
