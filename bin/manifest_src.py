HOOK_COMMITS = []
NOTES = ("Every check = Lean theorems about a model (lake build + #print axioms audit) + a tie to /repo checked on every run "
         "(regenerated facts and/or differential correspondence through vm_cXX) + a violation search with a model-independent oracle. "
         "See DESIGN.md. Properties still listed under not_applicable are not yet built in this tree (reason says so); none is "
         "outside the technique's reach.")
CHECKS = {
 "C13": {
  "text": "Lean theorems over all operation sequences: the buffered response writer refines the commit-once reference (status, headers, body, number of header commits), at most one commit, post-commit calls inert, default 200; middleware composition = stable ascending sort wrapped outermost-first. Tie: exhaustive differential run of the real script-level API ($res->…) served in-process against the Lean model driver and an independent Go reference.",
  "note": "Trusted: Lean kernel; net/http.ResponseWriter contract as modelled (Wire); sort.SliceStable as stable sort; the correspondence harness (exhaustive to length 4/5, seeded beyond).",
  "technique": "Lean 4 refinement proof (induction over op sequences) + differential correspondence with the real bufferedWriter",
 },
}
_PENDING = "machinery for this property is not yet built in this tree; designed in DESIGN.md §5 (Lean model + theorems + correspondence), not claimed until it runs"
NOT_APPLICABLE = {p: _PENDING for p in ["C01","C02","C03","C04","C05","C06","C07","C08","C09","C10","C11","C12","C14","C15","C16","C17","C18","C19","C20"]}
