#!/usr/bin/env python3
"""Regenerates the data-driven parts of DESIGN.md (between <!-- GEN:x --> and <!-- /GEN:x --> markers)
from props/*.json, evidence/*.json, seeded/*/meta.json, hook_commits.txt and notes/*.md."""
import glob, json, os, re, sys

V = os.path.dirname(os.path.dirname(os.path.abspath(__file__)))
os.chdir(V)


def props():
    out = []
    for p in sorted(glob.glob('props/C*.json')):
        out.append(json.load(open(p)))
    return out


def esc(s):
    return s.replace('|', '\\|').replace('\n', ' ')


def status_table():
    rows = ['| id | level | theorems (axioms ⊆ propext, Classical.choice, Quot.sound) | regenerated facts | model driver | known | fixed | quick wall | write-up |',
            '|---|---|---|---|---|---|---|---|---|']
    for d in props():
        i = d['id']
        kf = d.get('known_findings', [])
        k = sum(1 for x in kf if x['status'] == 'known')
        f = sum(1 for x in kf if x['status'] == 'fixed')
        ev = {}
        if os.path.exists('evidence/%s.json' % i):
            ev = json.load(open('evidence/%s.json' % i))
        cov = ev.get('coverage', {})
        th = len(cov.get('theorems', []))
        ex = d.get('extract')
        exs = ('extract/%s' % (ex if isinstance(ex, str) else i.lower())) if ex else '—'
        dr = d.get('exe')
        drs = (dr if isinstance(dr, str) else 'vm_' + i.lower()) if dr else '—'
        note = 'notes/%s.md' % i if os.path.exists('notes/%s.md' % i) else '§10.3'
        rows.append('| %s | %s | %d | %s | %s | %d | %d | %ss | %s |' % (
            i, ev.get('level', '?'), th, exs, drs, k, f, ev.get('wall_s', '?'), note))
    return '\n'.join(rows)


def fixes_table():
    rows = ['| property | commit(s) in /repo | what failed before |', '|---|---|---|']
    n = 0
    for d in props():
        for x in d.get('known_findings', []):
            if x['status'] != 'fixed':
                continue
            n += 1
            w = re.sub(r'^fixed: property=\S+ \S+ ', '', x['what'])
            if len(w) > 330:
                w = w[:327] + '…'
            rows.append('| %s | %s | %s |' % (d['id'], x.get('commit', '?'), esc(w)))
    rows.append('')
    rows.append('%d entries. Hook commits (build tag `verif`, add-only): %s.' % (
        n, ', '.join(l.split()[0] for l in open('hook_commits.txt') if l.strip() and not l.startswith('#')) if os.path.exists('hook_commits.txt') else 'none'))
    return '\n'.join(rows)


def known_table():
    rows = []
    for d in props():
        ks = [x for x in d.get('known_findings', []) if x['status'] == 'known']
        if not ks:
            continue
        rows.append('**%s** — %d known finding(s):' % (d['id'], len(ks)))
        rows.append('')
        if len(ks) > 14:
            # group by signature family (first two colon-separated fields)
            fam = {}
            for x in ks:
                key = x['signature'].split(':')[0]
                fam.setdefault(key, []).append(x)
            for key, xs in sorted(fam.items()):
                w = xs[0]['what']
                if len(w) > 260:
                    w = w[:257] + '…'
                rows.append('- `%s:…` ×%d — e.g. `%s`: %s' % (key, len(xs), xs[0]['signature'], esc(w)))
        else:
            for x in ks:
                w = x['what']
                if len(w) > 300:
                    w = w[:297] + '…'
                rows.append('- `%s`: %s' % (x['signature'], esc(w)))
        rows.append('')
    return '\n'.join(rows)


def seeded_table():
    rows = ['| seeded change | property | change (abridged) | result of `bin/seedrun` |', '|---|---|---|---|']
    for m in sorted(glob.glob('seeded/*/meta.json')):
        d = json.load(open(m))
        name = os.path.basename(os.path.dirname(m))
        ch = d.get('change', '')
        if len(ch) > 240:
            ch = ch[:237] + '…'
        res = d.get('result', {})
        if isinstance(res, dict):
            rs = '; '.join('%s: %s' % (k, v if len(v) < 330 else v[:327] + '…') for k, v in res.items())
        else:
            rs = str(res)
        rows.append('| %s | %s | %s | %s |' % (name, d.get('property', '?'), esc(ch), esc(rs)))
    return '\n'.join(rows)


def notes_appendix():
    out = []
    for p in sorted(glob.glob('notes/C*.md')):
        body = open(p).read().rstrip('\n')
        # demote headings by two levels so they nest under the appendix
        body = re.sub(r'^(#+) ', lambda m: '##' + m.group(1) + ' ', body, flags=re.M)
        out.append('<!-- from %s -->\n%s\n' % (p, body))
    return '\n'.join(out)


GEN = {'status': status_table, 'fixes': fixes_table, 'known': known_table, 'seeded': seeded_table, 'notes': notes_appendix}


def main():
    s = open('DESIGN.md').read()
    for k, fn in GEN.items():
        a, b = '<!-- GEN:%s -->' % k, '<!-- /GEN:%s -->' % k
        if a not in s:
            print('marker missing:', k)
            continue
        i, j = s.index(a) + len(a), s.index(b)
        s = s[:i] + '\n' + fn() + '\n' + s[j:]
    open('DESIGN.md', 'w').write(s)
    print('DESIGN.md regenerated sections:', ', '.join(GEN))


if __name__ == '__main__':
    main()
