# Per-property configuration of bin/check.
#   extract      : translator outputs this property's obligations depend on (None = none)
#   exe          : False when the property has no model driver
#   trusted_base : what is modelled rather than verified
#   assumptions  : what the check assumes
PROPS = {
    "C13": {
        "trusted_base": [
            "net/http.ResponseWriter contract as modelled in Model.Resp.Wire (header snapshot at first WriteHeader/Write, implicit 200 on Write, body = concatenation); observed through httptest.ResponseRecorder",
            "sort.SliceStable modelled as stable insertion sort (Model.Mw.sortStable)",
            "correspondence harness c13 (differential, exhaustive over op-kind sequences up to the tier's length, seeded beyond)",
        ],
        "assumptions": [
            "status codes are valid (100..999) and no body is written to a 1xx/204/304 response over a real connection",
            "header keys are already in canonical MIME form",
        ],
    },
}
