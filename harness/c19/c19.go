// Package c19: correspondence + violation search for C19 (a generic
// instantiation enforces its own type arguments, whatever came before).
//
// A case is a history of operations over a fixed catalogue of generic classes
// (1–2 type parameters): instantiations with type arguments, raw
// instantiations, instantiations through a constructor that stores its
// argument, typed member writes (direct, through a method = `$this->p`, through
// a dynamic property name) and reads on any live object. The history is
// rendered as ONE origami script, run in-process on a fresh VM, and the
// per-operation outcome markers are compared
//   - with the Lean model `vm_c19` (`Model.Gen.run`)        → correspondence,
//   - with an oracle written here, independent of the model: the expected
//     outcome of every operation computed from the object's OWN creation
//     (class + type arguments) and the class text only    → property violation.
package c19

import (
	"encoding/json"
	"fmt"
	"os"
	"path/filepath"
	"regexp"
	"sort"
	"strconv"
	"strings"

	"verif/harness/vh"
)

func init() { vh.Register("C19", Run) }

// ------------------------------------------------------------ catalogue

type classDecl struct {
	Name   string
	Params []string // type-parameter names, in order
	Props  []string // declared type of p0, p1, …: "" untyped, a parameter name, or a concrete type
	Ctor   bool     // has __construct($x) { $this->p0 = $x; }
}

// The model sees the same catalogue through modelClasses().
var catalogue = []classDecl{
	{Name: "Box", Params: []string{"T"}, Props: []string{"T", "int", ""}},
	{Name: "Pair", Params: []string{"K", "V"}, Props: []string{"K", "V", "string"}},
	{Name: "CBox", Params: []string{"T"}, Props: []string{"T", "T"}, Ctor: true},
	{Name: "Swap", Params: []string{"A", "B"}, Props: []string{"B", "A", ""}},
}

// type tokens (shared with the model protocol): int string array c0 c1 ; value tokens: … o0 o1
var tyScript = map[string]string{"int": "int", "string": "string", "array": "array", "c0": "U0", "c1": "U1"}
var valScript = map[string]string{"int": "7", "string": `"s"`, "array": "[1, 2]", "float": "1.5", "bool": "true", "null": "null", "o0": "new U0()", "o1": "new U1()"}

func tyAccepts(ty, v string) bool {
	switch ty {
	case "int", "string", "array":
		return ty == v
	case "c0":
		return v == "o0"
	case "c1":
		return v == "o1"
	}
	return false
}

func prelude() string {
	var sb strings.Builder
	sb.WriteString("<?php\nclass U0 { public $n = 0; }\nclass U1 { public $n = 1; }\n")
	for _, c := range catalogue {
		fmt.Fprintf(&sb, "class %s<%s> {\n", c.Name, strings.Join(c.Params, ", "))
		for i, t := range c.Props {
			if t == "" {
				fmt.Fprintf(&sb, "  public $p%d;\n", i)
			} else {
				fmt.Fprintf(&sb, "  public %s $p%d;\n", t, i)
			}
		}
		if c.Ctor {
			sb.WriteString("  public function __construct($x) { $this->p0 = $x; }\n")
		}
		for i := range c.Props {
			fmt.Fprintf(&sb, "  public function set%d($x) { $this->p%d = $x; return 1; }\n", i, i)
		}
		for k, t := range c.Params { // a method parameter declared with the k-th type parameter
			fmt.Fprintf(&sb, "  public function take%d(%s $x) { return 1; }\n", k, t)
		}
		sb.WriteString("}\n")
	}
	return sb.String()
}

func modelClasses() string {
	var cs []string
	for _, c := range catalogue {
		var ps, pr []string
		idx := map[string]int{}
		for i, p := range c.Params {
			ps = append(ps, strconv.Itoa(i))
			idx[p] = i
		}
		for _, t := range c.Props {
			if t == "" {
				pr = append(pr, "-")
			} else if k, ok := idx[t]; ok {
				pr = append(pr, fmt.Sprintf("g%d", k))
			} else {
				pr = append(pr, t)
			}
		}
		cs = append(cs, strings.Join(ps, ",")+"/"+strings.Join(pr, ","))
	}
	return strings.Join(cs, ";")
}

// ------------------------------------------------------------ operations

type op struct {
	K    string   `json:"k"`              // inst | raw | ctor | write | read | call
	C    int      `json:"c,omitempty"`    // class id (inst/raw/ctor)
	Args []string `json:"args,omitempty"` // type arguments
	I    int      `json:"i,omitempty"`    // object index (write/read/call)
	P    int      `json:"p,omitempty"`    // member index (write/read); index of the type parameter (call: `take<P>(T_P $x)`)
	V    string   `json:"v,omitempty"`    // value token
	Via  string   `json:"via,omitempty"`  // write form: "" direct | method | dyn
	S    int      `json:"s,omitempty"`    // 0: a statement of its own; k>0: executed through shared site k (code that is re-executed)
}

type gcase struct {
	Ops  []op   `json:"ops"`
	Mode string `json:"mode,omitempty"` // how shared sites are realised: func | closure | method | static | loop ("" = func when some S>0)
}

var siteModes = []string{"func", "closure", "method", "static", "loop"}

func (g gcase) mode() string {
	if g.Mode != "" {
		return g.Mode
	}
	return "func"
}

func (g gcase) sited() bool {
	for _, o := range g.Ops {
		if o.S > 0 {
			return true
		}
	}
	return false
}

// siteText: the source text of the site an operation needs (two operations can share a site iff equal).
func (o op) siteText() string {
	switch o.K {
	case "inst", "raw", "ctor":
		return fmt.Sprintf("%s|%d|%s", o.K, o.C, strings.Join(o.Args, ","))
	case "write":
		return fmt.Sprintf("write|%d|%s", o.P, o.Via)
	}
	return fmt.Sprintf("%s|%d", o.K, o.P)
}

// canonical: every operation through a shared site, one site per distinct text.
func canonical(ops []op) []op {
	ids := map[string]int{}
	res := append([]op{}, ops...)
	for i := range res {
		t := res[i].siteText()
		if ids[t] == 0 {
			ids[t] = len(ids) + 1
		}
		res[i].S = ids[t]
	}
	return res
}

func straight(ops []op) []op {
	res := append([]op{}, ops...)
	for i := range res {
		res[i].S = 0
	}
	return res
}

// repeatedCreation: some `new` text occurs twice (so its canonical site is re-executed).
func repeatedCreation(ops []op) bool {
	seen := map[string]bool{}
	for _, o := range ops {
		switch o.K {
		case "inst", "raw", "ctor":
			t := o.siteText()
			if seen[t] {
				return true
			}
			seen[t] = true
		}
	}
	return false
}

func (o op) model() string {
	if o.S > 0 { // the node of a `new` is state of the model (Model.Gen.resolveAt); other sites are not
		switch o.K {
		case "inst":
			if len(o.Args) == 0 {
				return fmt.Sprintf("instat %d %d", o.S, o.C)
			}
			return fmt.Sprintf("instat %d %d %s", o.S, o.C, strings.Join(o.Args, ","))
		case "raw":
			return fmt.Sprintf("rawat %d %d", o.S, o.C)
		case "ctor":
			return fmt.Sprintf("ctorat %d %d %s %d %s", o.S, o.C, strings.Join(o.Args, ","), 0, o.V)
		}
	}
	switch o.K {
	case "inst":
		if len(o.Args) == 0 {
			return fmt.Sprintf("inst %d", o.C)
		}
		return fmt.Sprintf("inst %d %s", o.C, strings.Join(o.Args, ","))
	case "raw":
		return fmt.Sprintf("raw %d", o.C)
	case "ctor":
		return fmt.Sprintf("ctor %d %s %d %s", o.C, strings.Join(o.Args, ","), 0, o.V)
	case "call":
		return fmt.Sprintf("call %d %d %s", o.I, o.P, o.V)
	case "write":
		return fmt.Sprintf("write %d %d %s", o.I, o.P, o.V)
	case "read":
		return fmt.Sprintf("read %d %d", o.I, o.P)
	}
	return "?"
}

func modelLine(cmd string, ops []op) string {
	p := make([]string, len(ops))
	for i, o := range ops {
		p[i] = o.model()
	}
	return cmd + "\t" + modelClasses() + "\t" + strings.Join(p, ";")
}

func tyList(args []string) string {
	s := make([]string, len(args))
	for i, a := range args {
		s[i] = tyScript[a]
	}
	return strings.Join(s, ", ")
}

// expr: the PHP expression an operation evaluates, written over the receiver `recv` and the value `val`
// (either literals or the parameters of the site).
func (o op) expr(recv, val string) string {
	switch o.K {
	case "inst":
		return fmt.Sprintf("new %s<%s>()", catalogue[o.C].Name, tyList(o.Args))
	case "raw":
		return fmt.Sprintf("new %s()", catalogue[o.C].Name)
	case "ctor":
		return fmt.Sprintf("new %s<%s>(%s)", catalogue[o.C].Name, tyList(o.Args), val)
	case "read":
		return fmt.Sprintf("%s->p%d", recv, o.P)
	case "call":
		return fmt.Sprintf("%s->take%d(%s)", recv, o.P, val)
	}
	return ""
}

// stmts: the statements of a write (the other kinds are expressions).
func (o op) writeStmts(recv, val string) string {
	switch o.Via {
	case "method":
		return fmt.Sprintf("%s->set%d(%s);", recv, o.P, val)
	case "dyn":
		return fmt.Sprintf("$nm = \"p%d\"; %s->$nm = %s;", o.P, recv, val)
	}
	return fmt.Sprintf("%s->p%d = %s;", recv, o.P, val)
}

func (o op) creates() bool { return o.K == "inst" || o.K == "raw" || o.K == "ctor" }

// siteParams / siteBody: the shared site as a callable.
func (o op) siteParams() string {
	switch o.K {
	case "inst", "raw":
		return ""
	case "ctor":
		return "$x"
	case "read":
		return "$o"
	}
	return "$o, $x"
}

func (o op) siteBody() string {
	if o.K == "write" {
		return o.writeStmts("$o", "$x") + " return 1;"
	}
	return "return " + o.expr("$o", "$x") + ";"
}

// siteArgs: the arguments the operation passes to its shared site.
func (o op) siteArgs() string {
	switch o.K {
	case "inst", "raw":
		return ""
	case "ctor":
		return valScript[o.V]
	case "read":
		return fmt.Sprintf("$I[%d]", o.I)
	}
	return fmt.Sprintf("$I[%d], %s", o.I, valScript[o.V])
}

func invoke(mode string, site int, args string) string {
	switch mode {
	case "closure":
		return fmt.Sprintf("$s%d(%s)", site, args)
	case "method":
		return fmt.Sprintf("$SO->s%d(%s)", site, args)
	case "static":
		return fmt.Sprintf("Sites::s%d(%s)", site, args)
	}
	return fmt.Sprintf("s%d(%s)", site, args)
}

// script of one operation as a top-level statement (modes other than loop).
func (o op) script(n int, mode string) string {
	catch := fmt.Sprintf(" } catch (\\Throwable $e) { echo \"\\n%d:ERR:\", $e->getMessage(), \"\\n\"; }\n", n)
	created := fmt.Sprintf(" $I[] = $t; echo \"\\n%d:new\", count($I) - 1, \"\\n\";", n)
	guard := func(body string) string {
		return fmt.Sprintf("try { if (!isset($I[%d])) { echo \"\\n%d:noinst\\n\"; } else { %s }%s", o.I, n, body, catch)
	}
	recv := fmt.Sprintf("$I[%d]", o.I)
	e := o.expr(recv, valScript[o.V])
	if o.S > 0 {
		e = invoke(mode, o.S, o.siteArgs())
	}
	switch o.K {
	case "inst", "raw", "ctor":
		return fmt.Sprintf("try { $t = %s;%s%s", e, created, catch)
	case "write":
		st := o.writeStmts(recv, valScript[o.V])
		if o.S > 0 {
			st = e + ";"
		}
		return guard(fmt.Sprintf("%s echo \"\\n%d:ok\\n\";", st, n))
	case "read":
		return guard(fmt.Sprintf("$r = %s; echo \"\\n%d:read\\n\";", e, n))
	case "call":
		return guard(fmt.Sprintf("%s; echo \"\\n%d:ok\\n\";", e, n))
	}
	return ""
}

// branch: the operation as a branch of the dispatcher loop (mode loop); receiver $I[$i], value $x, number $n.
func (o op) branch() string {
	guard := func(body string) string {
		return "if (!isset($I[$i])) { echo \"\\n\", $n, \":noinst\\n\"; } else { " + body + " }"
	}
	switch o.K {
	case "inst", "raw", "ctor":
		return "$t = " + o.expr("", "$x") + "; $I[] = $t; echo \"\\n\", $n, \":new\", count($I) - 1, \"\\n\";"
	case "write":
		return guard(o.writeStmts("$I[$i]", "$x") + " echo \"\\n\", $n, \":ok\\n\";")
	case "read":
		return guard("$r = " + o.expr("$I[$i]", "") + "; echo \"\\n\", $n, \":read\\n\";")
	case "call":
		return guard(o.expr("$I[$i]", "$x") + "; echo \"\\n\", $n, \":ok\\n\";")
	}
	return ""
}

// sites: the shared sites of a case in order of their number, each with the first operation that uses it.
func sites(ops []op) ([]int, map[int]op) {
	first := map[int]op{}
	var ids []int
	for _, o := range ops {
		if o.S > 0 {
			if _, ok := first[o.S]; !ok {
				first[o.S] = o
				ids = append(ids, o.S)
			}
		}
	}
	sort.Ints(ids)
	return ids, first
}

func script(g gcase) string {
	var sb strings.Builder
	sb.WriteString(prelude())
	mode := g.mode()
	ids, first := sites(g.Ops)
	if mode == "loop" {
		// the whole history is run by ONE loop; a shared site is one branch of its body, taken once per
		// operation that uses the site; an operation with S = 0 has a branch of its own
		sb.WriteString("$I = [];\n$prog = [")
		branchOf := map[int]int{}
		var branches []op
		for _, id := range ids {
			branchOf[id] = len(branches)
			branches = append(branches, first[id])
		}
		for n, o := range g.Ops {
			b, ok := branchOf[o.S]
			if o.S == 0 || !ok {
				b = len(branches)
				branches = append(branches, o)
			}
			v := "0"
			if o.V != "" {
				v = valScript[o.V]
			}
			if n > 0 {
				sb.WriteString(", ")
			}
			fmt.Fprintf(&sb, "[%d, %d, %s]", b, o.I, v)
		}
		sb.WriteString("];\nfor ($n = 0; $n < count($prog); $n++) {\n  $st = $prog[$n]; $f = $st[0]; $i = $st[1]; $x = $st[2];\n  try {\n")
		for b, o := range branches {
			kw := "elseif"
			if b == 0 {
				kw = "if"
			}
			fmt.Fprintf(&sb, "    %s ($f == %d) { %s }\n", kw, b, o.branch())
		}
		sb.WriteString("  } catch (\\Throwable $e) { echo \"\\n\", $n, \":ERR:\", $e->getMessage(), \"\\n\"; }\n}\n")
		return sb.String()
	}
	switch mode {
	case "closure":
		for _, id := range ids {
			fmt.Fprintf(&sb, "$s%d = function(%s) { %s };\n", id, first[id].siteParams(), first[id].siteBody())
		}
	case "method", "static":
		kw := "public function"
		if mode == "static" {
			kw = "public static function"
		}
		sb.WriteString("class Sites {\n")
		for _, id := range ids {
			fmt.Fprintf(&sb, "  %s s%d(%s) { %s }\n", kw, id, first[id].siteParams(), first[id].siteBody())
		}
		sb.WriteString("}\n$SO = new Sites();\n")
	default:
		for _, id := range ids {
			fmt.Fprintf(&sb, "function s%d(%s) { %s }\n", id, first[id].siteParams(), first[id].siteBody())
		}
	}
	sb.WriteString("$I = [];\n")
	for i, o := range g.Ops {
		sb.WriteString(o.script(i, mode))
	}
	return sb.String()
}

var marker = regexp.MustCompile(`^(\d+):(.*)$`)

// outcomes parses the per-operation markers; canonical tokens as the model prints them.
func outcomes(out vh.Outcome, n int) []string {
	res := make([]string, n)
	for i := range res {
		res[i] = "missing"
	}
	for _, l := range strings.Split(out.Out, "\n") {
		m := marker.FindStringSubmatch(l)
		if m == nil {
			continue
		}
		k, _ := strconv.Atoi(m[1])
		if k < 0 || k >= n || res[k] != "missing" {
			continue
		}
		t := m[2]
		switch {
		case strings.HasPrefix(t, "ERR:"):
			msg := t[4:]
			switch {
			case strings.Contains(msg, "因为类型不一致无法赋值"), strings.Contains(msg, "变量类型和赋值类型不一致"):
				res[k] = "rej"
			case strings.Contains(msg, "index out of range"):
				res[k] = "crash"
			default:
				if len(msg) > 80 {
					msg = msg[:80]
				}
				res[k] = "err(" + strings.ReplaceAll(msg, " ", "_") + ")"
			}
		default:
			res[k] = t
		}
	}
	if out.Kind != "ok" {
		for i := range res {
			if res[i] == "missing" {
				res[i] = "script-" + out.Kind + "(" + strings.ReplaceAll(out.Detail, " ", "_") + ")"
				break
			}
		}
	}
	return res
}

// ------------------------------------------------------------ the oracle (independent of the Lean model)

type creation struct {
	cls  int
	args []string // nil = raw
}

// expectWrite: what the object created as r must answer to a write of v into member p —
// from its own type arguments and the class text only.
func expectWrite(r creation, p int, v string) string {
	c := catalogue[r.cls]
	if p >= len(c.Props) || c.Props[p] == "" {
		return "ok"
	}
	t := c.Props[p]
	for k, name := range c.Params {
		if name == t {
			if r.args == nil || k >= len(r.args) {
				return "ok"
			}
			t = r.args[k]
			break
		}
	}
	if tyAccepts(t, v) {
		return "ok"
	}
	return "rej"
}

// expectCall: what the object created as r must answer to `take<k>(v)`, `function take<k>(T_k $x)` —
// from its own type arguments only; null is let through for every parameter type.
func expectCall(r creation, k int, v string) string {
	c := catalogue[r.cls]
	if k >= len(c.Params) {
		return "nomember"
	}
	if v == "null" || r.args == nil || k >= len(r.args) {
		return "ok"
	}
	if tyAccepts(r.args[k], v) {
		return "ok"
	}
	return "rej"
}

// expected outcomes of a whole history; also returns the creation records.
func expected(ops []op) ([]string, []creation) {
	var objs []creation
	res := make([]string, len(ops))
	for n, o := range ops {
		switch o.K {
		case "inst", "ctor":
			if len(o.Args) < len(catalogue[o.C].Params) {
				res[n] = "crash"
				continue
			}
			r := creation{o.C, append([]string{}, o.Args...)}
			if o.K == "ctor" && expectWrite(r, 0, o.V) == "rej" {
				res[n] = "rej"
				continue
			}
			res[n] = fmt.Sprintf("new%d", len(objs))
			objs = append(objs, r)
		case "raw":
			res[n] = fmt.Sprintf("new%d", len(objs))
			objs = append(objs, creation{o.C, nil})
		case "write":
			if o.I >= len(objs) {
				res[n] = "noinst"
			} else {
				res[n] = expectWrite(objs[o.I], o.P, o.V)
			}
		case "read":
			if o.I >= len(objs) {
				res[n] = "noinst"
			} else {
				res[n] = "read"
			}
		case "call":
			if o.I >= len(objs) {
				res[n] = "noinst"
			} else {
				res[n] = expectCall(objs[o.I], o.P, o.V)
			}
		}
	}
	return res, objs
}

// creatorOf returns the position of the operation that created object i (per the oracle).
func creatorOf(ops []op, i int) int {
	exp, _ := expected(ops)
	want := fmt.Sprintf("new%d", i)
	for n := range ops {
		if exp[n] == want {
			return n
		}
	}
	return -1
}

func runImpl(g gcase) []string {
	return outcomes(vh.RunFresh(script(g)), len(g.Ops))
}

// firstBad: first position where the implementation departs from the oracle (-1: none).
func firstBad(impl, exp []string) int {
	for i := range exp {
		if impl[i] != exp[i] {
			return i
		}
	}
	return -1
}

func kindOf(impl, exp string) string {
	switch {
	case exp == "ok" && impl == "rej":
		return "rejects-own"
	case exp == "rej" && impl == "ok":
		return "accepts-foreign"
	case exp == "rej" && strings.HasPrefix(impl, "new"):
		return "ctor-accepts-foreign"
	case strings.HasPrefix(exp, "new") && impl == "rej":
		return "ctor-rejects-own"
	case impl == "crash":
		return "go-panic"
	case strings.HasPrefix(impl, "script-go-panic"):
		return "go-panic"
	}
	return "other"
}

// soloOps: the same object and the same final operation, with nothing else around it.
func soloOps(ops []op, bad int) []op {
	o := ops[bad]
	switch o.K {
	case "write", "read", "call":
		cr := creatorOf(ops, o.I)
		if cr < 0 {
			return []op{o}
		}
		w := o
		w.I = 0
		return []op{ops[cr], w}
	}
	return []op{o}
}

// remove drops operation k; when it created an object the operations on that object go too and
// later object indexes shift down.
func remove(ops []op, k int) []op {
	exp, _ := expected(ops)
	gone := -1
	if strings.HasPrefix(exp[k], "new") {
		gone, _ = strconv.Atoi(exp[k][3:])
	}
	var res []op
	for n, o := range ops {
		if n == k {
			continue
		}
		if (o.K == "write" || o.K == "read" || o.K == "call") && gone >= 0 {
			if o.I == gone {
				continue
			}
			if o.I > gone {
				o.I--
			}
		}
		res = append(res, o)
	}
	return res
}

// fails: the implementation departs from the oracle at the LAST operation of g, in the given way, and
// nowhere before (so the case shows one failure).
func fails(g gcase, kind string) bool {
	if len(g.Ops) == 0 {
		return false
	}
	impl := runImpl(g)
	exp, _ := expected(g.Ops)
	last := len(g.Ops) - 1
	for i := 0; i < last; i++ {
		if impl[i] != exp[i] {
			return false
		}
	}
	return impl[last] != exp[last] && kindOf(impl[last], exp[last]) == kind
}

// shrink keeps the failing operation last and greedily drops earlier ones while the
// implementation still departs from the oracle in the same way at the last operation; then it takes
// operations off their shared sites (S = 0) as long as the failure stays.
func shrink(g gcase, bad int, kind string) gcase {
	cur := gcase{Ops: append([]op{}, g.Ops[:bad+1]...), Mode: g.Mode}
	for changed := true; changed; {
		changed = false
		for k := len(cur.Ops) - 2; k >= 0; k-- {
			cand := gcase{Ops: remove(cur.Ops, k), Mode: cur.Mode}
			// the failing operation must survive
			if len(cand.Ops) == 0 || cand.Ops[len(cand.Ops)-1].K != cur.Ops[len(cur.Ops)-1].K {
				continue
			}
			if fails(cand, kind) {
				cur = cand
				changed = true
				break
			}
		}
	}
	if cur.sited() {
		if st := (gcase{Ops: straight(cur.Ops)}); fails(st, kind) {
			return st // does not need a re-executed site at all
		}
		for k := range cur.Ops {
			if cur.Ops[k].S == 0 {
				continue
			}
			cand := gcase{Ops: append([]op{}, cur.Ops...), Mode: cur.Mode}
			cand.Ops[k].S = 0
			if fails(cand, kind) {
				cur = cand
			}
		}
	}
	if !cur.sited() {
		cur.Mode = ""
	}
	return cur
}

// ------------------------------------------------------------ running cases

type runner struct {
	c        *vh.Ctx
	m        *vh.Model
	shrunk   map[string]int
	batch    []gcase
	stopped  bool
	sharedOK int
	rot      int // rotation over siteModes
	nSited   int // sited renderings added by emitPlain
}

func recordOf(r creation) string {
	if r.args == nil {
		return fmt.Sprintf("%d/raw", r.cls)
	}
	return fmt.Sprintf("%d/%s", r.cls, strings.Join(r.args, ","))
}

// siteOfObject: the shared site (0 = none) whose execution created object i.
func siteOfObject(ops []op, i int) int {
	if cr := creatorOf(ops, i); cr >= 0 {
		return ops[cr].S
	}
	return 0
}

func nontrivial(ops []op) bool {
	// at least two objects of one class that were created with different arguments or by two executions
	// of one shared site, and a typed store / call
	exp, objs := expected(ops)
	diff := false
	for i := range objs {
		for j := i + 1; j < len(objs); j++ {
			if objs[i].cls == objs[j].cls && recordOf(objs[i]) != recordOf(objs[j]) {
				diff = true
			}
		}
	}
	if !diff {
		seen := map[int]bool{}
		for n, o := range ops {
			if o.creates() && o.S > 0 && strings.HasPrefix(exp[n], "new") {
				if seen[o.S] {
					diff = true
				}
				seen[o.S] = true
			}
		}
	}
	w := false
	for _, o := range ops {
		if o.K == "write" || o.K == "ctor" || o.K == "call" {
			w = true
		}
	}
	return diff && w
}

// twins: the pairwise oracle, independent of any expectation. Two objects created with the same class
// and the same written type arguments must give the same answer to the same typed store / call
// (same member, same value kind), wherever in the history the two questions are asked. Returns the first
// pair of operations that disagree.
func twins(ops []op, impl []string) (int, int, bool) {
	_, objs := expected(ops)
	for n2, o2 := range ops {
		if (o2.K != "write" && o2.K != "call") || o2.I >= len(objs) {
			continue
		}
		for n1 := 0; n1 < n2; n1++ {
			o1 := ops[n1]
			if o1.K != o2.K || o1.P != o2.P || o1.V != o2.V || o1.I >= len(objs) || o1.I == o2.I {
				continue
			}
			if recordOf(objs[o1.I]) != recordOf(objs[o2.I]) {
				continue
			}
			a, b := impl[n1], impl[n2]
			if (a == "ok" || a == "rej") && (b == "ok" || b == "rej") && a != b {
				return n1, n2, true
			}
		}
	}
	return 0, 0, false
}

func (r *runner) add(g gcase) {
	if r.stopped {
		return
	}
	r.batch = append(r.batch, g)
	if len(r.batch) >= 256 {
		r.flush()
	}
}

func opsText(g gcase) string {
	t := strings.Join(strings.Split(modelLine("gen", g.Ops), "\t")[2:], "")
	if g.sited() {
		var ss []string
		for _, o := range g.Ops {
			ss = append(ss, strconv.Itoa(o.S))
		}
		t += " [shared sites realised as " + g.mode() + "; site of each operation: " + strings.Join(ss, ",") + "]"
	}
	return t
}

func (r *runner) flush() {
	c := r.c
	if len(r.batch) == 0 {
		return
	}
	impls := make([][]string, len(r.batch))
	lines := make([]string, len(r.batch))
	for bi, g := range r.batch {
		impls[bi] = runImpl(g)
		lines[bi] = modelLine("gen", g.Ops)
	}
	var answers []string
	if r.m != nil {
		var err error
		answers, err = r.m.AskBatch(lines)
		if err != nil {
			c.Note("model stopped answering: %v", err)
			c.Mismatch(nil, "", "", "model driver died: "+err.Error())
			answers = nil
			r.m = nil
		}
	}
	for bi, g := range r.batch {
		impl := impls[bi]
		exp, _ := expected(g.Ops)
		key := lines[bi]
		sited := g.sited()
		if sited {
			key += "@" + g.mode()
		}
		for _, o := range g.Ops {
			key += "/" + o.Via
			if sited {
				key += strconv.Itoa(o.S)
			}
		}
		c.Eval(key, nontrivial(g.Ops))
		c.Hit(fmt.Sprintf("len=%d", len(g.Ops)))
		if sited {
			c.Hit("sites:" + g.mode())
		} else {
			c.Hit("sites:none")
		}
		execs := map[int]int{}
		for n, o := range g.Ops {
			t := impl[n]
			if strings.HasPrefix(t, "new") {
				t = "new"
			} else if strings.HasPrefix(t, "err(") || strings.HasPrefix(t, "script-") {
				t = "other"
			}
			h := o.K
			if o.K == "write" && o.Via != "" {
				h += "-" + o.Via
			}
			if o.S > 0 {
				execs[o.S]++
				if execs[o.S] > 1 {
					h += "@re-executed"
				} else {
					h += "@site"
				}
			}
			c.Hit(h + ":" + t)
		}
		c.SampleSome(map[string]any{"ops": opsText(g), "impl": strings.Join(impl, " ")}, 1009)
		// correspondence with the Lean model
		if answers != nil {
			got := strings.Join(impl, " ")
			if answers[bi] != got {
				note := "Model.Gen.run vs implementation"
				if sh, err := r.m.Ask(modelLine("shared", g.Ops)); err == nil && sh == got {
					note += "; the implementation agrees with Model.Gen.runShared (property lookup overwrites the declaration shared by all instantiations)"
				}
				if sited {
					if st := strings.Join(runImpl(gcase{Ops: straight(g.Ops)}), " "); st == answers[bi] {
						note += "; the same history written as straight-line statements agrees with the model (the difference needs a re-executed site, realised as " + g.mode() + ")"
					}
				}
				c.Mismatch(g, got, answers[bi], note)
			}
		}
		// the property itself, judged by the oracle
		if bad := firstBad(impl, exp); bad >= 0 {
			r.violation(g, bad, impl, exp)
		} else if n1, n2, differ := twins(g.Ops, impl); differ {
			// cannot happen while the expectation oracle is a function of the creation record; kept as an
			// independent statement of "same class, same arguments ⇒ same answers"
			what := fmt.Sprintf("history %q: objects %d and %d were created with the same class and type arguments, but operation %d (%s) answered %q and operation %d (%s) answered %q",
				opsText(g), g.Ops[n1].I, g.Ops[n2].I, n1, g.Ops[n1].model(), impl[n1], n2, g.Ops[n2].model(), impl[n2])
			c.Violation("gen:twins-differ", what, gcase{Ops: append([]op{}, g.Ops[:n2+1]...), Mode: g.Mode})
		}
	}
	r.batch = r.batch[:0]
	if c.Res.ViolationCount > 400 {
		r.stopped = true
		c.Note("stopped generating after %d violations", c.Res.ViolationCount)
	}
}

func (r *runner) violation(g gcase, bad int, impl, exp []string) {
	kind := kindOf(impl[bad], exp[bad])
	cas := gcase{Ops: append([]op{}, g.Ops[:bad+1]...), Mode: g.Mode}
	if !cas.sited() {
		cas.Mode = ""
	}
	scope := "solo"
	if r.shrunk[kind] < 3 {
		r.shrunk[kind]++
		cas = shrink(g, bad, kind)
	}
	last := len(cas.Ops) - 1
	rightAlone := func(t gcase) bool {
		ti := runImpl(t)
		te, _ := expected(t.Ops)
		return ti[len(t.Ops)-1] == te[len(t.Ops)-1]
	}
	if cas.sited() && rightAlone(gcase{Ops: straight(cas.Ops)}) {
		// the same history as straight-line statements (every AST node executed once) answers correctly
		scope = "re-executed-site"
	} else if solo := soloOps(cas.Ops, last); len(solo) < len(cas.Ops) && rightAlone(gcase{Ops: solo, Mode: cas.Mode}) {
		// solo-run comparison: the same object answers correctly when it is alone
		scope = "order-dependent"
	}
	ci := runImpl(cas)
	ce, _ := expected(cas.Ops)
	what := fmt.Sprintf("history %q: operation %d (%s) answered %q, the object's own type arguments prescribe %q",
		opsText(cas), last, cas.Ops[last].model(), ci[last], ce[last])
	switch scope {
	case "order-dependent":
		what += "; the same object answers correctly when no other instantiation / lookup precedes it"
	case "re-executed-site":
		what += "; the same history answers correctly when every operation is a statement of its own — the failure needs code that is executed more than once (" + cas.mode() + ")"
		if n1, n2, differ := twins(cas.Ops, ci); differ {
			what += fmt.Sprintf("; objects %d and %d were created with the same class and type arguments", cas.Ops[n1].I, cas.Ops[n2].I)
			if s1 := siteOfObject(cas.Ops, cas.Ops[n1].I); s1 > 0 && s1 == siteOfObject(cas.Ops, cas.Ops[n2].I) {
				what += " by two executions of the same `new` expression"
			}
			what += fmt.Sprintf(" and answer the same question differently (operation %d: %q, operation %d: %q)", n1, ci[n1], n2, ci[n2])
		} else if lo := cas.Ops[last]; lo.K == "write" || lo.K == "call" {
			// pairwise probe: put the same question to an earlier object with the same creation record
			_, objs := expected(cas.Ops)
			for i := 0; i < len(objs) && lo.I < len(objs); i++ {
				if i == lo.I || recordOf(objs[i]) != recordOf(objs[lo.I]) {
					continue
				}
				q := lo
				q.I = i
				probe := gcase{Ops: append(append([]op{}, cas.Ops...), q), Mode: cas.Mode}
				pi := runImpl(probe)
				how := "with the same class and type arguments"
				if s1 := siteOfObject(cas.Ops, i); s1 > 0 && s1 == siteOfObject(cas.Ops, lo.I) {
					how += " by another execution of the same `new` expression"
				}
				what += fmt.Sprintf("; object %d, created %s, answers %q to the same question (asked right after)", i, how, pi[len(pi)-1])
				break
			}
		}
	}
	r.c.Violation("gen:"+scope+":"+kind, what, cas)
}

// ------------------------------------------------------------ generators

var types4 = []string{"int", "string", "array", "c0"}
var vals5 = []string{"int", "string", "array", "o0", "o1"}
var vias = []string{"", "", "method", "dyn"}

// enumerate all histories up to maxLen over the alphabet produced by next(live objects).
func enumerate(r *runner, maxLen int, alphabet func(live int) []op, creates func(o op) bool, emit func(ops []op)) int {
	count := 0
	var rec func(prefix []op, live int)
	rec = func(prefix []op, live int) {
		if r.stopped {
			return
		}
		if len(prefix) > 0 {
			ops := append([]op{}, prefix...)
			for i := range ops {
				if ops[i].K == "write" {
					ops[i].Via = vh.Pick(r.c.Rand, vias)
				}
			}
			emit(ops)
			count++
		}
		if len(prefix) == maxLen {
			return
		}
		for _, o := range alphabet(live) {
			nl := live
			if creates(o) {
				nl++
			}
			rec(append(append([]op{}, prefix...), o), nl)
		}
	}
	rec(nil, 0)
	return count
}

// emitPlain: the history as straight-line statements (every AST node runs once); when some `new` text
// occurs twice in it, ALSO with every operation executed through a shared site (one site per distinct
// text, so that `new` node runs twice), the realisation of the sites rotating over siteModes.
func (r *runner) emitPlain(ops []op) {
	r.add(gcase{Ops: ops})
	if repeatedCreation(ops) {
		r.rot++
		r.nSited++
		r.add(gcase{Ops: canonical(ops), Mode: siteModes[r.rot%len(siteModes)]})
	}
}

// emitSited: straight-line, and every operation through a shared site — in every realisation up to length
// allUpTo, in one (rotating) realisation beyond.
func (r *runner) emitSited(allUpTo int) func(ops []op) {
	return func(ops []op) {
		r.add(gcase{Ops: ops})
		cs := canonical(ops)
		if len(ops) <= allUpTo {
			for _, m := range siteModes {
				r.add(gcase{Ops: cs, Mode: m})
			}
			return
		}
		r.rot++
		r.add(gcase{Ops: cs, Mode: siteModes[r.rot%len(siteModes)]})
	}
}

// site family 1: Box<int>, Box<string>, raw Box; per live object: p0 <- int|string, read p0, take0(int|string)
func alphabetSiteBox(live int) []op {
	a := []op{{K: "inst", C: 0, Args: []string{"int"}}, {K: "inst", C: 0, Args: []string{"string"}}, {K: "raw", C: 0}}
	for i := 0; i < live; i++ {
		for _, v := range []string{"int", "string"} {
			a = append(a, op{K: "write", I: i, P: 0, V: v})
		}
		a = append(a, op{K: "read", I: i, P: 0})
		for _, v := range []string{"int", "string"} {
			a = append(a, op{K: "call", I: i, P: 0, V: v})
		}
	}
	return a
}

// site family 2: Pair<int,string>, Pair<string,int>, Pair<int,int>; per live object: p0|p1 <- int|string, take0|take1(string)
func alphabetSitePair(live int) []op {
	a := []op{{K: "inst", C: 1, Args: []string{"int", "string"}}, {K: "inst", C: 1, Args: []string{"string", "int"}}, {K: "inst", C: 1, Args: []string{"int", "int"}}}
	for i := 0; i < live; i++ {
		for p := 0; p < 2; p++ {
			for _, v := range []string{"int", "string"} {
				a = append(a, op{K: "write", I: i, P: p, V: v})
			}
			a = append(a, op{K: "call", I: i, P: p, V: "string"})
		}
	}
	return a
}

// site family 3: CBox<int>(v), CBox<string>(v) with v int|string (two `new` sites, the value is their
// parameter: a rejected construction and an accepted one run through the same node); per live object p0|p1 <- int|string
func alphabetSiteCtor(live int) []op {
	var a []op
	for _, t := range []string{"int", "string"} {
		for _, v := range []string{"int", "string"} {
			a = append(a, op{K: "ctor", C: 2, Args: []string{t}, V: v})
		}
	}
	for i := 0; i < live; i++ {
		for p := 0; p < 2; p++ {
			for _, v := range []string{"int", "string"} {
				a = append(a, op{K: "write", I: i, P: p, V: v})
			}
		}
	}
	return a
}

// family 1: one type parameter (Box<T>), member p0 : T
func alphabetBox(live int) []op {
	var a []op
	for _, t := range types4 {
		a = append(a, op{K: "inst", C: 0, Args: []string{t}})
	}
	a = append(a, op{K: "raw", C: 0})
	for i := 0; i < live; i++ {
		for _, v := range vals5 {
			a = append(a, op{K: "write", I: i, P: 0, V: v})
		}
		a = append(a, op{K: "read", I: i, P: 0})
	}
	return a
}

// family 2: two type parameters (Pair<K,V>), members p0 : K, p1 : V
func alphabetPairOver(types []string) func(live int) []op {
	return func(live int) []op { return alphabetPair(types, live) }
}

func alphabetPair(types []string, live int) []op {
	var a []op
	for _, t1 := range types {
		for _, t2 := range types {
			a = append(a, op{K: "inst", C: 1, Args: []string{t1, t2}})
		}
	}
	for i := 0; i < live; i++ {
		for p := 0; p < 2; p++ {
			for _, v := range vals5 {
				a = append(a, op{K: "write", I: i, P: p, V: v})
			}
		}
	}
	return a
}

// family 3: constructor path (CBox<T>(v)) and writes to both T members
func alphabetCtor(live int) []op {
	var a []op
	for _, t := range types4 {
		for _, v := range []string{"int", "string", "array", "o0"} {
			a = append(a, op{K: "ctor", C: 2, Args: []string{t}, V: v})
		}
	}
	for i := 0; i < live; i++ {
		for _, v := range []string{"int", "string", "o0"} {
			a = append(a, op{K: "write", I: i, P: 1, V: v})
		}
	}
	return a
}

func createsOp(o op) bool {
	switch o.K {
	case "raw":
		return true
	case "inst":
		return len(o.Args) >= len(catalogue[o.C].Params)
	case "ctor":
		return len(o.Args) >= len(catalogue[o.C].Params) && expectWrite(creation{o.C, o.Args}, 0, o.V) == "ok"
	}
	return false
}

var typesAll = []string{"int", "string", "array", "c0", "c1"}
var valsAll = []string{"int", "string", "array", "o0", "o1", "null", "float", "bool"}

func randomCase(rd *vh.Rand, n int, sited bool) gcase {
	var ops []op
	var liveCls []int
	var news []op // creations so far (a sited history repeats them: the same `new` text again)
	for len(ops) < n {
		live := len(liveCls)
		x := rd.Intn(100)
		var o op
		switch {
		case sited && len(news) > 0 && x < 14:
			o = vh.Pick(rd, news)
		case live == 0 || x < 30:
			c := vh.Pick(rd, []int{0, 0, 1, 1, 3})
			k := len(catalogue[c].Params)
			if rd.Chance(4) {
				k-- // too few arguments: index out of range in resolveClass
			} else if rd.Chance(6) {
				k++ // surplus argument, ignored
			}
			args := make([]string, k)
			for i := range args {
				args[i] = vh.Pick(rd, typesAll)
			}
			o = op{K: "inst", C: c, Args: args}
			if k == 0 {
				o = op{K: "raw", C: c}
			}
		case x < 36:
			o = op{K: "raw", C: vh.Pick(rd, []int{0, 1, 3})}
		case x < 48:
			o = op{K: "ctor", C: 2, Args: []string{vh.Pick(rd, typesAll)}, V: vh.Pick(rd, valsAll)}
		case x < 82:
			i := rd.Intn(live)
			if rd.Chance(3) {
				i = live + rd.Intn(2)
			}
			o = op{K: "write", I: i, P: vh.Pick(rd, []int{0, 0, 0, 1, 1, 2, 3}), V: vh.Pick(rd, valsAll), Via: vh.Pick(rd, vias)}
			if o.Via == "method" && o.P >= 2 { // set<p> exists only for declared members of every class up to p1
				o.Via = ""
			}
		case x < 92:
			i := rd.Intn(live)
			o = op{K: "call", I: i, P: rd.Intn(len(catalogue[liveCls[i]].Params)), V: vh.Pick(rd, valsAll)}
		default:
			o = op{K: "read", I: rd.Intn(live), P: vh.Pick(rd, []int{0, 1})}
		}
		ops = append(ops, o)
		if o.creates() {
			news = append(news, o)
		}
		if createsOp(o) {
			liveCls = append(liveCls, o.C)
		}
	}
	if !sited {
		return gcase{Ops: ops}
	}
	// sites: mostly one per text; sometimes a second site with the same text, sometimes a statement of its own
	ids := map[string][]int{}
	next := 1
	for i := range ops {
		t := ops[i].siteText()
		switch {
		case rd.Chance(7):
			ops[i].S = 0
		case len(ids[t]) == 0 || (len(ids[t]) == 1 && rd.Chance(6)):
			ids[t] = append(ids[t], next)
			ops[i].S = next
			next++
		default:
			ops[i].S = vh.Pick(rd, ids[t])
		}
	}
	return gcase{Ops: ops, Mode: vh.Pick(rd, siteModes)}
}

// The negation witnesses proved in Lean (Proofs/Properties/C19.lean, `witness`) and the
// other first-lookup shapes seen on the pre-fix code; they run first.
func witnesses() []gcase {
	return []gcase{
		{Ops: []op{{K: "inst", C: 0, Args: []string{"int"}}, {K: "write", I: 0, P: 0, V: "int"}, {K: "inst", C: 0, Args: []string{"string"}}, {K: "write", I: 1, P: 0, V: "string"}}},
		{Ops: []op{{K: "inst", C: 0, Args: []string{"int"}}, {K: "inst", C: 0, Args: []string{"string"}}, {K: "read", I: 0, P: 0}, {K: "write", I: 1, P: 0, V: "int"}}},
		{Ops: []op{{K: "raw", C: 0}, {K: "write", I: 0, P: 0, V: "string"}, {K: "inst", C: 0, Args: []string{"int"}}, {K: "write", I: 1, P: 0, V: "string"}}},
		{Ops: []op{{K: "ctor", C: 2, Args: []string{"int"}, V: "int"}, {K: "ctor", C: 2, Args: []string{"string"}, V: "string"}}},
		{Ops: []op{{K: "inst", C: 1, Args: []string{"int", "string"}}, {K: "write", I: 0, P: 1, V: "string", Via: "method"}, {K: "inst", C: 1, Args: []string{"string", "int"}}, {K: "write", I: 1, P: 1, V: "int", Via: "dyn"}}},
	}
}

// sitedWitnesses: one `new Box<int>()` node executed three times with a Box<string> and a raw Box in
// between, every object then asked the same questions through shared write / call sites — in every
// realisation of the sites. They run first too.
func sitedWitnesses() []gcase {
	ops := []op{{K: "inst", C: 0, Args: []string{"int"}, S: 1}, {K: "inst", C: 0, Args: []string{"string"}, S: 2}, {K: "inst", C: 0, Args: []string{"int"}, S: 1},
		{K: "raw", C: 0, S: 3}, {K: "inst", C: 0, Args: []string{"int"}, S: 1}, {K: "raw", C: 0, S: 3}}
	for i := 0; i < 6; i++ {
		ops = append(ops, op{K: "write", I: i, P: 0, V: "string", S: 4}, op{K: "write", I: i, P: 0, V: "int", Via: "method", S: 5},
			op{K: "call", I: i, P: 0, V: "string", S: 6}, op{K: "read", I: i, P: 0, S: 7})
	}
	ops = append(ops, op{K: "ctor", C: 2, Args: []string{"int"}, V: "string", S: 8}, op{K: "ctor", C: 2, Args: []string{"int"}, V: "int", S: 8},
		op{K: "ctor", C: 2, Args: []string{"int"}, V: "int", S: 8}, op{K: "write", I: 7, P: 1, V: "string", Via: "dyn", S: 9}, op{K: "write", I: 6, P: 1, V: "int", Via: "dyn", S: 9})
	var res []gcase
	for _, m := range siteModes {
		res = append(res, gcase{Ops: append([]op{}, ops...), Mode: m})
	}
	return res
}

func corpus(c *vh.Ctx) []gcase {
	var res []gcase
	files, _ := filepath.Glob(filepath.Join("..", "corpus", "C19", "*.json"))
	sort.Strings(files)
	for _, f := range files {
		b, err := os.ReadFile(f)
		if err != nil {
			continue
		}
		var g gcase
		if json.Unmarshal(b, &g) == nil && len(g.Ops) > 0 && valid(g) {
			res = append(res, g)
		} else {
			c.Note("corpus file %s ignored", f)
		}
	}
	return res
}

func valid(g gcase) bool {
	if g.Mode != "" {
		ok := false
		for _, m := range siteModes {
			ok = ok || m == g.Mode
		}
		if !ok {
			return false
		}
	}
	text := map[int]string{}
	for _, o := range g.Ops {
		if o.S < 0 {
			return false
		}
		if o.S > 0 { // a site has one text
			if t, seen := text[o.S]; seen && t != o.siteText() {
				return false
			}
			text[o.S] = o.siteText()
		}
	}
	_, objs := expected(g.Ops)
	for _, o := range g.Ops {
		switch o.K {
		case "inst", "raw", "ctor":
			if o.C < 0 || o.C >= len(catalogue) {
				return false
			}
			for _, a := range o.Args {
				if tyScript[a] == "" {
					return false
				}
			}
			if o.K == "ctor" && (!catalogue[o.C].Ctor || valScript[o.V] == "") {
				return false
			}
			if o.K != "ctor" && catalogue[o.C].Ctor {
				return false
			}
		case "write":
			if valScript[o.V] == "" || o.I < 0 || o.P < 0 {
				return false
			}
		case "read":
			if o.I < 0 || o.P < 0 {
				return false
			}
		case "call": // take<P> exists on the receiver's class
			if valScript[o.V] == "" || o.I < 0 || o.P < 0 || (o.I < len(objs) && o.P >= len(catalogue[objs[o.I].cls].Params)) {
				return false
			}
		default:
			return false
		}
	}
	return true
}

// ------------------------------------------------------------ the type matrix (ties `Ty.accepts`)

func matrix(r *runner) {
	// one object alone, every type argument × every value kind, every write form
	for _, t := range typesAll {
		for _, v := range valsAll {
			for _, via := range []string{"", "method", "dyn"} {
				r.add(gcase{Ops: []op{{K: "inst", C: 0, Args: []string{t}}, {K: "write", I: 0, P: 0, V: v, Via: via}}})
			}
			r.add(gcase{Ops: []op{{K: "ctor", C: 2, Args: []string{t}, V: v}}})
			// a method parameter declared with the type parameter, alone and on the second object of a re-executed `new`
			r.add(gcase{Ops: []op{{K: "inst", C: 0, Args: []string{t}}, {K: "call", I: 0, P: 0, V: v}}})
			r.add(gcase{Ops: []op{{K: "inst", C: 3, Args: []string{"int", t}}, {K: "call", I: 0, P: 1, V: v}}})
			r.rot++
			r.add(gcase{Ops: []op{{K: "inst", C: 0, Args: []string{t}, S: 1}, {K: "inst", C: 0, Args: []string{t}, S: 1}, {K: "write", I: 1, P: 0, V: v, S: 2}, {K: "call", I: 1, P: 0, V: v, S: 3}}, Mode: siteModes[r.rot%len(siteModes)]})
		}
	}
	// concrete / untyped / undeclared members of every class
	for c := range catalogue {
		if catalogue[c].Ctor {
			continue
		}
		args := []string{"int", "c1"}[:len(catalogue[c].Params)]
		for p := 0; p < 4; p++ {
			for _, v := range valsAll {
				r.add(gcase{Ops: []op{{K: "inst", C: c, Args: args}, {K: "write", I: 0, P: p, V: v}}})
			}
		}
	}
}

// ------------------------------------------------------------ known stream

// A method or constructor parameter declared with the type parameter (`function take(T $x)`,
// `__construct(T $x)`) is not a member Model.Gen covers (its members are properties). Until the
// repairs 1dc386c / 3703564 it was unenforced for every instantiation (known finding
// gen:param-unenforced); now it must accept exactly the values of the instance's own type argument,
// whatever other instantiations exist. Checked on every run by an oracle (no model).
const sigParam = "gen:param-unenforced"

func knownStream(c *vh.Ctx) {
	src := "<?php\nclass KBox<T> { public T $p0; public function __construct(T $init = null, int $n = 0) { } public function take(T $x) { return 1; } }\n" +
		"$b = new KBox<int>();\n$s = new KBox<string>();\n" +
		"try { $b->take(\"s\"); echo \"\\n0:ok\\n\"; } catch (\\Throwable $e) { echo \"\\n0:ERR:\", $e->getMessage(), \"\\n\"; }\n" +
		"try { $b->take(7); echo \"\\n1:ok\\n\"; } catch (\\Throwable $e) { echo \"\\n1:ERR:\", $e->getMessage(), \"\\n\"; }\n" +
		"try { $s->take(7); echo \"\\n2:ok\\n\"; } catch (\\Throwable $e) { echo \"\\n2:ERR:\", $e->getMessage(), \"\\n\"; }\n" +
		"try { $s->take(\"s\"); echo \"\\n3:ok\\n\"; } catch (\\Throwable $e) { echo \"\\n3:ERR:\", $e->getMessage(), \"\\n\"; }\n" +
		"try { new KBox<int>(\"s\"); echo \"\\n4:ok\\n\"; } catch (\\Throwable $e) { echo \"\\n4:ERR:\", $e->getMessage(), \"\\n\"; }\n" +
		"try { new KBox<int>(7); echo \"\\n5:ok\\n\"; } catch (\\Throwable $e) { echo \"\\n5:ERR:\", $e->getMessage(), \"\\n\"; }\n" +
		"try { new KBox<string>(\"s\", \"notint\"); echo \"\\n6:ok\\n\"; } catch (\\Throwable $e) { echo \"\\n6:ERR:\", $e->getMessage(), \"\\n\"; }\n" +
		"try { new KBox<string>(\"s\", 3); echo \"\\n7:ok\\n\"; } catch (\\Throwable $e) { echo \"\\n7:ERR:\", $e->getMessage(), \"\\n\"; }\n"
	out := outcomes(vh.RunFresh(src), 8)
	want := []bool{false, true, false, true, false, true, false, true} // accepted?
	what := []string{"(new KBox<int>())->take(\"s\")", "(new KBox<int>())->take(7)", "(new KBox<string>())->take(7)", "(new KBox<string>())->take(\"s\")",
		"new KBox<int>(\"s\")", "new KBox<int>(7)", "new KBox<string>(\"s\", \"notint\")", "new KBox<string>(\"s\", 3)"}
	for i, w := range want {
		got := out[i] == "ok"
		c.Hit(fmt.Sprintf("param-stream:%d:%v", i, got))
		if got != w {
			verb := map[bool]string{true: "accepted", false: "rejected"}
			c.Violation(sigParam, fmt.Sprintf("class KBox<T> { __construct(T $init, int $n) … take(T $x) … }: %s is %s (%s); a parameter declared with the type parameter accepts exactly the values of the instance's own type argument", what[i], verb[got], out[i]), map[string]any{"kind": "param"})
		}
	}
}

// ------------------------------------------------------------ runner

func Run(c *vh.Ctx) {
	r := &runner{c: c, shrunk: map[string]int{}}
	if c.ModelPath != "" {
		m, err := vh.StartModel(c.ModelPath)
		if err != nil {
			c.Note("cannot start model: %v", err)
		} else {
			r.m = m
			defer m.Close()
			c.Res.ModelUsed = true
		}
	}
	if len(c.ReplayRaw) > 0 {
		var kd struct {
			Kind string `json:"kind"`
		}
		if json.Unmarshal(c.ReplayRaw, &kd) == nil && kd.Kind == "param" {
			knownStream(c)
			return
		}
		if kd.Kind == "bind" {
			var b bcase
			if err := json.Unmarshal(c.ReplayRaw, &b); err != nil || !b.ok() {
				c.Note("bad replay: %v", err)
				return
			}
			b.judge(c)
			return
		}
		var g gcase
		if err := json.Unmarshal(c.ReplayRaw, &g); err != nil || !valid(g) {
			c.Note("bad replay: %v", err)
			return
		}
		r.add(g)
		r.flush()
		return
	}
	c.Res.Rule = "a case = one history over the catalogue Box<T>, Pair<K,V>, CBox<T> (constructor stores its argument), Swap<A,B> (every class with set<p>($x) and take<k>(T_k $x) methods), run as one script on a fresh VM; every operation is a statement of its own or runs through a shared site (function / closure / method / static method / branch of one dispatcher loop) that the history executes repeatedly; non-trivial = at least two objects of the same generic class created with different type arguments or by two executions of one shared `new` site, and at least one typed write / constructor store / T-parameter call; distinct = distinct operation sequence incl. write form, site of every operation and realisation of the sites"
	if os.Getenv("C19_ONLY") == "bind" { // development aid
		bindStream(c)
		return
	}
	knownStream(c)
	bCases, bCalls := bindStream(c)
	for _, g := range witnesses() {
		r.add(g)
	}
	for _, g := range sitedWitnesses() {
		r.add(g)
	}
	for _, g := range corpus(c) {
		r.add(g)
	}
	r.flush()
	matrix(r)
	r.flush()
	// histories designed around re-execution: every operation through a shared site
	s1 := enumerate(r, c.N(4, 5), alphabetSiteBox, createsOp, r.emitSited(c.N(3, 4)))
	s2 := enumerate(r, c.N(3, 4), alphabetSitePair, createsOp, r.emitSited(c.N(2, 3)))
	s3 := enumerate(r, c.N(3, 4), alphabetSiteCtor, createsOp, r.emitSited(c.N(3, 3)))
	r.flush()
	n1 := enumerate(r, 4, alphabetBox, createsOp, r.emitPlain)
	n2 := enumerate(r, 3, alphabetPairOver(types4), createsOp, r.emitPlain)
	n3 := enumerate(r, 3, alphabetCtor, createsOp, r.emitPlain)
	n4 := 0
	if c.Thorough() {
		n4 = enumerate(r, 4, alphabetPairOver([]string{"int", "string", "c0"}), createsOp, r.emitPlain)
	}
	r.flush()
	if !r.stopped {
		c.Res.Exhaustive = true
		c.Res.ExhaustiveWhat = fmt.Sprintf("all histories of length <= 4 over Box<T> (T in {int,string,array,U0}: 4 instantiations + raw; per live object 5 value kinds written to the T member + a read): %d; all histories of length <= 3 over Pair<K,V> (K,V in {int,string,array,U0}: 16 instantiations; per live object 2 members x 5 value kinds): %d; all histories of length <= 3 over CBox<T>(v) (16 constructor calls; per live object 3 value kinds): %d; the full type-argument x value-kind matrix on a single object in every write form and for a T parameter", n1, n2, n3)
		if n4 > 0 {
			c.Res.ExhaustiveWhat += fmt.Sprintf("; all histories of length <= 4 over Pair<K,V> with K,V in {int,string,U0} (9 instantiations): %d", n4)
		}
		c.Res.ExhaustiveWhat += fmt.Sprintf("; position stream: %d generic classes (1..3 type parameters; every parameter list of length <= 4 (<= 3 for 3 type parameters in quick) over {K_k $x, int $x, $x} with at least one type-parameter position; lists over the type parameters followed by a defaulted / variadic last parameter; one promoted position; arguments by name), constructor and method m with the same list, two instantiations each, every argument fine and every position mistyped in turn: %d calls", bCases, bCalls)
		c.Res.ExhaustiveWhat += fmt.Sprintf("; each of those histories in which a `new` text occurs twice additionally with every operation through a shared re-executed site (%d renderings, realisation rotating over function/closure/method/static method/loop branch)", r.nSited)
		c.Res.ExhaustiveWhat += fmt.Sprintf("; re-execution families, every history as straight-line statements AND with every operation through a shared site (one site per distinct text), in all 5 realisations up to length k and one rotating realisation beyond: Box<int>|Box<string>|raw Box with p0 <- int|string, read, take0(int|string), length <= %d (k=%d): %d histories; Pair<int,string>|Pair<string,int>|Pair<int,int> with p0|p1 <- int|string, take0|take1(string), length <= %d (k=%d): %d; CBox<int|string>(int|string) (2 `new` sites, value passed in) with p0|p1 <- int|string, length <= %d (k=%d): %d",
			c.N(4, 5), c.N(3, 4), s1, c.N(3, 4), c.N(2, 3), s2, c.N(3, 4), c.N(3, 3), s3)
	}
	// seeded longer / mixed histories, half of them with shared sites
	for i := 0; i < c.N(2400, 240000) && !r.stopped; i++ {
		r.add(randomCase(c.Rand, c.Rand.Range(4, 9), i%2 == 1))
	}
	r.flush()
	if r.m != nil {
		c.Res.ModelLines = r.m.Lines
	}
}
