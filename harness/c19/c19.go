// Package c19: correspondence + violation search for C19 (a generic
// instantiation enforces its own type arguments, whatever came before).
//
// A case is a history of operations over a fixed catalogue of generic classes
// (1–2 type parameters): instantiations with type arguments, raw
// instantiations, instantiations through a constructor that stores its
// argument, typed member writes (direct, through a method = `$this->p`, through
// a dynamic property name) and reads on any live object. The history is
// rendered as ONE origami script, run in-process on a fresh VM, and the
// per-operation outcome markers are compared
//   - with the Lean model `vm_c19` (`Model.Gen.run`)        → correspondence,
//   - with an oracle written here, independent of the model: the expected
//     outcome of every operation computed from the object's OWN creation
//     (class + type arguments) and the class text only    → property violation.
package c19

import (
	"encoding/json"
	"fmt"
	"os"
	"path/filepath"
	"regexp"
	"sort"
	"strconv"
	"strings"

	"verif/harness/vh"
)

func init() { vh.Register("C19", Run) }

// ------------------------------------------------------------ catalogue

type classDecl struct {
	Name   string
	Params []string // type-parameter names, in order
	Props  []string // declared type of p0, p1, …: "" untyped, a parameter name, or a concrete type
	Ctor   bool     // has __construct($x) { $this->p0 = $x; }
}

// The model sees the same catalogue through modelClasses().
var catalogue = []classDecl{
	{Name: "Box", Params: []string{"T"}, Props: []string{"T", "int", ""}},
	{Name: "Pair", Params: []string{"K", "V"}, Props: []string{"K", "V", "string"}},
	{Name: "CBox", Params: []string{"T"}, Props: []string{"T", "T"}, Ctor: true},
	{Name: "Swap", Params: []string{"A", "B"}, Props: []string{"B", "A", ""}},
}

// type tokens (shared with the model protocol): int string array c0 c1 ; value tokens: … o0 o1
var tyScript = map[string]string{"int": "int", "string": "string", "array": "array", "c0": "U0", "c1": "U1"}
var valScript = map[string]string{"int": "7", "string": `"s"`, "array": "[1, 2]", "float": "1.5", "bool": "true", "null": "null", "o0": "new U0()", "o1": "new U1()"}

func tyAccepts(ty, v string) bool {
	switch ty {
	case "int", "string", "array":
		return ty == v
	case "c0":
		return v == "o0"
	case "c1":
		return v == "o1"
	}
	return false
}

func prelude() string {
	var sb strings.Builder
	sb.WriteString("<?php\nclass U0 { public $n = 0; }\nclass U1 { public $n = 1; }\n")
	for _, c := range catalogue {
		fmt.Fprintf(&sb, "class %s<%s> {\n", c.Name, strings.Join(c.Params, ", "))
		for i, t := range c.Props {
			if t == "" {
				fmt.Fprintf(&sb, "  public $p%d;\n", i)
			} else {
				fmt.Fprintf(&sb, "  public %s $p%d;\n", t, i)
			}
		}
		if c.Ctor {
			sb.WriteString("  public function __construct($x) { $this->p0 = $x; }\n")
		}
		for i := range c.Props {
			fmt.Fprintf(&sb, "  public function set%d($x) { $this->p%d = $x; return 1; }\n", i, i)
		}
		sb.WriteString("}\n")
	}
	sb.WriteString("$I = [];\n")
	return sb.String()
}

func modelClasses() string {
	var cs []string
	for _, c := range catalogue {
		var ps, pr []string
		idx := map[string]int{}
		for i, p := range c.Params {
			ps = append(ps, strconv.Itoa(i))
			idx[p] = i
		}
		for _, t := range c.Props {
			if t == "" {
				pr = append(pr, "-")
			} else if k, ok := idx[t]; ok {
				pr = append(pr, fmt.Sprintf("g%d", k))
			} else {
				pr = append(pr, t)
			}
		}
		cs = append(cs, strings.Join(ps, ",")+"/"+strings.Join(pr, ","))
	}
	return strings.Join(cs, ";")
}

// ------------------------------------------------------------ operations

type op struct {
	K    string   `json:"k"`              // inst | raw | ctor | write | read
	C    int      `json:"c,omitempty"`    // class id (inst/raw/ctor)
	Args []string `json:"args,omitempty"` // type arguments
	I    int      `json:"i,omitempty"`    // object index (write/read)
	P    int      `json:"p,omitempty"`    // member index
	V    string   `json:"v,omitempty"`    // value token
	Via  string   `json:"via,omitempty"`  // write form: "" direct | method | dyn
}

type gcase struct {
	Ops []op `json:"ops"`
}

func (o op) model() string {
	switch o.K {
	case "inst":
		if len(o.Args) == 0 {
			return fmt.Sprintf("inst %d", o.C)
		}
		return fmt.Sprintf("inst %d %s", o.C, strings.Join(o.Args, ","))
	case "raw":
		return fmt.Sprintf("raw %d", o.C)
	case "ctor":
		return fmt.Sprintf("ctor %d %s %d %s", o.C, strings.Join(o.Args, ","), 0, o.V)
	case "write":
		return fmt.Sprintf("write %d %d %s", o.I, o.P, o.V)
	case "read":
		return fmt.Sprintf("read %d %d", o.I, o.P)
	}
	return "?"
}

func modelLine(cmd string, ops []op) string {
	p := make([]string, len(ops))
	for i, o := range ops {
		p[i] = o.model()
	}
	return cmd + "\t" + modelClasses() + "\t" + strings.Join(p, ";")
}

func tyList(args []string) string {
	s := make([]string, len(args))
	for i, a := range args {
		s[i] = tyScript[a]
	}
	return strings.Join(s, ", ")
}

func (o op) script(n int) string {
	catch := fmt.Sprintf(" } catch (\\Throwable $e) { echo \"\\n%d:ERR:\", $e->getMessage(), \"\\n\"; }\n", n)
	created := fmt.Sprintf(" $I[] = $t; echo \"\\n%d:new\", count($I) - 1, \"\\n\";", n)
	guard := func(body string) string {
		return fmt.Sprintf("try { if (!isset($I[%d])) { echo \"\\n%d:noinst\\n\"; } else { %s }%s", o.I, n, body, catch)
	}
	switch o.K {
	case "inst":
		return fmt.Sprintf("try { $t = new %s<%s>();%s%s", catalogue[o.C].Name, tyList(o.Args), created, catch)
	case "raw":
		return fmt.Sprintf("try { $t = new %s();%s%s", catalogue[o.C].Name, created, catch)
	case "ctor":
		return fmt.Sprintf("try { $t = new %s<%s>(%s);%s%s", catalogue[o.C].Name, tyList(o.Args), valScript[o.V], created, catch)
	case "write":
		ok := fmt.Sprintf(" echo \"\\n%d:ok\\n\";", n)
		switch o.Via {
		case "method":
			return guard(fmt.Sprintf("$I[%d]->set%d(%s);%s", o.I, o.P, valScript[o.V], ok))
		case "dyn":
			return guard(fmt.Sprintf("$nm = \"p%d\"; $I[%d]->$nm = %s;%s", o.P, o.I, valScript[o.V], ok))
		}
		return guard(fmt.Sprintf("$I[%d]->p%d = %s;%s", o.I, o.P, valScript[o.V], ok))
	case "read":
		return guard(fmt.Sprintf("$r = $I[%d]->p%d; echo \"\\n%d:read\\n\";", o.I, o.P, n))
	}
	return ""
}

func script(ops []op) string {
	var sb strings.Builder
	sb.WriteString(prelude())
	for i, o := range ops {
		sb.WriteString(o.script(i))
	}
	return sb.String()
}

var marker = regexp.MustCompile(`^(\d+):(.*)$`)

// outcomes parses the per-operation markers; canonical tokens as the model prints them.
func outcomes(out vh.Outcome, n int) []string {
	res := make([]string, n)
	for i := range res {
		res[i] = "missing"
	}
	for _, l := range strings.Split(out.Out, "\n") {
		m := marker.FindStringSubmatch(l)
		if m == nil {
			continue
		}
		k, _ := strconv.Atoi(m[1])
		if k < 0 || k >= n || res[k] != "missing" {
			continue
		}
		t := m[2]
		switch {
		case strings.HasPrefix(t, "ERR:"):
			msg := t[4:]
			switch {
			case strings.Contains(msg, "因为类型不一致无法赋值"):
				res[k] = "rej"
			case strings.Contains(msg, "index out of range"):
				res[k] = "crash"
			default:
				if len(msg) > 80 {
					msg = msg[:80]
				}
				res[k] = "err(" + strings.ReplaceAll(msg, " ", "_") + ")"
			}
		default:
			res[k] = t
		}
	}
	if out.Kind != "ok" {
		for i := range res {
			if res[i] == "missing" {
				res[i] = "script-" + out.Kind + "(" + strings.ReplaceAll(out.Detail, " ", "_") + ")"
				break
			}
		}
	}
	return res
}

// ------------------------------------------------------------ the oracle (independent of the Lean model)

type creation struct {
	cls  int
	args []string // nil = raw
}

// expectWrite: what the object created as r must answer to a write of v into member p —
// from its own type arguments and the class text only.
func expectWrite(r creation, p int, v string) string {
	c := catalogue[r.cls]
	if p >= len(c.Props) || c.Props[p] == "" {
		return "ok"
	}
	t := c.Props[p]
	for k, name := range c.Params {
		if name == t {
			if r.args == nil || k >= len(r.args) {
				return "ok"
			}
			t = r.args[k]
			break
		}
	}
	if tyAccepts(t, v) {
		return "ok"
	}
	return "rej"
}

// expected outcomes of a whole history; also returns the creation records.
func expected(ops []op) ([]string, []creation) {
	var objs []creation
	res := make([]string, len(ops))
	for n, o := range ops {
		switch o.K {
		case "inst", "ctor":
			if len(o.Args) < len(catalogue[o.C].Params) {
				res[n] = "crash"
				continue
			}
			r := creation{o.C, append([]string{}, o.Args...)}
			if o.K == "ctor" && expectWrite(r, 0, o.V) == "rej" {
				res[n] = "rej"
				continue
			}
			res[n] = fmt.Sprintf("new%d", len(objs))
			objs = append(objs, r)
		case "raw":
			res[n] = fmt.Sprintf("new%d", len(objs))
			objs = append(objs, creation{o.C, nil})
		case "write":
			if o.I >= len(objs) {
				res[n] = "noinst"
			} else {
				res[n] = expectWrite(objs[o.I], o.P, o.V)
			}
		case "read":
			if o.I >= len(objs) {
				res[n] = "noinst"
			} else {
				res[n] = "read"
			}
		}
	}
	return res, objs
}

// creatorOf returns the position of the operation that created object i (per the oracle).
func creatorOf(ops []op, i int) int {
	exp, _ := expected(ops)
	want := fmt.Sprintf("new%d", i)
	for n := range ops {
		if exp[n] == want {
			return n
		}
	}
	return -1
}

func runImpl(ops []op) []string {
	return outcomes(vh.RunFresh(script(ops)), len(ops))
}

// firstBad: first position where the implementation departs from the oracle (-1: none).
func firstBad(impl, exp []string) int {
	for i := range exp {
		if impl[i] != exp[i] {
			return i
		}
	}
	return -1
}

func kindOf(impl, exp string) string {
	switch {
	case exp == "ok" && impl == "rej":
		return "rejects-own"
	case exp == "rej" && impl == "ok":
		return "accepts-foreign"
	case exp == "rej" && strings.HasPrefix(impl, "new"):
		return "ctor-accepts-foreign"
	case strings.HasPrefix(exp, "new") && impl == "rej":
		return "ctor-rejects-own"
	case impl == "crash":
		return "go-panic"
	case strings.HasPrefix(impl, "script-go-panic"):
		return "go-panic"
	}
	return "other"
}

// soloOps: the same object and the same final operation, with nothing else around it.
func soloOps(ops []op, bad int) []op {
	o := ops[bad]
	switch o.K {
	case "write", "read":
		cr := creatorOf(ops, o.I)
		if cr < 0 {
			return []op{o}
		}
		w := o
		w.I = 0
		return []op{ops[cr], w}
	}
	return []op{o}
}

// remove drops operation k; when it created an object the operations on that object go too and
// later object indexes shift down.
func remove(ops []op, k int) []op {
	exp, _ := expected(ops)
	gone := -1
	if strings.HasPrefix(exp[k], "new") {
		gone, _ = strconv.Atoi(exp[k][3:])
	}
	var res []op
	for n, o := range ops {
		if n == k {
			continue
		}
		if (o.K == "write" || o.K == "read") && gone >= 0 {
			if o.I == gone {
				continue
			}
			if o.I > gone {
				o.I--
			}
		}
		res = append(res, o)
	}
	return res
}

// shrink keeps the failing operation last and greedily drops earlier ones while the
// implementation still departs from the oracle in the same way at the last operation.
func shrink(ops []op, bad int, kind string) []op {
	cur := append([]op{}, ops[:bad+1]...)
	still := func(cand []op) bool {
		if len(cand) == 0 {
			return false
		}
		impl := runImpl(cand)
		exp, _ := expected(cand)
		last := len(cand) - 1
		for i := 0; i < last; i++ { // earlier operations must be fine, so the case shows one failure
			if impl[i] != exp[i] {
				return false
			}
		}
		return impl[last] != exp[last] && kindOf(impl[last], exp[last]) == kind
	}
	for changed := true; changed; {
		changed = false
		for k := len(cur) - 2; k >= 0; k-- {
			cand := remove(cur, k)
			// the failing operation must survive
			if len(cand) == 0 || cand[len(cand)-1].K != cur[len(cur)-1].K {
				continue
			}
			if still(cand) {
				cur = cand
				changed = true
				break
			}
		}
	}
	return cur
}

// ------------------------------------------------------------ running cases

type runner struct {
	c        *vh.Ctx
	m        *vh.Model
	shrunk   map[string]int
	batch    []gcase
	stopped  bool
	sharedOK int
}

func nontrivial(ops []op) bool {
	// at least two objects of one class created with different arguments, and a typed write
	_, objs := expected(ops)
	diff := false
	for i := range objs {
		for j := i + 1; j < len(objs); j++ {
			if objs[i].cls == objs[j].cls && strings.Join(objs[i].args, ",") != strings.Join(objs[j].args, ",") {
				diff = true
			}
		}
	}
	w := false
	for _, o := range ops {
		if o.K == "write" || o.K == "ctor" {
			w = true
		}
	}
	return diff && w
}

func (r *runner) add(g gcase) {
	if r.stopped {
		return
	}
	r.batch = append(r.batch, g)
	if len(r.batch) >= 256 {
		r.flush()
	}
}

func (r *runner) flush() {
	c := r.c
	if len(r.batch) == 0 {
		return
	}
	impls := make([][]string, len(r.batch))
	lines := make([]string, len(r.batch))
	for bi, g := range r.batch {
		impls[bi] = runImpl(g.Ops)
		lines[bi] = modelLine("gen", g.Ops)
	}
	var answers []string
	if r.m != nil {
		var err error
		answers, err = r.m.AskBatch(lines)
		if err != nil {
			c.Note("model stopped answering: %v", err)
			c.Mismatch(nil, "", "", "model driver died: "+err.Error())
			answers = nil
			r.m = nil
		}
	}
	for bi, g := range r.batch {
		impl := impls[bi]
		exp, _ := expected(g.Ops)
		key := lines[bi]
		for _, o := range g.Ops {
			key += "/" + o.Via
		}
		c.Eval(key, nontrivial(g.Ops))
		c.Hit(fmt.Sprintf("len=%d", len(g.Ops)))
		for n, o := range g.Ops {
			t := impl[n]
			if strings.HasPrefix(t, "new") {
				t = "new"
			} else if strings.HasPrefix(t, "err(") || strings.HasPrefix(t, "script-") {
				t = "other"
			}
			h := o.K
			if o.K == "write" && o.Via != "" {
				h += "-" + o.Via
			}
			c.Hit(h + ":" + t)
		}
		c.SampleSome(map[string]any{"ops": strings.Join(strings.Split(lines[bi], "\t")[2:], ""), "impl": strings.Join(impl, " ")}, 1009)
		// correspondence with the Lean model
		if answers != nil {
			got := strings.Join(impl, " ")
			if answers[bi] != got {
				note := "Model.Gen.run vs implementation"
				if sh, err := r.m.Ask(modelLine("shared", g.Ops)); err == nil && sh == got {
					note += "; the implementation agrees with Model.Gen.runShared (property lookup overwrites the declaration shared by all instantiations)"
				}
				c.Mismatch(g, got, answers[bi], note)
			}
		}
		// the property itself, judged by the oracle
		if bad := firstBad(impl, exp); bad >= 0 {
			r.violation(g.Ops, bad, impl, exp)
		}
	}
	r.batch = r.batch[:0]
	if c.Res.ViolationCount > 400 {
		r.stopped = true
		c.Note("stopped generating after %d violations", c.Res.ViolationCount)
	}
}

func (r *runner) violation(ops []op, bad int, impl, exp []string) {
	kind := kindOf(impl[bad], exp[bad])
	cas := gcase{Ops: append([]op{}, ops[:bad+1]...)}
	scope := "solo"
	if r.shrunk[kind] < 3 {
		r.shrunk[kind]++
		cas.Ops = shrink(ops, bad, kind)
	}
	// solo-run comparison: does the same object answer correctly when it is alone?
	last := len(cas.Ops) - 1
	solo := soloOps(cas.Ops, last)
	if len(solo) < len(cas.Ops) {
		si := runImpl(solo)
		se, _ := expected(solo)
		if si[len(solo)-1] == se[len(solo)-1] {
			scope = "order-dependent"
		}
	}
	ci := runImpl(cas.Ops)
	ce, _ := expected(cas.Ops)
	what := fmt.Sprintf("history %q: operation %d (%s) answered %q, the object's own type arguments prescribe %q",
		strings.Join(strings.Split(modelLine("gen", cas.Ops), "\t")[2:], ""), last, cas.Ops[last].model(), ci[last], ce[last])
	if scope == "order-dependent" {
		what += "; the same object answers correctly when no other instantiation / lookup precedes it"
	}
	r.c.Violation("gen:"+scope+":"+kind, what, cas)
}

// ------------------------------------------------------------ generators

var types4 = []string{"int", "string", "array", "c0"}
var vals5 = []string{"int", "string", "array", "o0", "o1"}
var vias = []string{"", "", "method", "dyn"}

// enumerate all histories up to maxLen over the alphabet produced by next(live objects).
func enumerate(r *runner, maxLen int, alphabet func(live int) []op, creates func(o op) bool) int {
	count := 0
	var rec func(prefix []op, live int)
	rec = func(prefix []op, live int) {
		if r.stopped {
			return
		}
		if len(prefix) > 0 {
			ops := append([]op{}, prefix...)
			for i := range ops {
				if ops[i].K == "write" {
					ops[i].Via = vh.Pick(r.c.Rand, vias)
				}
			}
			r.add(gcase{Ops: ops})
			count++
		}
		if len(prefix) == maxLen {
			return
		}
		for _, o := range alphabet(live) {
			nl := live
			if creates(o) {
				nl++
			}
			rec(append(append([]op{}, prefix...), o), nl)
		}
	}
	rec(nil, 0)
	return count
}

// family 1: one type parameter (Box<T>), member p0 : T
func alphabetBox(live int) []op {
	var a []op
	for _, t := range types4 {
		a = append(a, op{K: "inst", C: 0, Args: []string{t}})
	}
	a = append(a, op{K: "raw", C: 0})
	for i := 0; i < live; i++ {
		for _, v := range vals5 {
			a = append(a, op{K: "write", I: i, P: 0, V: v})
		}
		a = append(a, op{K: "read", I: i, P: 0})
	}
	return a
}

// family 2: two type parameters (Pair<K,V>), members p0 : K, p1 : V
func alphabetPairOver(types []string) func(live int) []op {
	return func(live int) []op { return alphabetPair(types, live) }
}

func alphabetPair(types []string, live int) []op {
	var a []op
	for _, t1 := range types {
		for _, t2 := range types {
			a = append(a, op{K: "inst", C: 1, Args: []string{t1, t2}})
		}
	}
	for i := 0; i < live; i++ {
		for p := 0; p < 2; p++ {
			for _, v := range vals5 {
				a = append(a, op{K: "write", I: i, P: p, V: v})
			}
		}
	}
	return a
}

// family 3: constructor path (CBox<T>(v)) and writes to both T members
func alphabetCtor(live int) []op {
	var a []op
	for _, t := range types4 {
		for _, v := range []string{"int", "string", "array", "o0"} {
			a = append(a, op{K: "ctor", C: 2, Args: []string{t}, V: v})
		}
	}
	for i := 0; i < live; i++ {
		for _, v := range []string{"int", "string", "o0"} {
			a = append(a, op{K: "write", I: i, P: 1, V: v})
		}
	}
	return a
}

func createsOp(o op) bool {
	switch o.K {
	case "raw":
		return true
	case "inst":
		return len(o.Args) >= len(catalogue[o.C].Params)
	case "ctor":
		return len(o.Args) >= len(catalogue[o.C].Params) && expectWrite(creation{o.C, o.Args}, 0, o.V) == "ok"
	}
	return false
}

var typesAll = []string{"int", "string", "array", "c0", "c1"}
var valsAll = []string{"int", "string", "array", "o0", "o1", "null", "float", "bool"}

func randomCase(rd *vh.Rand, n int) gcase {
	var ops []op
	live := 0
	for len(ops) < n {
		x := rd.Intn(100)
		var o op
		switch {
		case live == 0 || x < 30:
			c := vh.Pick(rd, []int{0, 0, 1, 1, 3})
			k := len(catalogue[c].Params)
			if rd.Chance(4) {
				k-- // too few arguments: index out of range in resolveClass
			} else if rd.Chance(6) {
				k++ // surplus argument, ignored
			}
			args := make([]string, k)
			for i := range args {
				args[i] = vh.Pick(rd, typesAll)
			}
			o = op{K: "inst", C: c, Args: args}
			if k == 0 {
				o = op{K: "raw", C: c}
			}
		case x < 36:
			o = op{K: "raw", C: vh.Pick(rd, []int{0, 1, 3})}
		case x < 48:
			o = op{K: "ctor", C: 2, Args: []string{vh.Pick(rd, typesAll)}, V: vh.Pick(rd, valsAll)}
		case x < 90:
			i := rd.Intn(live)
			if rd.Chance(3) {
				i = live + rd.Intn(2)
			}
			o = op{K: "write", I: i, P: vh.Pick(rd, []int{0, 0, 0, 1, 1, 2, 3}), V: vh.Pick(rd, valsAll), Via: vh.Pick(rd, vias)}
			if o.Via == "method" && o.P >= 2 { // set<p> exists only for declared members of every class up to p1
				o.Via = ""
			}
		default:
			o = op{K: "read", I: rd.Intn(live), P: vh.Pick(rd, []int{0, 1})}
		}
		ops = append(ops, o)
		if createsOp(o) {
			live++
		}
	}
	return gcase{Ops: ops}
}

// The negation witnesses proved in Lean (Proofs/Properties/C19.lean, `witness`) and the
// other first-lookup shapes seen on the pre-fix code; they run first.
func witnesses() []gcase {
	return []gcase{
		{Ops: []op{{K: "inst", C: 0, Args: []string{"int"}}, {K: "write", I: 0, P: 0, V: "int"}, {K: "inst", C: 0, Args: []string{"string"}}, {K: "write", I: 1, P: 0, V: "string"}}},
		{Ops: []op{{K: "inst", C: 0, Args: []string{"int"}}, {K: "inst", C: 0, Args: []string{"string"}}, {K: "read", I: 0, P: 0}, {K: "write", I: 1, P: 0, V: "int"}}},
		{Ops: []op{{K: "raw", C: 0}, {K: "write", I: 0, P: 0, V: "string"}, {K: "inst", C: 0, Args: []string{"int"}}, {K: "write", I: 1, P: 0, V: "string"}}},
		{Ops: []op{{K: "ctor", C: 2, Args: []string{"int"}, V: "int"}, {K: "ctor", C: 2, Args: []string{"string"}, V: "string"}}},
		{Ops: []op{{K: "inst", C: 1, Args: []string{"int", "string"}}, {K: "write", I: 0, P: 1, V: "string", Via: "method"}, {K: "inst", C: 1, Args: []string{"string", "int"}}, {K: "write", I: 1, P: 1, V: "int", Via: "dyn"}}},
	}
}

func corpus(c *vh.Ctx) []gcase {
	var res []gcase
	files, _ := filepath.Glob(filepath.Join("..", "corpus", "C19", "*.json"))
	sort.Strings(files)
	for _, f := range files {
		b, err := os.ReadFile(f)
		if err != nil {
			continue
		}
		var g gcase
		if json.Unmarshal(b, &g) == nil && len(g.Ops) > 0 && valid(g) {
			res = append(res, g)
		} else {
			c.Note("corpus file %s ignored", f)
		}
	}
	return res
}

func valid(g gcase) bool {
	for _, o := range g.Ops {
		switch o.K {
		case "inst", "raw", "ctor":
			if o.C < 0 || o.C >= len(catalogue) {
				return false
			}
			for _, a := range o.Args {
				if tyScript[a] == "" {
					return false
				}
			}
			if o.K == "ctor" && (!catalogue[o.C].Ctor || valScript[o.V] == "") {
				return false
			}
			if o.K != "ctor" && catalogue[o.C].Ctor {
				return false
			}
		case "write":
			if valScript[o.V] == "" || o.I < 0 || o.P < 0 {
				return false
			}
		case "read":
			if o.I < 0 || o.P < 0 {
				return false
			}
		default:
			return false
		}
	}
	return true
}

// ------------------------------------------------------------ the type matrix (ties `Ty.accepts`)

func matrix(r *runner) {
	// one object alone, every type argument × every value kind, every write form
	for _, t := range typesAll {
		for _, v := range valsAll {
			for _, via := range []string{"", "method", "dyn"} {
				r.add(gcase{Ops: []op{{K: "inst", C: 0, Args: []string{t}}, {K: "write", I: 0, P: 0, V: v, Via: via}}})
			}
			r.add(gcase{Ops: []op{{K: "ctor", C: 2, Args: []string{t}, V: v}}})
		}
	}
	// concrete / untyped / undeclared members of every class
	for c := range catalogue {
		if catalogue[c].Ctor {
			continue
		}
		args := []string{"int", "c1"}[:len(catalogue[c].Params)]
		for p := 0; p < 4; p++ {
			for _, v := range valsAll {
				r.add(gcase{Ops: []op{{K: "inst", C: c, Args: args}, {K: "write", I: 0, P: p, V: v}}})
			}
		}
	}
}

// ------------------------------------------------------------ known stream

// A method or constructor parameter declared with the type parameter (`function take(T $x)`,
// `__construct(T $x)`) is not a member Model.Gen covers (its members are properties). Until the
// repairs 1dc386c / 3703564 it was unenforced for every instantiation (known finding
// gen:param-unenforced); now it must accept exactly the values of the instance's own type argument,
// whatever other instantiations exist. Checked on every run by an oracle (no model).
const sigParam = "gen:param-unenforced"

func knownStream(c *vh.Ctx) {
	src := "<?php\nclass KBox<T> { public T $p0; public function __construct(T $init = null, int $n = 0) { } public function take(T $x) { return 1; } }\n" +
		"$b = new KBox<int>();\n$s = new KBox<string>();\n" +
		"try { $b->take(\"s\"); echo \"\\n0:ok\\n\"; } catch (\\Throwable $e) { echo \"\\n0:ERR:\", $e->getMessage(), \"\\n\"; }\n" +
		"try { $b->take(7); echo \"\\n1:ok\\n\"; } catch (\\Throwable $e) { echo \"\\n1:ERR:\", $e->getMessage(), \"\\n\"; }\n" +
		"try { $s->take(7); echo \"\\n2:ok\\n\"; } catch (\\Throwable $e) { echo \"\\n2:ERR:\", $e->getMessage(), \"\\n\"; }\n" +
		"try { $s->take(\"s\"); echo \"\\n3:ok\\n\"; } catch (\\Throwable $e) { echo \"\\n3:ERR:\", $e->getMessage(), \"\\n\"; }\n" +
		"try { new KBox<int>(\"s\"); echo \"\\n4:ok\\n\"; } catch (\\Throwable $e) { echo \"\\n4:ERR:\", $e->getMessage(), \"\\n\"; }\n" +
		"try { new KBox<int>(7); echo \"\\n5:ok\\n\"; } catch (\\Throwable $e) { echo \"\\n5:ERR:\", $e->getMessage(), \"\\n\"; }\n" +
		"try { new KBox<string>(\"s\", \"notint\"); echo \"\\n6:ok\\n\"; } catch (\\Throwable $e) { echo \"\\n6:ERR:\", $e->getMessage(), \"\\n\"; }\n" +
		"try { new KBox<string>(\"s\", 3); echo \"\\n7:ok\\n\"; } catch (\\Throwable $e) { echo \"\\n7:ERR:\", $e->getMessage(), \"\\n\"; }\n"
	out := outcomes(vh.RunFresh(src), 8)
	want := []bool{false, true, false, true, false, true, false, true} // accepted?
	what := []string{"(new KBox<int>())->take(\"s\")", "(new KBox<int>())->take(7)", "(new KBox<string>())->take(7)", "(new KBox<string>())->take(\"s\")",
		"new KBox<int>(\"s\")", "new KBox<int>(7)", "new KBox<string>(\"s\", \"notint\")", "new KBox<string>(\"s\", 3)"}
	for i, w := range want {
		got := out[i] == "ok"
		c.Hit(fmt.Sprintf("param-stream:%d:%v", i, got))
		if got != w {
			verb := map[bool]string{true: "accepted", false: "rejected"}
			c.Violation(sigParam, fmt.Sprintf("class KBox<T> { __construct(T $init, int $n) … take(T $x) … }: %s is %s (%s); a parameter declared with the type parameter accepts exactly the values of the instance's own type argument", what[i], verb[got], out[i]), map[string]any{"kind": "param"})
		}
	}
}

// ------------------------------------------------------------ runner

func Run(c *vh.Ctx) {
	r := &runner{c: c, shrunk: map[string]int{}}
	if c.ModelPath != "" {
		m, err := vh.StartModel(c.ModelPath)
		if err != nil {
			c.Note("cannot start model: %v", err)
		} else {
			r.m = m
			defer m.Close()
			c.Res.ModelUsed = true
		}
	}
	if len(c.ReplayRaw) > 0 {
		var kd struct {
			Kind string `json:"kind"`
		}
		if json.Unmarshal(c.ReplayRaw, &kd) == nil && kd.Kind == "param" {
			knownStream(c)
			return
		}
		var g gcase
		if err := json.Unmarshal(c.ReplayRaw, &g); err != nil || !valid(g) {
			c.Note("bad replay: %v", err)
			return
		}
		r.add(g)
		r.flush()
		return
	}
	c.Res.Rule = "a case = one history over the catalogue Box<T>, Pair<K,V>, CBox<T> (constructor stores its argument), Swap<A,B>, run as one script on a fresh VM; non-trivial = at least two objects of the same generic class created with different type arguments and at least one typed write; distinct = distinct operation sequence incl. write form"
	knownStream(c)
	for _, g := range witnesses() {
		r.add(g)
	}
	for _, g := range corpus(c) {
		r.add(g)
	}
	r.flush()
	matrix(r)
	r.flush()
	n1 := enumerate(r, 4, alphabetBox, createsOp)
	n2 := enumerate(r, 3, alphabetPairOver(types4), createsOp)
	n3 := enumerate(r, 3, alphabetCtor, createsOp)
	n4 := 0
	if c.Thorough() {
		n4 = enumerate(r, 4, alphabetPairOver([]string{"int", "string", "c0"}), createsOp)
	}
	r.flush()
	if !r.stopped {
		c.Res.Exhaustive = true
		c.Res.ExhaustiveWhat = fmt.Sprintf("all histories of length <= 4 over Box<T> (T in {int,string,array,U0}: 4 instantiations + raw; per live object 5 value kinds written to the T member + a read): %d; all histories of length <= 3 over Pair<K,V> (K,V in {int,string,array,U0}: 16 instantiations; per live object 2 members x 5 value kinds): %d; all histories of length <= 3 over CBox<T>(v) (16 constructor calls; per live object 3 value kinds): %d; the full type-argument x value-kind matrix on a single object in every write form", n1, n2, n3)
		if n4 > 0 {
			c.Res.ExhaustiveWhat += fmt.Sprintf("; all histories of length <= 4 over Pair<K,V> with K,V in {int,string,U0} (9 instantiations): %d", n4)
		}
	}
	// seeded longer / mixed histories
	for i := 0; i < c.N(2000, 200000) && !r.stopped; i++ {
		r.add(randomCase(c.Rand, c.Rand.Range(4, 9)))
	}
	r.flush()
	if r.m != nil {
		c.Res.ModelLines = r.m.Lines
	}
}
