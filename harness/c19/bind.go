// Position stream (round 6, seed C19-generic-ctor-bind-last-wins): calls with SEVERAL arguments on the generic
// path.  A case is one generic class with 1..3 type parameters whose constructor and method `m` take the same
// parameter list of 1..4 parameters (typed with a type parameter, plain `int`, untyped, defaulted, variadic,
// promoted), instantiated with two different type-argument vectors; per instantiation the constructor and the
// method are called with every argument fine and with every position mistyped in turn while the others are fine.
// Oracle (no model): a call is refused iff SOME argument is refused by the parameter at its position under the
// object's OWN type arguments; a refused construction creates no instance and runs no body; an accepted call runs
// the body with every parameter bound to the value passed.
package c19

import (
	"encoding/json"
	"fmt"
	"regexp"
	"strconv"
	"strings"

	"verif/harness/vh"
)

type bcase struct {
	Kind   string   `json:"kind"`            // "bind"
	N      int      `json:"n"`               // number of type parameters
	Params []string `json:"params"`          // g<k> | int | u | g<k>d (`K<k> $x = null`) | intd (`int $x = 5`) | pg<k> (promoted, ctor) | var (`...$x`) | vg<k> (`K<k> ...$x`)
	X      []string `json:"x"`               // type arguments of the first instantiation
	Y      []string `json:"y"`               // … of the second
	Named  bool     `json:"named,omitempty"` // arguments passed by name
	YFirst bool     `json:"yfirst,omitempty"`
}

type bop struct {
	inst int      // 0: X, 1: Y
	ctor bool     // constructor call / method call
	bad  int      // mistyped position, -1 none
	vals []string // value tokens passed (surplus values for a variadic included)
}

var pnames = []string{"a", "b", "c", "d"}

func valOf(ty string) string {
	if ty == "c0" {
		return "o0"
	}
	if ty == "c1" {
		return "o1"
	}
	return ty
}

func gIndex(kind string) (int, bool) {
	k := strings.TrimSuffix(kind, "d")
	if strings.HasPrefix(k, "p") || strings.HasPrefix(k, "v") {
		k = k[1:]
	}
	if !strings.HasPrefix(k, "g") {
		return 0, false
	}
	n, err := strconv.Atoi(k[1:])
	return n, err == nil
}

func (b bcase) ok() bool {
	if b.Kind != "bind" || b.N < 1 || b.N > 3 || len(b.Params) < 1 || len(b.Params) > 4 || len(b.X) != b.N || len(b.Y) != b.N {
		return false
	}
	for i, p := range b.Params {
		if k, isG := gIndex(p); isG {
			if k >= b.N {
				return false
			}
		} else if p != "int" && p != "u" && p != "intd" && p != "var" {
			return false
		}
		if (p == "var" || strings.HasPrefix(p, "v")) && i != len(b.Params)-1 {
			return false
		}
	}
	for _, t := range append(append([]string{}, b.X...), b.Y...) {
		if _, ok := tyScript[t]; !ok {
			return false
		}
	}
	return true
}

func (b bcase) args(inst int) []string {
	if inst == 0 {
		return b.X
	}
	return b.Y
}

// fine / mistyped value for position i under instantiation inst ("" = the position cannot be mistyped)
func (b bcase) fine(inst, i int) string {
	p := b.Params[i]
	if k, isG := gIndex(p); isG {
		return valOf(b.args(inst)[k])
	}
	if p == "u" {
		return "string"
	}
	return "int"
}

func (b bcase) wrong(inst, i int) string {
	p := b.Params[i]
	if k, isG := gIndex(p); isG {
		if w := valOf(b.args(1 - inst)[k]); w != valOf(b.args(inst)[k]) {
			return w // a value the OTHER instantiation accepts at this position
		}
		return "o1"
	}
	if p == "int" || p == "intd" {
		return "string"
	}
	return ""
}

func (b bcase) ops() []bop {
	var out []bop
	order := []int{0, 1}
	if b.YFirst {
		order = []int{1, 0}
	}
	last := b.Params[len(b.Params)-1]
	variadic := last == "var" || strings.HasPrefix(last, "v")
	for _, inst := range order {
		for _, ctor := range []bool{true, false} {
			var fine []string
			for i := range b.Params {
				fine = append(fine, b.fine(inst, i))
			}
			if variadic {
				fine = fine[:len(fine)-1] // no surplus at first
			}
			out = append(out, bop{inst, ctor, -1, fine})
			for i := range fine {
				if w := b.wrong(inst, i); w != "" {
					v := append([]string{}, fine...)
					v[i] = w
					out = append(out, bop{inst, ctor, i, v})
				}
			}
			if variadic { // two surplus values, all fine; then each of them mistyped
				li := len(b.Params) - 1
				v := append(append([]string{}, fine...), b.fine(inst, li), b.fine(inst, li))
				out = append(out, bop{inst, ctor, -1, v})
				if w := b.wrong(inst, li); w != "" {
					for _, j := range []int{li, li + 1} {
						v2 := append([]string{}, v...)
						v2[j] = w
						out = append(out, bop{inst, ctor, j, v2})
					}
				}
			}
			if strings.HasSuffix(last, "d") { // trailing default left out
				out = append(out, bop{inst, ctor, -1, fine[:len(fine)-1]})
				if len(fine) > 1 {
					if w := b.wrong(inst, 0); w != "" {
						v := append([]string{}, fine[:len(fine)-1]...)
						v[0] = w
						out = append(out, bop{inst, ctor, 0, v})
					}
				}
			}
		}
	}
	return out
}

func (b bcase) paramKind(pos int) string {
	if pos >= len(b.Params) {
		pos = len(b.Params) - 1
	}
	return b.Params[pos]
}

// refused by the parameter under the object's OWN type arguments?
func (b bcase) refuses(o bop, pos int) bool {
	p, v := b.paramKind(pos), o.vals[pos]
	if k, isG := gIndex(p); isG {
		return v != "null" && !tyAccepts(b.args(o.inst)[k], v)
	}
	if p == "int" || p == "intd" {
		return v != "int"
	}
	return false
}

// expected rest of the marker line
func (b bcase) expect(o bop) string {
	for i := range o.vals {
		if b.refuses(o, i) {
			if o.ctor {
				return ";rej;none"
			}
			return ";rej"
		}
	}
	var tags []string
	for i, p := range b.Params {
		switch {
		case p == "var" || strings.HasPrefix(p, "v"):
			tags = append(tags, "n"+strconv.Itoa(len(o.vals)-i))
		case i < len(o.vals):
			tags = append(tags, o.vals[i])
		case p == "intd":
			tags = append(tags, "int")
		default:
			tags = append(tags, "null")
		}
	}
	s := "B(" + strings.Join(tags, ",") + ");ok"
	if o.ctor {
		s += ";obj"
	}
	return s
}

func (b bcase) decl(ctor bool) string {
	var ps, tg []string
	for i, p := range b.Params {
		nm := "$" + pnames[i]
		k, isG := gIndex(p)
		t := ""
		if isG {
			t = "K" + strconv.Itoa(k) + " "
		} else if p == "int" || p == "intd" {
			t = "int "
		}
		switch {
		case p == "var" || strings.HasPrefix(p, "v"):
			ps = append(ps, t+"..."+nm)
			tg = append(tg, `"n", count(`+nm+`)`)
			continue
		case strings.HasPrefix(p, "p") && ctor:
			ps = append(ps, "public "+t+nm)
		case p == "intd":
			ps = append(ps, t+nm+" = 5")
		case strings.HasSuffix(p, "d"):
			ps = append(ps, t+nm+" = null")
		default:
			ps = append(ps, t+nm)
		}
		tg = append(tg, "tg("+nm+")")
	}
	return "(" + strings.Join(ps, ", ") + `) { echo "B(", ` + strings.Join(tg, `, ",", `) + `, ")"; `
}

func (b bcase) script() string {
	var sb strings.Builder
	sb.WriteString("<?php\nclass U0 { public $n = 0; }\nclass U1 { public $n = 1; }\n")
	sb.WriteString("function tg($v) { if (is_int($v)) return \"int\"; if (is_string($v)) return \"string\"; if (is_array($v)) return \"array\"; if (is_null($v)) return \"null\"; if ($v instanceof U0) return \"o0\"; if ($v instanceof U1) return \"o1\"; return \"other\"; }\n")
	var tps []string
	for k := 0; k < b.N; k++ {
		tps = append(tps, "K"+strconv.Itoa(k))
	}
	fmt.Fprintf(&sb, "class G<%s> {\n  public function __construct%s}\n  public function m%sreturn 1; }\n}\n", strings.Join(tps, ", "), b.decl(true), b.decl(false))
	sb.WriteString("$o0 = null; $o1 = null;\n")
	for n, o := range b.ops() {
		var as []string
		for i, v := range o.vals {
			a := valScript[v]
			if b.Named && i < len(b.Params) {
				a = pnames[i] + ": " + a
			}
			as = append(as, a)
		}
		al := strings.Join(as, ", ")
		if o.ctor {
			fmt.Fprintf(&sb, "echo \"\\n@%d:\"; $r = null; try { $r = new G<%s>(%s); echo \";ok\"; } catch (\\Throwable $e) { echo \";ERR:\", $e->getMessage(); } echo ($r === null ? \";none\" : \";obj\"), \"\\n\";\n", n, tyList(b.args(o.inst)), al)
			if o.bad < 0 {
				fmt.Fprintf(&sb, "if ($o%d === null) { $o%d = $r; }\n", o.inst, o.inst)
			}
		} else {
			fmt.Fprintf(&sb, "echo \"\\n@%d:\"; try { $o%d->m(%s); echo \";ok\"; } catch (\\Throwable $e) { echo \";ERR:\", $e->getMessage(); } echo \"\\n\";\n", n, o.inst, al)
		}
	}
	return sb.String()
}

var bmarker = regexp.MustCompile(`^@(\d+):(.*)$`)

func (b bcase) run() []string {
	ops := b.ops()
	res := make([]string, len(ops))
	for i := range res {
		res[i] = "missing"
	}
	out := vh.RunFresh(b.script())
	for _, l := range strings.Split(out.Out, "\n") {
		m := bmarker.FindStringSubmatch(l)
		if m == nil {
			continue
		}
		k, _ := strconv.Atoi(m[1])
		if k < 0 || k >= len(ops) || res[k] != "missing" {
			continue
		}
		t := m[2]
		if i := strings.Index(t, ";ERR:"); i >= 0 {
			msg, tail := t[i+5:], ""
			if j := strings.LastIndex(msg, ";"); j >= 0 && (msg[j:] == ";none" || msg[j:] == ";obj") {
				msg, tail = msg[:j], msg[j:]
			}
			if strings.Contains(msg, "变量类型和赋值类型不一致") || strings.Contains(msg, "因为类型不一致无法赋值") || strings.Contains(msg, "类型不匹配") {
				msg = "rej"
			} else {
				if len(msg) > 70 {
					msg = msg[:70]
				}
				msg = "err(" + strings.ReplaceAll(msg, " ", "_") + ")"
			}
			t = t[:i] + ";" + msg + tail
		}
		res[k] = t
	}
	if out.Kind != "ok" {
		for i := range res {
			if res[i] == "missing" {
				res[i] = "script-" + out.Kind + "(" + strings.ReplaceAll(out.Detail, " ", "_") + ")"
				break
			}
		}
	}
	return res
}

const (
	sigNamedCtor     = "gen:bind:named-ctor-unchecked"
	sigPromoted      = "gen:bind:promoted-unchecked"
	sigVariadic      = "gen:bind:variadic-ctor-unsupported"
	sigTypedVariadic = "gen:bind:typed-variadic-rejects-own"
)

func (b bcase) opText(o bop) string {
	var as []string
	for i, v := range o.vals {
		a := valScript[v]
		if b.Named && i < len(b.Params) {
			a = pnames[i] + ": " + a
		}
		as = append(as, a)
	}
	if o.ctor {
		return fmt.Sprintf("new G<%s>(%s)", tyList(b.args(o.inst)), strings.Join(as, ", "))
	}
	return fmt.Sprintf("(new G<%s>(…))->m(%s)", tyList(b.args(o.inst)), strings.Join(as, ", "))
}

func (b bcase) judge(c *vh.Ctx) {
	ops := b.ops()
	impl := b.run()
	key, _ := json.Marshal(b)
	last := b.Params[len(b.Params)-1]
	variadic := last == "var" || strings.HasPrefix(last, "v")
	for n, o := range ops {
		exp := b.expect(o)
		c.Eval(string(key)+"#"+strconv.Itoa(n), o.bad >= 0 && len(o.vals) > 1)
		what := map[bool]string{true: "ctor", false: "method"}[o.ctor]
		pos := "fine"
		if o.bad >= 0 {
			pos = "bad-last"
			if o.bad < len(o.vals)-1 {
				pos = "bad-nonlast"
			}
		}
		verdict := "rej"
		if strings.Contains(impl[n], ";ok") {
			verdict = "ok"
		} else if !strings.Contains(impl[n], ";rej") {
			verdict = "other"
		}
		c.Hit(fmt.Sprintf("bind:%s:%s:%s", what, pos, verdict))
		if impl[n] == exp {
			continue
		}
		kind := "other"
		switch {
		case strings.Contains(exp, ";rej") && strings.Contains(impl[n], ";ok"):
			kind = "accepts-foreign"
		case strings.Contains(exp, ";rej") && o.ctor && strings.HasSuffix(impl[n], ";obj"):
			kind = "refused-but-instance"
		case strings.Contains(exp, ";rej") && strings.HasPrefix(impl[n], "B("):
			kind = "refused-but-body-ran"
		case strings.Contains(exp, ";ok") && strings.Contains(impl[n], ";rej"):
			kind = "rejects-own"
		case strings.Contains(exp, ";ok") && strings.Contains(impl[n], ";ok"):
			kind = "unbound-parameter"
		}
		sig := "gen:bind:" + what + "-" + kind
		switch {
		case o.ctor && o.bad >= 0 && strings.HasPrefix(b.paramKind(o.bad), "p") && kind == "accepts-foreign":
			sig = sigPromoted
		case o.ctor && b.Named && kind == "accepts-foreign":
			sig = sigNamedCtor
		case o.ctor && variadic && len(o.vals) >= len(b.Params) && strings.Contains(impl[n], "参数数量超出限制"):
			sig = sigVariadic
		case !o.ctor && strings.HasPrefix(last, "vg") && len(o.vals) >= len(b.Params) && kind == "rejects-own":
			sig = sigTypedVariadic
		}
		text := fmt.Sprintf("class G<%d type parameters> with __construct%s… } and m%s… }: operation %d, %s, answered %q; the parameters under the object's own type arguments <%s> prescribe %q",
			b.N, b.decl(true), b.decl(false), n, b.opText(o), impl[n], tyList(b.args(o.inst)), exp)
		if o.bad >= 0 && kind == "accepts-foreign" {
			text += fmt.Sprintf(" (argument %d is refused by its parameter; ", o.bad)
			if o.bad < len(o.vals)-1 {
				text += "every later argument is fine — a refusal must not depend on the position of the argument)"
			} else {
				text += "it is the last argument)"
			}
		}
		c.Violation(sig, text, map[string]any{"kind": "bind", "n": b.N, "params": b.Params, "x": b.X, "y": b.Y, "named": b.Named, "yfirst": b.YFirst, "op": n})
	}
}

// ------------------------------------------------------------ enumeration

var bindVectors = [][2][]string{
	{{"int", "string", "c0"}, {"string", "c0", "int"}},
	{{"array", "int", "string"}, {"c0", "array", "array"}},
	{{"string", "int", "array"}, {"int", "string", "c0"}},
}

func bindStream(c *vh.Ctx) (int, int) {
	cases, calls := 0, 0
	emit := func(n int, params []string, named bool) {
		hasG := false
		for _, p := range params {
			if _, g := gIndex(p); g {
				hasG = true
			}
		}
		if !hasG {
			return
		}
		v := bindVectors[cases%len(bindVectors)]
		b := bcase{Kind: "bind", N: n, Params: append([]string{}, params...), X: v[0][:n], Y: v[1][:n], Named: named, YFirst: cases%2 == 1}
		if !b.ok() {
			return
		}
		cases++
		calls += len(b.ops())
		b.judge(c)
	}
	var rec func(n int, kinds []string, cur []string, maxLen int, f func([]string))
	rec = func(n int, kinds []string, cur []string, maxLen int, f func([]string)) {
		if len(cur) > 0 {
			f(cur)
		}
		if len(cur) == maxLen {
			return
		}
		for _, k := range kinds {
			rec(n, kinds, append(append([]string{}, cur...), k), maxLen, f)
		}
	}
	for n := 1; n <= 3; n++ {
		kinds := []string{"int", "u"}
		var gs []string
		for k := 0; k < n; k++ {
			gs = append(gs, "g"+strconv.Itoa(k))
		}
		kinds = append(gs, kinds...)
		maxLen := 4
		if n == 3 && !c.Thorough() {
			maxLen = 3
		}
		// (1) every parameter list of length 1..maxLen over {K_k $x, int $x, $x}
		rec(n, kinds, nil, maxLen, func(ps []string) { emit(n, ps, false) })
		// (2) the same lists of length <= 3 over the type parameters only, followed by one special last parameter
		var specials []string
		for k := 0; k < n; k++ {
			specials = append(specials, "g"+strconv.Itoa(k)+"d", "vg"+strconv.Itoa(k))
		}
		specials = append(specials, "intd", "var")
		rec(n, gs, nil, c.N(2, 3), func(ps []string) {
			for _, s := range specials {
				emit(n, append(append([]string{}, ps...), s), false)
			}
		})
		// (3) promoted parameters: lists of length 2..3 over the type parameters with one position promoted
		rec(n, gs, nil, 3, func(ps []string) {
			if len(ps) < 2 {
				return
			}
			for i := range ps {
				q := append([]string{}, ps...)
				q[i] = "p" + q[i]
				emit(n, q, false)
			}
		})
		// (4) arguments passed by name: lists of length 1..3 over {K_k $x, int $x}
		rec(n, append(append([]string{}, gs...), "int"), nil, c.N(2, 3), func(ps []string) { emit(n, ps, true) })
	}
	return cases, calls
}
