package c07

// The position stream: enforcement does not depend on WHERE the offending item stands among several.
//
// The matrices and the history stream cross every typed boundary with ONE typed slot per callable and
// evaluate ONE guarded access per expression. A binding loop that keeps only the result of the last
// parameter it bound (`acl` overwritten by the next iteration), an argument list whose evaluation errors are
// dropped unless they come last, a destructuring assignment that ignores what its element stores return: all of
// these pass when there is a single item. Here every multi-item construct is probed with 2–4 items where the
// offending one stands at EVERY position and all others are fine, two offenders (the first must be reported), and
// the all-fine control:
//
//   - fam "ty":    callables with 2–4 typed parameters (function / method / static method / constructor /
//                  promoted / mixed promoted+plain constructor / closure / arrow function) × the ways arguments
//                  are passed (positional, named in order, named permuted, positional+named, trailing default
//                  omitted / supplied, a defaulted parameter skipped by a named argument, a required argument
//                  missing, a typed variadic tail); the offender is a mistyped value or an argument expression
//                  that throws;
//   - fam "store": several typed properties assigned in one statement sequence / one destructuring assignment /
//                  one method body;
//   - fam "vis":   several member accesses in one argument list / array literal / operator expression /
//                  statement sequence / destructuring assignment, the refused one at every position.
//
// Oracles (no model): accepted iff no item offends; a refused call did not run the callee's body; what arrived is
// what was passed; the reported error belongs to the first offender; an exception thrown by an argument expression
// arrives as that exception; slots / members before the offender are written, the offender and everything after it
// are untouched. Against the model: `bind`, `sseq`, `eargs` (Model.Types.bindArgs / storeSeq, Model.Access.evalArgs).

import (
	"fmt"
	"os"
	"sort"
	"strconv"
	"strings"

	"verif/harness/vh"
)

type PosCase struct {
	Kind     string `json:"kind"` // "pos"
	Fam      string `json:"fam"`  // ty | store | vis
	Tag      string `json:"tag"`
	Boundary string `json:"boundary"`          // ty: the callable; store: the form; vis: the container
	Variant  string `json:"variant,omitempty"` // ty: how the arguments are passed; vis: the path of the refused access
	Tys      []int  `json:"tys,omitempty"`     // declared type per parameter / slot (index into tyDecls)
	Args     []int  `json:"args,omitempty"`    // value kind per argument / slot (index into valDecls); -1 an expression that throws, -2 omitted (has a default), -3 omitted (required)
	Bad      []int  `json:"bad,omitempty"`     // vis: positions of the refused accesses
	Mod      string `json:"mod,omitempty"`     // vis: modifier of the guarded member
	Site     string `json:"site,omitempty"`    // vis: outside | unrelated | subclass
}

func (p PosCase) key() string {
	return fmt.Sprintf("pos/%s/%s/%s/%v/%v/%v/%s/%s", p.Fam, p.Boundary, p.Variant, p.Tys, p.Args, p.Bad, p.Mod, p.Site)
}

const (
	argThrows  = -1
	argDefault = -2
	argMissing = -3
)

// ------------------------------------------------------------ fam "ty": callables with several typed parameters

var posCallables = []string{"fnParam", "methParam", "staticParam", "ctorParam", "promotedParam", "mixedCtor", "closureParam", "closureParam/arrow"}
var posVariants = []string{"pos", "named", "namedperm", "mixnamed", "dflt", "dfltgiven", "namedskip", "few", "variadic"}

// a parameter that carries a default needs a type with a literal default: class types become nullable
var posDefault = map[int][2]string{ // type index → {literal, tag of what arrives}
	0: {"5", "int"}, 1: {`"d"`, "str"}, 2: {"[]", "array"}, 5: {"6", "int"}, 6: {`"e"`, "str"}, 7: {"[2]", "array"},
	8: {"null", "null"}, 9: {"null", "null"}, 10: {"5", "int"}, 11: {"[3]", "array"}, 12: {"4", "int"}, 13: {`"d"`, "str"}, 14: {`"f"`, "str"},
}

func posDefaultable(t int) int {
	switch t {
	case 3:
		return 8
	case 4:
		return 9
	}
	return t
}

// hasDefault: does parameter i of an n-parameter callable carry a default under this variant
func posHasDefault(variant string, i, n int) bool {
	switch variant {
	case "dflt", "dfltgiven":
		return i == n-1
	case "namedskip":
		return i >= 1
	}
	return false
}

func posVariantOK(boundary, variant string, n int) bool {
	switch variant {
	case "variadic": // a promoted parameter cannot be variadic
		return boundary != "promotedParam" && boundary != "mixedCtor"
	case "namedskip":
		return n >= 3
	}
	return true
}

// param index of argument slot q (the variadic tail takes every argument from n-1 on)
func posParamOf(q, n int) int {
	if q >= n {
		return n - 1
	}
	return q
}

// slot boundary for the model: which of the model's boundaries parameter i crosses
func posSlotBoundary(boundary string, i int) string {
	switch boundary {
	case "mixedCtor":
		if i%2 == 0 {
			return "promotedParam"
		}
		return "ctorParam"
	}
	return modelBoundary(boundary)
}

// the order in which the argument slots are written at the call (= evaluated)
func posCallOrder(variant string, args []int) []int {
	var given []int
	for q, a := range args {
		if a != argDefault && a != argMissing {
			given = append(given, q)
		}
	}
	switch variant {
	case "namedperm":
		if len(given) > 1 {
			given = append(given[1:], given[0])
		}
	case "mixnamed":
		if len(given) > 2 {
			rest := append([]int{}, given[1:]...)
			for i, j := 0, len(rest)-1; i < j; i, j = i+1, j-1 {
				rest[i], rest[j] = rest[j], rest[i]
			}
			given = append([]int{given[0]}, rest...)
		}
	}
	return given
}

func posNamed(variant string, q int) bool {
	switch variant {
	case "named", "namedperm":
		return true
	case "mixnamed", "namedskip":
		return q >= 1
	}
	return false
}

// source of the value passed at slot q: mistyped ints / strings / floats carry the position, so that the
// error message tells which argument was reported
func posValSrc(tag string, val int, q int, bad bool) string {
	v := valDecls()[val]
	if bad {
		switch v.Name {
		case "int":
			return fmt.Sprintf("9%d", q)
		case "str":
			return fmt.Sprintf("\"bad%d\"", q)
		case "float":
			return fmt.Sprintf("%d.5", q)
		}
	}
	return strings.ReplaceAll(v.Src, "@", tag)
}

// which position a refusal message talks about (-1: it does not say)
func posReported(msg string) int {
	for q := 0; q < 8; q++ {
		for _, tok := range []string{fmt.Sprintf("(9%d)", q), fmt.Sprintf("(\"bad%d\")", q), fmt.Sprintf("(bad%d)", q), fmt.Sprintf("(%d.5)", q), fmt.Sprintf("boom%d!", q)} {
			if strings.Contains(msg, tok) {
				return q
			}
		}
	}
	return -1
}

type posGroup struct {
	id       int
	boundary string
	variant  string
	tys      []int
}

func (g posGroup) key() string { return fmt.Sprintf("%s/%s/%v", g.boundary, g.variant, g.tys) }

func posParamList(tag string, g posGroup) string {
	at := func(s string) string { return strings.ReplaceAll(s, "@", tag) }
	tys := tyDecls()
	n := len(g.tys)
	var ps []string
	for i, t := range g.tys {
		s := at(tys[t].Src) + " "
		if g.variant == "variadic" && i == n-1 {
			s += "..."
		}
		s += fmt.Sprintf("$a%d", i)
		if posHasDefault(g.variant, i, n) {
			s += " = " + posDefault[t][0]
		}
		promoted := g.boundary == "promotedParam" || (g.boundary == "mixedCtor" && i%2 == 0)
		if promoted {
			s = "public " + s
		}
		ps = append(ps, s)
	}
	return strings.Join(ps, ", ")
}

// the expression that reports what arrived
func posArrived(tag string, g posGroup, prefix string) string {
	n := len(g.tys)
	var parts []string
	for i := 0; i < n; i++ {
		if g.variant == "variadic" && i == n-1 {
			parts = append(parts, fmt.Sprintf("tga%s(%sa%d)", tag, prefix, i))
		} else {
			parts = append(parts, fmt.Sprintf("tg%s(%sa%d)", tag, prefix, i))
		}
	}
	return strings.Join(parts, " . \",\" . ")
}

func posDeclare(sb *strings.Builder, tag string, g posGroup) {
	ps := posParamList(tag, g)
	arr := posArrived(tag, g, "$")
	id := g.id
	switch g.boundary {
	case "fnParam":
		fmt.Fprintf(sb, "function pf%s_%d(%s) { return hit%s(%s); }\n", tag, id, ps, tag, arr)
	case "methParam", "staticParam":
		fmt.Fprintf(sb, "class PM%s_%d {\n  public function m(%s) { return hit%s(%s); }\n  public static function s(%s) { return hit%s(%s); }\n}\n$pm_%d = new PM%s_%d();\n", tag, id, ps, tag, arr, ps, tag, arr, id, tag, id)
	case "ctorParam":
		fmt.Fprintf(sb, "class PC%s_%d { public $got = \"unset\"; public function __construct(%s) { $this->got = hit%s(%s); } }\n", tag, id, ps, tag, arr)
	case "promotedParam":
		fmt.Fprintf(sb, "class PC%s_%d { public $got = \"unset\"; public function __construct(%s) { $this->got = hit%s(\"-\"); } }\n", tag, id, ps, tag)
	case "mixedCtor":
		fmt.Fprintf(sb, "class PC%s_%d { public $got = \"unset\"; public function __construct(%s) { $this->got = hit%s(%s); } }\n", tag, id, ps, tag, arr)
	case "closureParam":
		fmt.Fprintf(sb, "$pcl_%d = function(%s) { return hit%s(%s); };\n", id, ps, tag, arr)
	case "closureParam/arrow":
		fmt.Fprintf(sb, "$pcl_%d = fn(%s) => hit%s(%s);\n", id, ps, tag, arr)
	}
}

func posCallExpr(tag string, g posGroup, args []int) string {
	tys := tyDecls()
	vals := valDecls()
	n := len(g.tys)
	var as []string
	for _, q := range posCallOrder(g.variant, args) {
		var e string
		if args[q] == argThrows {
			e = fmt.Sprintf("boom%s(%d)", tag, q)
		} else {
			bad := !tys[g.tys[posParamOf(q, n)]].Denotes(vals[args[q]].Name)
			e = fmt.Sprintf("ev%s(%d, %s)", tag, q, posValSrc(tag, args[q], q, bad))
		}
		if posNamed(g.variant, q) {
			e = fmt.Sprintf("a%d: %s", q, e)
		}
		as = append(as, e)
	}
	al := strings.Join(as, ", ")
	switch g.boundary {
	case "fnParam":
		return fmt.Sprintf("$v = pf%s_%d(%s);", tag, g.id, al)
	case "methParam":
		return fmt.Sprintf("$v = $pm_%d->m(%s);", g.id, al)
	case "staticParam":
		return fmt.Sprintf("$v = PM%s_%d::s(%s);", tag, g.id, al)
	case "ctorParam":
		return fmt.Sprintf("$c = new PC%s_%d(%s); $v = $c->got;", tag, g.id, al)
	case "promotedParam":
		return fmt.Sprintf("$c = new PC%s_%d(%s); $v = %s;", tag, g.id, al, posArrived(tag, g, "$c->"))
	case "mixedCtor":
		// what the body saw, then what the promoted properties hold
		var props []string
		for i := 0; i < n; i++ {
			if i%2 == 0 {
				props = append(props, fmt.Sprintf("tg%s($c->a%d)", tag, i))
			}
		}
		return fmt.Sprintf("$c = new PC%s_%d(%s); $v = $c->got . \"/\" . %s;", tag, g.id, al, strings.Join(props, " . \",\" . "))
	default:
		return fmt.Sprintf("$v = $pcl_%d(%s);", g.id, al)
	}
}

func posPrelude(sb *strings.Builder, tag string) {
	fmt.Fprintf(sb, "interface I%s {}\nclass K%s implements I%s {}\nclass L%s extends K%s {}\nclass M%s {}\nclass J%s implements I%s {}\n", tag, tag, tag, tag, tag, tag, tag, tag)
	fmt.Fprintf(sb, "function tg%s($v) { if (is_null($v)) { return \"null\"; } if (is_int($v)) { return \"int\"; } if (is_string($v)) { return \"str\"; } if (is_float($v)) { return \"float\"; } if (is_bool($v)) { return \"bool\"; } if (is_array($v)) { return \"array\"; } if (is_object($v)) { return get_class($v); } return \"other\"; }\n", tag)
	fmt.Fprintf(sb, "function tga%s($a) { if (!is_array($a)) { return \"!\" . tg%s($a); } $s = \"[\"; foreach ($a as $v) { $s = $s . tg%s($v) . \";\"; } return $s . \"]\"; }\n", tag, tag, tag)
	fmt.Fprintf(sb, "class LG%s { public static $n = 0; public static $log = \"\"; }\n", tag)
	fmt.Fprintf(sb, "class Boom%s extends \\Exception {}\n", tag)
	fmt.Fprintf(sb, "function hit%s($v) { LG%s::$n = LG%s::$n + 1; return $v; }\n", tag, tag, tag)
	fmt.Fprintf(sb, "function ev%s($q, $v) { LG%s::$log = LG%s::$log . \"e\" . $q . \".\"; return $v; }\n", tag, tag, tag)
	fmt.Fprintf(sb, "function boom%s($q) { LG%s::$log = LG%s::$log . \"t\" . $q . \".\"; throw new Boom%s(\"boom\" . $q . \"!\"); }\n", tag, tag, tag, tag)
}

func posCellOpen(sb *strings.Builder, tag string) {
	fmt.Fprintf(sb, "LG%s::$n = 0; LG%s::$log = \"\"; $r = \"\"; $st = \"-\";\n", tag, tag)
}

func posCellClose(sb *strings.Builder, tag string, id int) {
	fmt.Fprintf(sb, "echo \"\\n#\", %d, \":\", LG%s::$n, \":\", LG%s::$log, \":\", $st, \":\", $r, \"\\n\";\n", id, tag, tag)
}

const posCatch = "catch (\\Throwable $e) { $r = \"denied=\" . get_class($e) . \"=\" . $e->getMessage(); }"

func posTyScript(tag string, cases []PosCase) string {
	var sb strings.Builder
	sb.WriteString("<?php\n")
	posPrelude(&sb, tag)
	groups := map[string]posGroup{}
	var order []posGroup
	for _, c := range cases {
		g := posGroup{0, c.Boundary, c.Variant, c.Tys}
		// methParam and staticParam share one class
		if _, ok := groups[g.key()]; !ok {
			g.id = len(order)
			groups[g.key()] = g
			order = append(order, g)
		}
	}
	for _, g := range order {
		posDeclare(&sb, tag, g)
	}
	for id, c := range cases {
		g := groups[posGroup{0, c.Boundary, c.Variant, c.Tys}.key()]
		posCellOpen(&sb, tag)
		fmt.Fprintf(&sb, "try { %s $r = \"ok=\" . $v; } %s\n", posCallExpr(tag, g, c.Args), posCatch)
		posCellClose(&sb, tag, id)
	}
	return sb.String()
}

type posObs struct {
	found  bool
	ran    int
	log    string
	state  string
	ok     bool
	denied bool
	val    string // ok: what arrived
	class  string // denied: Throwable class
	msg    string
}

func parsePosOut(out string) map[int]posObs {
	got := map[int]posObs{}
	for _, l := range strings.Split(out, "\n") {
		if !strings.HasPrefix(l, "#") {
			continue
		}
		f := strings.SplitN(l[1:], ":", 5)
		if len(f) < 5 {
			continue
		}
		id, err := strconv.Atoi(f[0])
		if err != nil {
			continue
		}
		if _, dup := got[id]; dup {
			continue
		}
		o := posObs{found: true, log: f[2], state: f[3]}
		o.ran, _ = strconv.Atoi(f[1])
		switch {
		case strings.HasPrefix(f[4], "ok="):
			o.ok, o.val = true, strings.TrimPrefix(f[4], "ok=")
		case strings.HasPrefix(f[4], "denied="):
			o.denied = true
			rest := strings.TrimPrefix(f[4], "denied=")
			if k := strings.IndexByte(rest, '='); k >= 0 {
				o.class, o.msg = rest[:k], rest[k+1:]
			} else {
				o.class = rest
			}
		}
		got[id] = o
	}
	return got
}

// posTyVectors: type vectors per arity; every declared type appears, the offset and the stride are seeded
func posTyVectors(c *vh.Ctx, n, count int, defaults func(i int) bool) [][]int {
	nt := len(tyDecls())
	off := c.Rand.Intn(nt)
	stride := []int{1, 2, 4, 7, 8, 11, 13}[c.Rand.Intn(7)]
	var out [][]int
	for j := 0; j < count; j++ {
		var v []int
		for i := 0; i < n; i++ {
			t := (off + (j*n+i)*stride) % nt
			if defaults != nil && defaults(i) {
				t = posDefaultable(t)
			}
			v = append(v, t)
		}
		out = append(out, v)
	}
	return out
}

func posInside(c *vh.Ctx, t int) []int {
	var in []int
	for j, v := range valDecls() {
		if tyDecls()[t].Denotes(v.Name) {
			in = append(in, j)
		}
	}
	return in
}

// values outside the declared type: those whose rendering carries the position first
func posOutside(t int) (coded, other []int) {
	for j, v := range valDecls() {
		if tyDecls()[t].Denotes(v.Name) {
			continue
		}
		switch v.Name {
		case "int", "str", "float":
			coded = append(coded, j)
		default:
			other = append(other, j)
		}
	}
	return
}

func posTyCases(c *vh.Ctx, tag string) []PosCase {
	var cases []PosCase
	perArity := c.N(1, 3)
	for _, b := range posCallables {
		for _, v := range posVariants {
			for n := 2; n <= 4; n++ {
				if !posVariantOK(b, v, n) {
					continue
				}
				vecs := posTyVectors(c, n, perArity, func(i int) bool { return posHasDefault(v, i, n) })
				for _, tys := range vecs {
					slots := n
					if v == "variadic" {
						slots = n + 1
					}
					base := make([]int, slots)
					for q := range base {
						in := posInside(c, tys[posParamOf(q, n)])
						base[q] = in[c.Rand.Intn(len(in))]
					}
					switch v {
					case "dflt":
						base[n-1] = argDefault
					case "namedskip":
						for q := 1; q < n-1; q++ {
							base[q] = argDefault
						}
					case "few":
						base[n-1] = argMissing
					}
					mk := func(args []int) {
						cases = append(cases, PosCase{Kind: "pos", Fam: "ty", Tag: tag, Boundary: b, Variant: v, Tys: tys, Args: args})
					}
					with := func(f func(a []int)) {
						a := append([]int{}, base...)
						f(a)
						mk(a)
					}
					mk(append([]int{}, base...))
					var live []int
					for q := range base {
						if base[q] >= 0 {
							live = append(live, q)
						}
					}
					pickBad := func(q int, coded bool) int {
						cd, ot := posOutside(tys[posParamOf(q, n)])
						if coded || len(ot) == 0 {
							return cd[c.Rand.Intn(len(cd))]
						}
						return ot[c.Rand.Intn(len(ot))]
					}
					for _, q := range live {
						q := q
						with(func(a []int) { a[q] = pickBad(q, true) })
						with(func(a []int) { a[q] = pickBad(q, false) })
						with(func(a []int) { a[q] = argThrows })
					}
					for i := 0; i < len(live); i++ {
						for j := i + 1; j < len(live); j++ {
							qi, qj := live[i], live[j]
							with(func(a []int) { a[qi] = pickBad(qi, true); a[qj] = pickBad(qj, true) })
						}
					}
					if len(live) >= 2 {
						f, l := live[0], live[len(live)-1]
						with(func(a []int) { a[f] = pickBad(f, true); a[l] = argThrows })
						with(func(a []int) { a[f] = argThrows; a[l] = pickBad(l, true) })
					}
				}
			}
		}
	}
	return cases
}

type posOffender struct {
	q    int
	kind string // mistyped | thrown | missing
}

func posOffenders(x PosCase) []posOffender {
	tys, vals := tyDecls(), valDecls()
	n := len(x.Tys)
	var out []posOffender
	for q, a := range x.Args {
		switch {
		case a == argThrows:
			out = append(out, posOffender{q, "thrown"})
		case a == argMissing:
			out = append(out, posOffender{q, "missing"})
		case a >= 0 && !tys[x.Tys[posParamOf(q, n)]].Denotes(vals[a].Name):
			out = append(out, posOffender{q, "mistyped"})
		}
	}
	return out
}

// what the callee reports when every argument is fine
func posExpectArrival(x PosCase) string {
	vals := valDecls()
	at := func(s string) string { return strings.ReplaceAll(s, "@", x.Tag) }
	n := len(x.Tys)
	tagOf := func(q int) string {
		if x.Args[q] == argDefault {
			return posDefault[x.Tys[q]][1]
		}
		return at(vals[x.Args[q]].Tag)
	}
	var parts []string
	for i := 0; i < n; i++ {
		if x.Variant == "variadic" && i == n-1 {
			s := "["
			for q := n - 1; q < len(x.Args); q++ {
				s += tagOf(q) + ";"
			}
			parts = append(parts, s+"]")
		} else {
			parts = append(parts, tagOf(i))
		}
	}
	all := strings.Join(parts, ",")
	switch x.Boundary {
	case "mixedCtor":
		var props []string
		for i := 0; i < n; i++ {
			if i%2 == 0 {
				props = append(props, parts[i])
			}
		}
		return all + "/" + strings.Join(props, ",")
	}
	return all
}

func tyTokens(t int) string { return strings.ReplaceAll(tyDecls()[t].Model, "\t", " ") }

// model request for one call: slots in call order, each `<label>,<boundary>,<val|!>,<ty tokens>`
func posBindLine(x PosCase) string {
	vals := valDecls()
	n := len(x.Tys)
	var slots []string
	for _, q := range posCallOrder(x.Variant, x.Args) {
		p := posParamOf(q, n)
		b := posSlotBoundary(x.Boundary, p)
		if x.Variant == "variadic" && p == n-1 {
			b = "variadicParam"
		}
		v := "!"
		if x.Args[q] >= 0 {
			v = vals[x.Args[q]].Model
		}
		slots = append(slots, fmt.Sprintf("%d,%s,%s,%s", q, b, v, tyTokens(x.Tys[p])))
	}
	mode := "il"
	if x.Boundary == "methParam" {
		mode = "ef" // callMethodParams evaluates every argument, then binds by parameter index
	}
	missing := "-"
	for q, a := range x.Args {
		if a == argMissing {
			missing = strconv.Itoa(q)
		}
	}
	return "bind\t" + typeH + "\t" + mode + "\t" + missing + "\t" + strings.Join(slots, ";")
}

func posWhere(x PosCase, q int) string {
	order := posCallOrder(x.Variant, x.Args)
	if len(order) > 0 && order[len(order)-1] == q {
		return "last"
	}
	if x.Args[q] == argMissing {
		return "last"
	}
	return "nonlast"
}

func posDescribe(x PosCase) string {
	tys, vals := tyDecls(), valDecls()
	n := len(x.Tys)
	var ps, as []string
	for _, t := range x.Tys {
		ps = append(ps, tys[t].Src)
	}
	for q, a := range x.Args {
		switch a {
		case argThrows:
			as = append(as, "<throws>")
		case argDefault:
			as = append(as, "<default>")
		case argMissing:
			as = append(as, "<missing>")
		default:
			s := vals[a].Name
			if !tys[x.Tys[posParamOf(q, n)]].Denotes(vals[a].Name) {
				s += "(!)"
			}
			as = append(as, s)
		}
	}
	return fmt.Sprintf("%s/%s (%s) <- (%s)", x.Boundary, x.Variant, strings.Join(ps, ", "), strings.Join(as, ", "))
}

func runPosTypes(c *vh.Ctx, m *vh.Model, tag string, only *PosCase) {
	var cases []PosCase
	if only != nil {
		cases = []PosCase{*only}
	} else {
		cases = posTyCases(c, tag)
		if f := os.Getenv("C07_POS_FILTER"); f != "" { // debugging aid
			var keep []PosCase
			for _, x := range cases {
				if strings.Contains(x.Boundary+"/"+x.Variant, f) {
					keep = append(keep, x)
				}
			}
			cases = keep
		}
	}
	src := posTyScript(tag, cases)
	posDump("ty", src)
	out := vh.RunFresh(src)
	got := parsePosOut(out.Out)
	if out.Kind != "ok" {
		viol(c, "argpos:script-"+out.Kind, fmt.Sprintf("the multi-parameter script ended with %s: %s", out.Kind, out.Detail), PosCase{Kind: "pos", Fam: "ty", Tag: tag})
	}
	var ans []string
	if m != nil {
		var lines []string
		for _, x := range cases {
			lines = append(lines, posBindLine(x))
		}
		var err error
		if ans, err = m.AskBatch(lines); err != nil {
			c.Mismatch(nil, "", err.Error(), "model driver failed (bind)")
			ans = nil
		}
	}
	for id, x := range cases {
		o := got[id]
		offs := posOffenders(x)
		sigBase := "argpos:" + x.Boundary + "/" + x.Variant
		c.Eval(x.key(), true)
		c.Hit("pos:ty:" + x.Boundary + "/" + x.Variant)
		c.SampleSome(map[string]any{"case": x, "what": posDescribe(x), "impl": o}, 997)
		desc := posDescribe(x)
		if !o.found || (!o.ok && !o.denied) {
			viol(c, sigBase+":no-outcome", fmt.Sprintf("no ok/denied marker for %s", desc), x)
			continue
		}
		rep := -1
		if o.denied {
			rep = posReported(o.msg)
		}
		// against the model
		if ans != nil {
			c.Res.Traces++
			impl := ""
			switch {
			case o.ok:
				impl = fmt.Sprintf("ok ran=%d", o.ran)
			case strings.HasPrefix(o.class, "Boom"):
				impl = fmt.Sprintf("thr:%d ran=%d", rep, o.ran)
			default:
				impl = fmt.Sprintf("rej:%d ran=%d", rep, o.ran)
			}
			want := ans[id]
			same := impl == want
			if !same && rep < 0 && o.denied && !strings.HasPrefix(o.class, "Boom") {
				// the message does not say which argument: compare the kind only
				if k := strings.IndexByte(want, ' '); k >= 0 && strings.HasPrefix(want, "rej:") {
					same = want[k:] == fmt.Sprintf(" ran=%d", o.ran)
				}
			}
			if !same {
				c.Mismatch(x, impl+" ["+firstN(o.msg, 80)+"]", want, "call with several typed parameters: "+desc)
			}
		}
		switch {
		case o.ok && len(offs) > 0:
			f := offs[0]
			viol(c, sigBase+":admitted:"+f.kind+":"+posWhere(x, f.q),
				fmt.Sprintf("a call was accepted although argument %d is %s: %s; the callee's body ran %d time(s) and saw %s", f.q, f.kind, desc, o.ran, o.val), x)
		case o.denied && len(offs) == 0:
			viol(c, sigBase+":rejects", fmt.Sprintf("a call whose arguments all fit was refused: %s: %s %s", desc, o.class, firstN(o.msg, 120)), x)
		}
		if o.denied && o.ran != 0 {
			viol(c, sigBase+":effect", fmt.Sprintf("the call was refused (%s) but the callee's body ran %d time(s): %s", o.class, o.ran, desc), x)
		}
		if o.ok && len(offs) == 0 {
			if o.ran != 1 {
				viol(c, sigBase+":body-count", fmt.Sprintf("an accepted call ran the callee's body %d times: %s", o.ran, desc), x)
			}
			if want := posExpectArrival(x); o.val != want {
				viol(c, sigBase+":altered", fmt.Sprintf("the arguments arrived as %s, expected %s: %s", o.val, want, desc), x)
			}
		}
		if o.denied && len(offs) > 0 {
			allThrown, allMistyped := true, true
			for _, f := range offs {
				if f.kind != "thrown" {
					allThrown = false
				}
				if f.kind != "mistyped" {
					allMistyped = false
				}
			}
			if allThrown && !strings.HasPrefix(o.class, "Boom") {
				viol(c, sigBase+":exception-replaced", fmt.Sprintf("an argument expression threw Boom but the caller caught %s (%s): %s", o.class, firstN(o.msg, 80), desc), x)
			}
			if allThrown && strings.HasPrefix(o.class, "Boom") && rep >= 0 && rep != posFirstInOrder(x, offs) {
				viol(c, sigBase+":not-first", fmt.Sprintf("argument %d threw first but the exception of argument %d arrived: %s", posFirstInOrder(x, offs), rep, desc), x)
			}
			if allMistyped && rep >= 0 {
				isOff := false
				for _, f := range offs {
					if f.q == rep {
						isOff = true
					}
				}
				switch {
				case !isOff:
					viol(c, sigBase+":not-first", fmt.Sprintf("the refusal talks about argument %d, which fits: %s: %s", rep, desc, firstN(o.msg, 80)), x)
				case (x.Variant == "pos" || x.Variant == "named" || x.Variant == "dfltgiven" || x.Variant == "variadic") && rep != offs[0].q:
					viol(c, sigBase+":not-first", fmt.Sprintf("argument %d is the first that does not fit but the refusal talks about argument %d: %s", offs[0].q, rep, desc), x)
				}
			}
		}
	}
}

// the offender that is evaluated first at the call
func posFirstInOrder(x PosCase, offs []posOffender) int {
	is := map[int]bool{}
	for _, f := range offs {
		is[f.q] = true
	}
	for _, q := range posCallOrder(x.Variant, x.Args) {
		if is[q] {
			return q
		}
	}
	return -1
}

var _ = sort.Ints

// C07_DUMP_POS=dir writes the generated scripts there
func posDump(name, src string) {
	if d := os.Getenv("C07_DUMP_POS"); d != "" {
		os.WriteFile(d+"/pos_"+name+".php", []byte(src), 0o644)
	}
}

func runPos(c *vh.Ctx, m *vh.Model, tag string, only *PosCase) {
	if only != nil {
		switch only.Fam {
		case "ty":
			runPosTypes(c, m, tag, only)
		}
		return
	}
	runPosTypes(c, m, tag, nil)
}
