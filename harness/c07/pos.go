package c07

// The position stream: enforcement does not depend on WHERE the offending item stands among several.
//
// The matrices and the history stream cross every typed boundary with ONE typed slot per callable and
// evaluate ONE guarded access per expression. A binding loop that keeps only the result of the last
// parameter it bound (`acl` overwritten by the next iteration), an argument list whose evaluation errors are
// dropped unless they come last, a destructuring assignment that ignores what its element stores return: all of
// these pass when there is a single item. Here every multi-item construct is probed with 2–4 items where the
// offending one stands at EVERY position and all others are fine, two offenders (the first must be reported), and
// the all-fine control:
//
//   - fam "ty":    callables with 2–4 typed parameters (function / method / static method / constructor /
//                  promoted / mixed promoted+plain constructor / closure / arrow function) × the ways arguments
//                  are passed (positional, named in order, named permuted, positional+named, trailing default
//                  omitted / supplied, a defaulted parameter skipped by a named argument, a required argument
//                  missing, a typed variadic tail, an extra argument that names no parameter, an extra argument
//                  that names a parameter a positional argument has filled); the offender is a mistyped value, an
//                  argument expression that throws, or the name;
//   - fam "store": several typed properties assigned in one statement sequence / one destructuring assignment /
//                  one method body;
//   - fam "vis":   several member accesses in one argument list / array literal / operator expression /
//                  statement sequence / destructuring assignment, the refused one at every position.
//
// Oracles (no model): accepted iff no item offends; a refused call did not run the callee's body; what arrived is
// what was passed; the reported error belongs to the first offender; an exception thrown by an argument expression
// arrives as that exception; slots / members before the offender are written, the offender and everything after it
// are untouched. Against the model: `bind`, `sseq`, `eargs` (Model.Types.bindArgs / storeSeq, Model.Access.evalArgs).

import (
	"encoding/json"
	"fmt"
	"os"
	"strconv"
	"strings"
	"sync"

	"verif/harness/vh"
)

type PosCase struct {
	Kind     string `json:"kind"` // "pos"
	Fam      string `json:"fam"`  // ty | store | vis
	Tag      string `json:"tag"`
	Boundary string `json:"boundary"`          // ty: the callable; store: the form; vis: the container
	Variant  string `json:"variant,omitempty"` // ty: how the arguments are passed; vis: the path of the refused access
	Tys      []int  `json:"tys,omitempty"`     // declared type per parameter / slot (index into tyDecls)
	Args     []int  `json:"args,omitempty"`    // value kind per argument / slot (index into valDecls); -1 an expression that throws, -2 omitted (has a default), -3 omitted (required)
	Bad      []int  `json:"bad,omitempty"`     // vis: positions of the refused accesses
	Mod      string `json:"mod,omitempty"`     // vis: modifier of the guarded member
	Site     string `json:"site,omitempty"`    // vis: outside | unrelated | subclass
}

func (p PosCase) key() string {
	return fmt.Sprintf("pos/%s/%s/%s/%v/%v/%v/%s/%s", p.Fam, p.Boundary, p.Variant, p.Tys, p.Args, p.Bad, p.Mod, p.Site)
}

const (
	argThrows  = -1
	argDefault = -2
	argMissing = -3
)

// ------------------------------------------------------------ fam "ty": callables with several typed parameters

var posCallables = []string{"fnParam", "methParam", "staticParam", "ctorParam", "promotedParam", "mixedCtor", "closureParam", "closureParam/arrow"}
var posVariants = []string{"pos", "named", "namedperm", "mixnamed", "dflt", "dfltgiven", "namedskip", "few", "variadic", "unknown", "overwrite"}

// a parameter that carries a default needs a type with a literal default: class types become nullable
var posDefault = map[int][2]string{ // type index → {literal, tag of what arrives}
	0: {"5", "int"}, 1: {`"d"`, "str"}, 2: {"[]", "array"}, 5: {"6", "int"}, 6: {`"e"`, "str"}, 7: {"[2]", "array"},
	8: {"null", "null"}, 9: {"null", "null"}, 10: {"5", "int"}, 11: {"[3]", "array"}, 12: {"4", "int"}, 13: {`"d"`, "str"}, 14: {`"f"`, "str"},
}

func posDefaultable(t int) int {
	switch t {
	case 3:
		return 8
	case 4:
		return 9
	}
	return t
}

// hasDefault: does parameter i of an n-parameter callable carry a default under this variant
func posHasDefault(variant string, i, n int) bool {
	switch variant {
	case "dflt", "dfltgiven":
		return i == n-1
	case "namedskip":
		return i >= 1
	}
	return false
}

func posVariantOK(boundary, variant string, n int) bool {
	switch variant {
	case "variadic": // a promoted parameter cannot be variadic
		return boundary != "promotedParam" && boundary != "mixedCtor"
	case "namedskip":
		return n >= 3
	}
	return true
}

// param index of argument slot q (the variadic tail takes every argument from n-1 on)
func posParamOf(q, n int) int {
	if q >= n {
		return n - 1
	}
	return q
}

// slot boundary for the model: which of the model's boundaries parameter i crosses
func posSlotBoundary(boundary string, i int) string {
	switch boundary {
	case "mixedCtor":
		if i%2 == 0 {
			return "promotedParam"
		}
		return "ctorParam"
	}
	return modelBoundary(boundary)
}

// the order in which the argument slots are written at the call (= evaluated)
func posCallOrder(variant string, args []int) []int {
	var given []int
	for q, a := range args {
		if a != argDefault && a != argMissing {
			given = append(given, q)
		}
	}
	switch variant {
	case "namedperm":
		if len(given) > 1 {
			given = append(given[1:], given[0])
		}
	case "mixnamed":
		if len(given) > 2 {
			rest := append([]int{}, given[1:]...)
			for i, j := 0, len(rest)-1; i < j; i, j = i+1, j-1 {
				rest[i], rest[j] = rest[j], rest[i]
			}
			given = append([]int{given[0]}, rest...)
		}
	}
	return given
}

func posNamed(variant string, q int) bool {
	switch variant {
	case "named", "namedperm", "unknown":
		return true
	case "mixnamed", "namedskip", "overwrite":
		return q >= 1
	}
	return false
}

// the variants whose call carries one argument more, with a name that cannot be resolved: `zz: 0` (no such
// parameter) or `a0: <a fitting value>` after the positional argument for $a0. Where it stands among the named
// arguments depends on the declared types (any place after the positional ones).
func posBadName(variant string) bool { return variant == "unknown" || variant == "overwrite" }

func posBadNameAt(variant string, tys []int, written int) int {
	if variant == "unknown" {
		return tys[0] % (written + 1)
	}
	if written <= 1 {
		return written
	}
	return 1 + tys[0]%written
}

// source of the value passed at slot q: mistyped ints / strings / floats carry the position, so that the
// error message tells which argument was reported
func posValSrc(tag string, val int, q int, bad bool) string {
	v := valDecls()[val]
	if bad {
		switch v.Name {
		case "int":
			return fmt.Sprintf("9%d", q)
		case "str":
			return fmt.Sprintf("\"bad%d\"", q)
		case "float":
			return fmt.Sprintf("%d.5", q)
		}
	}
	return strings.ReplaceAll(v.Src, "@", tag)
}

// which position a refusal message talks about (-1: it does not say)
func posReported(msg string) int {
	for q := 0; q < 8; q++ {
		for _, tok := range []string{fmt.Sprintf("(9%d)", q), fmt.Sprintf("(\"bad%d\")", q), fmt.Sprintf("(bad%d)", q), fmt.Sprintf("(%d.5)", q), fmt.Sprintf("boom%d!", q)} {
			if strings.Contains(msg, tok) {
				return q
			}
		}
	}
	return -1
}

type posGroup struct {
	id       int
	boundary string
	variant  string
	tys      []int
}

func (g posGroup) key() string { return fmt.Sprintf("%s/%s/%v", g.boundary, g.variant, g.tys) }

func posParamList(tag string, g posGroup) string {
	at := func(s string) string { return strings.ReplaceAll(s, "@", tag) }
	tys := tyDecls()
	n := len(g.tys)
	var ps []string
	for i, t := range g.tys {
		s := at(tys[t].Src) + " "
		if g.variant == "variadic" && i == n-1 {
			s += "..."
		}
		s += fmt.Sprintf("$a%d", i)
		if posHasDefault(g.variant, i, n) {
			s += " = " + posDefault[t][0]
		}
		promoted := g.boundary == "promotedParam" || (g.boundary == "mixedCtor" && i%2 == 0)
		if promoted {
			s = "public " + s
		}
		ps = append(ps, s)
	}
	return strings.Join(ps, ", ")
}

// the expression that reports what arrived
func posArrived(tag string, g posGroup, prefix string) string {
	n := len(g.tys)
	var parts []string
	for i := 0; i < n; i++ {
		if g.variant == "variadic" && i == n-1 {
			parts = append(parts, fmt.Sprintf("tga%s(%sa%d)", tag, prefix, i))
		} else {
			parts = append(parts, fmt.Sprintf("tg%s(%sa%d)", tag, prefix, i))
		}
	}
	return strings.Join(parts, " . \",\" . ")
}

func posDeclare(sb *strings.Builder, tag string, g posGroup) {
	ps := posParamList(tag, g)
	arr := posArrived(tag, g, "$")
	id := g.id
	switch g.boundary {
	case "fnParam":
		fmt.Fprintf(sb, "function pf%s_%d(%s) { return hit%s(%s); }\n", tag, id, ps, tag, arr)
	case "methParam", "staticParam":
		fmt.Fprintf(sb, "class PM%s_%d {\n  public function m(%s) { return hit%s(%s); }\n  public static function s(%s) { return hit%s(%s); }\n}\n$pm_%d = new PM%s_%d();\n", tag, id, ps, tag, arr, ps, tag, arr, id, tag, id)
	case "ctorParam":
		fmt.Fprintf(sb, "class PC%s_%d { public $got = \"unset\"; public function __construct(%s) { $this->got = hit%s(%s); } }\n", tag, id, ps, tag, arr)
	case "promotedParam":
		fmt.Fprintf(sb, "class PC%s_%d { public $got = \"unset\"; public function __construct(%s) { $this->got = hit%s(\"-\"); } }\n", tag, id, ps, tag)
	case "mixedCtor":
		fmt.Fprintf(sb, "class PC%s_%d { public $got = \"unset\"; public function __construct(%s) { $this->got = hit%s(%s); } }\n", tag, id, ps, tag, arr)
	case "closureParam":
		fmt.Fprintf(sb, "$pcl_%d = function(%s) { return hit%s(%s); };\n", id, ps, tag, arr)
	case "closureParam/arrow":
		fmt.Fprintf(sb, "$pcl_%d = fn(%s) => hit%s(%s);\n", id, ps, tag, arr)
	}
}

func posCallExpr(tag string, g posGroup, args []int) string {
	tys := tyDecls()
	vals := valDecls()
	n := len(g.tys)
	var as []string
	for _, q := range posCallOrder(g.variant, args) {
		var e string
		if args[q] == argThrows {
			e = fmt.Sprintf("boom%s(%d)", tag, q)
		} else {
			bad := !tys[g.tys[posParamOf(q, n)]].Denotes(vals[args[q]].Name)
			e = fmt.Sprintf("ev%s(%d, %s)", tag, q, posValSrc(tag, args[q], q, bad))
		}
		if posNamed(g.variant, q) {
			e = fmt.Sprintf("a%d: %s", q, e)
		}
		as = append(as, e)
	}
	if posBadName(g.variant) {
		extra := "zz: 0"
		if g.variant == "overwrite" {
			in := posInsideOf(g.tys[0])
			extra = "a0: " + posValSrc(tag, in[0], 0, false)
		}
		at := posBadNameAt(g.variant, g.tys, len(as))
		as = append(as[:at], append([]string{extra}, as[at:]...)...)
	}
	al := strings.Join(as, ", ")
	switch g.boundary {
	case "fnParam":
		return fmt.Sprintf("$v = pf%s_%d(%s);", tag, g.id, al)
	case "methParam":
		return fmt.Sprintf("$v = $pm_%d->m(%s);", g.id, al)
	case "staticParam":
		return fmt.Sprintf("$v = PM%s_%d::s(%s);", tag, g.id, al)
	case "ctorParam":
		return fmt.Sprintf("$c = new PC%s_%d(%s); $v = $c->got;", tag, g.id, al)
	case "promotedParam":
		return fmt.Sprintf("$c = new PC%s_%d(%s); $v = %s;", tag, g.id, al, posArrived(tag, g, "$c->"))
	case "mixedCtor":
		// what the body saw, then what the promoted properties hold
		var props []string
		for i := 0; i < n; i++ {
			if i%2 == 0 {
				props = append(props, fmt.Sprintf("tg%s($c->a%d)", tag, i))
			}
		}
		return fmt.Sprintf("$c = new PC%s_%d(%s); $v = $c->got . \"/\" . %s;", tag, g.id, al, strings.Join(props, " . \",\" . "))
	default:
		return fmt.Sprintf("$v = $pcl_%d(%s);", g.id, al)
	}
}

func posPrelude(sb *strings.Builder, tag string) {
	fmt.Fprintf(sb, "interface I%s {}\nclass K%s implements I%s {}\nclass L%s extends K%s {}\nclass M%s {}\nclass J%s implements I%s {}\n", tag, tag, tag, tag, tag, tag, tag, tag)
	fmt.Fprintf(sb, "function tg%s($v) { if (is_null($v)) { return \"null\"; } if (is_int($v)) { return \"int\"; } if (is_string($v)) { return \"str\"; } if (is_float($v)) { return \"float\"; } if (is_bool($v)) { return \"bool\"; } if (is_array($v)) { return \"array\"; } if (is_object($v)) { return get_class($v); } return \"other\"; }\n", tag)
	fmt.Fprintf(sb, "function tga%s($a) { if (!is_array($a)) { return \"!\" . tg%s($a); } $s = \"[\"; foreach ($a as $v) { $s = $s . tg%s($v) . \";\"; } return $s . \"]\"; }\n", tag, tag, tag)
	fmt.Fprintf(sb, "class LG%s { public static $n = 0; public static $log = \"\"; }\n", tag)
	fmt.Fprintf(sb, "class Boom%s extends \\Exception {}\n", tag)
	fmt.Fprintf(sb, "function hit%s($v) { LG%s::$n = LG%s::$n + 1; return $v; }\n", tag, tag, tag)
	fmt.Fprintf(sb, "function ev%s($q, $v) { LG%s::$log = LG%s::$log . \"e\" . $q . \".\"; return $v; }\n", tag, tag, tag)
	fmt.Fprintf(sb, "function boom%s($q) { LG%s::$log = LG%s::$log . \"t\" . $q . \".\"; throw new Boom%s(\"boom\" . $q . \"!\"); }\n", tag, tag, tag, tag)
}

func posCellOpen(sb *strings.Builder, tag string) {
	fmt.Fprintf(sb, "LG%s::$n = 0; LG%s::$log = \"\"; $r = \"\"; $st = \"-\";\n", tag, tag)
}

func posCellClose(sb *strings.Builder, tag string, id int) {
	fmt.Fprintf(sb, "echo \"\\n#\", %d, \":\", LG%s::$n, \":\", LG%s::$log, \":\", $st, \":\", $r, \"\\n\";\n", id, tag, tag)
}

const posCatch = "catch (\\Throwable $e) { $r = \"denied=\" . get_class($e) . \"=\" . $e->getMessage(); }"

func posTyScript(tag string, cases []PosCase) string {
	var sb strings.Builder
	sb.WriteString("<?php\n")
	posPrelude(&sb, tag)
	groups := map[string]posGroup{}
	var order []posGroup
	for _, c := range cases {
		g := posGroup{0, c.Boundary, c.Variant, c.Tys}
		// methParam and staticParam share one class
		if _, ok := groups[g.key()]; !ok {
			g.id = len(order)
			groups[g.key()] = g
			order = append(order, g)
		}
	}
	for _, g := range order {
		posDeclare(&sb, tag, g)
	}
	for id, c := range cases {
		g := groups[posGroup{0, c.Boundary, c.Variant, c.Tys}.key()]
		posCellOpen(&sb, tag)
		fmt.Fprintf(&sb, "try { %s $r = \"ok=\" . $v; } %s\n", posCallExpr(tag, g, c.Args), posCatch)
		posCellClose(&sb, tag, id)
	}
	return sb.String()
}

type posObs struct {
	found  bool
	ran    int
	log    string
	state  string
	ok     bool
	denied bool
	val    string // ok: what arrived
	class  string // denied: Throwable class
	msg    string
}

func parsePosOut(out string) map[int]posObs {
	got := map[int]posObs{}
	for _, l := range strings.Split(out, "\n") {
		if !strings.HasPrefix(l, "#") {
			continue
		}
		f := strings.SplitN(l[1:], ":", 5)
		if len(f) < 5 {
			continue
		}
		id, err := strconv.Atoi(f[0])
		if err != nil {
			continue
		}
		if _, dup := got[id]; dup {
			continue
		}
		o := posObs{found: true, log: f[2], state: f[3]}
		o.ran, _ = strconv.Atoi(f[1])
		switch {
		case strings.HasPrefix(f[4], "ok="):
			o.ok, o.val = true, strings.TrimPrefix(f[4], "ok=")
		case strings.HasPrefix(f[4], "denied="):
			o.denied = true
			rest := strings.TrimPrefix(f[4], "denied=")
			if k := strings.IndexByte(rest, '='); k >= 0 {
				o.class, o.msg = rest[:k], rest[k+1:]
			} else {
				o.class = rest
			}
		}
		got[id] = o
	}
	return got
}

// posTyVectors: type vectors per arity; every declared type appears, the offset and the stride are seeded
func posTyVectors(c *vh.Ctx, n, count int, defaults func(i int) bool) [][]int {
	nt := len(tyDecls())
	off := c.Rand.Intn(nt)
	stride := []int{1, 2, 4, 7, 8, 11, 13}[c.Rand.Intn(7)]
	var out [][]int
	for j := 0; j < count; j++ {
		var v []int
		for i := 0; i < n; i++ {
			t := (off + (j*n+i)*stride) % nt
			if defaults != nil && defaults(i) {
				t = posDefaultable(t)
			}
			v = append(v, t)
		}
		out = append(out, v)
	}
	return out
}

func posInside(c *vh.Ctx, t int) []int { return posInsideOf(t) }

func posInsideOf(t int) []int {
	var in []int
	for j, v := range valDecls() {
		if tyDecls()[t].Denotes(v.Name) {
			in = append(in, j)
		}
	}
	return in
}

// values outside the declared type: those whose rendering carries the position first
func posOutside(t int) (coded, other []int) {
	for j, v := range valDecls() {
		if tyDecls()[t].Denotes(v.Name) {
			continue
		}
		switch v.Name {
		case "int", "str", "float":
			coded = append(coded, j)
		default:
			other = append(other, j)
		}
	}
	return
}

func posTyCases(c *vh.Ctx, tag string) []PosCase {
	var cases []PosCase
	perArity := c.N(1, 3)
	for _, b := range posCallables {
		for _, v := range posVariants {
			for n := 2; n <= 4; n++ {
				if !posVariantOK(b, v, n) {
					continue
				}
				vecs := posTyVectors(c, n, perArity, func(i int) bool { return posHasDefault(v, i, n) })
				for _, tys := range vecs {
					if v == "few" && tys[n-1] >= 5 && tys[n-1] <= 9 {
						// the parameter whose argument is missing: a type that does not accept null (with `?T` the callee
						// would see null, a value of the type: no claim of this property either way)
						tys[n-1] -= 5
					}
					slots := n
					if v == "variadic" {
						slots = n + 1
					}
					base := make([]int, slots)
					for q := range base {
						in := posInside(c, tys[posParamOf(q, n)])
						base[q] = in[c.Rand.Intn(len(in))]
					}
					switch v {
					case "dflt":
						base[n-1] = argDefault
					case "namedskip":
						for q := 1; q < n-1; q++ {
							base[q] = argDefault
						}
					case "few":
						base[n-1] = argMissing
					}
					mk := func(args []int) {
						cases = append(cases, PosCase{Kind: "pos", Fam: "ty", Tag: tag, Boundary: b, Variant: v, Tys: tys, Args: args})
					}
					with := func(f func(a []int)) {
						a := append([]int{}, base...)
						f(a)
						mk(a)
					}
					mk(append([]int{}, base...))
					var live []int
					for q := range base {
						if base[q] >= 0 {
							live = append(live, q)
						}
					}
					pickBad := func(q int, coded bool) int {
						cd, ot := posOutside(tys[posParamOf(q, n)])
						if coded || len(ot) == 0 {
							return cd[c.Rand.Intn(len(cd))]
						}
						return ot[c.Rand.Intn(len(ot))]
					}
					for _, q := range live {
						q := q
						with(func(a []int) { a[q] = pickBad(q, true) })
						with(func(a []int) { a[q] = pickBad(q, false) })
						with(func(a []int) { a[q] = argThrows })
					}
					for i := 0; i < len(live); i++ {
						for j := i + 1; j < len(live); j++ {
							qi, qj := live[i], live[j]
							with(func(a []int) { a[qi] = pickBad(qi, true); a[qj] = pickBad(qj, true) })
						}
					}
					if len(live) >= 2 {
						f, l := live[0], live[len(live)-1]
						with(func(a []int) { a[f] = pickBad(f, true); a[l] = argThrows })
						with(func(a []int) { a[f] = argThrows; a[l] = pickBad(l, true) })
					}
				}
			}
		}
	}
	return cases
}

type posOffender struct {
	q    int
	kind string // mistyped | thrown | missing
}

func posOffenders(x PosCase) []posOffender {
	tys, vals := tyDecls(), valDecls()
	n := len(x.Tys)
	var out []posOffender
	if posBadName(x.Variant) {
		// the names are resolved before anything is evaluated or bound
		out = append(out, posOffender{-1, "badname"})
	}
	for q, a := range x.Args {
		switch {
		case a == argThrows:
			out = append(out, posOffender{q, "thrown"})
		case a == argMissing:
			out = append(out, posOffender{q, "missing"})
		case a >= 0 && !tys[x.Tys[posParamOf(q, n)]].Denotes(vals[a].Name):
			out = append(out, posOffender{q, "mistyped"})
		}
	}
	return out
}

// what the callee reports when every argument is fine
func posExpectArrival(x PosCase) string {
	vals := valDecls()
	at := func(s string) string { return strings.ReplaceAll(s, "@", x.Tag) }
	n := len(x.Tys)
	tagOf := func(q int) string {
		if x.Args[q] == argDefault {
			return posDefault[x.Tys[q]][1]
		}
		return at(vals[x.Args[q]].Tag)
	}
	var parts []string
	for i := 0; i < n; i++ {
		if x.Variant == "variadic" && i == n-1 {
			s := "["
			for q := n - 1; q < len(x.Args); q++ {
				s += tagOf(q) + ";"
			}
			parts = append(parts, s+"]")
		} else {
			parts = append(parts, tagOf(i))
		}
	}
	all := strings.Join(parts, ",")
	switch x.Boundary {
	case "mixedCtor":
		var props []string
		for i := 0; i < n; i++ {
			if i%2 == 0 {
				props = append(props, parts[i])
			}
		}
		return all + "/" + strings.Join(props, ",")
	}
	return all
}

func tyTokens(t int) string { return strings.ReplaceAll(tyDecls()[t].Model, "\t", " ") }

// model request for one call. Variadic callables: the slots in parameter order, each
// `<label>,<boundary>,<val|!|?>,<ty tokens>` (`bind`). All others: the parameters (name, boundary, default, type) and
// the arguments in the order and form in which they are WRITTEN at the call (`nbind`): the model resolves named
// arguments to parameters itself (Model.ArgNames.resolve mirrors resolveNamedArguments), takes defaults for
// parameters that nothing reaches and refuses a missing required one.
func posBindLine(x PosCase) string {
	vals := valDecls()
	n := len(x.Tys)
	mode, loop := "il", "funcValue"
	switch x.Boundary {
	case "fnParam":
		loop = "fn"
	case "ctorParam", "promotedParam", "mixedCtor":
		loop = "ctor"
	case "methParam":
		mode, loop = "ef", "method" // callMethodParams evaluates every argument, then binds by parameter index
	}
	if x.Variant != "variadic" {
		// the call as WRITTEN: the model resolves the names itself (Model.ArgNames.callNamed)
		dk := map[string]string{"int": "int", "str": "str", "array": "arr", "null": "null"}
		var ps, as []string
		for i, t := range x.Tys {
			d := "-"
			if posHasDefault(x.Variant, i, n) {
				d = dk[posDefault[t][1]]
			}
			ps = append(ps, fmt.Sprintf("%d,%s,%s,%s", i, posSlotBoundary(x.Boundary, i), d, tyTokens(t)))
		}
		for _, q := range posCallOrder(x.Variant, x.Args) {
			v := "!"
			if x.Args[q] >= 0 {
				v = vals[x.Args[q]].Model
			}
			if posNamed(x.Variant, q) {
				as = append(as, fmt.Sprintf("n%d,%s", q, v))
			} else {
				as = append(as, "p,"+v)
			}
		}
		if posBadName(x.Variant) {
			extra := "n99,int"
			if x.Variant == "overwrite" {
				extra = "n0," + vals[posInsideOf(x.Tys[0])[0]].Model
			}
			at := posBadNameAt(x.Variant, x.Tys, len(as))
			as = append(as[:at], append([]string{extra}, as[at:]...)...)
		}
		al := strings.Join(as, ";")
		if al == "" {
			al = "-"
		}
		return "nbind\t" + typeH + "\t" + mode + "\t" + loop + "\t" + strings.Join(ps, ";") + "\t" + al
	}
	var slots []string
	for q, a := range x.Args {
		p := posParamOf(q, n)
		b := posSlotBoundary(x.Boundary, p)
		if x.Variant == "variadic" && p == n-1 {
			b = "variadicParam"
		}
		v := ""
		switch a {
		case argThrows:
			v = "!"
		case argMissing:
			v = "?"
		case argDefault:
			v = map[string]string{"int": "int", "str": "str", "array": "arr", "null": "null"}[posDefault[x.Tys[p]][1]]
		default:
			v = vals[a].Model
		}
		slots = append(slots, fmt.Sprintf("%d,%s,%s,%s", q, b, v, tyTokens(x.Tys[p])))
	}
	return "bind\t" + typeH + "\t" + mode + "\t" + loop + "\t" + strings.Join(slots, ";")
}

func posWhere(x PosCase, q int) string {
	if q < 0 {
		return "name"
	}
	order := posCallOrder(x.Variant, x.Args)
	if len(order) > 0 && order[len(order)-1] == q {
		return "last"
	}
	if x.Args[q] == argMissing {
		return "last"
	}
	return "nonlast"
}

func posDescribe(x PosCase) string {
	tys, vals := tyDecls(), valDecls()
	n := len(x.Tys)
	var ps, as []string
	for _, t := range x.Tys {
		ps = append(ps, tys[t].Src)
	}
	for q, a := range x.Args {
		switch a {
		case argThrows:
			as = append(as, "<throws>")
		case argDefault:
			as = append(as, "<default>")
		case argMissing:
			as = append(as, "<missing>")
		default:
			s := vals[a].Name
			if !tys[x.Tys[posParamOf(q, n)]].Denotes(vals[a].Name) {
				s += "(!)"
			}
			as = append(as, s)
		}
	}
	if x.Variant == "unknown" {
		as = append(as, "+ zz: 0")
	} else if x.Variant == "overwrite" {
		as = append(as, "+ a0: <fits>")
	}
	return fmt.Sprintf("%s/%s (%s) <- (%s)", x.Boundary, x.Variant, strings.Join(ps, ", "), strings.Join(as, ", "))
}

func runPosTypes(c *vh.Ctx, m *vh.Model, tag string, only *PosCase) {
	var cases []PosCase
	if only != nil {
		cases = []PosCase{*only}
	} else {
		cases = posTyCases(c, tag)
		if f := os.Getenv("C07_POS_FILTER"); f != "" { // debugging aid
			var keep []PosCase
			for _, x := range cases {
				if strings.Contains(x.Boundary+"/"+x.Variant, f) {
					keep = append(keep, x)
				}
			}
			cases = keep
		}
		cases = append(posPinned(c, "ty", tag, cases), cases...)
	}
	src := posTyScript(tag, cases)
	posDump("ty", src)
	out := vh.RunFresh(src)
	got := parsePosOut(out.Out)
	if out.Kind != "ok" {
		viol(c, "argpos:script-"+out.Kind, fmt.Sprintf("the multi-parameter script ended with %s: %s", out.Kind, out.Detail), PosCase{Kind: "pos", Fam: "ty", Tag: tag})
	}
	var ans []string
	if m != nil {
		var lines []string
		for _, x := range cases {
			lines = append(lines, posBindLine(x))
		}
		var err error
		if ans, err = m.AskBatch(lines); err != nil {
			c.Mismatch(nil, "", err.Error(), "model driver failed (bind)")
			ans = nil
		}
	}
	for id, x := range cases {
		o := got[id]
		offs := posOffenders(x)
		sigBase := "argpos:" + x.Boundary + "/" + x.Variant
		c.Eval(x.key(), true)
		c.Hit("pos:ty:" + x.Boundary + "/" + x.Variant)
		c.SampleSome(map[string]any{"case": x, "what": posDescribe(x), "impl": o}, 997)
		desc := posDescribe(x)
		if !o.found || (!o.ok && !o.denied) {
			viol(c, sigBase+":no-outcome", fmt.Sprintf("no ok/denied marker for %s", desc), x)
			continue
		}
		rep := -1
		if o.denied {
			rep = posReported(o.msg)
		}
		// against the model
		if ans != nil {
			c.Res.Traces++
			impl := ""
			switch {
			case o.ok:
				impl = fmt.Sprintf("ok ran=%d", o.ran)
			case o.ran == 0 && strings.Contains(o.msg, "无法找到变量"):
				impl = "unresolved:unknown"
			case o.ran == 0 && strings.Contains(o.msg, "命名实参覆盖了已经传入的实参"):
				impl = "unresolved:duplicate"
			case strings.HasPrefix(o.class, "Boom"):
				impl = fmt.Sprintf("thr:%d ran=%d", rep, o.ran)
			default:
				impl = fmt.Sprintf("rej:%d ran=%d", rep, o.ran)
			}
			want := ans[id]
			same := impl == want
			if !same && rep < 0 && strings.HasPrefix(impl, "rej:") {
				// the message does not say which argument: compare the kind only
				if k := strings.IndexByte(want, ' '); k >= 0 && strings.HasPrefix(want, "rej:") {
					same = want[k:] == fmt.Sprintf(" ran=%d", o.ran)
				}
			}
			if !same {
				c.Mismatch(x, impl+" ["+firstN(o.msg, 80)+"]", want, "call with several typed parameters: "+desc)
			}
		}
		switch {
		case o.ok && len(offs) > 0:
			f := offs[0]
			why := map[string]string{"mistyped": "does not fit its parameter's declared type", "thrown": "throws while it is evaluated", "missing": "is missing",
				"badname": "(the extra one) names no parameter / a parameter that has its argument already"}[f.kind]
			which := fmt.Sprintf("argument %d", f.q)
			if f.q < 0 {
				which = "one argument"
			}
			viol(c, sigBase+":admitted:"+f.kind+":"+posWhere(x, f.q),
				fmt.Sprintf("a call was accepted although %s %s: %s; the callee's body ran %d time(s) and saw %s", which, why, desc, o.ran, o.val), x)
		case o.denied && len(offs) == 0:
			viol(c, sigBase+":rejects", fmt.Sprintf("a call whose arguments all fit was refused: %s: %s %s", desc, o.class, firstN(o.msg, 120)), x)
		}
		if o.denied && o.ran != 0 {
			viol(c, sigBase+":effect", fmt.Sprintf("the call was refused (%s) but the callee's body ran %d time(s): %s", o.class, o.ran, desc), x)
		}
		if o.ok && len(offs) == 0 {
			if o.ran != 1 {
				viol(c, sigBase+":body-count", fmt.Sprintf("an accepted call ran the callee's body %d times: %s", o.ran, desc), x)
			}
			if want := posExpectArrival(x); o.val != want {
				viol(c, sigBase+":altered", fmt.Sprintf("the arguments arrived as %s, expected %s: %s", o.val, want, desc), x)
			}
		}
		if o.denied && len(offs) > 0 {
			allThrown, allMistyped := true, true
			for _, f := range offs {
				if f.kind != "thrown" {
					allThrown = false
				}
				if f.kind != "mistyped" {
					allMistyped = false
				}
			}
			if allThrown && !strings.HasPrefix(o.class, "Boom") {
				viol(c, sigBase+":exception-replaced", fmt.Sprintf("an argument expression threw Boom but the caller caught %s (%s): %s", o.class, firstN(o.msg, 80), desc), x)
			}
			if allThrown && strings.HasPrefix(o.class, "Boom") && rep >= 0 && rep != posFirstInOrder(x, offs) {
				viol(c, sigBase+":not-first", fmt.Sprintf("argument %d threw first but the exception of argument %d arrived: %s", posFirstInOrder(x, offs), rep, desc), x)
			}
			if allMistyped && rep >= 0 {
				isOff := false
				for _, f := range offs {
					if f.q == rep {
						isOff = true
					}
				}
				switch {
				case !isOff:
					viol(c, sigBase+":not-first", fmt.Sprintf("the refusal talks about argument %d, which fits: %s: %s", rep, desc, firstN(o.msg, 80)), x)
				case (x.Variant == "pos" || x.Variant == "named" || x.Variant == "dfltgiven" || x.Variant == "variadic") && rep != offs[0].q:
					viol(c, sigBase+":not-first", fmt.Sprintf("argument %d is the first that does not fit but the refusal talks about argument %d: %s", offs[0].q, rep, desc), x)
				}
			}
		}
	}
}

// the offender that is evaluated first (parameter order, see posBindLine)
func posFirstInOrder(x PosCase, offs []posOffender) int {
	if len(offs) == 0 {
		return -1
	}
	return offs[0].q
}

// C07_DUMP_POS=dir writes the generated scripts there
func posDump(name, src string) {
	if d := os.Getenv("C07_DUMP_POS"); d != "" {
		os.WriteFile(d+"/pos_"+name+".php", []byte(src), 0o644)
	}
}

// ------------------------------------------------------------ past failures run first
//
// The type vectors of fam "ty" and "store" are seeded, so the input that once showed a defect is not part of every
// run. Every `pos` replay recorded in props/C07.json (fixed and known entries alike) is therefore put in front of the
// enumerated cases of its family in every run, under this run's fixture names; a case the enumeration contains anyway
// (fam "vis" is enumerated completely) is not run twice.
var (
	posPinnedOnce sync.Once
	posPinnedAll  []PosCase
	posPinnedNote string
)

func posPinnedLoad() {
	var b []byte
	var err error
	for _, p := range []string{"../props/C07.json", "props/C07.json", "/verif/props/C07.json"} {
		if b, err = os.ReadFile(p); err == nil {
			break
		}
	}
	if err != nil {
		posPinnedNote = "props/C07.json not found: the recorded pos replays were not re-run"
		return
	}
	var props struct {
		Known []struct {
			ID     string          `json:"id"`
			Replay json.RawMessage `json:"replay"`
		} `json:"known_findings"`
	}
	if err := json.Unmarshal(b, &props); err != nil {
		posPinnedNote = "props/C07.json does not parse: " + err.Error()
		return
	}
	nt, nv := len(tyDecls()), len(valDecls())
	for _, k := range props.Known {
		var x PosCase
		if len(k.Replay) == 0 || json.Unmarshal(k.Replay, &x) != nil || x.Kind != "pos" {
			continue
		}
		ok := true
		for _, t := range x.Tys {
			ok = ok && t >= 0 && t < nt
		}
		for _, a := range x.Args {
			ok = ok && a >= argMissing && a < nv
		}
		if x.Fam != "vis" && (len(x.Tys) == 0 || len(x.Args) < len(x.Tys)) {
			ok = false
		}
		if !ok {
			posPinnedNote = "recorded replay of " + k.ID + " does not fit the type / value tables any more"
			continue
		}
		posPinnedAll = append(posPinnedAll, x)
	}
}

func posPinned(c *vh.Ctx, fam, tag string, have []PosCase) []PosCase {
	posPinnedOnce.Do(posPinnedLoad)
	if posPinnedNote != "" {
		c.Note("%s", posPinnedNote)
		posPinnedNote = ""
	}
	seen := map[string]bool{}
	for _, x := range have {
		seen[x.key()] = true
	}
	var out []PosCase
	for _, x := range posPinnedAll {
		if x.Fam != fam {
			continue
		}
		x.Tag = tag
		c.Hit("pos:pinned:" + fam)
		if seen[x.key()] {
			continue
		}
		seen[x.key()] = true
		out = append(out, x)
	}
	return out
}

func runPos(c *vh.Ctx, m *vh.Model, tag string, only *PosCase) {
	if only != nil {
		switch only.Fam {
		case "ty":
			runPosTypes(c, m, tag, only)
		case "store":
			runPosStores(c, m, tag, only)
		case "vis":
			runPosVis(c, m, tag, only)
		}
		return
	}
	runPosTypes(c, m, tag, nil)
	runPosStores(c, m, tag+"s", nil)
	runPosVis(c, m, tag+"v", nil)
}

// ------------------------------------------------------------ fam "store": several typed properties written in one go

var posStoreForms = []string{"seq", "dynseq", "idxseq", "list", "methbody", "ctorbody"}

func posStoreDeclare(sb *strings.Builder, tag string, id int, tys []int) {
	at := func(s string) string { return strings.ReplaceAll(s, "@", tag) }
	td := tyDecls()
	fmt.Fprintf(sb, "class TS%s_%d {\n", tag, id)
	var looks, params, sets []string
	for i, t := range tys {
		fmt.Fprintf(sb, "  public %s $p%d;\n", at(td[t].Src), i)
		looks = append(looks, fmt.Sprintf("tg%s($this->p%d)", tag, i))
		params = append(params, fmt.Sprintf("$x%d", i))
		sets = append(sets, fmt.Sprintf("$this->p%d = $x%d;", i, i))
	}
	fmt.Fprintf(sb, "  public function look() { return %s; }\n", strings.Join(looks, " . \",\" . "))
	fmt.Fprintf(sb, "  public function setAll(%s) { %s hit%s(0); }\n", strings.Join(params, ", "), strings.Join(sets, " "), tag)
	sb.WriteString("}\n")
	// the same slots filled by a constructor body; the object under construction is handed out first so that
	// what a refused construction left behind can be looked at
	fmt.Fprintf(sb, "class TK%s_%d extends TS%s_%d {\n  public function __construct($box, %s) { $box->o = $this; %s hit%s(0); }\n}\n",
		tag, id, tag, id, strings.Join(params, ", "), strings.Join(sets, " "), tag)
}

func posStoreStmt(tag string, form string, id int, x PosCase) string {
	tys, vals := tyDecls(), valDecls()
	var srcs []string
	for q, a := range x.Args {
		bad := !tys[x.Tys[q]].Denotes(vals[a].Name)
		srcs = append(srcs, posValSrc(tag, a, q, bad))
	}
	var st []string
	switch form {
	case "seq":
		for q, s := range srcs {
			st = append(st, fmt.Sprintf("$so->p%d = %s;", q, s))
		}
	case "dynseq":
		for q, s := range srcs {
			st = append(st, fmt.Sprintf("$pn = \"p%d\"; $so->$pn = %s;", q, s))
		}
	case "idxseq":
		for q, s := range srcs {
			st = append(st, fmt.Sprintf("$so[\"p%d\"] = %s;", q, s))
		}
	case "list":
		var l []string
		for q := range srcs {
			l = append(l, fmt.Sprintf("$so->p%d", q))
		}
		st = append(st, fmt.Sprintf("[%s] = [%s];", strings.Join(l, ", "), strings.Join(srcs, ", ")))
	case "methbody":
		st = append(st, fmt.Sprintf("$so->setAll(%s);", strings.Join(srcs, ", ")))
	case "ctorbody":
		st = append(st, fmt.Sprintf("$nk = new TK%s_%d($box, %s);", tag, id, strings.Join(srcs, ", ")))
	}
	return strings.Join(st, " ")
}

func posStoreScript(tag string, cases []PosCase) string {
	var sb strings.Builder
	sb.WriteString("<?php\n")
	posPrelude(&sb, tag)
	fmt.Fprintf(&sb, "class Box%s { public $o = null; }\n", tag)
	ids := map[string]int{}
	for _, x := range cases {
		k := fmt.Sprint(x.Tys)
		if _, ok := ids[k]; !ok {
			ids[k] = len(ids)
			posStoreDeclare(&sb, tag, ids[k], x.Tys)
		}
	}
	for id, x := range cases {
		g := ids[fmt.Sprint(x.Tys)]
		posCellOpen(&sb, tag)
		fmt.Fprintf(&sb, "$so = new TS%s_%d(); $box = new Box%s();\n", tag, g, tag)
		fmt.Fprintf(&sb, "try { %s $r = \"ok=-\"; } %s\n", posStoreStmt(tag, x.Boundary, g, x), posCatch)
		if x.Boundary == "ctorbody" {
			sb.WriteString("if ($box->o !== null) { $so = $box->o; }\n")
		}
		sb.WriteString("$st = $so->look();\n")
		posCellClose(&sb, tag, id)
	}
	return sb.String()
}

func posStoreCases(c *vh.Ctx, tag string) []PosCase {
	var cases []PosCase
	for _, form := range posStoreForms {
		for n := 2; n <= 4; n++ {
			for _, tys := range posTyVectors(c, n, c.N(1, 3), nil) {
				base := make([]int, n)
				for q := range base {
					in := posInside(c, tys[q])
					base[q] = in[c.Rand.Intn(len(in))]
					if valDecls()[base[q]].Name == "null" && len(in) > 1 {
						// a slot that still holds null must mean "never written"
						for _, j := range in {
							if valDecls()[j].Name != "null" {
								base[q] = j
								break
							}
						}
					}
				}
				mk := func(a []int) {
					cases = append(cases, PosCase{Kind: "pos", Fam: "store", Tag: tag, Boundary: form, Tys: tys, Args: a})
				}
				mk(append([]int{}, base...))
				bad := func(q int) int {
					cd, ot := posOutside(tys[q])
					var all []int
					for _, j := range append(cd, ot...) {
						if valDecls()[j].Name != "null" {
							all = append(all, j)
						}
					}
					return all[c.Rand.Intn(len(all))]
				}
				for q := 0; q < n; q++ {
					a := append([]int{}, base...)
					a[q] = bad(q)
					mk(a)
				}
				for i := 0; i < n; i++ {
					for j := i + 1; j < n; j++ {
						a := append([]int{}, base...)
						a[i], a[j] = bad(i), bad(j)
						mk(a)
					}
				}
			}
		}
	}
	return cases
}

func runPosStores(c *vh.Ctx, m *vh.Model, tag string, only *PosCase) {
	var cases []PosCase
	if only != nil {
		cases = []PosCase{*only}
	} else {
		cases = posStoreCases(c, tag)
		cases = append(posPinned(c, "store", tag, cases), cases...)
	}
	src := posStoreScript(tag, cases)
	posDump("store", src)
	out := vh.RunFresh(src)
	got := parsePosOut(out.Out)
	if out.Kind != "ok" {
		viol(c, "storepos:script-"+out.Kind, fmt.Sprintf("the multi-slot script ended with %s: %s", out.Kind, out.Detail), PosCase{Kind: "pos", Fam: "store", Tag: tag})
	}
	tys, vals := tyDecls(), valDecls()
	at := func(s string) string { return strings.ReplaceAll(s, "@", tag) }
	var ans []string
	if m != nil {
		var lines []string
		for _, x := range cases {
			var slots []string
			for q, a := range x.Args {
				slots = append(slots, fmt.Sprintf("%s,%s,%s", posStoreBoundary(x.Boundary), vals[a].Model, tyTokens(x.Tys[q])))
			}
			lines = append(lines, "sseq\t"+typeH+"\t"+strings.Join(slots, ";"))
		}
		var err error
		if ans, err = m.AskBatch(lines); err != nil {
			c.Mismatch(nil, "", err.Error(), "model driver failed (sseq)")
			ans = nil
		}
	}
	for id, x := range cases {
		o := got[id]
		sigBase := "storepos:" + x.Boundary
		c.Eval(x.key(), true)
		c.Hit("pos:store:" + x.Boundary)
		first := -1
		var want, ps, as []string
		for q, a := range x.Args {
			in := tys[x.Tys[q]].Denotes(vals[a].Name)
			if !in && first < 0 {
				first = q
			}
			if first < 0 {
				want = append(want, at(vals[a].Tag))
			} else {
				want = append(want, "null")
			}
			ps = append(ps, tys[x.Tys[q]].Src)
			if in {
				as = append(as, vals[a].Name)
			} else {
				as = append(as, vals[a].Name+"(!)")
			}
		}
		desc := fmt.Sprintf("%s (%s) <- (%s)", x.Boundary, strings.Join(ps, ", "), strings.Join(as, ", "))
		c.SampleSome(map[string]any{"case": x, "what": desc, "impl": o}, 499)
		if !o.found || (!o.ok && !o.denied) {
			viol(c, sigBase+":no-outcome", "no ok/denied marker for "+desc, x)
			continue
		}
		if ans != nil {
			c.Res.Traces++
			impl := "ok"
			if o.denied {
				impl = "rej"
			}
			impl += " " + strings.ReplaceAll(o.state, ",", ".")
			wantM := ans[id]
			// the model answers in value kinds; the script in tags
			if k := strings.IndexByte(wantM, ' '); k >= 0 {
				var ts []string
				for _, v := range strings.Split(wantM[k+1:], ".") {
					t := v
					for _, vd := range vals {
						if vd.Model == v {
							t = at(vd.Tag)
						}
					}
					if v == "-" {
						t = "null"
					}
					ts = append(ts, t)
				}
				head := wantM[:k]
				if strings.HasPrefix(head, "rej") {
					head = "rej"
				}
				wantM = head + " " + strings.Join(ts, ".")
			}
			if impl != wantM {
				c.Mismatch(x, impl, wantM, "several typed slots written in one go: "+desc)
			}
		}
		state := strings.Split(o.state, ",")
		switch {
		case o.ok && first >= 0:
			if first < len(state) && state[first] != "null" {
				viol(c, sigBase+":admitted", fmt.Sprintf("slot %d now holds a %s value although it is declared %s: %s (state %s)", first, state[first], tys[x.Tys[first]].Src, desc, o.state), x)
			} else {
				viol(c, sigBase+":silent", fmt.Sprintf("slot %d refused its value without any error reaching the script: %s (state %s)", first, desc, o.state), x)
			}
		case o.denied && first < 0:
			viol(c, sigBase+":rejects", fmt.Sprintf("every value fits but the stores were refused: %s: %s %s", desc, o.class, firstN(o.msg, 100)), x)
		}
		if o.state != strings.Join(want, ",") && !(o.ok && first >= 0) {
			viol(c, sigBase+":effect", fmt.Sprintf("after %s the slots hold %s, expected %s (everything before the first refused store, nothing from it on)", desc, o.state, strings.Join(want, ",")), x)
		}
		if o.denied && first >= 0 {
			if rep := posReported(o.msg); rep >= 0 && rep != first {
				viol(c, sigBase+":not-first", fmt.Sprintf("slot %d is the first whose value does not fit but the refusal talks about the value of slot %d: %s", first, rep, desc), x)
			}
			if (x.Boundary == "methbody" || x.Boundary == "ctorbody") && o.ran != 0 {
				viol(c, sigBase+":effect", fmt.Sprintf("the body went on after a refused store: %s", desc), x)
			}
		}
	}
}

func posStoreBoundary(form string) string {
	switch form {
	case "dynseq":
		return "dynPropStore"
	case "idxseq":
		return "idxStore"
	}
	return "propStore"
}

// ------------------------------------------------------------ fam "vis": several member accesses in one expression

var posVisContainers = []string{"fnargs", "methargs", "staticargs", "ctorargs", "closargs", "array", "assoc", "concat", "plus", "writes", "listwrites"}
var posVisReadPaths = []string{"propRead", "dynPropRead", "idxRead", "methCall", "dynMeth", "staticMeth"}
var posVisWritePaths = []string{"propWrite", "dynPropWrite", "idxWrite"}
var posVisSites = []string{"outside", "unrelated", "subclass"}

func posVisIsWrite(container string) bool { return container == "writes" || container == "listwrites" }

func posVisPrelude(sb *strings.Builder, tag string) {
	posPrelude(sb, tag)
	fmt.Fprintf(sb, `class VD%[1]s {
  public $pw0 = 0; public $pw1 = 0; public $pw2 = 0;
  private $p_priv = 7; protected $p_prot = 7;
  public function ma($i) { LG%[1]s::$log = LG%[1]s::$log . "a" . $i . "."; return $i; }
  private function m_priv($i) { LG%[1]s::$log = LG%[1]s::$log . "V" . $i . "."; return $i; }
  protected function m_prot($i) { LG%[1]s::$log = LG%[1]s::$log . "V" . $i . "."; return $i; }
  private static function s_priv($i) { LG%[1]s::$log = LG%[1]s::$log . "V" . $i . "."; return $i; }
  protected static function s_prot($i) { LG%[1]s::$log = LG%[1]s::$log . "V" . $i . "."; return $i; }
  public function m3($x, $y, $z) { return hit%[1]s("m"); }
  public static function s3($x, $y, $z) { return hit%[1]s("s"); }
  public function look() { return $this->pw0 . "," . $this->pw1 . "," . $this->pw2 . "," . $this->p_priv . "," . $this->p_prot; }
}
class VC%[1]s { public function __construct($x, $y, $z) { hit%[1]s("c"); } }
function vf%[1]s($x, $y, $z) { return hit%[1]s("f"); }
$vcl = function($x, $y, $z) { return hit%[1]s("l"); };
`, tag)
}

// operand i of a cell: the guarded access when i is a refused position, a public method call otherwise
func posVisOperand(tag string, x PosCase, i int, guarded bool) string {
	if !guarded {
		if posVisIsWrite(x.Boundary) {
			return fmt.Sprintf("$o->pw%d", i)
		}
		return fmt.Sprintf("$o->ma(%d)", i)
	}
	m := x.Mod
	switch x.Variant {
	case "propRead", "propWrite":
		return "$o->p_" + m
	case "dynPropRead", "dynPropWrite":
		return "$o->{$n_" + m + "}"
	case "idxRead", "idxWrite":
		return "$o[\"p_" + m + "\"]"
	case "methCall":
		return fmt.Sprintf("$o->m_%s(%d)", m, i)
	case "dynMeth":
		return fmt.Sprintf("$o->{$f_%s}(%d)", m, i)
	case "staticMeth":
		return fmt.Sprintf("VD%s::s_%s(%d)", tag, m, i)
	}
	return "null"
}

func posVisBody(tag string, x PosCase) string {
	isBad := map[int]bool{}
	for _, b := range x.Bad {
		isBad[b] = true
	}
	var ops []string
	for i := 0; i < 3; i++ {
		ops = append(ops, posVisOperand(tag, x, i, isBad[i]))
	}
	pre := fmt.Sprintf("$n_priv = \"p_priv\"; $n_prot = \"p_prot\"; $f_priv = \"m_priv\"; $f_prot = \"m_prot\"; ")
	switch x.Boundary {
	case "fnargs":
		return pre + fmt.Sprintf("return vf%s(%s);", tag, strings.Join(ops, ", "))
	case "methargs":
		return pre + fmt.Sprintf("return $o->m3(%s);", strings.Join(ops, ", "))
	case "staticargs":
		return pre + fmt.Sprintf("return VD%s::s3(%s);", tag, strings.Join(ops, ", "))
	case "ctorargs":
		return pre + fmt.Sprintf("$c = new VC%s(%s); return \"c\";", tag, strings.Join(ops, ", "))
	case "closargs":
		return pre + fmt.Sprintf("return $cl(%s);", strings.Join(ops, ", "))
	case "array":
		return pre + fmt.Sprintf("$t = [%s]; return count($t);", strings.Join(ops, ", "))
	case "assoc":
		return pre + fmt.Sprintf("$t = [\"k0\" => %s, \"k1\" => %s, \"k2\" => %s]; return \"3\";", ops[0], ops[1], ops[2])
	case "concat":
		return pre + fmt.Sprintf("$t = %s; return \"3\";", strings.Join(ops, " . "))
	case "plus":
		return pre + fmt.Sprintf("$t = %s; return \"3\";", strings.Join(ops, " + "))
	case "writes":
		var st []string
		for i, op := range ops {
			st = append(st, fmt.Sprintf("%s = %d;", op, 10+i))
		}
		return pre + strings.Join(st, " ") + " return \"3\";"
	case "listwrites":
		return pre + fmt.Sprintf("[%s] = [10, 11, 12]; return \"3\";", strings.Join(ops, ", "))
	}
	return "return \"?\";"
}

func posVisCases(c *vh.Ctx, tag string) []PosCase {
	var cases []PosCase
	bads := [][]int{{}, {0}, {1}, {2}, {0, 2}, {1, 2}}
	for _, site := range posVisSites {
		for _, cont := range posVisContainers {
			paths := posVisReadPaths
			if posVisIsWrite(cont) {
				paths = posVisWritePaths
			}
			for _, path := range paths {
				for _, mod := range []string{"priv", "prot"} {
					if site == "subclass" && mod == "prot" && strings.HasPrefix(path, "idx") {
						// `$o['p']` lets through public members only, also where PHP allows more: an over-refusal,
						// counted by the matrix (acc:over-denied), not a violation of "usable only from …"
						continue
					}
					for _, b := range bads {
						cases = append(cases, PosCase{Kind: "pos", Fam: "vis", Tag: tag, Boundary: cont, Variant: path, Mod: mod, Site: site, Bad: b})
					}
				}
			}
		}
	}
	return cases
}

func posVisScript(tag string, cases []PosCase) string {
	var sb strings.Builder
	sb.WriteString("<?php\n")
	posVisPrelude(&sb, tag)
	var sub, unr strings.Builder
	for id, x := range cases {
		switch x.Site {
		case "subclass":
			fmt.Fprintf(&sub, "  public static function c%d($o, $cl) { %s }\n", id, posVisBody(tag, x))
		case "unrelated":
			fmt.Fprintf(&unr, "  public static function c%d($o, $cl) { %s }\n", id, posVisBody(tag, x))
		default:
			fmt.Fprintf(&sb, "function vo%s_%d($o, $cl) { %s }\n", tag, id, posVisBody(tag, x))
		}
	}
	fmt.Fprintf(&sb, "class VS%s extends VD%s {\n%s}\nclass VU%s {\n%s}\n", tag, tag, sub.String(), tag, unr.String())
	for id, x := range cases {
		posCellOpen(&sb, tag)
		call := fmt.Sprintf("vo%s_%d($o, $vcl)", tag, id)
		switch x.Site {
		case "subclass":
			call = fmt.Sprintf("VS%s::c%d($o, $vcl)", tag, id)
		case "unrelated":
			call = fmt.Sprintf("VU%s::c%d($o, $vcl)", tag, id)
		}
		fmt.Fprintf(&sb, "$o = new VD%s();\ntry { $v = %s; $r = \"ok=\" . $v; } %s\n$st = $o->look();\n", tag, call, posCatch)
		posCellClose(&sb, tag, id)
	}
	return sb.String()
}

// PHP's rule for the three sites of this fixture (the guarded members are declared by VD; VS extends VD; VU is unrelated)
func posVisAllowed(x PosCase) bool {
	return x.Site == "subclass" && x.Mod == "prot"
}

func posVisModelPath(path string) (string, string) {
	switch path {
	case "propWrite", "dynPropWrite", "idxWrite":
		return path, "write1"
	case "methCall", "dynMeth", "staticMeth":
		return path, "call"
	}
	return path, "read"
}

// model request: the operands as `seq` items evaluated left to right until the first refusal
func posVisLine(x PosCase) string {
	isBad := map[int]bool{}
	for _, b := range x.Bad {
		isBad[b] = true
	}
	ctx := "-"
	switch x.Site {
	case "subclass":
		ctx = "2"
	case "unrelated":
		ctx = "3"
	}
	var items []string
	for i := 0; i < 3; i++ {
		path, mod, op, key := "methCall", "pub", "call", i+1
		if posVisIsWrite(x.Boundary) {
			path, op = "propWrite", "write1"
		}
		if isBad[i] {
			path, op = posVisModelPath(x.Variant)
			mod = x.Mod
			key = 9
		}
		items = append(items, fmt.Sprintf("a,%s,other,%s,%s,%s,1,1,%s,%d,%d", path, mod, ctx, ctx, op, key, 10+i))
	}
	return "eargs\t1,-,-;2,1,-;3,-,-\t" + strings.Join(items, ";")
}

func runPosVis(c *vh.Ctx, m *vh.Model, tag string, only *PosCase) {
	var cases []PosCase
	if only != nil {
		cases = []PosCase{*only}
	} else {
		cases = posVisCases(c, tag)
		cases = append(posPinned(c, "vis", tag, cases), cases...)
	}
	src := posVisScript(tag, cases)
	posDump("vis", src)
	out := vh.RunFresh(src)
	got := parsePosOut(out.Out)
	if out.Kind != "ok" {
		viol(c, "vispos:script-"+out.Kind, fmt.Sprintf("the multi-access script ended with %s: %s", out.Kind, out.Detail), PosCase{Kind: "pos", Fam: "vis", Tag: tag})
	}
	var ans []string
	if m != nil {
		var lines []string
		for _, x := range cases {
			lines = append(lines, posVisLine(x))
		}
		var err error
		if ans, err = m.AskBatch(lines); err != nil {
			c.Mismatch(nil, "", err.Error(), "model driver failed (eargs)")
			ans = nil
		}
	}
	for id, x := range cases {
		o := got[id]
		sigBase := "vispos:" + x.Boundary + ":" + x.Variant
		c.Eval(x.key(), len(x.Bad) > 0)
		c.Hit("pos:vis:" + x.Boundary)
		desc := fmt.Sprintf("%s with a %s %s access at position(s) %v of 3, from %s code", x.Boundary, x.Mod, x.Variant, x.Bad, x.Site)
		c.SampleSome(map[string]any{"case": x, "what": desc, "impl": o}, 499)
		if !o.found || (!o.ok && !o.denied) {
			viol(c, sigBase+":no-outcome", "no ok/denied marker for "+desc, x)
			continue
		}
		refusedAt := -1 // the first operand PHP refuses
		if len(x.Bad) > 0 && !posVisAllowed(x) {
			refusedAt = x.Bad[0]
		}
		// what the operands before the refusal did, what nothing after it may have done
		isBad := map[int]bool{}
		for _, b := range x.Bad {
			isBad[b] = true
		}
		wantLog, wantState := "", []string{"0", "0", "0", "7", "7"}
		call := x.Variant == "methCall" || x.Variant == "dynMeth" || x.Variant == "staticMeth"
		for i := 0; i < 3; i++ {
			if refusedAt >= 0 && i >= refusedAt {
				break
			}
			switch {
			case posVisIsWrite(x.Boundary) && isBad[i]:
				if x.Mod == "priv" {
					wantState[3] = strconv.Itoa(10 + i)
				} else {
					wantState[4] = strconv.Itoa(10 + i)
				}
			case posVisIsWrite(x.Boundary):
				wantState[i] = strconv.Itoa(10 + i)
			case isBad[i] && call:
				wantLog += fmt.Sprintf("V%d.", i)
			case isBad[i]:
			default:
				wantLog += fmt.Sprintf("a%d.", i)
			}
		}
		wantRan := 0
		if refusedAt < 0 && !posVisIsWrite(x.Boundary) {
			switch x.Boundary {
			case "fnargs", "methargs", "staticargs", "ctorargs", "closargs":
				wantRan = 1
			}
		}
		if ans != nil {
			c.Res.Traces++
			impl := "ok"
			if o.denied {
				impl = "den"
			}
			st := strings.Split(o.state, ",")
			evald := strings.Count(o.log, ".")
			impl += fmt.Sprintf(" n=%d", evald)
			if posVisIsWrite(x.Boundary) {
				n := 0
				for i := 0; i < 5 && i < len(st); i++ {
					if (i < 3 && st[i] != "0") || (i >= 3 && st[i] != "7") {
						n++
					}
				}
				impl = impl[:strings.IndexByte(impl, ' ')] + fmt.Sprintf(" n=%d", n)
			}
			want := ans[id]
			if k := strings.Index(want, ":"); k >= 0 && strings.HasPrefix(want, "den") {
				// `den:<i> n=<k>`: the index is checked through n (operands before the refusal all act)
				want = "den" + want[strings.IndexByte(want, ' '):]
			}
			// a refused or allowed property READ leaves no trace in the log
			if !call && !posVisIsWrite(x.Boundary) {
				impl = impl[:strings.IndexByte(impl, ' ')]
				if k := strings.IndexByte(want, ' '); k >= 0 {
					want = want[:k]
				}
			}
			if impl != want {
				c.Mismatch(x, impl+" ["+o.log+"|"+o.state+"]", ans[id], "several member accesses in one expression: "+desc)
			}
		}
		switch {
		case o.ok && refusedAt >= 0 && posVisIsWrite(x.Boundary) && strings.HasSuffix(o.state, ",7,7"):
			viol(c, sigBase+":silent", fmt.Sprintf("operand %d may not be written from there; it was skipped without any error reaching the script and the rest went on: %s (state %s)", refusedAt, desc, o.state), x)
			continue
		case o.ok && refusedAt >= 0:
			viol(c, sigBase+":admitted", fmt.Sprintf("the expression was evaluated although operand %d may not be used from there: %s (log %s, state %s)", refusedAt, desc, o.log, o.state), x)
			continue
		case o.denied && refusedAt < 0:
			viol(c, sigBase+":rejects", fmt.Sprintf("every access is allowed but the expression was refused: %s: %s %s", desc, o.class, firstN(o.msg, 100)), x)
			continue
		}
		if o.ran != wantRan {
			viol(c, sigBase+":effect", fmt.Sprintf("the callee ran %d time(s), expected %d: %s", o.ran, wantRan, desc), x)
		}
		if strings.Contains(o.log, "V") && refusedAt >= 0 {
			viol(c, sigBase+":effect", fmt.Sprintf("the body of a method that may not be called ran (log %s): %s", o.log, desc), x)
		}
		if o.state != strings.Join(wantState, ",") {
			viol(c, sigBase+":effect", fmt.Sprintf("the members hold %s, expected %s (writes before the refusal, nothing from it on): %s", o.state, strings.Join(wantState, ","), desc), x)
		}
		if o.log != wantLog {
			viol(c, sigBase+":order", fmt.Sprintf("the operands that ran: %s, expected %s (left to right up to the refusal): %s", o.log, wantLog, desc), x)
		}
	}
}
