package c07

import (
	"fmt"
	"strconv"
	"strings"

	"verif/harness/vh"
)

// ------------------------------------------------------------ three classes decide an access: shadowing stream
//
// The matrices let ONE class (D) declare every member, so the class that declares the member, the class of the
// receiver object and "some class of the chain that also declares the name" never differ in an interesting way.
// `node/visibility.go canAccessDeclared` however decides on three classes — the class whose code runs (scope),
// the class of the receiver and the class whose declaration the lookup from the receiver finds — plus the
// question whether the scope class itself declares a member of that name (PHP: the scope class's own private
// member wins when the receiver is an instance of the scope class).
//
// This stream enumerates linear chains K0 <- K1 <- … of 2..4 classes (+ an unrelated class X) × which classes
// declare the member (every subset, every modifier per declaring class, restricted to what PHP accepts: a
// redeclaration never reduces the visibility of a non-private inherited member) × member kind (instance property,
// instance method, static method) × scope (every class of the chain, X, a plain function) × class of the receiver
// (every class of the chain that has the member; `$this` where the receiver's class inherits the scope class, and
// a passed-in object always) × every access path of the matrix that goes through `->`, `[…]`, `unset`, `foreach`
// (+ closures created in the scope). Oracle, no model involved (shadowAllowed):
//
//	scope S declares the name PRIVATE and the receiver's class is S or inherits it        → allowed (S's own member)
//	otherwise: d = nearest class at or above the receiver's class that declares the name  → PHP's rule on (S, d, modifier in d)
//
// plus: a denied access leaves the object and the call counter unchanged, an allowed write / call has its effect,
// and the method body that runs belongs to a class whose member the scope may use.
type ShadowCase struct {
	Kind   string   `json:"kind"` // "shadow"
	Tag    string   `json:"tag"`
	Decl   []string `json:"decl"`   // per class (K0 = root): "" | pub | prot | priv
	Par    []int    `json:"par,omitempty"` // round 7: parent index per class (-1 = root, par[i] < i); absent = the linear chain
	Member string   `json:"member"` // prop | meth | smeth
	Cell   string   `json:"cell,omitempty"`
}

type shPath struct {
	Name string
	Op   string // read | write | call | unset
	Idx  bool   // `[…]` paths: public only by design (over-refusals are not judged)
	Body func(r string) string
}

func shPropPaths() []shPath {
	return []shPath{
		{"propRead", "read", false, func(r string) string { return "return " + r + "->p;" }},
		{"propWrite", "write", false, func(r string) string { return r + "->p = 77; return 0;" }},
		{"unsetProp", "unset", false, func(r string) string { return "unset(" + r + "->p); return 0;" }},
		{"dynPropRead", "read", false, func(r string) string { return "$n = \"p\"; return " + r + "->$n;" }},
		{"dynPropWrite", "write", false, func(r string) string { return "$n = \"p\"; " + r + "->$n = 77; return 0;" }},
		{"idxRead", "read", true, func(r string) string { return "return " + r + "[\"p\"];" }},
		{"idxWrite", "write", true, func(r string) string { return r + "[\"p\"] = 77; return 0;" }},
		{"unsetIdx", "unset", true, func(r string) string { return "unset(" + r + "[\"p\"]); return 0;" }},
		{"iterate", "read", false, func(r string) string {
			return "foreach (" + r + " as $k => $v) { if ($k == \"p\") { return $v; } } throw new \\Exception(\"hidden\");"
		}},
	}
}

func shMethPaths(name string) []shPath {
	return []shPath{
		{"methCall", "call", false, func(r string) string { return "return " + r + "->" + name + "();" }},
		{"dynMeth", "call", false, func(r string) string { return "$n = \"" + name + "\"; return " + r + "->$n();" }},
	}
}

type shCell struct {
	ID    int
	Scope int    // chain index, n = X, -1 = plain function
	Kind  string // inst | closure | func
	Recv  string // o | this
	R     int    // class of the receiver object
	Path  shPath
}

func (c shCell) key() string {
	return fmt.Sprintf("%d/%s/%s/%d/%s", c.Scope, c.Kind, c.Recv, c.R, c.Path.Name)
}

type shFix struct {
	cs  ShadowCase
	n   int
	par []int // parent index per class, -1 = no parent
}

func newShFix(cs ShadowCase) *shFix {
	f := &shFix{cs: cs, n: len(cs.Decl)}
	f.par = make([]int, f.n)
	for i := range f.par {
		f.par[i] = i - 1
		if i < len(cs.Par) && cs.Par[i] < i {
			f.par[i] = cs.Par[i]
		}
	}
	return f
}

func (f *shFix) isChain() bool {
	for i, p := range f.par {
		if p != i-1 {
			return false
		}
	}
	return true
}

// anc: a is b or an ancestor of b (both classes of the tree)
func (f *shFix) anc(a, b int) bool {
	if a < 0 || a >= f.n || b < 0 || b >= f.n {
		return false
	}
	for c := b; c >= 0; c = f.par[c] {
		if c == a {
			return true
		}
	}
	return false
}

func (f *shFix) inLine(a, b int) bool { return f.anc(a, b) || f.anc(b, a) }

func (f *shFix) cls(i int) string {
	if i == f.n {
		return "X" + f.cs.Tag
	}
	return fmt.Sprintf("K%d%s", i, f.cs.Tag)
}

// nearest: the class at or above r (towards K0) that declares the name, -1 if none
func (f *shFix) nearest(r int) int {
	if r >= f.n {
		return -1
	}
	for i := r; i >= 0; i = f.par[i] {
		if f.cs.Decl[i] != "" {
			return i
		}
	}
	return -1
}

// judged: the class a PROTECTED member found in d is judged by (PHP 8.0, the version origami reports).
// Methods: the class of the method's prototype (zend_get_function_root_class) — from d upwards through the
// next declaring ancestor as long as that declaration is not private (a private method is not a prototype:
// the redeclaration starts a new member). Properties: the class of the nearest declaration itself
// (zend_get_property_offset tests property_info->ce, which a redeclaration sets to the redeclaring class;
// PHP 8.4 moved properties to the prototype rule too).
func (f *shFix) judged(d int) int {
	if f.cs.Member == "prop" || f.cs.Decl[d] != "prot" {
		return d
	}
	j := d
	for j >= 0 && f.par[j] >= 0 {
		a := f.nearest(f.par[j])
		if a < 0 || f.cs.Decl[a] == "priv" {
			break
		}
		j = a
	}
	return j
}

// rule: PHP's rule on (scope, declaring class d, modifier)
func (f *shFix) rule(mod string, scope, d int) bool {
	switch mod {
	case "pub":
		return true
	case "priv":
		return scope == d
	}
	return f.inLine(scope, f.judged(d)) // the scope class is the judged class, inherits it or is inherited by it
}

func (f *shFix) shadowAllowed(scope, r int) bool {
	if f.anc(scope, r) && f.cs.Decl[scope] == "priv" {
		return true
	}
	d := f.nearest(r)
	return f.rule(f.cs.Decl[d], scope, d)
}

func (f *shFix) rel(scope, d int) string {
	switch {
	case scope < 0:
		return "outside"
	case scope == f.n:
		return "unrelated"
	case scope == d:
		return "same"
	case f.anc(d, scope):
		return "descendant"
	case f.anc(scope, d):
		return "ancestor"
	}
	return "sibling" // a class of the tree that is neither above nor below d
}

// validPHP: a redeclaration never reduces the visibility of a non-private member of an ancestor
func shValid(decl []string) bool {
	par := make([]int, len(decl))
	for i := range par {
		par[i] = i - 1
	}
	return shValidTree(par, decl)
}

// the same on a tree: every declaration against the nearest declaration above it
func shValidTree(par []int, decl []string) bool {
	rank := map[string]int{"priv": 0, "prot": 1, "pub": 2}
	any := false
	for i, d := range decl {
		if d == "" {
			continue
		}
		any = true
		for a := par[i]; a >= 0; a = par[a] {
			if decl[a] != "" {
				if decl[a] != "priv" && rank[d] < rank[decl[a]] {
					return false
				}
				break
			}
		}
	}
	return any
}

func shDecls(n int) [][]string {
	par := make([]int, n)
	for i := range par {
		par[i] = i - 1
	}
	return shDeclsTree(par)
}

func shDeclsTree(par []int) [][]string {
	n := len(par)
	opts := []string{"", "pub", "prot", "priv"}
	var out [][]string
	total := 1
	for i := 0; i < n; i++ {
		total *= 4
	}
	for k := 0; k < total; k++ {
		d := make([]string, n)
		x := k
		for i := 0; i < n; i++ {
			d[i] = opts[x%4]
			x /= 4
		}
		if shValidTree(par, d) {
			out = append(out, d)
		}
	}
	return out
}

func (f *shFix) paths() []shPath {
	switch f.cs.Member {
	case "prop":
		return shPropPaths()
	case "meth":
		return shMethPaths("f")
	}
	return shMethPaths("sf")
}

// round 8: the CALLABLE KIND the accessing code sits in. The rule judges the class where the code is WRITTEN, so
// the outcome of a cell must not depend on how that code came to run: an ordinary method (inst), a static method,
// a generator method whose body runs after the call returned (the access behind the first `yield` / before the
// last one), a closure created in a method (called inside it: closure; returned and called after the method
// returned: defer; an arrow function), the method entered through a callable array held in a variable.
// Each of these enters the interpreter through a path of its own (ClassMethod.Call's early return for generators,
// LambdaExpression.Call, call_user_func …) and each path has to establish the scope class itself.
// Not here: `call_user_func([$s, "m"], …)` from outside a class panics inside the interpreter (a crash, not a
// visibility decision), and a first-class callable `$s->m(...)` / a callable array handed to a native function run
// without / in the CALLER's class context — fixed programs of the scope stream (scope.go) carry those.
var shExtraKinds = []string{"gen", "genafter", "static", "defer", "arrow", "carray"}

func shKindApplies(k string, p shPath) bool {
	three := p.Name == "propRead" || p.Name == "propWrite" || p.Name == "methCall"
	switch k {
	case "gen", "genafter":
		return p.Name != "iterate" // straight-line bodies only: `yield` inside the interpreter's loops is not C07's business
	case "arrow":
		return p.Name == "propRead" || p.Name == "methCall" // bodies that are one expression
	case "static":
		return three || p.Name == "dynMeth" || p.Name == "dynPropRead"
	}
	return three
}

// shEntry: the entry path of the interpreter a kind goes through (Model.ScopeEntry, Generated.C07Access.entryPaths)
func shEntry(k string) string {
	switch k {
	case "gen", "genafter":
		return "generator"
	case "closure", "defer", "arrow":
		return "closure"
	}
	return "body"
}

// genBody: the straight-line body `…; return E;` as a generator body. No `return` (origami's generators leak it
// into the consumer's loop) and no loop around a `yield`.
func genBody(body string, after bool) string {
	i := strings.LastIndex(body, "return ")
	b := body[:i] + "yield " + body[i+len("return "):]
	if after {
		return b + " yield \"post\";"
	}
	return "yield \"pre\"; " + b
}

func (f *shFix) cells(extra map[string]bool) []shCell {
	var out []shCell
	for scope := -1; scope <= f.n; scope++ {
		for r := 0; r < f.n; r++ {
			if f.nearest(r) < 0 {
				continue // objects of this class do not have the member
			}
			for _, p := range f.paths() {
				kinds := []string{"inst"}
				if scope < 0 {
					kinds = []string{"func"}
				} else if p.Name == "propRead" || p.Name == "propWrite" || p.Name == "methCall" {
					kinds = append(kinds, "closure")
				}
				if scope >= 0 {
					for _, k := range shExtraKinds {
						if (extra == nil || extra[k]) && shKindApplies(k, p) {
							kinds = append(kinds, k)
						}
					}
				}
				for _, k := range kinds {
					out = append(out, shCell{Scope: scope, Kind: k, Recv: "o", R: r, Path: p})
					if f.anc(scope, r) && p.Name != "unsetIdx" && k != "static" {
						// code of class `scope` running on an object of class r (inherited method): `$this`
						out = append(out, shCell{Scope: scope, Kind: k, Recv: "this", R: r, Path: p})
					}
				}
			}
		}
	}
	for i := range out {
		out[i].ID = i
	}
	return out
}

func (c shCell) method() string {
	return fmt.Sprintf("q%d_%s_%s_%s", c.Scope+1, c.Kind, c.Recv, c.Path.Name)
}

func (f *shFix) script(cells []shCell) string {
	var sb strings.Builder
	t := f.cs.Tag
	sb.WriteString("<?php\n")
	fmt.Fprintf(&sb, "class Cn%s { public static $n = 0; }\n", t)
	per := map[int][]string{}
	var funcs []string
	seen := map[string]bool{}
	for _, c := range cells {
		if seen[c.method()] {
			continue
		}
		seen[c.method()] = true
		r := "$o"
		if c.Recv == "this" {
			r = "$this"
		}
		body := c.Path.Body(r)
		switch c.Kind {
		case "func":
			funcs = append(funcs, fmt.Sprintf("function %s%s($o) { %s }\n", c.method(), t, body))
		case "inst":
			per[c.Scope] = append(per[c.Scope], fmt.Sprintf("  public function %s($o) { %s }\n", c.method(), body))
		case "closure":
			per[c.Scope] = append(per[c.Scope], fmt.Sprintf("  public function %s($o) { $g = function() use ($o) { %s }; return $g(); }\n", c.method(), body))
		case "carray":
			per[c.Scope] = append(per[c.Scope], fmt.Sprintf("  public function %s($o) { %s }\n", c.method(), body))
		case "static":
			per[c.Scope] = append(per[c.Scope], fmt.Sprintf("  public static function %s($o) { %s }\n", c.method(), body))
		case "gen", "genafter":
			per[c.Scope] = append(per[c.Scope], fmt.Sprintf("  public function %s($o) { %s }\n", c.method(), genBody(body, c.Kind == "genafter")))
		case "defer":
			per[c.Scope] = append(per[c.Scope], fmt.Sprintf("  public function %s($o) { return function() use ($o) { %s }; }\n", c.method(), body))
		case "arrow":
			e := strings.TrimSuffix(strings.TrimPrefix(body, "return "), ";")
			per[c.Scope] = append(per[c.Scope], fmt.Sprintf("  public function %s($o) { $g = fn() => %s; return $g(); }\n", c.method(), e))
		}
	}
	for i := 0; i <= f.n; i++ {
		ext := ""
		if i < f.n && f.par[i] >= 0 {
			ext = " extends " + f.cls(f.par[i])
		}
		fmt.Fprintf(&sb, "class %s%s {\n", f.cls(i), ext)
		if i < f.n && f.cs.Decl[i] != "" {
			kw := modKw[f.cs.Decl[i]]
			switch f.cs.Member {
			case "prop":
				fmt.Fprintf(&sb, "  %s $p = %d;\n", kw, 10+i)
			case "meth":
				fmt.Fprintf(&sb, "  %s function f() { Cn%s::$n = Cn%s::$n + 1; return \"b%d\"; }\n", kw, t, t, i)
			case "smeth":
				fmt.Fprintf(&sb, "  %s static function sf() { Cn%s::$n = Cn%s::$n + 1; return \"b%d\"; }\n", kw, t, t, i)
			}
		}
		for _, m := range per[i] {
			sb.WriteString(m)
		}
		sb.WriteString("}\n")
	}
	for _, fn := range funcs {
		sb.WriteString(fn)
	}
	// the generator's body runs here, after the call that created it returned; a closure handed back is called here
	fmt.Fprintf(&sb, "function drain%s($g) { $r = null; foreach ($g as $v) { if ($v !== \"pre\" && $v !== \"post\") { $r = $v; } } return $r; }\nfunction later%s($g) { return $g(); }\n", t, t)
	fmt.Fprintf(&sb, "function st%s($o) { return json_encode($o) . \"|\" . Cn%s::$n; }\n", t, t)
	fmt.Fprintf(&sb, "function cell%s($id, $f, $o) {\n  $b = st%s($o);\n  try { $v = $f(); $r = \"ok=\" . (is_scalar($v) ? $v : \"?\"); } catch (\\Throwable $e) { $r = \"denied=\" . get_class($e); }\n  echo \"\\n#\", $id, \" ## \", $r, \" ## \", $b, \" ## \", st%s($o), \"\\n\";\n}\n", t, t, t)
	for _, c := range cells {
		on, arg := "$s", "$o"
		if c.Recv == "this" {
			on, arg = "$o", "null"
		}
		call := fmt.Sprintf("fn() => %s->%s(%s)", on, c.method(), arg)
		switch c.Kind {
		case "func":
			call = fmt.Sprintf("fn() => %s%s($o)", c.method(), t)
		case "static":
			call = fmt.Sprintf("fn() => %s::%s($o)", f.cls(c.Scope), c.method())
		case "gen", "genafter":
			call = fmt.Sprintf("fn() => drain%s(%s->%s(%s))", t, on, c.method(), arg)
		case "defer":
			call = fmt.Sprintf("fn() => later%s(%s->%s(%s))", t, on, c.method(), arg)
		case "carray":
			call = fmt.Sprintf("function() use ($s, $o) { $f = [%s, \"%s\"]; return $f(%s); }", on, c.method(), arg)
		}
		if c.Kind == "func" || c.Recv == "this" {
			fmt.Fprintf(&sb, "$s = null; $o = new %s();\ncell%s(%d, %s, $o);\n", f.cls(c.R), t, c.ID, call)
		} else {
			fmt.Fprintf(&sb, "$s = new %s(); $o = new %s();\ncell%s(%d, %s, $o);\n", f.cls(c.Scope), f.cls(c.R), t, c.ID, call)
		}
	}
	return sb.String()
}

// modelLine: shadow <H> <decls> <scope|-> <recv>
func (f *shFix) modelLine(c shCell) string {
	var hs, ds []string
	for i := 0; i <= f.n; i++ {
		e := "-"
		if i < f.n && f.par[i] >= 0 {
			e = strconv.Itoa(f.par[i] + 1)
		}
		hs = append(hs, fmt.Sprintf("%d,%s,-", i+1, e))
		if i < f.n && f.cs.Decl[i] != "" {
			ds = append(ds, fmt.Sprintf("%d:%s", i+1, f.cs.Decl[i]))
		}
	}
	scope := "-"
	if c.Scope >= 0 {
		scope = strconv.Itoa(c.Scope + 1)
	}
	// round 8: the entry path the code came to run through, and the runtime class of `$this` in that context (what
	// scopeClassOf falls back to when the path did not record the class of the code)
	runtime := scope
	if c.Recv == "this" {
		runtime = strconv.Itoa(c.R + 1)
	}
	return strings.Join([]string{"shadow", strings.Join(hs, ";"), strings.Join(ds, ","), scope, strconv.Itoa(c.R + 1), shEntry(c.Kind), runtime}, "\t")
}

func runShadowFixture(c *vh.Ctx, m *vh.Model, cs ShadowCase, extra map[string]bool) {
	f := newShFix(cs)
	cells := f.cells(extra)
	if cs.Cell != "" {
		var sel []shCell
		for _, x := range cells {
			if x.key() == cs.Cell {
				sel = append(sel, x)
			}
		}
		cells = sel
	}
	if len(cells) == 0 {
		c.Note("shadow: no cell %q in %+v", cs.Cell, cs)
		return
	}
	out := vh.RunFresh(f.script(cells))
	got := map[int][]string{}
	for _, l := range strings.Split(out.Out, "\n") {
		if !strings.HasPrefix(l, "#") {
			continue
		}
		parts := strings.Split(l[1:], " ## ")
		if len(parts) != 4 {
			continue
		}
		if id, err := strconv.Atoi(parts[0]); err == nil {
			if _, dup := got[id]; !dup {
				got[id] = parts[1:]
			}
		}
	}
	whole := cs
	whole.Cell = ""
	if out.Kind != "ok" {
		viol(c, "shadow:script-"+out.Kind, fmt.Sprintf("the shadowing script ended with %s: %s", out.Kind, out.Detail), whole)
	}
	var ans []string
	if m != nil {
		var lines []string
		for _, x := range cells {
			lines = append(lines, f.modelLine(x))
		}
		var err error
		if ans, err = m.AskBatch(lines); err != nil {
			c.Mismatch(whole, "", err.Error(), "model driver failed (shadow)")
			ans = nil
		}
	}
	// round 8: the outcome of the same (scope, receiver, path) cell through an ordinary method
	instRes := map[string]string{}
	for _, x := range cells {
		if x.Kind == "inst" {
			if g := got[x.ID]; g != nil {
				instRes[fmt.Sprintf("%d/%s/%d/%s", x.Scope, x.Recv, x.R, x.Path.Name)] = g[0]
			}
		}
	}
	for i, x := range cells {
		cas := cs
		cas.Cell = x.key()
		d := f.nearest(x.R)
		mod := f.cs.Decl[d]
		rel := f.rel(x.Scope, d)
		pathName := x.Path.Name
		if x.Recv == "this" {
			pathName += "/this"
		}
		if x.Kind == "closure" {
			pathName += "/closure"
		}
		newKind := x.Kind != "inst" && x.Kind != "closure" && x.Kind != "func"
		c.Hit("shadow:kind:" + x.Kind)
		if x.Recv == "this" && x.R != x.Scope {
			c.Hit("shadow:kind-inherited:" + x.Kind)
		}
		shadowing := x.Scope >= 0 && x.Scope < f.n && f.cs.Decl[x.Scope] != "" && x.Scope != d
		c.Eval(fmt.Sprintf("shadow/%s/%v%v/%s", cs.Member, cs.Par, cs.Decl, x.key()), mod != "pub")
		c.Hit("shadow:member:" + cs.Member)
		c.Hit("shadow:path:" + pathName)
		if f.isChain() {
			c.Hit(fmt.Sprintf("shadow:chain:%d", f.n))
		} else {
			c.Hit(fmt.Sprintf("shadow:tree:%v", f.par))
			c.Hit("shadow:tree-rel:" + rel)
			if mod == "prot" && f.judged(d) != d {
				c.Hit("shadow:tree:prototype-above-nearest:" + rel)
			}
		}
		if shadowing {
			c.Hit("shadow:scope-declares-too:" + rel)
		}
		g := got[x.ID]
		if g == nil {
			viol(c, "shadow:no-outcome:"+pathName, fmt.Sprintf("cell %s produced no ok/denied marker", x.key()), cas)
			continue
		}
		res, before, after := g[0], g[1], g[2]
		if newKind {
			// judged by the same rule whatever the callable kind: the same signatures as the ordinary method when
			// the outcome is the same (a known finding does not depend on the kind), kind-specific ones otherwise
			base, have := instRes[fmt.Sprintf("%d/%s/%d/%s", x.Scope, x.Recv, x.R, x.Path.Name)]
			if have && base != res {
				pathName += "/" + x.Kind
				viol(c, fmt.Sprintf("shadow:kind-dependent:%s:%s:%s", pathName, mod, rel),
					fmt.Sprintf("the same access by code of the same class on the same receiver is decided differently in a %s than in an ordinary method (%s vs %s) — member %s, declarations %v, code of %s, receiver %s object of %s",
						x.Kind, res, base, cs.Member, cs.Decl, scopeName(f, x.Scope), x.Recv, f.cls(x.R)), cas)
			} else if !have {
				pathName += "/" + x.Kind
			}
		}
		isOK := strings.HasPrefix(res, "ok=")
		allowed := f.shadowAllowed(x.Scope, x.R)
		c.Hit("shadow:outcome:" + strings.SplitN(res, "=", 2)[0])
		c.SampleSome(map[string]any{"case": cas, "impl": res}, 911)
		if ans != nil && !x.Path.Idx {
			c.Res.Traces++
			want := "0"
			if isOK {
				want = "1"
			}
			if ans[i] != want {
				c.Mismatch(cas, res, ans[i], "canAccessDeclared as modelled (Model.AccessDecl.access) decides differently: "+f.modelLine(x))
			}
		}
		sfx := fmt.Sprintf("%s:%s:%s", pathName, mod, rel)
		if shadowing {
			sfx += ":shadowed"
		}
		what := fmt.Sprintf("member %s, declarations %v (K0 is the root), code of %s (%s), receiver %s object of %s, found declaration in %s (%s): %s",
			cs.Member, cs.Decl, scopeName(f, x.Scope), x.Kind, x.Recv, f.cls(x.R), f.cls(d), mod, res)
		switch {
		case isOK && !allowed:
			viol(c, "shadow:leak:"+sfx, "an access PHP's rule refuses succeeded — "+what, cas)
		case !isOK && allowed:
			if x.Path.Idx {
				c.Hit("shadow:over-denied:" + sfx)
			} else {
				viol(c, "shadow:refused:"+sfx, "an access PHP's rule allows was refused — "+what, cas)
			}
		}
		bc, ac := shCounter(before), shCounter(after)
		if !isOK && before != after {
			viol(c, "shadow:effect:"+sfx, fmt.Sprintf("a denied access had an effect (%s -> %s) — %s", before, after, what), cas)
		}
		if isOK {
			switch x.Path.Op {
			case "read":
				if before != after {
					viol(c, "shadow:effect-ok:"+sfx, fmt.Sprintf("a read changed the state (%s -> %s) — %s", before, after, what), cas)
				}
			case "write":
				if !strings.Contains(after, "77") || bc != ac {
					viol(c, "shadow:effect-ok:"+sfx, fmt.Sprintf("a successful write is not visible (%s -> %s) — %s", before, after, what), cas)
				}
			case "call":
				if ac != bc+1 {
					viol(c, "shadow:effect-ok:"+sfx, fmt.Sprintf("a successful call ran %d bodies (%s -> %s) — %s", ac-bc, before, after, what), cas)
				}
				// the body that ran belongs to a class whose member this scope may use
				if b, err := strconv.Atoi(strings.TrimPrefix(res, "ok=b")); err == nil && b >= 0 && b < f.n && f.cs.Decl[b] != "" {
					if !(b == x.Scope || f.rule(f.cs.Decl[b], x.Scope, b)) {
						viol(c, fmt.Sprintf("shadow:body:%s:%s:%s", pathName, f.cs.Decl[b], f.rel(x.Scope, b)),
							fmt.Sprintf("the call was rightly allowed but ran the %s method of %s, which this scope may not use — %s", modKw[f.cs.Decl[b]], f.cls(b), what), cas)
					}
				}
			}
		}
	}
}

func scopeName(f *shFix, s int) string {
	if s < 0 {
		return "a plain function"
	}
	return f.cls(s)
}

func shCounter(st string) int {
	i := strings.LastIndexByte(st, '|')
	if i < 0 {
		return -1
	}
	n, _ := strconv.Atoi(st[i+1:])
	return n
}

var shTrees = [][]int{
	{-1, 0, 0},       // K0 <- K1, K0 <- K2
	{-1, 0, 0, 1},    // one branch extended
	{-1, 0, 1, 1},    // a fork below a chain
	{-1, 0, 0, 1, 2}, // both branches extended
}

// runShadow: chains of 2 and 3 classes completely; chains of 4 classes completely in the thorough tier, a seeded
// sample in quick.
func runShadow(c *vh.Ctx, m *vh.Model, tag string, only *ShadowCase) {
	if only != nil {
		runShadowFixture(c, m, *only, nil)
		return
	}
	k := 0
	// round 8: callable kinds per fixture — the generator method always, in quick two more kinds drawn per fixture
	// (several hundred fixtures: every kind meets every declaration pattern many times), all of them in thorough
	kindsOf := func() map[string]bool {
		if c.N(0, 1) == 1 {
			return nil
		}
		e := map[string]bool{"gen": true}
		for len(e) < 3 {
			e[shExtraKinds[c.Rand.Intn(len(shExtraKinds))]] = true
		}
		return e
	}
	// round 7: small TREES — a root with two branches, the branches extended, a fork below a chain — so that
	// scope and receiver can be SIBLINGS under an ancestor that declares the name too. Three classes completely;
	// the larger shapes completely in the thorough tier, a seeded sample in quick.
	for si, par := range shTrees {
		decls := shDeclsTree(par)
		for _, member := range []string{"prop", "meth", "smeth"} {
			pick := map[int]bool{}
			if si > 0 {
				want := c.N(6, len(decls))
				if si == len(shTrees)-1 {
					want = c.N(4, 60)
				}
				for len(pick) < want {
					pick[c.Rand.Intn(len(decls))] = true
				}
			}
			for i, d := range decls {
				if si > 0 && !pick[i] {
					continue
				}
				k++
				runShadowFixture(c, m, ShadowCase{Kind: "shadow", Tag: fmt.Sprintf("%st%d", tag, k), Decl: d, Par: par, Member: member}, kindsOf())
			}
		}
	}
	for n := 2; n <= 4; n++ {
		decls := shDecls(n)
		for _, member := range []string{"prop", "meth", "smeth"} {
			pick := map[int]bool{}
			if n == 4 {
				for len(pick) < c.N(5, len(decls)) {
					pick[c.Rand.Intn(len(decls))] = true
				}
			}
			for i, d := range decls {
				if n == 4 && !pick[i] {
					continue
				}
				k++
				runShadowFixture(c, m, ShadowCase{Kind: "shadow", Tag: fmt.Sprintf("%s%d", tag, k), Decl: d, Member: member}, kindsOf())
			}
		}
	}
}
