package c07

import (
	"fmt"
	"sort"
	"strconv"
	"strings"

	"verif/harness/vh"
)

// ------------------------------------------------------------ hierarchy fixture

// Shape: the seeded class fixture of one visibility matrix.
//
//	[R0 <-] G <- GI* <- D <- DI* <- S        D declares every member
//	                 \        \
//	                  U        S2             U: sibling of D (same parent), S2: another subclass of D
//	X                                         unrelated
type Shape struct {
	K0   int    `json:"k0"` // 1: a root above G
	K1   int    `json:"k1"` // classes between G and D
	K2   int    `json:"k2"` // classes between D and S
	Tag  string `json:"tag"`
	Decl int    `json:"decl"` // declaration order variant (0: parents first in chain order, 1: side classes first)
}

type fixture struct {
	sh     Shape
	names  []string       // class id -> script name
	parent []int          // class id -> parent id or -1
	id     map[string]int // role -> id: G D S S2 U X
	order  []int          // declaration order
	spell  *Spelling      // decl stream: how the members of one kind are WRITTEN in D (nil: the canonical spelling)
	// decl stream: visibility name -> what the model's parser says the member written with it carries
	spellCarried map[string]string
}

func newFixture(sh Shape) *fixture {
	f := &fixture{sh: sh, id: map[string]int{}}
	add := func(role string, parent int) int {
		i := len(f.names)
		f.names = append(f.names, role+sh.Tag)
		f.parent = append(f.parent, parent)
		if _, dup := f.id[role]; !dup {
			f.id[role] = i
		}
		return i
	}
	top := -1
	if sh.K0 > 0 {
		top = add("Rt", -1)
	}
	g := add("G", top)
	last := g
	for i := 0; i < sh.K1; i++ {
		last = add(fmt.Sprintf("Gi%d", i), last)
	}
	dpar := last
	d := add("D", dpar)
	last = d
	for i := 0; i < sh.K2; i++ {
		last = add(fmt.Sprintf("Di%d", i), last)
	}
	add("S", last)
	add("S2", d)
	add("U", dpar)
	add("X", -1)
	for i := range f.names {
		f.order = append(f.order, i)
	}
	if sh.Decl == 1 {
		// X first, the rest unchanged (parents must still precede children)
		x := f.id["X"]
		f.order = append([]int{x}, f.order[:x]...)
	}
	return f
}

func (f *fixture) n(role string) string { return f.names[f.id[role]] }

// sub: a is b or a descendant of b (the oracle's own reachability, by parent indices).
func (f *fixture) sub(a, b int) bool {
	for a >= 0 {
		if a == b {
			return true
		}
		a = f.parent[a]
	}
	return false
}

// modelH renders the hierarchy for the driver: name,ext|-,impl|-;…
func (f *fixture) modelH() string {
	var cs []string
	for i := range f.names {
		e := "-"
		if f.parent[i] >= 0 {
			e = strconv.Itoa(f.parent[i] + 1)
		}
		cs = append(cs, fmt.Sprintf("%d,%s,-", i+1, e))
	}
	return strings.Join(cs, ";")
}

var mods = []string{"pub", "prot", "priv"}
var modKw = map[string]string{"pub": "public", "prot": "protected", "priv": "private"}

// ------------------------------------------------------------ probes

// A probe is one access expression; Kind says which family it belongs to.
type probe struct {
	Name  string // variant name (part of the cell key)
	Path  string // model path
	Recv  string // this | other
	Op    string // read | write | call
	Named string // role of the class named left of `::` ("" if none)
	Needs string // "" | "desc" (lexical class must inherit D) | "strictdesc"
	Body  func(f *fixture, recv, m string) string
	// which member cell the effect lands in: "p" instance property, "c" instance counter,
	// "sp" static property, "sc" static counter
	Eff string
}

func arrowProbes(recv string) []probe {
	r := "$o"
	if recv == "this" {
		r = "$this"
	}
	return []probe{
		{Name: "propRead", Path: "propRead", Recv: recv, Op: "read", Eff: "p",
			Body: func(f *fixture, _, m string) string { return fmt.Sprintf("return %s->p_%s;", r, m) }},
		{Name: "propWrite", Path: "propWrite", Recv: recv, Op: "write", Eff: "p",
			Body: func(f *fixture, _, m string) string { return fmt.Sprintf("%s->p_%s = 2; return 0;", r, m) }},
		{Name: "methCall", Path: "methCall", Recv: recv, Op: "call", Eff: "c",
			Body: func(f *fixture, _, m string) string { return fmt.Sprintf("return %s->m_%s();", r, m) }},
		{Name: "methCallStatic", Path: "methCall", Recv: recv, Op: "call", Eff: "sc",
			Body: func(f *fixture, _, m string) string { return fmt.Sprintf("return %s->sm_%s();", r, m) }},
		{Name: "dynPropRead", Path: "dynPropRead", Recv: recv, Op: "read", Eff: "p",
			Body: func(f *fixture, _, m string) string {
				return fmt.Sprintf("$n = \"p_%s\"; return %s->$n;", m, r)
			}},
		{Name: "dynPropWrite", Path: "dynPropWrite", Recv: recv, Op: "write", Eff: "p",
			Body: func(f *fixture, _, m string) string {
				return fmt.Sprintf("$n = \"p_%s\"; %s->$n = 2; return 0;", m, r)
			}},
		{Name: "dynMeth", Path: "dynMeth", Recv: recv, Op: "call", Eff: "c",
			Body: func(f *fixture, _, m string) string {
				return fmt.Sprintf("$n = \"m_%s\"; return %s->$n();", m, r)
			}},
		{Name: "idxRead", Path: "idxRead", Recv: recv, Op: "read", Eff: "p",
			Body: func(f *fixture, _, m string) string { return fmt.Sprintf("return %s[\"p_%s\"];", r, m) }},
		{Name: "idxWrite", Path: "idxWrite", Recv: recv, Op: "write", Eff: "p",
			Body: func(f *fixture, _, m string) string { return fmt.Sprintf("%s[\"p_%s\"] = 2; return 0;", r, m) }},
		{Name: "unsetProp", Path: "unsetProp", Recv: recv, Op: "unset", Eff: "p",
			Body: func(f *fixture, _, m string) string { return fmt.Sprintf("unset(%s->p_%s); return 0;", r, m) }},
		{Name: "unsetIdx", Path: "unsetIdx", Recv: recv, Op: "unset", Eff: "p",
			Body: func(f *fixture, _, m string) string { return fmt.Sprintf("unset(%s[\"p_%s\"]); return 0;", r, m) }},
		{Name: "iterate", Path: "iterate", Recv: recv, Op: "read", Eff: "p",
			Body: func(f *fixture, _, m string) string {
				return fmt.Sprintf("foreach (%s as $k => $v) { if ($k == \"p_%s\") { return $v; } } throw new \\Exception(\"hidden\");", r, m)
			}},
	}
}

func staticProbes(named string) []probe {
	return []probe{
		{Name: "staticPropRead@" + named, Path: "staticPropRead", Recv: "other", Op: "read", Eff: "sp", Named: named,
			Body: func(f *fixture, _, m string) string { return fmt.Sprintf("return %s::$sp_%s;", f.n(named), m) }},
		{Name: "staticPropWrite@" + named, Path: "staticPropWrite", Recv: "other", Op: "write", Eff: "sp", Named: named,
			Body: func(f *fixture, _, m string) string { return fmt.Sprintf("%s::$sp_%s = 2; return 0;", f.n(named), m) }},
		{Name: "staticMeth@" + named, Path: "staticMeth", Recv: "other", Op: "call", Eff: "sc", Named: named,
			Body: func(f *fixture, _, m string) string { return fmt.Sprintf("return %s::sm_%s();", f.n(named), m) }},
		{Name: "staticMethDyn@" + named, Path: "staticMeth", Recv: "other", Op: "call", Eff: "sc", Named: named,
			Body: func(f *fixture, _, m string) string {
				return fmt.Sprintf("$c = \"%s\"; return $c::sm_%s();", f.n(named), m)
			}},
	}
}

func keywordProbes() []probe {
	return []probe{
		{Name: "selfProp", Path: "selfProp", Recv: "other", Op: "read", Eff: "sp", Needs: "desc",
			Body: func(f *fixture, _, m string) string { return fmt.Sprintf("return self::$sp_%s;", m) }},
		{Name: "selfMeth", Path: "selfMeth", Recv: "other", Op: "call", Eff: "sc", Needs: "desc",
			Body: func(f *fixture, _, m string) string { return fmt.Sprintf("return self::sm_%s();", m) }},
		{Name: "staticKwProp", Path: "staticKwProp", Recv: "other", Op: "read", Eff: "sp", Needs: "desc",
			Body: func(f *fixture, _, m string) string { return fmt.Sprintf("return static::$sp_%s;", m) }},
		{Name: "staticKwMeth", Path: "staticKwMeth", Recv: "other", Op: "call", Eff: "sc", Needs: "desc",
			Body: func(f *fixture, _, m string) string { return fmt.Sprintf("return static::sm_%s();", m) }},
		{Name: "parentMeth", Path: "parentMeth", Recv: "other", Op: "call", Eff: "c", Needs: "strictdesc",
			Body: func(f *fixture, _, m string) string { return fmt.Sprintf("return parent::m_%s();", m) }},
		{Name: "parentMethStatic", Path: "parentMeth", Recv: "other", Op: "call", Eff: "sc", Needs: "strictdesc",
			Body: func(f *fixture, _, m string) string { return fmt.Sprintf("return parent::sm_%s();", m) }},
	}
}

// ------------------------------------------------------------ sites

// A site says where the access expression stands and on what it runs.
type site struct {
	Kind string // outside | func | inst | closure | static
	Lex  string // role of the class whose text contains the access ("" outside)
	Run  string // role of the class of the object the method runs on (inst/closure)
}

func (s site) key() string { return s.Kind + ":" + s.Lex + ">" + s.Run }

func allSites() []site {
	return []site{
		{"outside", "", ""}, {"func", "", ""},
		{"inst", "D", "D"}, {"inst", "S", "S"}, {"inst", "G", "G"}, {"inst", "U", "U"}, {"inst", "S2", "S2"}, {"inst", "X", "X"},
		{"inst", "D", "S"}, {"inst", "G", "D"}, {"inst", "G", "S"}, {"inst", "D", "S2"},
		{"closure", "D", "D"}, {"closure", "S", "S"}, {"closure", "D", "S"},
		{"static", "D", ""}, {"static", "S", ""}, {"static", "X", ""},
	}
}

// rel: relation of the lexical class to the declaring class D, as the known-finding signature names it.
func (f *fixture) rel(s site) string {
	if s.Lex == "" {
		return "outside"
	}
	l, d := f.id[s.Lex], f.id["D"]
	switch {
	case l == d:
		return "same"
	case f.sub(l, d):
		return "descendant"
	case f.sub(d, l):
		return "ancestor"
	}
	return "unrelated"
}

// ------------------------------------------------------------ cells

type cell struct {
	ID    int
	Site  site
	Probe probe
	Mod   string
	Obj   string // role of the receiver object's class ("" for probes without an object)
}

func (c cell) key() string {
	return c.Site.key() + "/" + c.Probe.Name + "/" + c.Probe.Recv + "/" + c.Mod + "/" + c.Obj
}

// AccCase is the replayable form of one cell.
type AccCase struct {
	Kind  string `json:"kind"` // "acc"
	Shape Shape  `json:"shape"`
	Cell  string `json:"cell"` // cell key
}

func (f *fixture) cells() []cell {
	var out []cell
	d := f.id["D"]
	for _, s := range allSites() {
		inClass := s.Lex != ""
		// other-receiver probes
		for _, obj := range []string{"D", "S", "S2"} {
			for _, p := range arrowProbes("other") {
				for _, m := range mods {
					out = append(out, cell{Site: s, Probe: p, Mod: m, Obj: obj})
				}
			}
		}
		for _, named := range []string{"D", "S"} {
			for _, p := range staticProbes(named) {
				if named != "D" && p.Op == "write" {
					// `S::$sp = v` for a static declared by D stores a shadow copy in S (static
					// property inheritance, not visibility): only the declaring class is written
					continue
				}
				for _, m := range mods {
					out = append(out, cell{Site: s, Probe: p, Mod: m, Obj: named})
				}
			}
		}
		if !inClass {
			continue
		}
		l := f.id[s.Lex]
		// $this-receiver probes: the running object must have the members
		if s.Kind != "static" && f.sub(f.id[s.Run], d) {
			for _, p := range arrowProbes("this") {
				if p.Name == "unsetIdx" {
					continue // unset($this['p']) is a no-op in UnsetStatement (only ArrayAccess objects are handled)
				}
				for _, m := range mods {
					out = append(out, cell{Site: s, Probe: p, Mod: m, Obj: s.Run})
				}
			}
		}
		for _, p := range keywordProbes() {
			if p.Needs == "desc" && !f.sub(l, d) {
				continue
			}
			if p.Needs == "strictdesc" && !(f.sub(l, d) && l != d) {
				continue
			}
			if p.Path == "parentMeth" && s.Kind == "static" {
				continue // parent:: needs an object context in the fixture
			}
			obj := s.Run
			if s.Kind == "static" {
				obj = s.Lex
			}
			for _, m := range mods {
				out = append(out, cell{Site: s, Probe: p, Mod: m, Obj: obj})
			}
		}
	}
	for i := range out {
		out[i].ID = i
	}
	return out
}

// probeMethods: the probe method every (site kind, lexical class) needs, keyed by method name.
type probeKey struct {
	lex   string
	kind  string // inst | closure | static | func
	probe string
	recv  string
	mod   string
}

func (k probeKey) method() string {
	n := strings.NewReplacer("@", "_at_").Replace(k.probe)
	// the lexical class is part of the name: a probe method of an ancestor must not be overridden by the
	// same probe of the class the object belongs to (the site "code of G running on an object of D" has to run G's text)
	return fmt.Sprintf("q%s_%s_%s_%s_%s", k.lex, k.kind, n, k.recv, k.mod)
}

// declare renders the class fixture with the probe methods the given cells need, the plain-function
// probes, and (hist mode) the top-level closures of the `outside` sites. In hist mode every probe takes a
// second parameter `$w`, the value a write probe stores (so that repeated writes are distinguishable).
func (f *fixture) declare(sb *strings.Builder, cells []cell, hist bool) {
	params, bodyOf := "$o", func(c cell) string { return c.Probe.Body(f, c.Probe.Recv, c.Mod) }
	if hist {
		params = "$o, $w"
		bodyOf = func(c cell) string {
			return strings.Replace(c.Probe.Body(f, c.Probe.Recv, c.Mod), "= 2;", "= $w;", 1)
		}
	}
	// collect probe methods per class
	per := map[string][]string{} // lex role -> method sources
	seen := map[probeKey]bool{}
	var funcs, closures []string
	for _, c := range cells {
		if c.Site.Kind == "outside" && !hist {
			continue
		}
		k := probeKey{c.Site.Lex, c.Site.Kind, c.Probe.Name, c.Probe.Recv, c.Mod}
		if seen[k] {
			continue
		}
		seen[k] = true
		body := bodyOf(c)
		switch c.Site.Kind {
		case "outside":
			closures = append(closures, fmt.Sprintf("$h_%s = function(%s) { %s };\n", k.method(), params, body))
		case "func":
			funcs = append(funcs, fmt.Sprintf("function %s%s(%s) { %s }\n", k.method(), f.sh.Tag, params, body))
		case "inst":
			per[c.Site.Lex] = append(per[c.Site.Lex], fmt.Sprintf("  public function %s(%s) { %s }\n", k.method(), params, body))
		case "closure":
			per[c.Site.Lex] = append(per[c.Site.Lex], fmt.Sprintf("  public function %s(%s) { $f = function() use (%s) { %s }; return $f(); }\n", k.method(), params, params, body))
		case "static":
			per[c.Site.Lex] = append(per[c.Site.Lex], fmt.Sprintf("  public static function %s(%s) { %s }\n", k.method(), params, body))
		}
	}
	dn := f.n("D")
	if f.spell != nil {
		f.declareTrait(sb)
	}
	for _, i := range f.order {
		name := f.names[i]
		ext := ""
		if f.parent[i] >= 0 {
			ext = " extends " + f.names[f.parent[i]]
		}
		fmt.Fprintf(sb, "class %s%s {\n", name, ext)
		if i == f.id["D"] {
			if f.spell != nil {
				f.declareSpelled(sb)
			} else {
				for _, m := range mods {
					fmt.Fprintf(sb, "  %s $p_%s = 1;\n", modKw[m], m)
					fmt.Fprintf(sb, "  %s static $sp_%s = 1;\n", modKw[m], m)
					fmt.Fprintf(sb, "  %s function m_%s() { $this->cnt = $this->cnt + 1; return 7; }\n", modKw[m], m)
					fmt.Fprintf(sb, "  %s static function sm_%s() { %s::$scnt = %s::$scnt + 1; return 8; }\n", modKw[m], m, dn, dn)
				}
				sb.WriteString("  public static function sreset() { self::$sp_pub = 1; self::$sp_prot = 1; self::$sp_priv = 1; self::$scnt = 0; }\n")
			}
			sb.WriteString("  public $cnt = 0;\n  public static $scnt = 0;\n")
			sb.WriteString("  public function obs() { return $this->p_pub . \",\" . $this->p_prot . \",\" . $this->p_priv . \",\" . $this->cnt; }\n")
			sb.WriteString("  public static function sobs() { return self::$sp_pub . \",\" . self::$sp_prot . \",\" . self::$sp_priv . \",\" . self::$scnt; }\n")
		}
		for role, ms := range per {
			if f.id[role] == i {
				for _, m := range ms {
					sb.WriteString(m)
				}
			}
		}
		sb.WriteString("}\n")
	}
	for _, fn := range funcs {
		sb.WriteString(fn)
	}
	for _, cl := range closures {
		sb.WriteString(cl)
	}
}

// script renders the whole matrix of one shape (or only the cells in `only`).
func (f *fixture) script(cells []cell) string {
	var sb strings.Builder
	sb.WriteString("<?php\n")
	f.declare(&sb, cells, false)
	dn := f.n("D")
	fmt.Fprintf(&sb, "function cell%s($id, $f, $o) {\n  try { $v = $f(); $r = \"ok\"; } catch (\\Throwable $e) { $r = \"denied=\" . get_class($e); }\n  echo \"\\n#\", $id, \":\", $r, \":\", $o->obs(), \":\", %s::sobs(), \"\\n\";\n  %s::sreset();\n}\n", f.sh.Tag, dn, dn)
	if f.spell != nil {
		// does the spelled declaration give D its members at all (a constructor parameter that is not promoted does not)
		fmt.Fprintf(&sb, "try { $i = new %s(); echo \"\\n#init:\", $i->obs(), \":\", %s::sobs(), \"\\n\"; } catch (\\Throwable $e) { echo \"\\n#init:threw=\", get_class($e), \"\\n\"; }\n", dn, dn)
	}
	for _, c := range cells {
		objRole := c.Obj
		if c.Probe.Named != "" {
			objRole = "D" // the observer object; static probes do not use it
		}
		k := probeKey{c.Site.Lex, c.Site.Kind, c.Probe.Name, c.Probe.Recv, c.Mod}
		var call string
		switch c.Site.Kind {
		case "outside":
			body := c.Probe.Body(f, c.Probe.Recv, c.Mod)
			call = fmt.Sprintf("function() use ($o) { %s }", body)
			fmt.Fprintf(&sb, "$o = new %s();\ncell%s(%d, %s, $o);\n", f.n(objRole), f.sh.Tag, c.ID, call)
			continue
		case "func":
			fmt.Fprintf(&sb, "$o = new %s();\ncell%s(%d, fn() => %s%s($o), $o);\n", f.n(objRole), f.sh.Tag, c.ID, k.method(), f.sh.Tag)
			continue
		case "static":
			fmt.Fprintf(&sb, "$o = new %s();\ncell%s(%d, fn() => %s::%s($o), $o);\n", f.n(objRole), f.sh.Tag, c.ID, f.n(c.Site.Lex), k.method())
			continue
		}
		// inst / closure
		if c.Probe.Recv == "this" || (c.Probe.Named == "" && c.Probe.Needs != "") {
			// the running object is the observed object
			fmt.Fprintf(&sb, "$r = new %s();\ncell%s(%d, fn() => $r->%s(null), $r);\n", f.n(c.Site.Run), f.sh.Tag, c.ID, k.method())
		} else {
			fmt.Fprintf(&sb, "$r = new %s(); $o = new %s();\ncell%s(%d, fn() => $r->%s($o), $o);\n", f.n(c.Site.Run), f.n(objRole), f.sh.Tag, c.ID, k.method())
		}
	}
	return sb.String()
}

// ------------------------------------------------------------ model / oracle view of a cell

func optID(f *fixture, role string) string {
	if role == "" {
		return "-"
	}
	return strconv.Itoa(f.id[role] + 1)
}

// modelSite: path recv mod ctx lex obj decl (tab separated), as `vm_c07 acc/exec` wants it.
func (f *fixture) modelSite(c cell) string {
	ctx, lex := "-", optID(f, c.Site.Lex)
	switch c.Site.Kind {
	case "inst", "closure":
		ctx = optID(f, c.Site.Run) // ClassMethodContext.Class is the runtime class of $this
	case "static":
		ctx = optID(f, c.Site.Lex) // staticMethodFunc: the class in which the static method was found
	}
	obj := optID(f, c.Obj)
	if c.Probe.Needs != "" { // self:: / static:: / parent:: start from the current class
		if c.Site.Kind == "static" {
			obj = optID(f, c.Site.Lex)
		} else {
			obj = optID(f, c.Site.Run)
		}
	}
	return strings.Join([]string{c.Probe.Path, c.Probe.Recv, f.carried(c), ctx, lex, obj, optID(f, "D")}, "\t")
}

func (c cell) modelOp() string {
	switch c.Probe.Op {
	case "write":
		return "write1"
	case "call":
		return "call"
	case "unset":
		return "unset"
	}
	return "read"
}

// specAllowed: PHP's rule, re-implemented here (no model involved): lexical class vs declaring class.
func (f *fixture) specAllowed(c cell) bool {
	switch f.written(c) {
	case "pub":
		return true
	case "priv":
		return c.Site.Lex == "D"
	}
	if c.Site.Lex == "" {
		return false
	}
	l, d := f.id[c.Site.Lex], f.id["D"]
	return f.sub(l, d) || f.sub(d, l)
}

// observation of one cell
type obsv struct {
	res     string // ok | denied=<class> | missing
	cell    int    // value of the addressed member afterwards (1 initial, 2 written)
	calls   int    // how often the addressed method body ran
	raw     string
	touched bool // something else than the addressed cell changed
}

func parseObs(c cell, line string) obsv {
	// #id:res:p_pub,p_prot,p_priv,cnt:sp_pub,sp_prot,sp_priv,scnt
	parts := strings.Split(line, ":")
	o := obsv{res: "missing", raw: line}
	if len(parts) != 4 {
		return o
	}
	o.res = parts[1]
	iv := strings.Split(parts[2], ",")
	sv := strings.Split(parts[3], ",")
	if len(iv) != 4 || len(sv) != 4 {
		o.res = "garbled"
		return o
	}
	mi := map[string]int{"pub": 0, "prot": 1, "priv": 2}[c.Mod]
	at := func(l []string, i int) int { n, _ := strconv.Atoi(l[i]); return n }
	o.cell, o.calls = 1, 0
	switch c.Probe.Eff {
	case "p":
		o.cell = at(iv, mi)
	case "sp":
		o.cell = at(sv, mi)
	case "c":
		o.calls = at(iv, 3)
	case "sc":
		o.calls = at(sv, 3)
	}
	// anything else must be untouched
	for i := 0; i < 3; i++ {
		if !(c.Probe.Eff == "p" && i == mi) && at(iv, i) != 1 {
			o.touched = true
		}
		if !(c.Probe.Eff == "sp" && i == mi) && at(sv, i) != 1 {
			o.touched = true
		}
	}
	if c.Probe.Eff != "c" && at(iv, 3) != 0 {
		o.touched = true
	}
	if c.Probe.Eff != "sc" && at(sv, 3) != 0 {
		o.touched = true
	}
	return o
}

func (o obsv) canon() string {
	r := o.res
	if strings.HasPrefix(r, "denied") {
		r = "denied"
	}
	return fmt.Sprintf("%s cell=%d calls=%d", r, o.cell, o.calls)
}

// runAccess runs the matrix of one shape; `only` restricts to one cell key (replay).
func runAccess(c *vh.Ctx, m *vh.Model, sh Shape, only string, known bool) {
	f := newFixture(sh)
	cells := f.cells()
	if only != "" {
		var sel []cell
		for _, x := range cells {
			if x.key() == only {
				sel = append(sel, x)
			}
		}
		cells = sel
	}
	if len(cells) == 0 {
		c.Note("access: no cell %q in shape %+v", only, sh)
		return
	}
	src := f.script(cells)
	out := vh.RunFresh(src)
	got := map[int]string{}
	for _, l := range strings.Split(out.Out, "\n") {
		if !strings.HasPrefix(l, "#") {
			continue
		}
		i := strings.IndexByte(l, ':')
		if i < 0 {
			continue
		}
		id, err := strconv.Atoi(l[1:i])
		if err == nil {
			if _, dup := got[id]; !dup {
				got[id] = l
			}
		}
	}
	if out.Kind != "ok" {
		viol(c, "acc:script-"+out.Kind, fmt.Sprintf("the access matrix script ended with %s: %s", out.Kind, out.Detail),
			AccCase{"acc", sh, only})
	}
	H := f.modelH()
	var lines []string
	for _, x := range cells {
		lines = append(lines, "exec\t"+H+"\t"+f.modelSite(x)+"\t"+x.modelOp())
	}
	var ans, specAns []string
	if m != nil {
		var err error
		ans, err = m.AskBatch(lines)
		if err != nil {
			c.Mismatch(AccCase{"acc", sh, only}, "", err.Error(), "model driver failed")
			ans = nil
		}
		// the Go oracle against the Lean specification (Spec.Access.allowedB, proved to decide Spec.Access.allowed)
		var sl []string
		for _, x := range cells {
			sl = append(sl, "spec\t"+H+"\t"+x.Mod+"\t"+optID(f, x.Site.Lex)+"\t"+optID(f, "D"))
		}
		if specAns, err = m.AskBatch(sl); err != nil {
			c.Mismatch(AccCase{"acc", sh, only}, "", err.Error(), "model driver failed (spec)")
			specAns = nil
		}
	}
	for i, x := range cells {
		ob := parseObs(x, got[x.ID])
		cas := AccCase{"acc", sh, x.key()}
		rel := f.rel(x.Site)
		pathName := x.Probe.Name
		if j := strings.IndexByte(pathName, '@'); j >= 0 {
			pathName = pathName[:j]
		}
		if x.Probe.Recv == "this" {
			pathName += "/this"
		}
		c.Eval(fmt.Sprintf("acc/%+v/%s", sh, x.key()), x.Mod != "pub")
		c.Hit("acc:path:" + pathName)
		c.Hit("acc:site:" + x.Site.Kind + ":" + rel)
		c.Hit("acc:outcome:" + strings.SplitN(ob.res, "=", 2)[0])
		c.SampleSome(map[string]any{"case": cas, "impl": ob.canon()}, 577)
		// correspondence with the Lean model
		if ans != nil {
			c.Res.Traces++
			if ans[i] != ob.canon() {
				c.Mismatch(cas, ob.canon()+" ["+ob.raw+"]", ans[i], "access decision / effect differs: "+lines[i])
			}
		}
		// the property itself (oracle = PHP's rule on the lexical class, no model involved)
		allowed := f.specAllowed(x)
		if specAns != nil {
			want := "0"
			if allowed {
				want = "1"
			}
			if specAns[i] != want {
				c.Mismatch(cas, "go-oracle:"+want, "lean-spec:"+specAns[i], "the harness oracle and Spec.Access.allowed disagree")
			}
		}
		isOK := ob.res == "ok"
		isDenied := strings.HasPrefix(ob.res, "denied=")
		switch {
		case !isOK && !isDenied:
			viol(c, "acc:no-outcome:"+pathName, fmt.Sprintf("cell %s produced no ok/denied marker (%s)", x.key(), ob.raw), cas)
		case isOK && !allowed:
			c.Hit("acc:leak")
			viol(c, fmt.Sprintf("leak:%s:%s:%s", pathName, x.Mod, rel),
				fmt.Sprintf("a %s member declared by %s was used through %s from %s code (lexical class %q, running on %q): the access succeeded", modKw[x.Mod], f.n("D"), x.Probe.Name, rel, x.Site.Lex, x.Site.Run), cas)
		case isDenied && allowed:
			c.Hit("acc:over-denied:" + pathName + ":" + x.Mod + ":" + rel)
		}
		if isDenied && (ob.cell != 1 || ob.calls != 0 || ob.touched) {
			viol(c, "effect:"+pathName+":"+x.Mod, fmt.Sprintf("a denied access had an effect: %s", ob.raw), cas)
		}
		if isOK {
			want := map[string][2]int{"read": {1, 0}, "write": {2, 0}, "call": {1, 1}, "unset": {0, 0}}[x.Probe.Op]
			if ob.cell != want[0] || ob.calls != want[1] || ob.touched {
				viol(c, "effect-ok:"+pathName+":"+x.Mod, fmt.Sprintf("a successful %s did not have exactly its effect: %s", x.Probe.Op, ob.raw), cas)
			}
		}
		if isDenied {
			cls := strings.TrimPrefix(ob.res, "denied=")
			c.Hit("acc:error-class:" + cls)
		}
	}
	_ = known
	_ = sort.Strings
}

// viol records a property violation and counts its signature in the histogram
// (the result keeps only the first few cases per signature).
func viol(c *vh.Ctx, sig, what string, cas any) {
	c.Hit("sig:" + sig)
	if _, ok := firstOf[sig]; !ok {
		firstOf[sig] = sigSample{What: what, Case: cas}
	}
	c.Violation(sig, what, cas)
}

type sigSample struct {
	What string `json:"what"`
	Case any    `json:"case"`
}

// first case seen per signature (written to $C07_DUMP_SIGS when set: used to regenerate the
// known-findings list of props/C07.json)
var firstOf = map[string]sigSample{}
