// Package c07: correspondence + violation search for C07 (visibility and
// declared types are enforced at every access path and boundary).
//
// Three finite matrices are enumerated completely over generated class
// fixtures (seeded hierarchy shapes and names), each rendered as ONE origami
// script run in-process on a fresh VM, every cell reporting
// `ok | denied=<Throwable class>` plus the observed member state afterwards:
//
//   - access.go  (member kind x modifier x static-ness) x (site) x (access path)
//   - types.go   (declared type x runtime value kind) x (boundary)
//   - inst.go    instantiation of abstract classes / interfaces / incomplete classes
//
// Every cell is compared with the Lean model `vm_c07` (decision + effect) and,
// independently of the model, judged by the specification re-implemented here
// (PHP's visibility rule on the lexical class; the denotation of the declared
// type; required ⊆ provided methods).
package c07

import (
	"encoding/json"
	"os"

	"verif/harness/vh"
)

func init() { vh.Register("C07", Run) }

func shapes(c *vh.Ctx) []Shape {
	tags := []string{"a", "Bq", "x7", "Zz", "k", "Mn", "w2", "Pp", "hJ", "t"}
	n := c.N(2, 10)
	var out []Shape
	for i := 0; i < n; i++ {
		sh := Shape{K0: c.Rand.Intn(2), K1: c.Rand.Intn(3), K2: c.Rand.Intn(3), Tag: vh.Pick(c.Rand, tags) + string(rune('a'+c.Rand.Intn(26))), Decl: c.Rand.Intn(2)}
		if i == 0 {
			sh.K1, sh.K2 = 0, 0 // the plain shape is always part of the run
		}
		out = append(out, sh)
	}
	return out
}

func Run(c *vh.Ctx) {
	m, err := vh.StartModel(c.ModelPath)
	if err != nil {
		m = nil
		c.Note("running without the Lean model: %v", err)
	} else {
		defer m.Close()
		c.Res.ModelUsed = true
	}
	c.Res.Rule = "a case is one cell of a matrix; non-trivial = the member is not public / the value is outside or on the edge of the declared type / the class is abstract, an interface or incomplete"
	if len(c.ReplayRaw) > 0 {
		var k struct {
			Kind string `json:"kind"`
		}
		json.Unmarshal(c.ReplayRaw, &k)
		switch k.Kind {
		case "acc":
			var a AccCase
			json.Unmarshal(c.ReplayRaw, &a)
			runAccess(c, m, a.Shape, a.Cell, false)
		case "inst":
			var t InstCase
			json.Unmarshal(c.ReplayRaw, &t)
			runInst(c, m, t.Tag, &t)
		case "ty":
			var t TyCase
			json.Unmarshal(c.ReplayRaw, &t)
			if isCompatBoundary(t.Boundary) {
				runParamCompat(c, m, t.Tag, &t)
			} else {
				runTypes(c, m, t.Tag, &t)
			}
		case "scope":
			var sc ScopeCase
			json.Unmarshal(c.ReplayRaw, &sc)
			runScope(c, sc.Tag, sc.Name)
		case "pos":
			var pc PosCase
			json.Unmarshal(c.ReplayRaw, &pc)
			runPos(c, m, pc.Tag, &pc)
		case "decl":
			var dc DeclCase
			json.Unmarshal(c.ReplayRaw, &dc)
			runDecl(c, m, dc.Shape.Tag, &dc)
		case "declmini":
			var mc MiniCase
			json.Unmarshal(c.ReplayRaw, &mc)
			runDeclMini(c, m, mc.Tag, &mc)
		case "shadow":
			var sc ShadowCase
			json.Unmarshal(c.ReplayRaw, &sc)
			runShadow(c, m, sc.Tag, &sc)
		case "hist":
			var h HistCase
			json.Unmarshal(c.ReplayRaw, &h)
			switch h.Fam {
			case "acc":
				if h.Shape != nil {
					histAccess(c, m, *h.Shape, h.Group)
				}
			case "ty":
				histTypes(c, m, h.Tag, h.Group)
			case "inst":
				histInst(c, m, h.Tag, h.Stride, h.Off, h.Group)
			}
		}
		if m != nil {
			c.Res.ModelLines = m.Lines
		}
		return
	}
	if os.Getenv("C07_ONLY") == "decl" { // debugging aid: the declaration-spelling stream alone
		runDecl(c, m, "L"+string(rune('a'+c.Rand.Intn(26))), nil)
		runDeclMini(c, m, "M"+string(rune('a'+c.Rand.Intn(26))), nil)
		if m != nil {
			c.Res.ModelLines = m.Lines
		}
		return
	}
	if os.Getenv("C07_ONLY") == "shadow" { // debugging aid: the shadowing stream alone
		runShadow(c, m, "W"+string(rune('a'+c.Rand.Intn(26))), nil)
		if m != nil {
			c.Res.ModelLines = m.Lines
		}
		return
	}
	if os.Getenv("C07_ONLY") == "pos" { // debugging aid: the position stream alone
		runPos(c, m, "P"+string(rune('a'+c.Rand.Intn(26))), nil)
		if m != nil {
			c.Res.ModelLines = m.Lines
		}
		return
	}
	shs := shapes(c)
	for _, sh := range shs {
		runAccess(c, m, sh, "", false)
	}
	tyTag := "Q" + string(rune('a'+c.Rand.Intn(26)))
	runTypes(c, m, tyTag, nil)
	// what the exact parameter boundaries must keep accepting: `T $x = null`, omitted arguments, untyped, mixed
	runParamCompat(c, m, tyTag+"c", nil)
	runInst(c, m, "N"+string(rune('a'+c.Rand.Intn(26))), nil)
	// legitimate accesses through the other routes into a method (inherited constructor, trait, callable array …)
	runScope(c, "Sc"+string(rune('a'+c.Rand.Intn(26))), "")
	// enforcement is history-independent: every enforcement point probed repeatedly within one VM
	for _, sh := range shs {
		histAccess(c, m, sh, "")
	}
	histTypes(c, m, "H"+string(rune('a'+c.Rand.Intn(26))), "")
	stride := c.N(8, 1)
	histInst(c, m, "V"+string(rune('a'+c.Rand.Intn(26))), stride, c.Rand.Intn(stride), "")
	// enforcement does not depend on the position of the offending item among several (parameters, slots, accesses)
	runPos(c, m, "P"+string(rune('a'+c.Rand.Intn(26))), nil)
	// the modifier a member carries does not depend on how its declaration is spelled (keyword order, repeated
	// and implied keywords, promoted constructor parameters, members that come from a trait)
	runDecl(c, m, "L"+string(rune('a'+c.Rand.Intn(26))), nil)
	runDeclMini(c, m, "M"+string(rune('a'+c.Rand.Intn(26))), nil) // the same for anonymous classes and enums
	// the decision depends on three classes (scope, receiver, declaring) and on whether the scope class declares
	// the name too: chains of 2..4 classes x which classes declare the member x scope x receiver's class x path
	runShadow(c, m, "W"+string(rune('a'+c.Rand.Intn(26))), nil)
	c.Res.Exhaustive = true
	c.Res.ExhaustiveWhat = "per hierarchy shape: every (access path variant x modifier x receiver x object class x site) cell of the visibility matrix; every (boundary x declared type x value kind) cell of the type matrix (10 x 15 x 11); every (base x interface x middle-class subset x own subset) instantiation cell (4 x 3 x 5 x 16) plus the abstract/interface/static special cases; hierarchy shapes and names are seeded"
	if m != nil {
		c.Res.ModelLines = m.Lines
	}
	if p := os.Getenv("C07_DUMP_SIGS"); p != "" {
		b, _ := json.MarshalIndent(firstOf, "", " ")
		os.WriteFile(p, b, 0o644)
	}
}
