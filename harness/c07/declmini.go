package c07

// The declaration-spelling stream for the containers whose class cannot play the role of `D` in the hierarchy
// fixture: an ANONYMOUS class (`new class extends G { … }`, member loop of parser/new_parser.go) and an ENUM
// (parser/enum_parser.go). A small access matrix of its own: the three members `…_pub/_prot/_priv` of one kind,
// written in the spelling under test, are touched through the access paths of that kind from top-level code, a
// plain function, a method of an unrelated class, a method of the ancestor (anonymous class only) and the class's
// own methods (`$o` and `$this`). Oracle, model requests and signatures are those of decl.go.

import (
	"fmt"
	"sort"
	"strconv"
	"strings"

	"verif/harness/vh"
)

type miniSite struct {
	name string // outside func unrel anc own ownthis
	rel  string // relation of the lexical class to the declaring class
	ctx  string // model: class of the executing context (1 = ancestor, 2 = the class, 3 = unrelated)
}

var miniSites = []miniSite{
	{"outside", "outside", "-"}, {"func", "outside", "-"}, {"unrel", "unrelated", "3"},
	{"anc", "ancestor", "1"}, {"own", "same", "2"}, {"ownthis", "same", "2"},
}

type miniProbe struct {
	name, path, op, eff string
	body                func(r, m, cls string) string
}

func miniProbes(eff string, enum bool) []miniProbe {
	switch eff {
	case "p":
		return []miniProbe{
			{"propRead", "propRead", "read", "p", func(r, m, _ string) string { return fmt.Sprintf("return %s->p_%s;", r, m) }},
			{"propWrite", "propWrite", "write", "p", func(r, m, _ string) string { return fmt.Sprintf("%s->p_%s = 2; return 0;", r, m) }},
			{"dynPropRead", "dynPropRead", "read", "p", func(r, m, _ string) string { return fmt.Sprintf("$n = \"p_%s\"; return %s->$n;", m, r) }},
			{"dynPropWrite", "dynPropWrite", "write", "p", func(r, m, _ string) string {
				return fmt.Sprintf("$n = \"p_%s\"; %s->$n = 2; return 0;", m, r)
			}},
			{"idxRead", "idxRead", "read", "p", func(r, m, _ string) string { return fmt.Sprintf("return %s[\"p_%s\"];", r, m) }},
			{"idxWrite", "idxWrite", "write", "p", func(r, m, _ string) string { return fmt.Sprintf("%s[\"p_%s\"] = 2; return 0;", r, m) }},
			{"iterate", "iterate", "read", "p", func(r, m, _ string) string {
				return fmt.Sprintf("foreach (%s as $k => $v) { if ($k == \"p_%s\") { return $v; } } throw new \\Exception(\"hidden\");", r, m)
			}},
			{"unsetProp", "unsetProp", "unset", "p", func(r, m, _ string) string { return fmt.Sprintf("unset(%s->p_%s); return 0;", r, m) }},
		}
	case "c":
		return []miniProbe{
			{"methCall", "methCall", "call", "c", func(r, m, _ string) string { return fmt.Sprintf("return %s->m_%s();", r, m) }},
			{"dynMeth", "dynMeth", "call", "c", func(r, m, _ string) string { return fmt.Sprintf("$n = \"m_%s\"; return %s->$n();", m, r) }},
		}
	case "sc":
		ps := []miniProbe{
			{"methCallStatic", "methCall", "call", "sc", func(r, m, _ string) string { return fmt.Sprintf("return %s->sm_%s();", r, m) }},
		}
		if enum {
			ps = append(ps, miniProbe{"staticMeth", "staticMeth", "call", "sc", func(_, m, cls string) string { return fmt.Sprintf("return %s::sm_%s();", cls, m) }})
		}
		return ps
	}
	return nil
}

type miniCell struct {
	id    int
	site  miniSite
	probe miniProbe
	mod   string
}

func (x miniCell) key() string { return x.site.name + "/" + x.probe.name + "/" + x.mod }

func (x miniCell) fn() string { return "q_" + x.site.name + "_" + x.probe.name + "_" + x.mod }

// MiniCase is the replayable form.
type MiniCase struct {
	Kind  string    `json:"kind"` // "declmini"
	Tag   string    `json:"tag"`
	Sp    Spelling  `json:"sp"` // Cont = anon | enum
	Other *Spelling `json:"other,omitempty"`
	Cell  string    `json:"cell,omitempty"`
}

func miniWritten(sp Spelling, m string) string {
	if sp.has("V") {
		return m
	}
	return "pub"
}

func miniAllowed(wr string, s miniSite) bool {
	switch wr {
	case "pub":
		return true
	case "priv":
		return s.rel == "same"
	}
	return s.rel == "same" || s.rel == "ancestor"
}

func miniCells(sp Spelling) []miniCell {
	var out []miniCell
	enum := sp.Cont == "enum"
	for _, s := range miniSites {
		if enum && s.name == "anc" {
			continue
		}
		for _, p := range miniProbes(sp.eff(), enum) {
			if p.name == "staticMeth" && s.name == "ownthis" {
				continue
			}
			for _, m := range mods {
				if sp.has("readonly") && (p.op == "write" || p.op == "unset") && miniAllowed(miniWritten(sp, m), s) {
					continue
				}
				out = append(out, miniCell{site: s, probe: p, mod: m})
			}
		}
	}
	for i := range out {
		out[i].id = i
	}
	return out
}

// miniScript renders one spelling with the given cells (none: the declarations and the init line only)
func miniScript(tag string, sp Spelling, cells []miniCell) string {
	var sb strings.Builder
	enum := sp.Cont == "enum"
	cls := "E" + tag
	cnt := "Cnt" + tag
	sb.WriteString("<?php\n")
	fmt.Fprintf(&sb, "class %s { public static $c = 0; public static $s = 0; }\n", cnt)
	host := map[string][]string{}
	var funcs []string
	for _, x := range cells {
		r := "$o"
		if x.site.name == "ownthis" {
			r = "$this"
		}
		body := x.probe.body(r, x.mod, cls)
		switch x.site.name {
		case "func":
			funcs = append(funcs, fmt.Sprintf("function %s%s($o) { %s }\n", x.fn(), tag, body))
		case "unrel", "anc", "own", "ownthis":
			host[x.site.name] = append(host[x.site.name], fmt.Sprintf("  public function %s($o) { %s }\n", x.fn(), body))
		}
	}
	fmt.Fprintf(&sb, "class GA%s {\n%s}\n", tag, strings.Join(host["anc"], ""))
	fmt.Fprintf(&sb, "class X%s {\n%s}\n", tag, strings.Join(host["unrel"], ""))
	for _, f := range funcs {
		sb.WriteString(f)
	}
	// the members
	var members, promo, ctorInit []string
	k := sp.eff()
	for _, m := range mods {
		switch {
		case sp.Base == "promo":
			promo = append(promo, fmt.Sprintf("%s $p_%s = 1", sp.text(m), m))
		case k == "p" && sp.has("readonly"):
			members = append(members, fmt.Sprintf("  %s $p_%s;\n", sp.text(m), m))
			ctorInit = append(ctorInit, fmt.Sprintf("$this->p_%s = 1;", m))
		case k == "p":
			members = append(members, fmt.Sprintf("  %s $p_%s = 1;\n", sp.text(m), m))
		case k == "c":
			members = append(members, fmt.Sprintf("  %s function m_%s() { %s::$c = %s::$c + 1; return 7; }\n", strings.Join(sp.words(m), " "), m, cnt, cnt))
		case k == "sc":
			members = append(members, fmt.Sprintf("  %s function sm_%s() { %s::$s = %s::$s + 1; return 8; }\n", strings.Join(sp.words(m), " "), m, cnt, cnt))
		}
	}
	if sp.Base == "promo" {
		members = append(members, fmt.Sprintf("  public function __construct(%s) { }\n", strings.Join(promo, ", ")))
	} else if len(ctorInit) > 0 {
		members = append(members, fmt.Sprintf("  public function __construct() { %s }\n", strings.Join(ctorInit, " ")))
	}
	obs := "  public function obs() { return \"1,1,1\"; }\n"
	if k == "p" {
		obs = "  public function obs() { return $this->p_pub . \",\" . $this->p_prot . \",\" . $this->p_priv; }\n"
	}
	bodyText := strings.Join(members, "") + obs + strings.Join(host["own"], "") + strings.Join(host["ownthis"], "")
	if enum {
		fmt.Fprintf(&sb, "enum %s {\n  case A;\n%s}\n$mk%s = function() { return %s::A; };\n", cls, bodyText, tag, cls)
	} else {
		fmt.Fprintf(&sb, "$mk%s = function() { return new class extends GA%s {\n%s}; };\n", tag, tag, bodyText)
	}
	fmt.Fprintf(&sb, "try { $i = $mk%s(); echo \"\\n#init:\", $i->obs(), \"\\n\"; } catch (\\Throwable $e) { echo \"\\n#init:threw=\", get_class($e), \"\\n\"; }\n", tag)
	fmt.Fprintf(&sb, "function cell%s($id, $f, $o) {\n  try { $v = $f(); $r = \"ok\"; } catch (\\Throwable $e) { $r = \"denied=\" . get_class($e); }\n  echo \"\\n#\", $id, \":\", $r, \":\", $o->obs(), \":\", %s::$c, \":\", %s::$s, \"\\n\";\n  %s::$c = 0; %s::$s = 0;\n}\n", tag, cnt, cnt, cnt, cnt)
	for _, x := range cells {
		var call string
		switch x.site.name {
		case "outside":
			call = fmt.Sprintf("function() use ($o) { %s }", x.probe.body("$o", x.mod, cls))
		case "func":
			call = fmt.Sprintf("fn() => %s%s($o)", x.fn(), tag)
		case "unrel":
			call = fmt.Sprintf("fn() => (new X%s())->%s($o)", tag, x.fn())
		case "anc":
			call = fmt.Sprintf("fn() => (new GA%s())->%s($o)", tag, x.fn())
		default:
			call = fmt.Sprintf("fn() => $o->%s($o)", x.fn())
		}
		fmt.Fprintf(&sb, "$o = $mk%s();\ncell%s(%d, %s, $o);\n", tag, tag, x.id, call)
	}
	return sb.String()
}

func miniObs(x miniCell, line string) obsv {
	// #id:res:p_pub,p_prot,p_priv:cnt:scnt
	parts := strings.Split(line, ":")
	o := obsv{res: "missing", raw: line}
	if len(parts) != 5 {
		return o
	}
	o.res = parts[1]
	iv := strings.Split(parts[2], ",")
	if len(iv) != 3 {
		o.res = "garbled"
		return o
	}
	mi := map[string]int{"pub": 0, "prot": 1, "priv": 2}[x.mod]
	at := func(s string) int { n, _ := strconv.Atoi(s); return n }
	o.cell = 1
	if x.probe.eff == "p" {
		o.cell = at(iv[mi])
	}
	cn, sn := at(parts[3]), at(parts[4])
	switch x.probe.eff {
	case "c":
		o.calls = cn
		o.touched = sn != 0
	case "sc":
		o.calls = sn
		o.touched = cn != 0
	default:
		o.touched = cn != 0 || sn != 0
	}
	for i := 0; i < 3; i++ {
		if !(x.probe.eff == "p" && i == mi) && at(iv[i]) != 1 {
			o.touched = true
		}
	}
	return o
}

func runMiniOne(c *vh.Ctx, m *vh.Model, tag string, sp Spelling, only string) declResult {
	cas := func(cell string) MiniCase { return MiniCase{Kind: "declmini", Tag: tag, Sp: sp, Cell: cell} }
	enum := sp.Cont == "enum"
	carried := map[string]string{}
	modelStatus := ""
	var modelAns []string
	if m != nil {
		var lines []string
		for _, md := range mods {
			w := strings.Join(sp.words(md), " ")
			if w == "" {
				w = "-"
			}
			lines = append(lines, "decl\t"+sp.parser()+"\t"+w)
		}
		var err error
		if modelAns, err = m.AskBatch(lines); err != nil {
			c.Mismatch(cas(""), "", err.Error(), "model driver failed (decl)")
			modelAns = nil
		}
	}
	if modelAns != nil {
		modelStatus = "accepted"
		for i, md := range mods {
			a := modelAns[i]
			switch {
			case a == "refused":
				modelStatus = "refused"
			case strings.HasPrefix(a, "vis=none"):
				if modelStatus == "accepted" {
					modelStatus = "unsupported"
				}
			case strings.HasPrefix(a, "vis="):
				carried[md] = strings.TrimPrefix(strings.Fields(a)[0], "vis=")
			default:
				modelStatus = "?" + a
			}
		}
	}
	cells := miniCells(sp)
	if only != "" {
		var sel []miniCell
		for _, x := range cells {
			if x.key() == only {
				sel = append(sel, x)
			}
		}
		cells = sel
	}
	if declEnv == nil {
		declEnv = vh.NewEnv()
	}
	res := declResult{outcome: map[string]string{}}
	c.Eval("decl/"+sp.key()+"/"+only, sp.has("V"))
	c.Hit("decl:spelling:" + sp.Cont + ":" + sp.Base)
	got := map[int]string{}
	var out vh.Outcome
	for pass := 0; pass < 2; pass++ {
		var src string
		if pass == 0 {
			src = miniScript(tag, sp, nil)
		} else {
			src = miniScript(tag+"q", sp, cells)
			if d := declDumpDir(); d != "" {
				declDump(d, sp, src)
			}
		}
		out = declEnv.RunSource(src, "/verif-case.php")
		init := ""
		for _, l := range strings.Split(out.Out, "\n") {
			if strings.HasPrefix(l, "#init:") {
				init = strings.TrimPrefix(l, "#init:")
				continue
			}
			if pass == 0 || !strings.HasPrefix(l, "#") {
				continue
			}
			if i := strings.IndexByte(l, ':'); i > 0 {
				if id, err := strconv.Atoi(l[1:i]); err == nil {
					if _, dup := got[id]; !dup {
						got[id] = l
					}
				}
			}
		}
		switch {
		case out.Kind == "parse-error":
			res.status, res.detail = "refused", out.Detail
		case init != "1,1,1":
			res.status, res.detail = "unsupported", out.Kind+" init="+init+" "+out.Detail
		case out.Kind != "ok":
			res.status, res.detail = "broken", out.Kind+": "+out.Detail
		default:
			res.status = "accepted"
		}
		if res.status != "accepted" {
			break
		}
	}
	c.Hit("decl:" + res.status + ":" + sp.Cont + ":" + sp.Base)
	c.SampleSome(map[string]any{"case": cas(only), "status": res.status, "detail": res.detail}, 41)
	// the promoted parameters of an anonymous class's constructor are dropped by parseAnonymousClass on this tree
	// (`parseMethodWithAnnotations(…, nil, nil)`): no member, nothing to judge
	anonPromoGap := sp.Cont == "anon" && sp.Base == "promo" && res.status == "unsupported" && modelStatus == "accepted"
	if anonPromoGap {
		c.Hit("decl:anon-promoted-not-merged")
	}
	if modelStatus != "" && modelStatus != res.status && !anonPromoGap {
		c.Mismatch(cas(only), res.status+" ["+res.detail+"]", modelStatus+" "+strings.Join(modelAns, " | "),
			"the parser and Model.DeclMods.parse disagree on whether the declaration `"+sp.text("priv")+"` is accepted")
	}
	if res.status == "broken" {
		viol(c, "decl:script-"+out.Kind, fmt.Sprintf("the probes of a %s spelled `%s` in an %s ended with %s", sp.kindName(), sp.text("priv"), sp.Cont, res.detail), cas(only))
	}
	if res.status != "accepted" {
		return res
	}
	H := "1,-,-;2,1,-;3,-,-"
	if enum {
		H = "2,-,-;3,-,-"
	}
	var lines []string
	for _, x := range cells {
		recv := "other"
		if x.site.name == "ownthis" {
			recv = "this"
		}
		mod := miniWritten(sp, x.mod)
		if v, ok := carried[x.mod]; ok {
			mod = v
		}
		op := map[string]string{"read": "read", "write": "write1", "call": "call", "unset": "unset"}[x.probe.op]
		lines = append(lines, strings.Join([]string{"exec", H, x.probe.path, recv, mod, x.site.ctx, x.site.ctx, "2", "2", op}, "\t"))
	}
	var ans []string
	if m != nil && modelStatus == "accepted" {
		var err error
		if ans, err = m.AskBatch(lines); err != nil {
			c.Mismatch(cas(only), "", err.Error(), "model driver failed")
			ans = nil
		}
	}
	where := map[string]string{"anon": "body of an anonymous class", "enum": "body of an enum"}[sp.Cont]
	for i, x := range cells {
		ob := miniObs(x, got[x.id])
		cs := cas(x.key())
		pathName := x.probe.name
		if x.site.name == "ownthis" {
			pathName += "/this"
		}
		wr := miniWritten(sp, x.mod)
		c.Eval("decl/"+sp.key()+"/"+x.key(), wr != "pub")
		c.Hit("decl:path:" + pathName)
		if ans != nil {
			c.Res.Traces++
			if ans[i] != ob.canon() {
				c.Mismatch(cs, ob.canon()+" ["+ob.raw+"]", ans[i], "spelled `"+sp.text(x.mod)+"` ("+sp.Cont+"): access decision / effect differs: "+lines[i])
			}
		}
		allowed := miniAllowed(wr, x.site)
		isOK := ob.res == "ok"
		isDenied := strings.HasPrefix(ob.res, "denied=")
		how := fmt.Sprintf("a %s written `%s` in the %s", sp.kindName(), sp.text(x.mod), where)
		switch {
		case !isOK && !isDenied:
			viol(c, "decl:no-outcome:"+pathName, fmt.Sprintf("%s: cell %s produced no ok/denied marker (%s)", how, x.key(), ob.raw), cs)
		case isOK && !allowed:
			c.Hit("decl:leak")
			viol(c, fmt.Sprintf("leak:%s:%s:%s", pathName, wr, x.site.rel),
				fmt.Sprintf("%s was used through %s from %s code (site %s): the access succeeded", how, x.probe.name, x.site.rel, x.site.name), cs)
		case isDenied && allowed:
			c.Hit("decl:over-denied:" + sp.Cont + ":" + pathName + ":" + wr + ":" + x.site.rel)
		}
		if isDenied && (ob.cell != 1 || ob.calls != 0 || ob.touched) {
			viol(c, "effect:"+pathName+":"+wr, fmt.Sprintf("%s: a denied access had an effect: %s", how, ob.raw), cs)
		}
		if isOK {
			want := map[string][2]int{"read": {1, 0}, "write": {2, 0}, "call": {1, 1}, "unset": {0, 0}}[x.probe.op]
			if ob.cell != want[0] || ob.calls != want[1] || ob.touched {
				viol(c, "effect-ok:"+pathName+":"+wr, fmt.Sprintf("%s: a successful %s did not have exactly its effect: %s", how, x.probe.op, ob.raw), cs)
			}
		}
		if isOK || isDenied {
			res.outcome[x.key()] = strings.SplitN(ob.res, "=", 2)[0]
		}
	}
	return res
}

func miniCompare(c *vh.Ctx, tag string, a, b Spelling, ra, rb declResult) {
	if ra.status != "accepted" || rb.status != "accepted" {
		return
	}
	var keys []string
	for k := range ra.outcome {
		keys = append(keys, k)
	}
	sort.Strings(keys)
	for _, k := range keys {
		vb, ok := rb.outcome[k]
		if !ok || vb == ra.outcome[k] {
			continue
		}
		c.Hit("decl:order-dependent")
		viol(c, "decl:order-dependent:"+a.Base+":"+a.eff(),
			fmt.Sprintf("the same keywords in two orders enforce different rules (%s): a %s written `%s` is %s at %s, written `%s` it is %s",
				a.Cont, a.kindName(), a.text("priv"), ra.outcome[k], k, b.text("priv"), vb),
			MiniCase{Kind: "declmini", Tag: tag, Sp: a, Other: &b, Cell: k})
		return
	}
}

func runDeclMini(c *vh.Ctx, m *vh.Model, tag string, only *MiniCase) {
	declEnv = nil
	defer func() { declEnv = nil }()
	if only != nil {
		ra := runMiniOne(c, m, only.Tag, only.Sp, only.Cell)
		if only.Other != nil {
			rb := runMiniOne(c, m, only.Tag+"b", *only.Other, only.Cell)
			miniCompare(c, only.Tag, only.Sp, *only.Other, ra, rb)
		}
		return
	}
	seqs := declSeqs(c.N(3, 5))
	types := []string{"", "int", "?int"}
	tyOff := c.Rand.Intn(3)
	n := 0
	type entry struct {
		sp  Spelling
		res declResult
	}
	groups := map[string][]entry{}
	var order []string
	for _, cb := range [][2]string{{"anon", "prop"}, {"anon", "meth"}, {"anon", "promo"}, {"enum", "meth"}} {
		for _, seq := range seqs {
			sp := Spelling{Cont: cb[0], Base: cb[1], Seq: seq}
			var tys []string
			switch {
			case sp.Base == "meth":
				tys = []string{""}
			case c.Thorough():
				tys = types
			default:
				tys = []string{types[(declHash(Spelling{Seq: seq}.bag())+tyOff)%3]}
			}
			if sp.Base == "prop" && sp.has("static") {
				continue // static properties of an anonymous class: unchecked like every static property (known), not probed here
			}
			for _, ty := range tys {
				if ty == "" && sp.has("readonly") && sp.Base != "meth" {
					ty = "int"
				}
				sp.Type = ty
				n++
				res := runMiniOne(c, m, tag+strconv.Itoa(n), sp, "")
				if _, ok := groups[sp.bag()]; !ok {
					order = append(order, sp.bag())
				}
				groups[sp.bag()] = append(groups[sp.bag()], entry{sp, res})
			}
		}
	}
	for _, g := range order {
		es := groups[g]
		first := -1
		for i, e := range es {
			if e.res.status != "accepted" {
				continue
			}
			if first < 0 {
				first = i
				continue
			}
			miniCompare(c, tag+"o", es[first].sp, e.sp, es[first].res, e.res)
		}
	}
}
