package c07

import (
	"fmt"
	"strconv"
	"strings"

	"verif/harness/vh"
)

// ------------------------------------------------------------ instantiation rules
//
// Shared declarations (method ids for the model in brackets):
//
//	interface I { im[3] }   interface J extends I { jm[4] }
//	abstract class AB { abstract am[1]; concrete cm[5] }
//	abstract class AB2 extends AB { abstract am2[2] }
//	abstract class AB2J extends AB implements J { abstract am2[2] }
//
// A cell declares `abstract class Mid_k extends <base> { concrete subset of {am, im} }` (optional) and
// `class C_k extends <Mid_k|base> implements <ifc> { concrete subset of {am, am2, im, jm} }` and runs
// `new C_k()`. Class ids: AB=1 AB2=2 AB2J=3 Mid=4 C=5; interfaces I=8 J=9.

type InstCase struct {
	Kind string `json:"kind"` // "inst"
	Tag  string `json:"tag"`
	Base int    `json:"base"` // 0 none 1 AB 2 AB2 3 AB2J
	Ifc  int    `json:"ifc"`  // 0 none 1 I 2 J
	Mid  int    `json:"mid"`  // -1 no middle class, else bitmask over {am, im}
	Own  int    `json:"own"`  // bitmask over {am, am2, im, jm}
	Spec string `json:"spec"` // "" | newAbstract | newInterface | selfAbstract | staticImpl
}

func (x InstCase) key() string {
	return fmt.Sprintf("%s/%d/%d/%d/%d", x.Spec, x.Base, x.Ifc, x.Mid, x.Own)
}

var instMeth = []string{"am", "am2", "im", "jm"}
var instMethID = map[string]int{"am": 1, "am2": 2, "im": 3, "jm": 4, "cm": 5}
var baseName = []string{"", "AB", "AB2", "AB2J"}
var ifcName = []string{"", "I", "J"}

func instCases(tag string) []InstCase {
	var out []InstCase
	for base := 0; base < 4; base++ {
		for ifc := 0; ifc < 3; ifc++ {
			for mid := -1; mid < 4; mid++ {
				for own := 0; own < 16; own++ {
					out = append(out, InstCase{"inst", tag, base, ifc, mid, own, ""})
				}
			}
		}
	}
	for _, s := range []string{"newAbstract", "newAbstract2", "newInterface", "staticImpl", "staticImplMissing"} {
		out = append(out, InstCase{"inst", tag, 0, 0, -1, 0, s})
	}
	return out
}

// required / provided: the oracle's own statement of the rule.
func (x InstCase) complete() bool {
	req := map[string]bool{}
	switch x.Base {
	case 1:
		req["am"] = true
	case 2:
		req["am"], req["am2"] = true, true
	case 3:
		req["am"], req["am2"], req["im"], req["jm"] = true, true, true, true
	}
	switch x.Ifc {
	case 1:
		req["im"] = true
	case 2:
		req["im"], req["jm"] = true, true
	}
	prov := map[string]bool{}
	for i, m := range instMeth {
		if x.Own&(1<<i) != 0 {
			prov[m] = true
		}
	}
	if x.Mid >= 0 {
		if x.Mid&1 != 0 {
			prov["am"] = true
		}
		if x.Mid&2 != 0 {
			prov["im"] = true
		}
	}
	for m := range req {
		if !prov[m] {
			return false
		}
	}
	return true
}

func (x InstCase) expectOK() bool {
	switch x.Spec {
	case "newAbstract", "newAbstract2", "newInterface", "staticImplMissing":
		return false
	case "staticImpl":
		return true
	}
	return x.complete()
}

// declInstClass declares the (optional) abstract middle class `mid` and the concrete class `name` of one
// cell; `extra` is added to the body of `name`.
func declInstClass(sb *strings.Builder, tag, name, mid string, x InstCase, extra string) {
	parent := ""
	if x.Base > 0 {
		parent = baseName[x.Base] + tag
	}
	if x.Mid >= 0 {
		ext := ""
		if parent != "" {
			ext = " extends " + parent
		}
		fmt.Fprintf(sb, "abstract class %s%s {", mid, ext)
		if x.Mid&1 != 0 {
			sb.WriteString(" public function am() { return 1; }")
		}
		if x.Mid&2 != 0 {
			sb.WriteString(" public function im() { return 1; }")
		}
		sb.WriteString(" }\n")
		parent = mid
	}
	decl := "class " + name
	if parent != "" {
		decl += " extends " + parent
	}
	if x.Ifc > 0 {
		decl += " implements " + ifcName[x.Ifc] + tag
	}
	sb.WriteString(decl + " {")
	for i, m := range instMeth {
		if x.Own&(1<<i) != 0 {
			fmt.Fprintf(sb, " public function %s() { return 1; }", m)
		}
	}
	sb.WriteString(extra + " }\n")
}

// instPrelude: the shared interfaces and abstract classes of the instantiation fixtures.
func instPrelude(sb *strings.Builder, tag string) {
	fmt.Fprintf(sb, "interface I%s { public function im(); }\ninterface J%s extends I%s { public function jm(); }\n", tag, tag, tag)
	fmt.Fprintf(sb, "abstract class AB%s { abstract public function am(); public function cm() { return 1; } }\n", tag)
	fmt.Fprintf(sb, "abstract class AB2%s extends AB%s { abstract public function am2(); }\n", tag, tag)
	fmt.Fprintf(sb, "abstract class AB2J%s extends AB%s implements J%s { abstract public function am2(); }\n", tag, tag, tag)
	fmt.Fprintf(sb, "abstract class SA%s { abstract public static function sam(); }\n", tag)
}

func instScript(tag string, cases []InstCase) string {
	var sb strings.Builder
	sb.WriteString("<?php\n")
	instPrelude(&sb, tag)
	fmt.Fprintf(&sb, "function icell%s($id, $f) {\n  try { $v = $f(); $r = \"ok\"; } catch (\\Throwable $e) { $r = \"denied=\" . get_class($e) . \"|\" . $e->getMessage(); }\n  echo \"\\n#\", $id, \":\", $r, \"\\n\";\n}\n", tag)
	for id, x := range cases {
		switch x.Spec {
		case "newAbstract":
			fmt.Fprintf(&sb, "icell%s(%d, fn() => new AB%s());\n", tag, id, tag)
			continue
		case "newAbstract2":
			fmt.Fprintf(&sb, "icell%s(%d, fn() => new AB2J%s());\n", tag, id, tag)
			continue
		case "newInterface":
			fmt.Fprintf(&sb, "icell%s(%d, fn() => new J%s());\n", tag, id, tag)
			continue
		case "staticImpl":
			fmt.Fprintf(&sb, "class SI%s_%d extends SA%s { public static function sam() { return 1; } }\nicell%s(%d, fn() => new SI%s_%d());\n", tag, id, tag, tag, id, tag, id)
			continue
		case "staticImplMissing":
			fmt.Fprintf(&sb, "class SI%s_%d extends SA%s { }\nicell%s(%d, fn() => new SI%s_%d());\n", tag, id, tag, tag, id, tag, id)
			continue
		}
		declInstClass(&sb, tag, fmt.Sprintf("C%s_%d", tag, id), fmt.Sprintf("Mid%s_%d", tag, id), x, "")
		fmt.Fprintf(&sb, "icell%s(%d, fn() => new C%s_%d());\n", tag, id, tag, id)
	}
	return sb.String()
}

func ids(ms []string) string {
	if len(ms) == 0 {
		return "-"
	}
	var s []string
	for _, m := range ms {
		s = append(s, strconv.Itoa(instMethID[m]))
	}
	return strings.Join(s, ".")
}

// the shared part of every model world: AB=1 AB2=2 AB2J=3 SA=6 (abstract static sam[7]); interfaces I=8 J=9
func instBaseWorld() ([]string, string) {
	return []string{
		"1,-,-,1," + ids([]string{"cm"}) + "," + ids([]string{"am"}),
		"2,1,-,1,-," + ids([]string{"am2"}),
		"3,1,9,1,-," + ids([]string{"am2"}),
		"6,-,-,1,-,7",
	}, "8,-,3;9,8,4"
}

// classEntries: the model classes one cell declares (its middle class under id `mid`, its class under `cls`)
// and the id `new` is applied to.
func (x InstCase) classEntries(mid, cls int) ([]string, int) {
	switch x.Spec {
	case "newAbstract":
		return nil, 1
	case "newAbstract2":
		return nil, 3
	case "newInterface":
		return nil, 9
	case "staticImpl":
		return []string{fmt.Sprintf("%d,6,-,0,7,-", cls)}, cls
	case "staticImplMissing":
		return []string{fmt.Sprintf("%d,6,-,0,-,-", cls)}, cls
	}
	var out []string
	parent := "-"
	if x.Base > 0 {
		parent = strconv.Itoa(x.Base)
	}
	if x.Mid >= 0 {
		var ms []string
		if x.Mid&1 != 0 {
			ms = append(ms, "am")
		}
		if x.Mid&2 != 0 {
			ms = append(ms, "im")
		}
		out = append(out, fmt.Sprintf("%d,%s,-,1,%s,-", mid, parent, ids(ms)))
		parent = strconv.Itoa(mid)
	}
	var own []string
	for i, m := range instMeth {
		if x.Own&(1<<i) != 0 {
			own = append(own, m)
		}
	}
	impl := "-"
	if x.Ifc > 0 {
		impl = strconv.Itoa(7 + x.Ifc)
	}
	out = append(out, fmt.Sprintf("%d,%s,%s,0,%s,-", cls, parent, impl, ids(own)))
	return out, cls
}

// modelWorld renders the world of one cell for `vm_c07 inst` and the class to instantiate.
func (x InstCase) modelWorld() (string, int) {
	cls, ifs := instBaseWorld()
	own, id := x.classEntries(4, 5)
	return strings.Join(append(cls, own...), ";") + "/" + ifs, id
}

func instKind(res string) string {
	switch {
	case res == "ok":
		return "ok"
	case strings.Contains(res, "Cannot instantiate abstract class"):
		return "abstract"
	case strings.Contains(res, "不存在或无法加载"):
		return "noclass"
	case strings.Contains(res, "declares abstract method"):
		return "selfabstract"
	case strings.Contains(res, "must therefore be declared abstract or implement"):
		return "missing"
	case strings.HasPrefix(res, "denied="):
		return "denied-other"
	}
	return "no-outcome"
}

func runInst(c *vh.Ctx, m *vh.Model, tag string, only *InstCase) {
	cases := instCases(tag)
	if only != nil {
		cases = []InstCase{*only}
	}
	out := vh.RunFresh(instScript(tag, cases))
	got := map[int]string{}
	for _, l := range strings.Split(out.Out, "\n") {
		if !strings.HasPrefix(l, "#") {
			continue
		}
		k := strings.IndexByte(l, ':')
		if k < 0 {
			continue
		}
		if id, err := strconv.Atoi(l[1:k]); err == nil {
			if _, dup := got[id]; !dup {
				got[id] = l[k+1:]
			}
		}
	}
	if out.Kind != "ok" {
		viol(c, "inst:script-"+out.Kind, fmt.Sprintf("the instantiation script ended with %s: %s", out.Kind, out.Detail), InstCase{Kind: "inst", Tag: tag})
	}
	var lines []string
	for _, x := range cases {
		w, cls := x.modelWorld()
		lines = append(lines, fmt.Sprintf("inst\t%s\t%d", w, cls))
	}
	var ans []string
	if m != nil {
		var err error
		if ans, err = m.AskBatch(lines); err != nil {
			c.Mismatch(nil, "", err.Error(), "model driver failed")
			ans = nil
		}
	}
	for id, x := range cases {
		raw := got[id]
		kind := instKind(raw)
		want := x.expectOK()
		c.Eval("inst/"+tag+"/"+x.key(), !want || x.Base > 0 || x.Ifc > 0)
		c.Hit("inst:outcome:" + kind)
		c.SampleSome(map[string]any{"case": x, "impl": raw}, 173)
		if ans != nil {
			c.Res.Traces++
			if ans[id] != kind {
				c.Mismatch(x, kind+" ["+raw+"]", ans[id], "instantiation outcome differs: "+lines[id])
			}
		}
		switch {
		case kind == "no-outcome":
			viol(c, "inst:no-outcome", fmt.Sprintf("no ok/denied marker (%s)", raw), x)
		case kind == "ok" && !want:
			viol(c, "inst:instantiated:"+x.Spec, fmt.Sprintf("`new` succeeded on a class that is abstract, an interface or leaves an inherited abstract method unimplemented: %+v", x), x)
		case kind != "ok" && want:
			viol(c, "inst:refused:"+kind, fmt.Sprintf("`new` refused a complete concrete class: %+v (%s)", x, raw), x)
		}
	}
}
