package c07

// The declaration-spelling stream (added after the seeded change `C07-promoted-readonly-public-override`).
//
// The matrices declare every member in ONE canonical spelling (`private $p = 1;`, `private static function …`).
// Which modifier a member CARRIES is decided by the parser from the keywords written in front of it, by a
// different piece of code for constructor parameters, named classes, anonymous classes, traits, enums and
// interfaces. This stream adds the spelling as a dimension: for every member kind (property, static property,
// method, static method, promoted constructor parameter) and every sequence of modifier keywords up to a given
// length (every subset in every order, plus repeated keywords), in a class body and in a trait used by the
// class, the three members `…_pub`, `…_prot`, `…_priv` of that kind are written in that spelling (`V` = the
// member's own visibility keyword, absent = none written) and the access probes of the visibility matrix judge
// them from the sites of the matrix:
//
//	oracle (no model): PHP's rule on the WRITTEN visibility (default public when none is written) — same
//	    signatures as the matrix (`leak:<path>:<mod>:<relation>`, `effect:…`), so a known leak stays known;
//	    two accepted spellings of the same keywords must enforce the same rule (`decl:order-dependent:<kind>`);
//	model: `decl <parser> <keywords>` (Model.DeclMods.parse over the regenerated stage lists) says whether the
//	    spelling is accepted and what the member carries; that modifier goes into the `exec` request of each cell.
//
// A spelling the parser refuses (parse error) or that does not produce the member (a constructor parameter
// that is not promoted) is counted, not judged: refusing a declaration is not a leak.

import (
	"fmt"
	"hash/fnv"
	"os"
	"path/filepath"
	"sort"
	"strconv"
	"strings"

	"verif/harness/vh"
)

// Spelling: how the three members of one kind are written in D.
type Spelling struct {
	Cont string   `json:"cont"` // class | trait: where the members stand
	Base string   `json:"base"` // prop | meth | promo
	Seq  []string `json:"seq"`  // V static readonly final var, in the order written
	Type string   `json:"type"` // declared type of a property / promoted parameter ("" none)
}

func (sp Spelling) has(tok string) bool {
	for _, t := range sp.Seq {
		if t == tok {
			return true
		}
	}
	return false
}

// eff: which member cell the spelled kind lands in (matches probe.Eff)
func (sp Spelling) eff() string {
	switch sp.Base {
	case "meth":
		if sp.has("static") {
			return "sc"
		}
		return "c"
	case "promo":
		return "p"
	}
	if sp.has("static") {
		return "sp"
	}
	return "p"
}

func (sp Spelling) kindName() string {
	return map[string]string{"p": "property", "sp": "static property", "c": "method", "sc": "static method"}[sp.eff()] +
		map[bool]string{true: " (promoted constructor parameter)", false: ""}[sp.Base == "promo"]
}

// words: the keywords as written for a member of visibility m
func (sp Spelling) words(m string) []string {
	var out []string
	for _, t := range sp.Seq {
		if t == "V" {
			out = append(out, modKw[m])
		} else {
			out = append(out, t)
		}
	}
	return out
}

func (sp Spelling) text(m string) string {
	w := sp.words(m)
	if sp.Type != "" {
		w = append(w, sp.Type)
	}
	return strings.Join(w, " ")
}

func (sp Spelling) key() string {
	return sp.Cont + "/" + sp.Base + "/" + strings.Join(sp.Seq, "+") + "/" + sp.Type
}

// bag: the keywords regardless of order
func (sp Spelling) bag() string {
	s := append([]string{}, sp.Seq...)
	sort.Strings(s)
	return sp.Cont + "/" + sp.Base + "/" + strings.Join(s, "+") + "/" + sp.Type
}

func (sp Spelling) parser() string {
	if sp.Base == "promo" {
		return "param"
	}
	return sp.Cont
}

// written: the modifier PHP's rule gives the member the cell addresses (oracle side)
func (f *fixture) written(c cell) string {
	if f.spell == nil || c.Probe.Eff != f.spell.eff() || f.spell.has("V") {
		return c.Mod
	}
	return "pub"
}

// carried: the modifier the MODEL's parser resolves for it (model side; falls back to `written`)
func (f *fixture) carried(c cell) string {
	if f.spell == nil || c.Probe.Eff != f.spell.eff() {
		return c.Mod
	}
	if v, ok := f.spellCarried[c.Mod]; ok {
		return v
	}
	return f.written(c)
}

func (f *fixture) traitName() string { return "T" + f.sh.Tag }

// memberDecls: the declarations of the four kinds × three visibilities, the spelled kind in its spelling;
// returns (members that stand in D, members that stand in the trait, constructor text)
func (f *fixture) memberDecls() (inD, inTrait []string, ctor string) {
	sp := f.spell
	dn := f.n("D")
	k := sp.eff()
	var promoParams, ctorInit []string
	for _, m := range mods {
		canon := map[string]string{
			"p":  fmt.Sprintf("  %s $p_%s = 1;\n", modKw[m], m),
			"sp": fmt.Sprintf("  %s static $sp_%s = 1;\n", modKw[m], m),
			"c":  fmt.Sprintf("  %s function m_%s() { $this->cnt = $this->cnt + 1; return 7; }\n", modKw[m], m),
			"sc": fmt.Sprintf("  %s static function sm_%s() { %s::$scnt = %s::$scnt + 1; return 8; }\n", modKw[m], m, dn, dn),
		}
		// a spelling with `static` replaces the static member of its base, one without the instance member
		var spelled string
		switch {
		case sp.Base == "promo":
			promoParams = append(promoParams, fmt.Sprintf("%s $p_%s = 1", sp.text(m), m))
		case k == "p" && sp.has("readonly"):
			spelled = fmt.Sprintf("  %s $p_%s;\n", sp.text(m), m)
			ctorInit = append(ctorInit, fmt.Sprintf("$this->p_%s = 1;", m))
		case k == "p":
			spelled = fmt.Sprintf("  %s $p_%s = 1;\n", sp.text(m), m)
		case k == "sp":
			spelled = fmt.Sprintf("  %s $sp_%s = 1;\n", sp.text(m), m)
		case k == "c":
			spelled = fmt.Sprintf("  %s function m_%s() { $this->cnt = $this->cnt + 1; return 7; }\n", strings.Join(sp.words(m), " "), m)
		case k == "sc":
			spelled = fmt.Sprintf("  %s function sm_%s() { %s::$scnt = %s::$scnt + 1; return 8; }\n", strings.Join(sp.words(m), " "), m, dn, dn)
		}
		for _, kind := range []string{"p", "sp", "c", "sc"} {
			if kind != k {
				inD = append(inD, canon[kind])
				continue
			}
			if spelled == "" {
				continue
			}
			if sp.Cont == "trait" {
				inTrait = append(inTrait, spelled)
			} else {
				inD = append(inD, spelled)
			}
		}
	}
	if sp.Base == "promo" {
		ctor = fmt.Sprintf("  public function __construct(%s) { }\n", strings.Join(promoParams, ", "))
	} else if len(ctorInit) > 0 {
		ctor = fmt.Sprintf("  public function __construct() { %s }\n", strings.Join(ctorInit, " "))
	}
	return
}

func (f *fixture) declareTrait(sb *strings.Builder) {
	if f.spell.Cont != "trait" {
		return
	}
	_, inTrait, ctor := f.memberDecls()
	fmt.Fprintf(sb, "trait %s {\n", f.traitName())
	for _, d := range inTrait {
		sb.WriteString(d)
	}
	if f.spell.Base == "promo" {
		sb.WriteString(ctor)
	}
	sb.WriteString("}\n")
}

// declareSpelled: D's members when one kind is written in f.spell
func (f *fixture) declareSpelled(sb *strings.Builder) {
	inD, _, ctor := f.memberDecls()
	if f.spell.Cont == "trait" {
		fmt.Fprintf(sb, "  use %s;\n", f.traitName())
	}
	if f.spell.Cont != "trait" || f.spell.Base != "promo" {
		sb.WriteString(ctor) // the constructor that initialises readonly members is D's own
	}
	for _, d := range inD {
		sb.WriteString(d)
	}
	// a readonly static (not PHP, accepted here) must not stop the reset of the others
	sb.WriteString("  public static function sreset() { try { self::$sp_pub = 1; } catch (\\Throwable $e) { } try { self::$sp_prot = 1; } catch (\\Throwable $e) { } try { self::$sp_priv = 1; } catch (\\Throwable $e) { } self::$scnt = 0; }\n")
}

// ------------------------------------------------------------ enumeration

var declTokens = []string{"V", "static", "readonly", "final", "var"}

// declSeqs: every sequence of distinct tokens up to maxLen, plus repeated keywords
func declSeqs(maxLen int) [][]string {
	var out [][]string
	seen := map[string]bool{}
	add := func(s []string) {
		k := strings.Join(s, " ")
		if !seen[k] {
			seen[k] = true
			out = append(out, append([]string{}, s...))
		}
	}
	var rec func(cur []string)
	rec = func(cur []string) {
		add(cur)
		if len(cur) == maxLen {
			return
		}
		for _, t := range declTokens {
			used := false
			for _, c := range cur {
				used = used || c == t
			}
			if !used {
				rec(append(append([]string{}, cur...), t))
			}
		}
	}
	rec(nil)
	// a keyword written twice: next to itself and around another one
	base := append([][]string{}, out...)
	for _, s := range base {
		if len(s) == 0 || len(s) > 2 {
			continue
		}
		for i := range s {
			add(append(append([]string{}, s...), s[i]))                           // … t
			add(append(append(append([]string{}, s[:i+1]...), s[i]), s[i+1:]...)) // t t …
			add(append([]string{s[i]}, s...))                                     // t …
		}
	}
	return out
}

// declSites: the sites of the matrix the stream probes from
func declSites(c *vh.Ctx) map[string]bool {
	out := map[string]bool{}
	if c.Thorough() {
		for _, s := range allSites() {
			out[s.key()] = true
		}
		return out
	}
	for _, k := range []string{"outside:>", "inst:D>D", "inst:S>S", "inst:X>X", "inst:G>D", "closure:D>D", "static:X>"} {
		out[k] = true
	}
	return out
}

// declCells: the cells of the matrix that address the spelled kind, from the chosen sites, on an object of D
func (f *fixture) declCells(base []cell, sites map[string]bool, all bool) []cell {
	var out []cell
	sp := f.spell
	for _, x := range base {
		if x.Probe.Eff != sp.eff() || !sites[x.Site.key()] {
			continue
		}
		if !all && x.Probe.Recv == "other" && x.Obj != "D" {
			continue
		}
		if x.Probe.Path == "parentMeth" && sp.Cont == "trait" {
			continue // `parent::m()` from a class whose parent got m from a trait: trait composition, not visibility
		}
		if sp.has("readonly") && (x.Probe.Op == "write" || x.Probe.Op == "unset") && f.specAllowed(x) {
			continue // what a permitted write to a readonly member does is not C07's
		}
		out = append(out, x)
	}
	return out
}

func declHash(s string) int {
	h := fnv.New32a()
	h.Write([]byte(s))
	return int(h.Sum32() % 3)
}

// debugging aid: C07_DUMP_DECL=<dir> writes every script of the stream
func declDumpDir() string { return os.Getenv("C07_DUMP_DECL") }

func declDump(dir string, sp Spelling, src string) {
	os.MkdirAll(dir, 0o755)
	name := strings.NewReplacer("/", "_", "+", "-", "?", "q").Replace(sp.key())
	os.WriteFile(filepath.Join(dir, name+".php"), []byte(src), 0o644)
}

// DeclCase is the replayable form: one spelling (one cell of it), or two spellings of the same keywords.
type DeclCase struct {
	Kind  string    `json:"kind"` // "decl"
	Shape Shape     `json:"shape"`
	Sp    Spelling  `json:"sp"`
	Other *Spelling `json:"other,omitempty"`
	Cell  string    `json:"cell,omitempty"`
}

type declResult struct {
	status  string            // refused | unsupported | accepted | broken
	outcome map[string]string // cell key -> ok | denied   (accepted only)
	detail  string
}

// runDeclOne runs the probes of one spelling; only: one cell key (replay)
func runDeclOne(c *vh.Ctx, m *vh.Model, sh Shape, sp Spelling, sites map[string]bool, only string, base []cell) declResult {
	f := newFixture(sh)
	f.spell = &sp
	cas := func(cell string) DeclCase { return DeclCase{Kind: "decl", Shape: sh, Sp: sp, Cell: cell} }
	// the model's parser
	carriedOK := true
	var modelAns []string
	if m != nil {
		var lines []string
		for _, md := range mods {
			w := strings.Join(sp.words(md), " ")
			if w == "" {
				w = "-"
			}
			lines = append(lines, "decl\t"+sp.parser()+"\t"+w)
		}
		var err error
		if modelAns, err = m.AskBatch(lines); err != nil {
			c.Mismatch(cas(""), "", err.Error(), "model driver failed (decl)")
			modelAns = nil
		}
	}
	modelStatus := ""
	if modelAns != nil {
		f.spellCarried = map[string]string{}
		modelStatus = "accepted"
		for i, md := range mods {
			a := modelAns[i]
			switch {
			case a == "refused":
				modelStatus = "refused"
			case strings.HasPrefix(a, "vis=none"):
				if modelStatus == "accepted" {
					modelStatus = "unsupported"
				}
			case strings.HasPrefix(a, "vis="):
				f.spellCarried[md] = strings.TrimPrefix(strings.Fields(a)[0], "vis=")
				wantStatic := "static=0"
				if sp.has("static") {
					wantStatic = "static=1"
				}
				if !strings.Contains(a, wantStatic) {
					carriedOK = false
				}
			default:
				modelStatus = "?" + a
			}
		}
	}
	carried := f.spellCarried
	cells := f.declCells(base, sites, c.Thorough())
	if only != "" {
		var sel []cell
		for _, x := range cells {
			if x.key() == only {
				sel = append(sel, x)
			}
		}
		cells = sel
	}
	// every script of the stream has its own class / function names, so one VM serves them all (building a VM
	// costs more than running the probes of one spelling); a replay runs on a fresh one
	if declEnv == nil {
		declEnv = vh.NewEnv()
	}
	res := declResult{outcome: map[string]string{}}
	c.Eval("decl/"+sp.key()+"/"+only, sp.has("V"))
	c.Hit("decl:spelling:" + sp.Cont + ":" + sp.Base)
	got := map[int]string{}
	// first the declarations alone (most spellings are refused by the parser: no need to render the probes),
	// then, under other names, with the probes
	var out vh.Outcome
	for pass := 0; pass < 2; pass++ {
		src := ""
		if pass == 0 {
			src = f.script(nil)
		} else {
			f = newFixture(Shape{K0: sh.K0, K1: sh.K1, K2: sh.K2, Tag: sh.Tag + "q", Decl: sh.Decl})
			f.spell, f.spellCarried = &sp, carried
			src = f.script(cells)
		}
		if d := declDumpDir(); d != "" && pass == 1 {
			declDump(d, sp, src)
		}
		out = declEnv.RunSource(src, "/verif-case.php")
		init := ""
		for _, l := range strings.Split(out.Out, "\n") {
			if strings.HasPrefix(l, "#init:") {
				init = strings.TrimPrefix(l, "#init:")
				continue
			}
			if pass == 0 || !strings.HasPrefix(l, "#") {
				continue
			}
			if i := strings.IndexByte(l, ':'); i > 0 {
				if id, err := strconv.Atoi(l[1:i]); err == nil {
					if _, dup := got[id]; !dup {
						got[id] = l
					}
				}
			}
		}
		switch {
		case out.Kind == "parse-error":
			res.status, res.detail = "refused", out.Detail
		case init != "1,1,1,0:1,1,1,0":
			res.status, res.detail = "unsupported", out.Kind+" init="+init+" "+out.Detail
		case out.Kind != "ok":
			res.status, res.detail = "broken", out.Kind+": "+out.Detail
		default:
			res.status = "accepted"
		}
		if res.status != "accepted" {
			break
		}
	}
	c.Hit("decl:" + res.status + ":" + sp.Cont + ":" + sp.Base)
	c.SampleSome(map[string]any{"case": cas(only), "status": res.status, "detail": res.detail}, 41)
	// the promoted parameters of a constructor that comes from a trait are not merged into the using class on this
	// tree (`new D()` → "对象(D)不存在属性(p_pub)"): no member, nothing to judge, and not what the parameter loop decides
	traitPromoGap := sp.Cont == "trait" && sp.Base == "promo" && res.status == "unsupported" && modelStatus == "accepted"
	if traitPromoGap {
		c.Hit("decl:trait-promoted-not-merged")
	}
	if modelStatus != "" && modelStatus != res.status && !traitPromoGap {
		c.Mismatch(cas(only), res.status+" ["+res.detail+"]", modelStatus+" "+strings.Join(modelAns, " | "),
			"the parser and Model.DeclMods.parse disagree on whether the declaration `"+sp.text("priv")+"` is accepted")
	}
	if res.status == "accepted" && !carriedOK {
		c.Mismatch(cas(only), "accepted", strings.Join(modelAns, " | "), "static-ness resolved by the model differs from the keywords")
	}
	if res.status == "broken" {
		viol(c, "decl:script-"+out.Kind, fmt.Sprintf("the probes of a %s spelled `%s` ended with %s", sp.kindName(), sp.text("priv"), res.detail), cas(only))
	}
	if res.status != "accepted" {
		return res
	}
	H := f.modelH()
	var lines []string
	for _, x := range cells {
		lines = append(lines, "exec\t"+H+"\t"+f.modelSite(x)+"\t"+x.modelOp())
	}
	var ans []string
	if m != nil && modelStatus == "accepted" {
		var err error
		if ans, err = m.AskBatch(lines); err != nil {
			c.Mismatch(cas(only), "", err.Error(), "model driver failed")
			ans = nil
		}
	}
	for i, x := range cells {
		ob := parseObs(x, got[x.ID])
		cs := cas(x.key())
		rel := f.rel(x.Site)
		pathName := x.Probe.Name
		if j := strings.IndexByte(pathName, '@'); j >= 0 {
			pathName = pathName[:j]
		}
		if x.Probe.Recv == "this" {
			pathName += "/this"
		}
		wr := f.written(x)
		c.Eval("decl/"+sp.key()+"/"+x.key(), wr != "pub")
		c.Hit("decl:path:" + pathName)
		if ans != nil {
			c.Res.Traces++
			if ans[i] != ob.canon() {
				c.Mismatch(cs, ob.canon()+" ["+ob.raw+"]", ans[i], "spelled `"+sp.text(x.Mod)+"`: access decision / effect differs: "+lines[i])
			}
		}
		allowed := f.specAllowed(x)
		isOK := ob.res == "ok"
		isDenied := strings.HasPrefix(ob.res, "denied=")
		how := fmt.Sprintf("a %s written `%s` in the %s", sp.kindName(), sp.text(x.Mod), map[string]string{"class": "class body", "trait": "body of a trait the class uses"}[sp.Cont])
		switch {
		case !isOK && !isDenied:
			viol(c, "decl:no-outcome:"+pathName, fmt.Sprintf("%s: cell %s produced no ok/denied marker (%s)", how, x.key(), ob.raw), cs)
		case isOK && !allowed:
			c.Hit("decl:leak")
			viol(c, fmt.Sprintf("leak:%s:%s:%s", pathName, wr, rel),
				fmt.Sprintf("%s of %s was used through %s from %s code (lexical class %q, running on %q): the access succeeded", how, f.n("D"), x.Probe.Name, rel, x.Site.Lex, x.Site.Run), cs)
		case isDenied && allowed:
			c.Hit("decl:over-denied:" + sp.Base + ":" + pathName + ":" + wr + ":" + rel)
		}
		if isDenied && (ob.cell != 1 || ob.calls != 0 || ob.touched) {
			viol(c, "effect:"+pathName+":"+wr, fmt.Sprintf("%s: a denied access had an effect: %s", how, ob.raw), cs)
		}
		if isOK {
			want := map[string][2]int{"read": {1, 0}, "write": {2, 0}, "call": {1, 1}, "unset": {0, 0}}[x.Probe.Op]
			if ob.cell != want[0] || ob.calls != want[1] || ob.touched {
				viol(c, "effect-ok:"+pathName+":"+wr, fmt.Sprintf("%s: a successful %s did not have exactly its effect: %s", how, x.Probe.Op, ob.raw), cs)
			}
		}
		if isOK || isDenied {
			res.outcome[x.key()] = strings.SplitN(ob.res, "=", 2)[0]
		}
	}
	return res
}

// declCompare: two accepted spellings of the same keywords must enforce the same rule
func declCompare(c *vh.Ctx, sh Shape, a, b Spelling, ra, rb declResult) {
	if ra.status != "accepted" || rb.status != "accepted" {
		return
	}
	var keys []string
	for k := range ra.outcome {
		keys = append(keys, k)
	}
	sort.Strings(keys)
	for _, k := range keys {
		vb, ok := rb.outcome[k]
		if !ok || vb == ra.outcome[k] {
			continue
		}
		c.Hit("decl:order-dependent")
		viol(c, "decl:order-dependent:"+a.Base+":"+a.eff(),
			fmt.Sprintf("the same keywords in two orders enforce different rules: a %s written `%s` is %s at %s, written `%s` it is %s",
				a.kindName(), a.text("priv"), ra.outcome[k], k, b.text("priv"), vb),
			DeclCase{Kind: "decl", Shape: sh, Sp: a, Other: &b, Cell: k})
		return
	}
}

var declEnv *vh.VMEnv

// runDecl: the whole stream, or one replayed case
func runDecl(c *vh.Ctx, m *vh.Model, tag string, only *DeclCase) {
	declEnv = nil
	defer func() { declEnv = nil }()
	if only != nil {
		sites := map[string]bool{}
		for _, s := range allSites() {
			sites[s.key()] = true
		}
		base := newFixture(only.Shape).cells()
		ra := runDeclOne(c, m, only.Shape, only.Sp, sites, only.Cell, base)
		if only.Other != nil {
			shb := only.Shape
			shb.Tag += "b" // both spellings are declared in the same VM
			rb := runDeclOne(c, m, shb, *only.Other, sites, only.Cell, base)
			declCompare(c, only.Shape, only.Sp, *only.Other, ra, rb)
		}
		return
	}
	sites := declSites(c)
	maxLen := c.N(3, 5)
	seqs := declSeqs(maxLen)
	types := []string{"", "int", "?int"}
	n := 0
	tyOff := c.Rand.Intn(3)
	baseCells := newFixture(Shape{Tag: tag}).cells() // the cells depend on the roles only, not on the names
	type entry struct {
		sp  Spelling
		res declResult
	}
	groups := map[string][]entry{}
	var order []string
	for _, cont := range []string{"class", "trait"} {
		for _, base := range []string{"prop", "meth", "promo"} {
			for _, seq := range seqs {
				sp := Spelling{Cont: cont, Base: base, Seq: seq}
				var tys []string
				switch {
				case base == "meth":
					tys = []string{""}
				case c.Thorough():
					tys = types
				default:
					// one declared type per spelling, the same for every order of the same keywords
					tys = []string{types[(declHash(Spelling{Seq: seq}.bag())+tyOff)%3]}
				}
				for _, ty := range tys {
					if ty == "" && sp.has("readonly") && base != "meth" {
						ty = "int" // PHP: a readonly property must be typed
					}
					sp.Type = ty
					n++
					sh := Shape{K0: 0, K1: 0, K2: 0, Tag: tag + strconv.Itoa(n), Decl: 0}
					res := runDeclOne(c, m, sh, sp, sites, "", baseCells)
					if _, ok := groups[sp.bag()]; !ok {
						order = append(order, sp.bag())
					}
					groups[sp.bag()] = append(groups[sp.bag()], entry{sp, res})
				}
			}
		}
	}
	// order independence, judged on the interpreter alone
	for _, g := range order {
		es := groups[g]
		first := -1
		for i, e := range es {
			if e.res.status != "accepted" {
				continue
			}
			if first < 0 {
				first = i
				continue
			}
			declCompare(c, Shape{Tag: tag + "o"}, es[first].sp, e.sp, es[first].res, e.res)
		}
	}
}
