package c07

import (
	"fmt"
	"os"
	"sort"
	"strconv"
	"strings"

	"verif/harness/vh"
)

// ------------------------------------------------------------ enforcement is history-independent
//
// The three matrices probe every enforcement point once (one attempt per cell, fresh object / fresh class).
// The history stream probes every enforcement point REPEATEDLY within one VM: for each group (one member
// of one object through one access path / one typed slot / one class to instantiate) it runs a schedule of
// attempts on the SAME object, slot or class
//
//	order a (denial first):   [d0 d0 d1]  [legit]  [d0 d1 d2]  [legit d0]  [d2 d0] …
//	order b (legit first):    [legit d0 d0 d1]  [d0]
//
// d0, d1, d2 = sites (different AST nodes, different contexts) where the specification demands a denial,
// legit = a site / value / class for which it demands success. Attempts inside [ ] run back to back, each
// in its own try/catch, with nothing in between (no observation, no other access); after every [ ] the
// state is observed once. Steps are emitted step-index-major, so between two steps of one group lie the
// steps of all other groups (other classes, other members, other paths, other declared types).
//
// Judged, independently of the model:
//   - the specification on every attempt (same signatures as the matrices: a leak on the 5th attempt is a leak);
//   - coherence: attempts of one group at one site have one outcome, whatever came before (`hist:flip:…`);
//   - effects: the observed state is the initial state plus exactly the effects of the successful attempts.
//
// Against the model: the outcome of every attempt equals the model's decision for that site alone
// (C07_history_independent… : a sequence's verdicts are the map of the single verdicts).

type HistCase struct {
	Kind   string `json:"kind"` // "hist"
	Fam    string `json:"fam"`  // acc | ty | inst
	Shape  *Shape `json:"shape,omitempty"`
	Tag    string `json:"tag,omitempty"`
	Group  string `json:"group"`            // "" = the whole session
	Stride int    `json:"stride,omitempty"` // inst: which targets the whole session holds
	Off    int    `json:"off,omitempty"`
}

type hAttempt struct {
	Site  string // attempts of one group with the same Site must have the same outcome
	Label string // d0 | d1 | d2 | legit | …
	Code  string // PHP statement(s); may throw
	OkExp string // PHP expression echoed after "ok=" ("" → none)
	Deny  int    // the specification: 1 must be denied, 0 must succeed, -1 not judged
	Model string // request line for vm_c07 ("" → none)
	Data  any
}

type hStep struct {
	Group    int
	Order    string
	Attempts []hAttempt
	Obs      string // PHP expression list for echo
	Data     any
}

type hOut struct {
	ok     bool
	denied bool
	class  string // Throwable class of a denial
	msg    string
	val    string // what followed "ok="
	raw    string
}

func (o hOut) tok() string {
	switch {
	case o.ok:
		return "ok"
	case o.denied:
		return "denied"
	}
	return "no-outcome"
}

type hViol struct {
	sig, what, group string
}

type histFam struct {
	name   string
	groups []string  // group keys
	plans  [][]hStep // per (group, order): its steps in order
	decl   string    // PHP declarations and session objects
	cas    func(group string) HistCase
	// attempt judges one attempt against the specification and updates the expected state
	attempt func(r *histRun, st *hStep, at *hAttempt, o hOut)
	// observe judges the observed state after a step
	observe func(r *histRun, st *hStep, outs []hOut, obs string)
	// implTok / modelTok: what is compared with the model
	implTok  func(o hOut) string
	modelTok func(ans string) string
	pathOf   func(st *hStep, at *hAttempt) string // for the flip signature
	// seq holds the whole session against the model's sequence semantics (Model.Access.run / Types.storeRun /
	// Inst.newRun): outcomes in order and the state at every observation
	seq func(c *vh.Ctx, m *vh.Model, steps []*hStep, outs map[string]hOut, obs map[int]string)
}

type histRun struct {
	c     *vh.Ctx
	fam   *histFam
	quiet bool
	viols []hViol
}

func (r *histRun) report(sig, what string, g int) {
	r.viols = append(r.viols, hViol{sig, what, r.fam.groups[g]})
}

func (r *histRun) hit(k string) {
	if !r.quiet {
		r.c.Hit(k)
	}
}

// emission order: step-index-major over all plans
func (fam *histFam) steps() []*hStep {
	var out []*hStep
	for si := 0; ; si++ {
		any := false
		for p := range fam.plans {
			if si < len(fam.plans[p]) {
				out = append(out, &fam.plans[p][si])
				any = true
			}
		}
		if !any {
			return out
		}
	}
}

func (fam *histFam) script(steps []*hStep) string {
	var sb strings.Builder
	sb.WriteString("<?php\n")
	sb.WriteString(fam.decl)
	for id, st := range steps {
		for ai, a := range st.Attempts {
			okx := "\"\""
			if a.OkExp != "" {
				okx = a.OkExp
			}
			fmt.Fprintf(&sb, "try { %s echo \"\\n#%d.%d~~ok=\", %s, \"\\n\"; } catch (\\Throwable $e) { echo \"\\n#%d.%d~~denied=\", get_class($e), \"|\", $e->getMessage(), \"\\n\"; }\n",
				a.Code, id, ai, okx, id, ai)
		}
		fmt.Fprintf(&sb, "echo \"\\n#%d.o~~\", %s, \"\\n\";\n", id, st.Obs)
	}
	return sb.String()
}

func parseHistOut(out string) (map[string]hOut, map[int]string) {
	outs, obs := map[string]hOut{}, map[int]string{}
	for _, l := range strings.Split(out, "\n") {
		if !strings.HasPrefix(l, "#") {
			continue
		}
		k := strings.Index(l, "~~")
		if k < 0 {
			continue
		}
		id, rest := l[1:k], l[k+2:]
		if strings.HasSuffix(id, ".o") {
			if n, err := strconv.Atoi(strings.TrimSuffix(id, ".o")); err == nil {
				if _, dup := obs[n]; !dup {
					obs[n] = rest
				}
			}
			continue
		}
		if _, dup := outs[id]; dup {
			continue
		}
		o := hOut{raw: rest}
		switch {
		case strings.HasPrefix(rest, "ok="):
			o.ok, o.val = true, strings.TrimPrefix(rest, "ok=")
		case strings.HasPrefix(rest, "denied="):
			o.denied = true
			cm := strings.SplitN(strings.TrimPrefix(rest, "denied="), "|", 2)
			o.class = cm[0]
			if len(cm) == 2 {
				o.msg = cm[1]
			}
		}
		outs[id] = o
	}
	return outs, obs
}

// runHist runs one session and returns what the oracles found.
func runHist(c *vh.Ctx, m *vh.Model, fam *histFam, quiet bool) []hViol {
	r := &histRun{c: c, fam: fam, quiet: quiet}
	steps := fam.steps()
	if len(steps) == 0 {
		return nil
	}
	src := fam.script(steps)
	out := vh.RunFresh(src)
	if d := os.Getenv("C07_DUMP_HIST"); d != "" && !quiet {
		os.WriteFile(fmt.Sprintf("%s/hist-%s-%d.php", d, fam.name, c.Res.Evaluations), []byte(src), 0o644)
		os.WriteFile(fmt.Sprintf("%s/hist-%s-%d.out", d, fam.name, c.Res.Evaluations), []byte(out.Out), 0o644)
	}
	outs, obs := parseHistOut(out.Out)
	if out.Kind != "ok" {
		r.viols = append(r.viols, hViol{"hist:script-" + out.Kind + ":" + fam.name, fmt.Sprintf("the %s history script ended with %s: %s", fam.name, out.Kind, out.Detail), ""})
	}
	// the model's decision for every attempt, each asked in isolation
	var lines []string
	var ans []string
	if m != nil && !quiet {
		for _, st := range steps {
			for _, a := range st.Attempts {
				if a.Model != "" {
					lines = append(lines, a.Model)
				}
			}
		}
		var err error
		if ans, err = m.AskBatch(lines); err != nil {
			c.Mismatch(fam.cas(""), "", err.Error(), "model driver failed (hist "+fam.name+")")
			ans = nil
		}
	}
	ai := 0
	type first struct {
		tok   string
		where string
	}
	seen := map[string]first{}
	for id, st := range steps {
		var got []hOut
		for k := range st.Attempts {
			at := &st.Attempts[k]
			o := outs[fmt.Sprintf("%d.%d", id, k)]
			got = append(got, o)
			gk := fam.groups[st.Group]
			where := fmt.Sprintf("order %s, step %d, attempt %d (%s at %s)", st.Order, id, k, at.Label, at.Site)
			if !quiet {
				c.Eval(fmt.Sprintf("hist/%s/%s/%s/%d/%d", fam.name, gk, st.Order, id, k), at.Deny != 0)
				c.Hit("hist:" + fam.name + ":attempt:" + at.Label + ":" + o.tok())
			}
			path := fam.pathOf(st, at)
			if !o.ok && !o.denied {
				r.report("hist:no-outcome:"+fam.name+":"+path, fmt.Sprintf("group %s, %s: no ok/denied marker (%q)", gk, where, o.raw), st.Group)
			}
			// correspondence with the model
			if a := at.Model; a != "" && ans != nil {
				want := fam.modelTok(ans[ai])
				c.Res.Traces++
				if impl := fam.implTok(o); impl != want {
					c.Mismatch(fam.cas(gk), impl+" ["+o.raw+"]", want, "history "+where+": the outcome differs from the model's decision for this access alone: "+a)
				}
			}
			if at.Model != "" && m != nil && !quiet {
				ai++
			}
			// coherence: one group, one site, one outcome
			ck := gk + "|" + at.Site
			if f, ok := seen[ck]; !ok {
				seen[ck] = first{o.tok(), where}
			} else if f.tok != o.tok() && (o.ok || o.denied) {
				r.report("hist:flip:"+fam.name+":"+path,
					fmt.Sprintf("enforcement depends on history: group %s, %s was %s, but the same access at the same site was %s at %s", gk, where, o.tok(), f.tok, f.where), st.Group)
			}
			if o.ok || o.denied {
				fam.attempt(r, st, at, o)
			}
		}
		ob, has := obs[id]
		if !has {
			r.report("hist:no-outcome:"+fam.name+":obs", fmt.Sprintf("group %s: no observation after step %d", fam.groups[st.Group], id), st.Group)
			continue
		}
		fam.observe(r, st, got, ob)
	}
	if fam.seq != nil && m != nil && !quiet && out.Kind == "ok" {
		fam.seq(c, m, steps, outs, obs)
	}
	return r.viols
}

// settle turns what a session found into violations with the smallest replay that reproduces them: the
// group alone if the signature shows there too, else the whole session.
func settle(c *vh.Ctx, fam *histFam, vs []hViol, whole bool, rebuild func(group string) *histFam) {
	type key struct{ sig, group string }
	done := map[key]bool{}
	perSig := map[string]int{}
	for _, v := range vs {
		k := key{v.sig, v.group}
		if done[k] {
			c.Hit("sig:" + v.sig)
			continue
		}
		done[k] = true
		group := v.group
		if whole && !c.Known[v.sig] && v.group != "" {
			perSig[v.sig]++
			if perSig[v.sig] <= 3 {
				alone := false
				for _, w := range runHist(c, nil, rebuild(v.group), true) {
					if w.sig == v.sig {
						alone = true
					}
				}
				if !alone {
					group = ""
				}
			}
		}
		viol(c, v.sig, v.what, fam.cas(group))
	}
}

func b2i(b bool) int {
	if b {
		return 1
	}
	return 0
}

// ------------------------------------------------------------ visibility

type accData struct {
	x     cell
	w     int
	obj   string // PHP variable of the observed object
	fresh bool   // the attempt runs on a fresh object (unset probes)
	oid   int    // the model's id of the observed object (a fresh object gets a fresh id)
}

// keys of the model store: cells 0..2 = the statics, 8*oid+{0,1,2} = the instance members; counters 0 = the
// static one, oid = the instance one
func (d accData) item(f *fixture) string {
	mi := map[string]int{"pub": 0, "prot": 1, "priv": 2}[d.x.Mod]
	key := 0
	switch d.x.Probe.Eff {
	case "p":
		key = 8*d.oid + mi
	case "sp":
		key = mi
	case "c":
		key = d.oid
	}
	return "a," + strings.ReplaceAll(f.modelSite(d.x), "\t", ",") + "," + d.x.modelOp() + "," + strconv.Itoa(key) + "," + strconv.Itoa(d.w)
}

type accState struct {
	inst map[string]*[4]string
	stat [4]string
}

func accCall(f *fixture, x cell, objVar string, w int) string {
	k := probeKey{x.Site.Lex, x.Site.Kind, x.Probe.Name, x.Probe.Recv, x.Mod}
	switch x.Site.Kind {
	case "outside":
		return fmt.Sprintf("$h_%s(%s, %d)", k.method(), objVar, w)
	case "func":
		return fmt.Sprintf("%s%s(%s, %d)", k.method(), f.sh.Tag, objVar, w)
	case "static":
		return fmt.Sprintf("%s::%s(%s, %d)", f.n(x.Site.Lex), k.method(), objVar, w)
	}
	if x.Probe.Recv == "this" || (x.Probe.Named == "" && x.Probe.Needs != "") {
		return fmt.Sprintf("%s->%s(null, %d)", objVar, k.method(), w)
	}
	return fmt.Sprintf("$R_%s->%s(%s, %d)", x.Site.Run, k.method(), objVar, w)
}

func buildAccHist(f *fixture, only string) *histFam {
	type grp struct {
		key         string
		deny, legit []cell
	}
	var order []string
	groups := map[string]*grp{}
	for _, x := range f.cells() {
		if x.Mod == "pub" {
			continue
		}
		k := x.Probe.Name + "/" + x.Probe.Recv + "/" + x.Mod + "/" + x.Obj
		if only != "" && k != only {
			continue
		}
		g := groups[k]
		if g == nil {
			g = &grp{key: k}
			groups[k] = g
			order = append(order, k)
		}
		if f.specAllowed(x) {
			g.legit = append(g.legit, x)
		} else {
			g.deny = append(g.deny, x)
		}
	}
	fam := &histFam{name: "acc"}
	sh := f.sh
	fam.cas = func(group string) HistCase { return HistCase{Kind: "hist", Fam: "acc", Shape: &sh, Group: group} }
	H := f.modelH()
	w := 10
	var used []cell
	runners := map[string]bool{}
	var objDecl strings.Builder
	oids := map[string]int{}
	nextOid := 0
	mk := func(g int, ord, label string, x cell) hAttempt {
		w++
		objVar := fmt.Sprintf("$o%s%d", ord, g)
		d := accData{x: x, w: w, obj: objVar, fresh: x.Probe.Op == "unset"}
		if d.fresh || oids[objVar] == 0 {
			nextOid++
			oids[objVar] = nextOid
		}
		d.oid = oids[objVar]
		code := "$v = " + accCall(f, x, objVar, w) + ";"
		if d.fresh {
			code = fmt.Sprintf("%s = new %s(); ", objVar, f.n(accObjRole(x))) + code
		}
		if (x.Site.Kind == "inst" || x.Site.Kind == "closure") && !(x.Probe.Recv == "this" || (x.Probe.Named == "" && x.Probe.Needs != "")) {
			runners[x.Site.Run] = true
		}
		used = append(used, x)
		return hAttempt{Site: x.Site.key(), Label: label, Code: code, Deny: b2i(!f.specAllowed(x)),
			Model: "exec\t" + H + "\t" + f.modelSite(x) + "\t" + x.modelOp(), Data: d}
	}
	for _, k := range order {
		g := groups[k]
		if len(g.deny) == 0 {
			continue
		}
		gi := len(fam.groups)
		fam.groups = append(fam.groups, k)
		d0, d1, d2 := g.deny[0], g.deny[1%len(g.deny)], g.deny[len(g.deny)-1]
		var l0 *cell
		if len(g.legit) > 0 && d0.Probe.Op != "unset" {
			l0 = &g.legit[0]
		}
		role := accObjRole(d0)
		for _, ord := range []string{"a", "b"} {
			fmt.Fprintf(&objDecl, "$o%s%d = new %s();\n", ord, gi, f.n(role))
		}
		obs := func(ord string) string { return fmt.Sprintf("$o%s%d->obs(), \":\", %s::sobs()", ord, gi, f.n("D")) }
		step := func(ord string, as ...hAttempt) hStep {
			return hStep{Group: gi, Order: ord, Attempts: as, Obs: obs(ord)}
		}
		var pa, pb []hStep
		pa = append(pa, step("a", mk(gi, "a", "d0", d0), mk(gi, "a", "d0", d0), mk(gi, "a", "d1", d1)))
		if l0 != nil {
			pa = append(pa, step("a", mk(gi, "a", "legit", *l0)))
		}
		pa = append(pa, step("a", mk(gi, "a", "d0", d0), mk(gi, "a", "d1", d1), mk(gi, "a", "d2", d2)))
		if l0 != nil {
			pa = append(pa, step("a", mk(gi, "a", "legit", *l0), mk(gi, "a", "d0", d0)))
		}
		pa = append(pa, step("a", mk(gi, "a", "d2", d2), mk(gi, "a", "d0", d0)))
		if l0 != nil {
			pb = append(pb, step("b", mk(gi, "b", "legit", *l0), mk(gi, "b", "d0", d0), mk(gi, "b", "d0", d0), mk(gi, "b", "d1", d1)))
		} else {
			pb = append(pb, step("b", mk(gi, "b", "d1", d1), mk(gi, "b", "d0", d0)))
		}
		pb = append(pb, step("b", mk(gi, "b", "d0", d0)))
		fam.plans = append(fam.plans, pa, pb)
	}
	var sb strings.Builder
	f.declare(&sb, used, true)
	var rs []string
	for r := range runners {
		rs = append(rs, r)
	}
	sort.Strings(rs)
	for _, r := range rs {
		fmt.Fprintf(&sb, "$R_%s = new %s();\n", r, f.n(r))
	}
	sb.WriteString(objDecl.String())
	fam.decl = sb.String()

	state := &accState{inst: map[string]*[4]string{}, stat: [4]string{"1", "1", "1", "0"}}
	instOf := func(v string) *[4]string {
		if state.inst[v] == nil {
			state.inst[v] = &[4]string{"1", "1", "1", "0"}
		}
		return state.inst[v]
	}
	pathName := func(x cell) string {
		p := x.Probe.Name
		if j := strings.IndexByte(p, '@'); j >= 0 {
			p = p[:j]
		}
		if x.Probe.Recv == "this" {
			p += "/this"
		}
		return p
	}
	fam.pathOf = func(st *hStep, at *hAttempt) string {
		x := at.Data.(accData).x
		return pathName(x) + ":" + x.Mod
	}
	fam.implTok = func(o hOut) string { return o.tok() }
	fam.modelTok = func(a string) string { return strings.SplitN(a, " ", 2)[0] }
	bump := func(s string) string { n, _ := strconv.Atoi(s); return strconv.Itoa(n + 1) }
	fam.attempt = func(r *histRun, st *hStep, at *hAttempt, o hOut) {
		d := at.Data.(accData)
		x := d.x
		if d.fresh {
			*instOf(d.obj) = [4]string{"1", "1", "1", "0"}
		}
		rel := f.rel(x.Site)
		switch {
		case o.ok && at.Deny == 1:
			r.hit("hist:acc:leak")
			r.report(fmt.Sprintf("leak:%s:%s:%s", pathName(x), x.Mod, rel),
				fmt.Sprintf("a %s member declared by %s was used through %s from %s code (lexical class %q, running on %q): the access succeeded (history: order %s, %s)", modKw[x.Mod], f.n("D"), x.Probe.Name, rel, x.Site.Lex, x.Site.Run, st.Order, at.Label), st.Group)
		case o.denied && at.Deny == 0:
			r.hit("hist:acc:over-denied:" + pathName(x) + ":" + x.Mod + ":" + rel)
		}
		if !o.ok {
			return
		}
		mi := map[string]int{"pub": 0, "prot": 1, "priv": 2}[x.Mod]
		in := instOf(d.obj)
		switch x.Probe.Op {
		case "write":
			if x.Probe.Eff == "p" {
				in[mi] = strconv.Itoa(d.w)
			} else {
				state.stat[mi] = strconv.Itoa(d.w)
			}
		case "call":
			if x.Probe.Eff == "c" {
				in[3] = bump(in[3])
			} else {
				state.stat[3] = bump(state.stat[3])
			}
		case "unset":
			in[mi] = ""
		}
	}
	fam.observe = func(r *histRun, st *hStep, outs []hOut, obs string) {
		d := st.Attempts[len(st.Attempts)-1].Data.(accData)
		in := instOf(d.obj)
		want := strings.Join(in[:], ",") + ":" + strings.Join(state.stat[:], ",")
		if obs == want {
			return
		}
		anyOK := false
		for _, o := range outs {
			anyOK = anyOK || o.ok
		}
		sig := "effect:" + pathName(d.x) + ":" + d.x.Mod
		what := fmt.Sprintf("denied accesses had an effect: the state is %s, expected %s (group %s, order %s)", obs, want, fam.groups[st.Group], st.Order)
		if anyOK {
			sig = "effect-ok:" + pathName(d.x) + ":" + d.x.Mod
			what = fmt.Sprintf("after the successful accesses of this step the state is %s, expected %s (group %s, order %s)", obs, want, fam.groups[st.Group], st.Order)
		}
		r.report(sig, what, st.Group)
		// resynchronise on what is there
		parts := strings.Split(obs, ":")
		if len(parts) == 2 {
			iv, sv := strings.Split(parts[0], ","), strings.Split(parts[1], ",")
			if len(iv) == 4 && len(sv) == 4 {
				copy(in[:], iv)
				copy(state.stat[:], sv)
			}
		}
	}
	fam.seq = func(c *vh.Ctx, m *vh.Model, steps []*hStep, outs map[string]hOut, obs map[int]string) {
		var items, want []string
		var grp []int
		for id, st := range steps {
			var last accData
			for k := range st.Attempts {
				last = st.Attempts[k].Data.(accData)
				items = append(items, last.item(f))
				want = append(want, outs[fmt.Sprintf("%d.%d", id, k)].tok())
				grp = append(grp, st.Group)
			}
			o := 8 * last.oid
			items = append(items, fmt.Sprintf("o,%d.%d.%d.0.1.2,%d.0", o, o+1, o+2, last.oid))
			// observed `p,p,p,cnt:sp,sp,sp,scnt` in the model's order; an unset member prints as ""
			w := "?"
			if parts := strings.Split(obs[id], ":"); len(parts) == 2 {
				iv, sv := strings.Split(parts[0], ","), strings.Split(parts[1], ",")
				if len(iv) == 4 && len(sv) == 4 {
					z := func(x string) string {
						if x == "" {
							return "0"
						}
						return x
					}
					w = strings.Join([]string{z(iv[0]), z(iv[1]), z(iv[2]), sv[0], sv[1], sv[2]}, ".") + "|" + iv[3] + "." + sv[3]
				}
			}
			want = append(want, w)
			grp = append(grp, st.Group)
		}
		ans, err := m.Ask("seq\t" + H + "\t" + strings.Join(items, ";"))
		if err != nil {
			c.Mismatch(fam.cas(""), "", err.Error(), "model driver failed (seq)")
			return
		}
		got := strings.Split(ans, " ")
		if len(got) != len(want) {
			c.Mismatch(fam.cas(""), fmt.Sprintf("%d items", len(want)), firstN(ans, 200), "Model.Access.run answered a different number of items")
			return
		}
		c.Res.Traces++
		for i := range want {
			if got[i] != want[i] {
				c.Mismatch(fam.cas(fam.groups[grp[i]]), want[i], got[i], fmt.Sprintf("the session as one sequence (Model.Access.run): item %d (%s) differs", i, items[i]))
			}
		}
	}
	return fam
}

func firstN(s string, n int) string {
	if len(s) > n {
		return s[:n]
	}
	return s
}

func accObjRole(x cell) string {
	if x.Probe.Named != "" {
		return "D" // the observer object; static probes do not use it
	}
	return x.Obj
}

func histAccess(c *vh.Ctx, m *vh.Model, sh Shape, only string) {
	f := newFixture(sh)
	fam := buildAccHist(f, only)
	vs := runHist(c, m, fam, false)
	settle(c, fam, vs, only == "", func(g string) *histFam { return buildAccHist(newFixture(sh), g) })
}

// ------------------------------------------------------------ declared types

type tyData struct {
	b    string
	ty   int
	val  int
	slot string // key of the slot a store writes ("" for non-stores)
}

func tyBody(b string, i int, tag string) (body, closure string) {
	at := func(s string) string { return strings.ReplaceAll(s, "@", tag) }
	t := at(tyDecls()[i].Src)
	switch b {
	case "propStore":
		return fmt.Sprintf("$o->p_%d = $v; return \"-\";", i), ""
	case "dynPropStore":
		return fmt.Sprintf("$n = \"p_%d\"; $o->$n = $v; return \"-\";", i), ""
	case "idxStore":
		return fmt.Sprintf("$o[\"p_%d\"] = $v; return \"-\";", i), ""
	case "staticStore":
		return fmt.Sprintf("TP%s::$s_%d = $v; return \"-\";", tag, i), ""
	case "fnParam":
		return fmt.Sprintf("return fp%s_%d($v);", tag, i), ""
	case "methParam":
		return fmt.Sprintf("return $o->mp_%d($v);", i), ""
	case "staticParam":
		return fmt.Sprintf("return TP%s::sp_%d($v);", tag, i), ""
	case "ctorParam":
		return fmt.Sprintf("$c = new CT%s_%d($v); return $c->got;", tag, i), ""
	case "promotedParam":
		return fmt.Sprintf("$c = new PP%s_%d($v); return tg%s($c->x);", tag, i, tag), ""
	case "fnReturn":
		return fmt.Sprintf("return tg%s(fr%s_%d($v));", tag, tag, i), ""
	case "methReturn":
		return fmt.Sprintf("return tg%s($o->mr_%d($v));", tag, i), ""
	case "closureParam":
		return "return $g($v);", fmt.Sprintf("function(%s $x) { return tg%s($x); }", t, tag)
	case "closureParam/arrow":
		return "return $g($v);", fmt.Sprintf("fn(%s $x) => tg%s($x)", t, tag)
	case "closureReturn":
		return fmt.Sprintf("return tg%s($g($v));", tag), fmt.Sprintf("function($x): %s { return $x; }", t)
	case "closureReturn/arrow":
		return fmt.Sprintf("return tg%s($g($v));", tag), fmt.Sprintf("fn($x): %s => $x", t)
	}
	return "return \"?\";", ""
}

func buildTyHist(tag string, only string) *histFam {
	at := func(s string) string { return strings.ReplaceAll(s, "@", tag) }
	tys, vals := tyDecls(), valDecls()
	fam := &histFam{name: "ty"}
	fam.cas = func(group string) HistCase { return HistCase{Kind: "hist", Fam: "ty", Tag: tag, Group: group} }
	var sb strings.Builder
	typePrelude(&sb, tag)
	slug := strings.NewReplacer("/", "_").Replace
	for _, b := range boundaries {
		for i := range tys {
			gk := fmt.Sprintf("%s/%d", b, i)
			if only != "" && gk != only {
				continue
			}
			var bad, good []int
			for j, v := range vals {
				if tys[i].Denotes(v.Name) {
					good = append(good, j)
				} else if v.Name != "null" {
					bad = append(bad, j)
				}
			}
			if !tys[i].Denotes("null") {
				bad = append(bad, 4) // null last: every parameter boundary lets it through (known)
			}
			if len(bad) == 0 || len(good) == 0 {
				continue
			}
			gi := len(fam.groups)
			fam.groups = append(fam.groups, gk)
			body, closure := tyBody(b, i, tag)
			for _, s := range []string{"a", "b"} {
				fmt.Fprintf(&sb, "function hs%s_%s_%d_%s($o, $g, $v) { %s }\n", tag, slug(b), i, s, body)
			}
			mk := func(ord, label, site string, j int) hAttempt {
				in := tys[i].Denotes(vals[j].Name)
				slot := ""
				if isStore(b) {
					slot = fmt.Sprintf("$t%s%d", ord, gi)
					if b == "staticStore" {
						slot = fmt.Sprintf("static:%d", i)
					}
				}
				return hAttempt{Site: site + "<-" + vals[j].Name, Label: label,
					Code:  fmt.Sprintf("$v = hs%s_%s_%d_%s($t%s%d, $g%s%d, %s);", tag, slug(b), i, site, ord, gi, ord, gi, at(vals[j].Src)),
					OkExp: "$v", Deny: b2i(!in),
					Model: "bd\t" + typeH + "\t" + modelBoundary(b) + "\t" + vals[j].Model + "\t" + tys[i].Model,
					Data:  tyData{b, i, j, slot}}
			}
			var pa, pb []hStep
			for _, ord := range []string{"a", "b"} {
				g := "null"
				if closure != "" {
					g = closure
				}
				fmt.Fprintf(&sb, "$t%s%d = new TP%s(); $g%s%d = %s;\n", ord, gi, tag, ord, gi, g)
			}
			obs := func(ord string) string {
				switch {
				case b == "staticStore":
					return fmt.Sprintf("tg%s(TP%s::$s_%d)", tag, tag, i)
				case isStore(b):
					return fmt.Sprintf("$t%s%d->look(\"p_%d\")", ord, gi, i)
				}
				return "\"-\""
			}
			step := func(ord string, as ...hAttempt) hStep {
				return hStep{Group: gi, Order: ord, Attempts: as, Obs: obs(ord)}
			}
			b0, b1 := bad[0], bad[1%len(bad)]
			g0, g1 := good[0], good[len(good)-1]
			pa = append(pa, step("a", mk("a", "d0", "a", b0), mk("a", "d0", "a", b0), mk("a", "d1", "b", b0)))
			pa = append(pa, step("a", mk("a", "legit", "a", g0)))
			pa = append(pa, step("a", mk("a", "d0", "a", b0), mk("a", "d2", "a", b1), mk("a", "d1", "b", b0)))
			var all []hAttempt
			for _, j := range bad {
				all = append(all, mk("a", "dall", "a", j))
			}
			pa = append(pa, step("a", all...))
			pa = append(pa, step("a", mk("a", "legit", "b", g1), mk("a", "d1", "b", b0), mk("a", "d0", "a", b0)))
			pb = append(pb, step("b", mk("b", "legit", "a", g0), mk("b", "d0", "a", b0), mk("b", "d0", "a", b0), mk("b", "d1", "b", b0)))
			pb = append(pb, step("b", mk("b", "d2", "b", b1)))
			fam.plans = append(fam.plans, pa, pb)
		}
	}
	fam.decl = sb.String()
	slots := map[string]string{}
	slotOf := func(k string) string {
		if v, ok := slots[k]; ok {
			return v
		}
		return "null"
	}
	fam.pathOf = func(st *hStep, at *hAttempt) string { return at.Data.(tyData).b }
	fam.implTok = func(o hOut) string {
		switch {
		case o.ok:
			return "1"
		case o.denied:
			return "0"
		}
		return "?"
	}
	fam.modelTok = func(a string) string { return a }
	fam.attempt = func(r *histRun, st *hStep, a *hAttempt, o hOut) {
		d := a.Data.(tyData)
		in := a.Deny == 0
		v := vals[d.val]
		nn := "nonnull"
		if v.Name == "null" {
			nn = "null"
		}
		switch {
		case o.ok && !in:
			r.hit("hist:ty:admitted-outside")
			r.report("type:"+d.b+":"+nn, fmt.Sprintf("a slot declared %s accepted a %s value at the %s boundary (history: order %s, %s)", tys[d.ty].Src, v.Name, d.b, st.Order, a.Label), st.Group)
		case o.denied && in:
			r.report("type:"+d.b+":rejects", fmt.Sprintf("a slot declared %s rejected a %s value at the %s boundary (history: order %s, %s)", tys[d.ty].Src, v.Name, d.b, st.Order, a.Label), st.Group)
		}
		if !o.ok {
			return
		}
		if d.slot != "" {
			slots[d.slot] = at(v.Tag)
		} else if in && o.val != at(v.Tag) {
			r.report("type:"+d.b+":altered", fmt.Sprintf("a %s value crossed the %s boundary declared %s and arrived as %s (history: order %s, %s)", v.Name, d.b, tys[d.ty].Src, o.val, st.Order, a.Label), st.Group)
		}
	}
	fam.observe = func(r *histRun, st *hStep, outs []hOut, obs string) {
		d := st.Attempts[0].Data.(tyData)
		if d.slot == "" {
			return
		}
		want := slotOf(d.slot)
		if obs == want {
			return
		}
		anyOK := false
		for _, o := range outs {
			anyOK = anyOK || o.ok
		}
		if anyOK {
			r.report("type:"+d.b+":altered", fmt.Sprintf("after the admitted stores of this step the slot declared %s holds %s, expected %s (group %s, order %s)", tys[d.ty].Src, obs, want, fam.groups[st.Group], st.Order), st.Group)
		} else {
			r.report("type:"+d.b+":effect", fmt.Sprintf("rejected stores changed the slot declared %s (now %s, was %s; group %s, order %s)", tys[d.ty].Src, obs, want, fam.groups[st.Group], st.Order), st.Group)
		}
		slots[d.slot] = obs
	}
	fam.seq = func(c *vh.Ctx, m *vh.Model, steps []*hStep, outs map[string]hOut, obs map[int]string) {
		type plan struct {
			d       tyData
			vs      []string
			verdict []string
			slot    string
			group   int
		}
		plans := map[string]*plan{}
		var order []string
		for id, st := range steps {
			k := fmt.Sprintf("%d/%s", st.Group, st.Order)
			p := plans[k]
			if p == nil {
				p = &plan{d: st.Attempts[0].Data.(tyData), group: st.Group}
				plans[k] = p
				order = append(order, k)
			}
			for a := range st.Attempts {
				p.vs = append(p.vs, vals[st.Attempts[a].Data.(tyData).val].Model)
				p.verdict = append(p.verdict, fam.implTok(outs[fmt.Sprintf("%d.%d", id, a)]))
			}
			p.slot = obs[id]
		}
		var lines []string
		for _, k := range order {
			p := plans[k]
			lines = append(lines, "bseq\t"+typeH+"\t"+modelBoundary(p.d.b)+"\t"+strings.Join(p.vs, ".")+"\t"+tys[p.d.ty].Model)
		}
		ans, err := m.AskBatch(lines)
		if err != nil {
			c.Mismatch(fam.cas(""), "", err.Error(), "model driver failed (bseq)")
			return
		}
		tagOf := map[string]string{"-": "null"}
		for _, v := range vals {
			tagOf[v.Model] = at(v.Tag)
		}
		for i, k := range order {
			p := plans[k]
			c.Res.Traces++
			want := strings.Join(p.verdict, ".")
			parts := strings.SplitN(ans[i], "|", 2)
			if parts[0] != want {
				c.Mismatch(fam.cas(fam.groups[p.group]), want, ans[i], "the crossings of one slot as one sequence (Model.Types.storeRun): verdicts differ: "+lines[i])
				continue
			}
			// the slot afterwards (a static slot is shared by both orders: verdicts only)
			if isStore(p.d.b) && p.d.b != "staticStore" && len(parts) == 2 && tagOf[parts[1]] != p.slot {
				c.Mismatch(fam.cas(fam.groups[p.group]), p.slot, parts[1], "the crossings of one slot as one sequence (Model.Types.storeRun): the slot content afterwards differs: "+lines[i])
			}
		}
	}
	return fam
}

func histTypes(c *vh.Ctx, m *vh.Model, tag, only string) {
	fam := buildTyHist(tag, only)
	vs := runHist(c, m, fam, false)
	settle(c, fam, vs, only == "", func(g string) *histFam { return buildTyHist(tag, g) })
}

// ------------------------------------------------------------ instantiation

type instData struct {
	x    InstCase
	kid  bool
	news bool // the attempt is a `new` (runs a constructor when it succeeds)
	mid  int  // the class in the group's model world (0: not a `new`)
}

// partner: the complete sibling of a cell (same ancestors, every method provided), the legitimate `new`
func (x InstCase) partner(tag string) (InstCase, bool) {
	switch x.Spec {
	case "newAbstract":
		return InstCase{"inst", tag, 1, 0, -1, 15, ""}, true
	case "newAbstract2":
		return InstCase{"inst", tag, 3, 0, -1, 15, ""}, true
	case "newInterface":
		return InstCase{"inst", tag, 0, 2, -1, 15, ""}, true
	case "staticImplMissing":
		return InstCase{"inst", tag, 0, 0, -1, 0, "staticImpl"}, true
	case "staticImpl":
		return x, false
	}
	if x.expectOK() {
		return x, false
	}
	p := x
	p.Own = 15
	return p, true
}

func (x InstCase) kidWorld() (string, int) {
	w, _ := x.modelWorld()
	parts := strings.SplitN(w, "/", 2)
	return parts[0] + ";10,5,-,0,-,-/" + parts[1], 10
}

func buildInstHist(tag string, stride, off int, only string) *histFam {
	fam := &histFam{name: "inst"}
	fam.cas = func(group string) HistCase {
		return HistCase{Kind: "hist", Fam: "inst", Tag: tag, Group: group, Stride: stride, Off: off}
	}
	var sb strings.Builder
	instPrelude(&sb, tag)
	fmt.Fprintf(&sb, "class HC%s { public static $n = 0; }\n", tag)
	fmt.Fprintf(&sb, "$dyn%s = function($n) { return new $n(); };\n", tag)
	extra := fmt.Sprintf(" public function __construct() { HC%s::$n = HC%s::$n + 1; } public static function ping() { return 1; }", tag, tag)
	declare := func(name, mid string, x InstCase) {
		switch x.Spec {
		case "staticImpl":
			fmt.Fprintf(&sb, "class %s extends SA%s { public static function sam() { return 1; }%s }\n", name, tag, extra)
		case "staticImplMissing":
			fmt.Fprintf(&sb, "class %s extends SA%s {%s }\n", name, tag, extra)
		default:
			declInstClass(&sb, tag, name, mid, x, extra)
		}
	}
	cases := instCases(tag)
	var worlds []string // per group
	for id, x := range cases {
		gk := strconv.Itoa(id) + ":" + x.key()
		if only != "" {
			if gk != only {
				continue
			}
		} else if x.Spec == "" && stride > 1 && id%stride != off%stride {
			continue
		}
		gi := len(fam.groups)
		fam.groups = append(fam.groups, gk)
		fixed := map[string]string{"newAbstract": "AB" + tag, "newAbstract2": "AB2J" + tag, "newInterface": "J" + tag}[x.Spec]
		want := x.expectOK()
		part, hasPart := x.partner(tag)
		gname := fmt.Sprintf("G%s_%d", tag, id)
		if hasPart {
			declare(gname, fmt.Sprintf("GMid%s_%d", tag, id), part)
		}
		pw, pc := part.modelWorld()
		mw, mc := x.modelWorld()
		kw, kc := x.kidWorld()
		// the group's world: the cell's classes (4, 5), the empty subclass (10), the partner's (11, 12)
		bw, ifs := instBaseWorld()
		own, ownID := x.classEntries(4, 5)
		bw = append(bw, own...)
		if x.Spec == "" {
			bw = append(bw, "10,5,-,0,-,-")
		}
		partID := 0
		if hasPart {
			pe, id := part.classEntries(11, 12)
			bw = append(bw, pe...)
			partID = id
		}
		worlds = append(worlds, strings.Join(bw, ";")+"/"+ifs)
		for _, ord := range []string{"a", "b"} {
			name := fixed
			sfx := fmt.Sprintf("%s_%d%s", tag, id, ord)
			if name == "" {
				name = "C" + sfx
				declare(name, "Mid"+sfx, x)
			}
			hasKid := x.Spec == ""
			if hasKid {
				fmt.Fprintf(&sb, "class K%s extends %s { }\n", sfx, name)
			}
			fmt.Fprintf(&sb, "class Mk%s { public function mk() { return new %s(); } public static function smk() { return new %s(); } }\n", sfx, name, name)
			fmt.Fprintf(&sb, "function fmk%s() { return new %s(); }\n", sfx, name)
			fmt.Fprintf(&sb, "$n0%s = function() { return new %s(); };\n$mk%s = new Mk%s();\n", sfx, name, sfx, sfx)
			nw := func(label, site, expr string) hAttempt {
				return hAttempt{Site: site, Label: label, Code: "$v = " + expr + ";", Deny: b2i(!want),
					Model: fmt.Sprintf("inst\t%s\t%d", mw, mc), Data: instData{x, false, true, ownID}}
			}
			s0 := func(l string) hAttempt { return nw(l, "closure", "$n0"+sfx+"()") }
			s1 := func(l string) hAttempt { return nw(l, "function", "fmk"+sfx+"()") }
			s2 := func(l string) hAttempt { return nw(l, "dynamic", fmt.Sprintf("$dyn%s(\"%s\")", tag, name)) }
			s3 := func(l string) hAttempt { return nw(l, "method", "$mk"+sfx+"->mk()") }
			s4 := func(l string) hAttempt { return nw(l, "static-method", "Mk"+sfx+"::smk()") }
			kid := func() hAttempt {
				return hAttempt{Site: "kid", Label: "kid", Code: "$v = new K" + sfx + "();", Deny: b2i(!want),
					Model: fmt.Sprintf("inst\t%s\t%d", kw, kc), Data: instData{x, true, true, 10}}
			}
			legit := func() []hAttempt {
				var as []hAttempt
				if hasPart {
					as = append(as, hAttempt{Site: "partner", Label: "legit", Code: "$v = new " + gname + "();", Deny: 0,
						Model: fmt.Sprintf("inst\t%s\t%d", pw, pc), Data: instData{part, false, true, partID}})
				}
				if fixed == "" {
					as = append(as, hAttempt{Site: "ping", Label: "legit-static", Code: "$v = " + name + "::ping();", Deny: 0, Data: instData{x, false, false, 0}})
				}
				return as
			}
			obs := fmt.Sprintf("HC%s::$n", tag)
			step := func(as ...hAttempt) hStep { return hStep{Group: gi, Order: ord, Attempts: as, Obs: obs} }
			var p []hStep
			if ord == "a" {
				p = append(p, step(s0("d0"), s0("d0"), s1("d1")))
				if l := legit(); len(l) > 0 {
					p = append(p, step(l...))
				}
				p = append(p, step(s0("d0"), s2("d2"), s3("d3"), s4("d4")))
				if hasKid {
					p = append(p, step(kid(), kid(), kid(), s0("d0")))
				}
				p = append(p, step(s1("d1"), s2("d2")))
			} else {
				p = append(p, step(append(legit(), s0("d0"), s0("d0"), s2("d2"))...))
				if hasKid {
					p = append(p, step(kid(), s1("d1"), kid()))
				} else {
					p = append(p, step(s1("d1")))
				}
			}
			fam.plans = append(fam.plans, p)
		}
	}
	fam.decl = sb.String()
	ctor := 0
	fam.pathOf = func(st *hStep, at *hAttempt) string {
		if s := at.Data.(instData).x.Spec; s != "" {
			return s
		}
		return "class"
	}
	kindOf := func(o hOut) string {
		if o.ok {
			return "ok"
		}
		return instKind("denied=" + o.class + "|" + o.msg)
	}
	fam.implTok = kindOf
	fam.modelTok = func(a string) string { return a }
	fam.attempt = func(r *histRun, st *hStep, at *hAttempt, o hOut) {
		d := at.Data.(instData)
		r.hit("hist:inst:outcome:" + kindOf(o))
		switch {
		case o.ok && at.Deny == 1:
			what := "`new`"
			if d.kid {
				what = "`new` of an empty subclass"
			}
			r.report("inst:instantiated:"+d.x.Spec, fmt.Sprintf("%s succeeded on a class that is abstract, an interface or leaves an inherited abstract method unimplemented: %+v (history: order %s, %s at %s)", what, d.x, st.Order, at.Label, at.Site), st.Group)
		case o.denied && at.Deny == 0:
			r.report("inst:refused:"+kindOf(o), fmt.Sprintf("a legitimate use was refused: %+v (%s; history: order %s, %s at %s)", d.x, o.raw, st.Order, at.Label, at.Site), st.Group)
		}
		if o.ok && d.news {
			ctor++
		}
	}
	fam.observe = func(r *histRun, st *hStep, outs []hOut, obs string) {
		if obs == strconv.Itoa(ctor) {
			return
		}
		anyOK := false
		for _, o := range outs {
			anyOK = anyOK || o.ok
		}
		sig := "inst:effect"
		if anyOK {
			sig = "inst:effect-ok"
		}
		r.report(sig, fmt.Sprintf("constructors ran %s times, expected %d = the number of successful `new` (a refused `new` must not run the constructor; group %s, order %s)", obs, ctor, fam.groups[st.Group], st.Order), st.Group)
		if n, err := strconv.Atoi(obs); err == nil {
			ctor = n
		}
	}
	fam.seq = func(c *vh.Ctx, m *vh.Model, steps []*hStep, outs map[string]hOut, obs map[int]string) {
		type plan struct {
			ns, kinds []string
			live      int
			group     int
		}
		plans := map[string]*plan{}
		var order []string
		for id, st := range steps {
			k := fmt.Sprintf("%d/%s", st.Group, st.Order)
			p := plans[k]
			if p == nil {
				p = &plan{group: st.Group}
				plans[k] = p
				order = append(order, k)
			}
			for a := range st.Attempts {
				d := st.Attempts[a].Data.(instData)
				if d.mid == 0 {
					continue
				}
				o := outs[fmt.Sprintf("%d.%d", id, a)]
				p.ns = append(p.ns, strconv.Itoa(d.mid))
				p.kinds = append(p.kinds, kindOf(o))
				if o.ok {
					p.live++
				}
			}
		}
		var lines []string
		for _, k := range order {
			p := plans[k]
			lines = append(lines, "iseq\t"+worlds[p.group]+"\t"+strings.Join(p.ns, "."))
		}
		ans, err := m.AskBatch(lines)
		if err != nil {
			c.Mismatch(fam.cas(""), "", err.Error(), "model driver failed (iseq)")
			return
		}
		for i, k := range order {
			p := plans[k]
			c.Res.Traces++
			want := strings.Join(p.kinds, ".")
			parts := strings.SplitN(ans[i], "|", 2)
			live := 0
			if len(parts) == 2 && parts[1] != "" {
				live = len(strings.Split(parts[1], "."))
			}
			if parts[0] != want || live != p.live {
				c.Mismatch(fam.cas(fam.groups[p.group]), fmt.Sprintf("%s|%d objects", want, p.live), ans[i], "the `new` attempts of one class as one sequence (Model.Inst.newRun) differ: "+lines[i])
			}
		}
	}
	return fam
}

func histInst(c *vh.Ctx, m *vh.Model, tag string, stride, off int, only string) {
	fam := buildInstHist(tag, stride, off, only)
	vs := runHist(c, m, fam, false)
	settle(c, fam, vs, only == "", func(g string) *histFam { return buildInstHist(tag, stride, off, g) })
}
