package c07

import (
	"fmt"
	"strconv"
	"strings"

	"verif/harness/vh"
)

// ------------------------------------------------------------ (declared type x value kind) x boundary

// class fixture of the type matrix: interface I; K implements I; L extends K; M unrelated; J implements I.
// model ids: K=1 L=2 M=3 J=4, interface I=9.
type tyDecl struct {
	Src   string // how the script spells it (class names get the tag appended)
	Model string // prefix notation for vm_c07, tokens separated by tabs
	// denotes: the oracle's own statement of the type (independent of the model)
	Denotes func(v string) bool
}

func isObj(v string) bool { return strings.HasPrefix(v, "o") }

// instance-of facts of the fixture, stated directly
var instOf = map[string]map[string]bool{
	"K": {"oK": true, "oL": true},
	"I": {"oK": true, "oL": true, "oJ": true},
}

func base(name string) func(string) bool {
	switch name {
	case "int":
		return func(v string) bool { return v == "int" }
	case "string":
		return func(v string) bool { return v == "str" }
	case "array":
		return func(v string) bool { return v == "arr" || v == "assoc" }
	}
	return func(v string) bool { return instOf[name][v] }
}

func nullable(f func(string) bool) func(string) bool {
	return func(v string) bool { return v == "null" || f(v) }
}

func union(fs ...func(string) bool) func(string) bool {
	return func(v string) bool {
		for _, f := range fs {
			if f(v) {
				return true
			}
		}
		return false
	}
}

func tyDecls() []tyDecl {
	return []tyDecl{
		{"int", "I", base("int")},
		{"string", "S", base("string")},
		{"array", "A", base("array")},
		{"K@", "C1", base("K")},
		{"I@", "C9", base("I")},
		{"?int", "N\tI", nullable(base("int"))},
		{"?string", "N\tS", nullable(base("string"))},
		{"?array", "N\tA", nullable(base("array"))},
		{"?K@", "N\tC1", nullable(base("K"))},
		{"?I@", "N\tC9", nullable(base("I"))},
		{"int|string", "U2\tI\tS", union(base("int"), base("string"))},
		{"int|array", "U2\tI\tA", union(base("int"), base("array"))},
		{"K@|int", "U2\tC1\tI", union(base("K"), base("int"))},
		{"string|array|K@", "U3\tS\tA\tC1", union(base("string"), base("array"), base("K"))},
		{"I@|string", "U2\tC9\tS", union(base("I"), base("string"))},
	}
}

type valDecl struct {
	Name  string // value kind token (oracle)
	Src   string
	Model string
	Tag   string // what tg() reports for it
}

func valDecls() []valDecl {
	return []valDecl{
		{"int", "7", "int", "int"},
		{"str", `"s"`, "str", "str"},
		{"arr", "[1, 2]", "arr", "array"},
		{"assoc", `["k" => 1]`, "assoc", "array"},
		{"null", "null", "null", "null"},
		{"float", "1.5", "float", "float"},
		{"bool", "true", "bool", "bool"},
		{"oK", "new K@()", "o1", "K@"},
		{"oL", "new L@()", "o2", "L@"},
		{"oM", "new M@()", "o3", "M@"},
		{"oJ", "new J@()", "o4", "J@"},
	}
}

const typeH = "1,-,9;2,1,-;3,-,-;4,-,9"

var boundaries = []string{"propStore", "dynPropStore", "idxStore", "staticStore", "fnParam", "methParam", "staticParam", "ctorParam", "fnReturn", "methReturn",
	"closureParam", "closureParam/arrow", "closureReturn", "closureReturn/arrow", "promotedParam"}

// modelBoundary: script variants of one boundary share the model's boundary
func modelBoundary(b string) string {
	if i := strings.IndexByte(b, '/'); i >= 0 {
		return b[:i]
	}
	return b
}

func isStore(b string) bool { return strings.HasSuffix(b, "Store") }

type TyCase struct {
	Kind     string `json:"kind"` // "ty"
	Tag      string `json:"tag"`
	Boundary string `json:"boundary"`
	Ty       int    `json:"ty"`
	Val      int    `json:"val"`
}

func (t TyCase) key() string { return fmt.Sprintf("%s/%d/%d", t.Boundary, t.Ty, t.Val) }

// typePrelude: the class fixture of the type matrix, the typed slots / parameters / returns per declared type.
func typePrelude(sb *strings.Builder, tag string) {
	at := func(s string) string { return strings.ReplaceAll(s, "@", tag) }
	tys := tyDecls()
	fmt.Fprintf(sb, "interface I%s {}\nclass K%s implements I%s {}\nclass L%s extends K%s {}\nclass M%s {}\nclass J%s implements I%s {}\n", tag, tag, tag, tag, tag, tag, tag, tag)
	fmt.Fprintf(sb, "function tg%s($v) { if (is_null($v)) { return \"null\"; } if (is_int($v)) { return \"int\"; } if (is_string($v)) { return \"str\"; } if (is_float($v)) { return \"float\"; } if (is_bool($v)) { return \"bool\"; } if (is_array($v)) { return \"array\"; } if (is_object($v)) { return get_class($v); } return \"other\"; }\n", tag)
	fmt.Fprintf(sb, "class TP%s {\n", tag)
	for i, t := range tys {
		fmt.Fprintf(sb, "  public %s $p_%d;\n  public static %s $s_%d;\n", at(t.Src), i, at(t.Src), i)
		fmt.Fprintf(sb, "  public function mp_%d(%s $x) { return tg%s($x); }\n", i, at(t.Src), tag)
		fmt.Fprintf(sb, "  public static function sp_%d(%s $x) { return tg%s($x); }\n", i, at(t.Src), tag)
		fmt.Fprintf(sb, "  public function mr_%d($x): %s { return $x; }\n", i, at(t.Src))
	}
	fmt.Fprintf(sb, "  public function look($n) { return tg%s($this->$n); }\n", tag)
	sb.WriteString("}\n")
	for i, t := range tys {
		fmt.Fprintf(sb, "class CT%s_%d { public $got = \"unset\"; public function __construct(%s $x) { $this->got = tg%s($x); } }\n", tag, i, at(t.Src), tag)
		fmt.Fprintf(sb, "function fp%s_%d(%s $x) { return tg%s($x); }\n", tag, i, at(t.Src), tag)
		fmt.Fprintf(sb, "function fr%s_%d($x): %s { return $x; }\n", tag, i, at(t.Src))
		fmt.Fprintf(sb, "class PP%s_%d { public function __construct(public %s $x) { } }\n", tag, i, at(t.Src))
	}
}

func typeScript(tag string, cases []TyCase) string {
	at := func(s string) string { return strings.ReplaceAll(s, "@", tag) }
	tys, vals := tyDecls(), valDecls()
	var sb strings.Builder
	sb.WriteString("<?php\n")
	typePrelude(&sb, tag)
	// cell: $f performs the crossing and returns the tag of what arrived; $after reads the slot back
	fmt.Fprintf(&sb, "function tcell%s($id, $f, $after) {\n  try { $v = $f(); $r = \"ok=\" . $v; } catch (\\Throwable $e) { $r = \"denied=\" . get_class($e); }\n  echo \"\\n#\", $id, \":\", $r, \":\", $after(), \"\\n\";\n}\n", tag)
	for id, c := range cases {
		v := at(vals[c.Val].Src)
		i := c.Ty
		var f, after string
		after = "fn() => \"-\""
		switch c.Boundary {
		case "propStore":
			f = fmt.Sprintf("function() use ($o) { $o->p_%d = %s; return \"-\"; }", i, v)
			after = fmt.Sprintf("fn() => $o->look(\"p_%d\")", i)
		case "dynPropStore":
			f = fmt.Sprintf("function() use ($o) { $n = \"p_%d\"; $o->$n = %s; return \"-\"; }", i, v)
			after = fmt.Sprintf("fn() => $o->look(\"p_%d\")", i)
		case "idxStore":
			f = fmt.Sprintf("function() use ($o) { $o[\"p_%d\"] = %s; return \"-\"; }", i, v)
			after = fmt.Sprintf("fn() => $o->look(\"p_%d\")", i)
		case "staticStore":
			f = fmt.Sprintf("function() { TP%s::$s_%d = %s; return \"-\"; }", tag, i, v)
			after = fmt.Sprintf("fn() => tg%s(TP%s::$s_%d)", tag, tag, i)
		case "fnParam":
			f = fmt.Sprintf("fn() => fp%s_%d(%s)", tag, i, v)
		case "methParam":
			f = fmt.Sprintf("fn() => $o->mp_%d(%s)", i, v)
		case "staticParam":
			f = fmt.Sprintf("fn() => TP%s::sp_%d(%s)", tag, i, v)
		case "ctorParam":
			f = fmt.Sprintf("function() { $c = new CT%s_%d(%s); return $c->got; }", tag, i, v)
		case "closureParam":
			f = fmt.Sprintf("function() { $g = function(%s $x) { return tg%s($x); }; return $g(%s); }", at(tys[i].Src), tag, v)
		case "closureParam/arrow":
			f = fmt.Sprintf("function() { $g = fn(%s $x) => tg%s($x); return $g(%s); }", at(tys[i].Src), tag, v)
		case "closureReturn":
			f = fmt.Sprintf("function() { $g = function($x): %s { return $x; }; return tg%s($g(%s)); }", at(tys[i].Src), tag, v)
		case "closureReturn/arrow":
			f = fmt.Sprintf("function() { $g = fn($x): %s => $x; return tg%s($g(%s)); }", at(tys[i].Src), tag, v)
		case "promotedParam":
			f = fmt.Sprintf("function() { $c = new PP%s_%d(%s); return tg%s($c->x); }", tag, i, v, tag)
		case "fnReturn":
			f = fmt.Sprintf("fn() => tg%s(fr%s_%d(%s))", tag, tag, i, v)
		case "methReturn":
			f = fmt.Sprintf("fn() => tg%s($o->mr_%d(%s))", tag, i, v)
		}
		fmt.Fprintf(&sb, "$o = new TP%s();\ntcell%s(%d, %s, %s);\n", tag, tag, id, f, after)
	}
	return sb.String()
}

func runTypes(c *vh.Ctx, m *vh.Model, tag string, only *TyCase) {
	tys, vals := tyDecls(), valDecls()
	var cases []TyCase
	if only != nil {
		cases = []TyCase{*only}
	} else {
		for _, b := range boundaries {
			for i := range tys {
				for j := range vals {
					cases = append(cases, TyCase{"ty", tag, b, i, j})
				}
			}
		}
	}
	out := vh.RunFresh(typeScript(tag, cases))
	got := map[int]string{}
	for _, l := range strings.Split(out.Out, "\n") {
		if !strings.HasPrefix(l, "#") {
			continue
		}
		k := strings.IndexByte(l, ':')
		if k < 0 {
			continue
		}
		if id, err := strconv.Atoi(l[1:k]); err == nil {
			if _, dup := got[id]; !dup {
				got[id] = l[k+1:]
			}
		}
	}
	if out.Kind != "ok" {
		viol(c, "ty:script-"+out.Kind, fmt.Sprintf("the type matrix script ended with %s: %s", out.Kind, out.Detail), TyCase{"ty", tag, "", -1, -1})
	}
	var lines []string
	for _, x := range cases {
		lines = append(lines, "bd\t"+typeH+"\t"+modelBoundary(x.Boundary)+"\t"+vals[x.Val].Model+"\t"+tys[x.Ty].Model)
	}
	var ans []string
	if m != nil {
		var err error
		if ans, err = m.AskBatch(lines); err != nil {
			c.Mismatch(nil, "", err.Error(), "model driver failed")
			ans = nil
		}
	}
	// the Go oracle against the Lean specification: `ty` answers Types.accepts, proved ↔ Spec.Types.Denotes
	var tyAns []string
	if m != nil && ans != nil {
		var tl []string
		for _, x := range cases {
			tl = append(tl, "ty\t"+typeH+"\t"+vals[x.Val].Model+"\t"+tys[x.Ty].Model)
		}
		var err error
		if tyAns, err = m.AskBatch(tl); err != nil {
			c.Mismatch(nil, "", err.Error(), "model driver failed (ty)")
			tyAns = nil
		}
	}
	at := func(s string) string { return strings.ReplaceAll(s, "@", tag) }
	for id, x := range cases {
		raw := got[id]
		parts := strings.SplitN(raw, ":", 2)
		res, after := "missing", ""
		if len(parts) == 2 {
			res, after = parts[0], parts[1]
		}
		isOK := strings.HasPrefix(res, "ok=")
		isDenied := strings.HasPrefix(res, "denied=")
		in := tys[x.Ty].Denotes(vals[x.Val].Name)
		if tyAns != nil {
			want := "0"
			if in {
				want = "1"
			}
			if tyAns[id] != want {
				c.Mismatch(x, "go-oracle:"+want, "lean-spec:"+tyAns[id], "the harness oracle and Spec.Types.denote disagree")
			}
		}
		vtag := at(vals[x.Val].Tag)
		edge := vals[x.Val].Name == "null" || in
		c.Eval("ty/"+tag+"/"+x.key(), !in || edge)
		c.Hit("ty:boundary:" + x.Boundary)
		c.Hit("ty:value:" + vals[x.Val].Name)
		c.SampleSome(map[string]any{"case": x, "type": tys[x.Ty].Src, "value": vals[x.Val].Name, "impl": raw}, 211)
		canon := "?"
		if isOK {
			canon = "1"
		} else if isDenied {
			canon = "0"
		}
		if ans != nil {
			c.Res.Traces++
			if ans[id] != canon {
				c.Mismatch(x, canon+" ["+raw+"]", ans[id], fmt.Sprintf("boundary %s, declared %s, value %s: %s", x.Boundary, tys[x.Ty].Src, vals[x.Val].Name, lines[id]))
			}
		}
		nn := "nonnull"
		if vals[x.Val].Name == "null" {
			nn = "null"
		}
		switch {
		case !isOK && !isDenied:
			viol(c, "ty:no-outcome:"+x.Boundary, fmt.Sprintf("no ok/denied marker for %s <- %s at %s (%s)", tys[x.Ty].Src, vals[x.Val].Name, x.Boundary, raw), x)
		case isOK && !in:
			c.Hit("ty:admitted-outside")
			viol(c, "type:"+x.Boundary+":"+nn, fmt.Sprintf("a slot declared %s accepted a %s value at the %s boundary", tys[x.Ty].Src, vals[x.Val].Name, x.Boundary), x)
		case isDenied && in:
			viol(c, "type:"+x.Boundary+":rejects", fmt.Sprintf("a slot declared %s rejected a %s value at the %s boundary", tys[x.Ty].Src, vals[x.Val].Name, x.Boundary), x)
		}
		// what arrived / what is stored afterwards
		if isOK && in {
			arrived := strings.TrimPrefix(res, "ok=")
			if isStore(x.Boundary) {
				arrived = after
			}
			if arrived != vtag {
				viol(c, "type:"+x.Boundary+":altered", fmt.Sprintf("a %s value crossed the %s boundary declared %s and arrived as %s", vals[x.Val].Name, x.Boundary, tys[x.Ty].Src, arrived), x)
			}
		}
		if isDenied && isStore(x.Boundary) && x.Boundary != "staticStore" && after != "null" {
			viol(c, "type:"+x.Boundary+":effect", fmt.Sprintf("a rejected store changed the slot (now %s)", after), x)
		}
	}
}

// ------------------------------------------------------------ parameters that must keep accepting null
//
// The parameter boundaries are exact (`function f(int $x)` refuses null). What must NOT be refused — checked
// here on every run, cell by cell, so that a stricter Parameter.SetValue cannot quietly break it:
//
//   - `T $x = null` (PHP's implicit nullable): null and every value of T, an omitted argument arrives as null;
//   - `T $x = <non-null default>` with the argument omitted: the default arrives;
//   - an untyped parameter and `mixed $x`: every value kind.
//
// Boundary names: `<fnParam|methParam|closureParam>/nulldefault`, `…/omitted`, `fnParam/untyped`, `fnParam/mixed`
// (TyCase.Ty = -1 for the untyped / mixed cells, TyCase.Val = -1 for an omitted argument).
var compatBoundaries = []string{"fnParam/nulldefault", "methParam/nulldefault", "closureParam/nulldefault",
	"fnParam/omitted", "methParam/omitted", "fnParam/untyped", "fnParam/mixed"}

func isCompatBoundary(b string) bool {
	for _, x := range compatBoundaries {
		if x == b {
			return true
		}
	}
	return false
}

func compatCases(tag string) []TyCase {
	tys, vals := tyDecls(), valDecls()
	var cases []TyCase
	for _, b := range compatBoundaries {
		switch {
		case strings.HasSuffix(b, "/nulldefault"):
			for i := range tys {
				for j := range vals {
					cases = append(cases, TyCase{"ty", tag, b, i, j})
				}
			}
		case strings.HasSuffix(b, "/omitted"):
			for i := range tys {
				cases = append(cases, TyCase{"ty", tag, b, i, -1})
			}
		default:
			for j := range vals {
				cases = append(cases, TyCase{"ty", tag, b, -1, j})
			}
		}
	}
	return cases
}

func compatScript(tag string, cases []TyCase) string {
	at := func(s string) string { return strings.ReplaceAll(s, "@", tag) }
	tys, vals := tyDecls(), valDecls()
	var sb strings.Builder
	sb.WriteString("<?php\n")
	typePrelude(&sb, tag)
	fmt.Fprintf(&sb, "class TN%s {\n", tag)
	for i, t := range tys {
		fmt.Fprintf(&sb, "  public function mpn_%d(%s $x = null) { return tg%s($x); }\n", i, at(t.Src), tag)
	}
	sb.WriteString("}\n")
	for i, t := range tys {
		fmt.Fprintf(&sb, "function fpn%s_%d(%s $x = null) { return tg%s($x); }\n", tag, i, at(t.Src), tag)
	}
	fmt.Fprintf(&sb, "function fu%s($x) { return tg%s($x); }\nfunction fm%s(mixed $x) { return tg%s($x); }\n", tag, tag, tag, tag)
	fmt.Fprintf(&sb, "function ccell%s($id, $f) {\n  try { $v = $f(); $r = \"ok=\" . $v; } catch (\\Throwable $e) { $r = \"denied=\" . get_class($e); }\n  echo \"\\n#\", $id, \":\", $r, \"\\n\";\n}\n", tag)
	for id, c := range cases {
		v := ""
		if c.Val >= 0 {
			v = at(vals[c.Val].Src)
		}
		var f string
		switch c.Boundary {
		case "fnParam/nulldefault", "fnParam/omitted":
			f = fmt.Sprintf("fn() => fpn%s_%d(%s)", tag, c.Ty, v)
		case "methParam/nulldefault", "methParam/omitted":
			f = fmt.Sprintf("fn() => $n->mpn_%d(%s)", c.Ty, v)
		case "closureParam/nulldefault":
			f = fmt.Sprintf("function() { $g = function(%s $x = null) { return tg%s($x); }; return $g(%s); }", at(tys[c.Ty].Src), tag, v)
		case "fnParam/untyped":
			f = fmt.Sprintf("fn() => fu%s(%s)", tag, v)
		case "fnParam/mixed":
			f = fmt.Sprintf("fn() => fm%s(%s)", tag, v)
		}
		fmt.Fprintf(&sb, "$n = new TN%s();\nccell%s(%d, %s);\n", tag, tag, id, f)
	}
	return sb.String()
}

// runParamCompat: see compatBoundaries. Oracle (no model): `T $x = null` denotes ?T; an omitted argument and
// untyped / mixed parameters accept everything. Model: `bd` for the boundary with the declared type ?T.
func runParamCompat(c *vh.Ctx, m *vh.Model, tag string, only *TyCase) {
	tys, vals := tyDecls(), valDecls()
	cases := compatCases(tag)
	if only != nil {
		cases = []TyCase{*only}
	}
	out := vh.RunFresh(compatScript(tag, cases))
	got := map[int]string{}
	for _, l := range strings.Split(out.Out, "\n") {
		if !strings.HasPrefix(l, "#") {
			continue
		}
		k := strings.IndexByte(l, ':')
		if k < 0 {
			continue
		}
		if id, err := strconv.Atoi(l[1:k]); err == nil {
			if _, dup := got[id]; !dup {
				got[id] = l[k+1:]
			}
		}
	}
	if out.Kind != "ok" {
		viol(c, "ty:script-"+out.Kind, fmt.Sprintf("the parameter compatibility script ended with %s: %s", out.Kind, out.Detail), TyCase{"ty", tag, "compat", -1, -1})
	}
	var lines []string
	var lineOf []int
	for id, x := range cases {
		if strings.HasSuffix(x.Boundary, "/nulldefault") {
			lines = append(lines, "bd\t"+typeH+"\t"+modelBoundary(x.Boundary)+"\t"+vals[x.Val].Model+"\tN\t"+tys[x.Ty].Model)
			lineOf = append(lineOf, id)
		}
	}
	ans := map[int]string{}
	if m != nil && len(lines) > 0 {
		if a, err := m.AskBatch(lines); err != nil {
			c.Mismatch(nil, "", err.Error(), "model driver failed (compat)")
		} else {
			for k, id := range lineOf {
				ans[id] = a[k]
			}
		}
	}
	at := func(s string) string { return strings.ReplaceAll(s, "@", tag) }
	for id, x := range cases {
		res := got[id]
		isOK := strings.HasPrefix(res, "ok=")
		isDenied := strings.HasPrefix(res, "denied=")
		in, want := true, "null"
		if x.Val >= 0 {
			want = at(vals[x.Val].Tag)
		}
		if strings.HasSuffix(x.Boundary, "/nulldefault") {
			in = nullable(tys[x.Ty].Denotes)(vals[x.Val].Name)
		}
		c.Eval("ty/"+tag+"/"+x.key(), true)
		c.Hit("ty:boundary:" + x.Boundary)
		if a, ok := ans[id]; ok {
			c.Res.Traces++
			canon := "?"
			if isOK {
				canon = "1"
			} else if isDenied {
				canon = "0"
			}
			if a != canon {
				c.Mismatch(x, canon+" ["+res+"]", a, "parameter with a null default: the model's boundary with the declared type ?T differs")
			}
		}
		switch {
		case !isOK && !isDenied:
			viol(c, "ty:no-outcome:"+x.Boundary, fmt.Sprintf("no ok/denied marker at %s (%s)", x.key(), res), x)
		case isOK && !in:
			viol(c, "type:"+x.Boundary+":nonnull", fmt.Sprintf("a parameter declared %s $x = null accepted a %s value", tys[x.Ty].Src, vals[x.Val].Name), x)
		case isDenied && in:
			viol(c, "type:"+x.Boundary+":rejects", fmt.Sprintf("a parameter that must accept the argument (%s) rejected it: %s", x.key(), res), x)
		case isOK && strings.TrimPrefix(res, "ok=") != want:
			viol(c, "type:"+x.Boundary+":altered", fmt.Sprintf("the argument arrived as %s, expected %s (%s)", strings.TrimPrefix(res, "ok="), want, x.key()), x)
		}
	}
}
