package c07

import (
	"fmt"
	"strings"

	"verif/harness/vh"
)

// ------------------------------------------------------------ whose code is running: legitimate accesses
//
// The visibility rule is applied to the class whose text contains the access. The matrix probes that class
// through ordinary method calls, closures and static calls; the routes below enter a method in other ways (an
// inherited constructor reached through `parent::__construct` from two levels down, a trait method, a template
// method calling a protected hook of the subclass, a callable array, an arrow function, `new static`, a sibling
// object). Each is a legitimate PHP program whose output is fixed: a refusal here is an over-refusal that the
// leak oracle of the matrix cannot see (`scope:<name>`).
type scopeCase struct {
	Name, Src, Want string
}

type ScopeCase struct {
	Kind string `json:"kind"` // "scope"
	Tag  string `json:"tag"`
	Name string `json:"name"`
}

func scopeCases() []scopeCase {
	return []scopeCase{
		{"inheritedCtorViaParent", `class A@ { private $id; public function __construct($id) { $this->id = $id; } public function id() { return $this->id; } }
class B@ extends A@ {}
class C@ extends B@ { public function __construct($id) { parent::__construct($id + 1); } }
echo (new C@(4))->id(), ",", (new B@(2))->id();`, "5,2"},
		{"traitMethod", `trait T@ { private $n = 0; public function inc() { $this->n = $this->n + 1; return $this->secret() . $this->n . $this->th(); } private function th() { return "t"; } }
class A@ { use T@; private function secret() { return "s"; } }
class B@ extends A@ {}
echo (new A@())->inc(), ",", (new B@())->inc();`, "s1t,s1t"},
		{"templateMethodHook", `abstract class A@ { public function run() { return $this->hook() . $this->own(); } abstract protected function hook(); private function own() { return "a"; } }
class B@ extends A@ { private $x = "b"; protected function hook() { return $this->x; } }
echo (new B@())->run();`, "ba"},
		{"callableArrayAndClosures", `class A@ { private $k = 3; private function dbl($x) { return $x * 2; }
  public function viaArray() { return implode(",", array_map([$this, "dbl"], [1, 2])); }
  public function viaClosure() { return implode(",", array_map(function($x) { return $this->dbl($x) + $this->k; }, [1, 2])); }
  public function viaArrow() { return implode(",", array_map(fn($x) => $this->dbl($x) + $this->k, [1, 2])); } }
class B@ extends A@ {}
$b = new B@(); echo $b->viaArray(), ";", $b->viaClosure(), ";", $b->viaArrow();`, "2,4;5,7;5,7"},
		{"redeclaredPrivate", `class A@ { private $x = 1; private function h() { return "h"; } public function f() { $this->x = $this->x + 1; return $this->h(); } }
class B@ extends A@ { private $x = 5; private function h() { return "h"; } }
echo (new B@())->f();`, "h"},
		{"singletonNewStatic", `class A@ { private static $inst = null; private $v; private function __construct() { $this->v = 42; }
  public static function get() { if (self::$inst === null) { self::$inst = new static(); } return self::$inst; }
  public function v() { return $this->v; } public function same(A@ $o) { return $o->v === $this->v; } }
echo A@::get()->v(), A@::get()->same(A@::get()) ? "y" : "n";`, "42y"},
		{"siblingProtected", `class A@ { protected $val; protected $next = null; public function __construct($v) { $this->val = $v; } public function link(A@ $n) { $this->next = $n; return $this; }
  public function sum() { return $this->val + ($this->next ? $this->next->part() : 0); } protected function part() { return $this->val; }
  public function add(A@ $o) { return $this->val + $o->val; } }
class B@ extends A@ { public function peek(A@ $o) { return $o->val; } } class C@ extends A@ {}
echo (new B@(1))->link(new C@(5))->sum(), ",", (new C@(1))->link(new B@(6))->sum(), ",", (new B@(0))->peek(new C@(9)), ",", (new B@(1))->add(new C@(2));`, "6,7,9,3"},
		{"staticFromInstanceAndBack", `class A@ { private static $n = 0; private $id; private static function next() { self::$n = self::$n + 1; return self::$n; }
  public function __construct() { $this->id = self::next(); } public static function make() { $o = new A@(); return $o->id; } public function id() { return $this->id; } }
class B@ extends A@ {}
echo A@::make(), (new B@())->id();`, "12"},
		// round 8: other ways INTO a method body. The body belongs to the class where it is written whichever way it
		// is entered: a first-class callable of a method keeps the object and its class; a callable array handed to a
		// native function (array_map) runs the named method as code of ITS class on ITS object, not in the context of
		// the code that called the native function.
		{"firstClassCallableMethod", `class A@ { private $p = 10; public function own() { return $this->p; } public function of($o) { return $o->p; } }
$s = new A@(); $f = $s->of(...); $g = $s->own(...);
try { echo $f(new A@()); } catch (\Throwable $e) { echo "refused"; } echo ",";
try { echo $g(); } catch (\Throwable $e) { echo "refused"; }`, "10,10"},
		{"nativeCallbackForeignMethod", `class B@ { private $q = 7; public function peek($o) { return $o->p; } public function own($o) { return $this->q; } }
class A@ { private $p = 1;
  public function leak($b) { return implode(",", array_map([$b, "peek"], [$this])); }
  public function legit($b) { return implode(",", array_map([$b, "own"], [$this])); } }
$a = new A@(); $b = new B@();
try { echo $a->leak($b); } catch (\Throwable $e) { echo "refused"; } echo ";";
try { echo $a->legit($b); } catch (\Throwable $e) { echo "failed"; }`, "refused;7"},
		{"generatorInherited", `class A@ { private $p = 3; private function h() { return "h"; }
  public function g() { yield $this->p; yield $this->h(); $this->p = 4; yield $this->p; }
  public function peek() { yield "s"; try { yield $this->q; } catch (\Throwable $e) { yield "refused"; } } }
class B@ extends A@ { private $q = 9; }
foreach ((new B@())->g() as $v) { echo $v; } echo ","; foreach ((new B@())->peek() as $v) { echo $v; }`, "3h4,srefused"},
	}
}

func runScope(c *vh.Ctx, tag string, only string) {
	for _, sc := range scopeCases() {
		if only != "" && sc.Name != only {
			continue
		}
		src := "<?php\n" + strings.ReplaceAll(sc.Src, "@", tag+sc.Name[:2]) + "\n"
		out := vh.RunFresh(src)
		got := strings.TrimSpace(out.Out)
		c.Eval("scope/"+tag+"/"+sc.Name, true)
		c.Hit("scope:" + sc.Name)
		if out.Kind != "ok" || got != sc.Want {
			viol(c, "scope:"+sc.Name, fmt.Sprintf("a legitimate program was refused or computed something else: want %q, got %q (%s %s)", sc.Want, got, out.Kind, out.Detail), ScopeCase{"scope", tag, sc.Name})
		}
	}
}
