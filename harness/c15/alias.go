package c15

// Storage-aliasing streams (added for the seeded change C15-filter-in-place-alias).
//
// Kind "fx": one call of a callback-taking method whose callback
//   (a) reports everything it is given — element, index, the array argument in
//       full, (reduce: the accumulator) and, when it captures the receiver by
//       reference, the receiver as the script sees it at that moment;
//   (b) performs effects at chosen invocations: on its own array argument, on
//       its element, on a captured copy, on the receiver through the reference;
//   (c) keeps the array argument and the element of one invocation in outer
//       variables, which are printed after the call;
//   (d) returns a decision that may read the array argument at earlier, own
//       and later positions (indexOf / slice+includes / [0] / [$i-2] / [$i+1])
//       or the element / the array argument themselves.
// After the call, result, receiver, kept argument and kept element are printed,
// then "post" effects are applied to one of them and all four printed again: a
// write to one must not show in the others.
//
// `Chain` (kinds "arr" and "fx"): an in-place method is applied to the returned
// temporary (`$x->filter(cb)->reverse()`); the receiver must be what the first
// call alone leaves.
//
// Reference semantics (documented / Node.js style on value-type arrays): the
// method works on the receiver's elements as of the start of the call; every
// invocation gets (element, index, that array); what a callback does to its
// own arguments or copies concerns nobody else; what it does to the receiver
// through a reference changes the receiver variable only.

import (
	"fmt"
	"sort"
	"strconv"
	"strings"

	"verif/harness/vh"
)

// Fx is one effect: inside the callback at invocation At, or (Post) after the call.
type Fx struct {
	At int    `json:"at,omitempty"`
	On string `json:"on"` // callback: arg | elem | copy | recv     post: res | recv | kept | keptE
	Op string `json:"op"` // set | push | pop | shift | unshift | reverse | sort | splice | assign | nset | npush
	J  int    `json:"j,omitempty"`
}

var cbMethods = []string{"forEach", "map", "filter", "find", "findIndex", "every", "some", "flatMap", "reduce"}
var fxOps = []string{"set", "push", "pop", "shift", "unshift", "reverse", "sort", "splice", "assign", "nset", "npush"}
var chainOps = []string{"push", "pop", "shift", "unshift", "reverse", "sort", "splice"}

func returnsArray(m string) bool {
	switch m {
	case "filter", "map", "flatMap", "slice", "splice", "concat", "reverse", "sort", "flat":
		return true
	}
	return false
}

func chainArgs(op string) []V {
	switch op {
	case "push", "unshift":
		return []V{Int(9)}
	case "splice":
		return []V{Int(0), Int(1)}
	}
	return nil
}

// ------------------------------------------------------------ decisions (what the traced callback returns)

var predDecs = []string{"first", "unseen", "gt0", "ne2", "eqnext", "self", "islast", "void", "none", "local", "local1"}
var mapDecs = []string{"e", "arr", "triple", "prev", "next", "ends", "len", "rev", "void", "none", "local", "local1"}
var redDecs = []string{"nest", "acc", "arr", "cur", "prevcur", "void", "none", "local", "local1"}

func decsFor(m string, n int) []string {
	switch cbKind(m) {
	case "pred":
		d := append([]string{}, predDecs...)
		for b := 0; b < 1<<uint(n); b++ {
			s := make([]byte, n)
			for i := range s {
				s[i] = '0'
				if b>>uint(i)&1 == 1 {
					s[i] = '1'
				}
			}
			d = append(d, "mask:"+string(s))
		}
		return d
	case "cb":
		return mapDecs
	case "cb4":
		return redDecs
	}
	return []string{"-"}
}

const guardIdx = "(%s >= 0 && %s < $a->length) ? $a[%s] : null"

// decPHP: the expression computed *before* any effect runs ("" = the callback returns nothing)
func decPHP(dec string) string {
	name, _ := splitID(dec)
	if strings.HasPrefix(dec, "mask:") {
		bits := dec[5:]
		var t []string
		for i, b := range bits {
			if b == '1' {
				t = append(t, fmt.Sprintf("$i == %d", i))
			}
		}
		if len(t) == 0 {
			return "false"
		}
		return "(" + strings.Join(t, " || ") + ")"
	}
	switch name {
	case "local", "local1":
		return localExpr("")
	case "this":
		return "$this"
	case "first":
		return "$a->indexOf($e) == $i"
	case "unseen":
		return "!$a->slice(0, $i)->includes($e)"
	case "gt0":
		return "is_int($e) && is_int($a[0]) && $e > $a[0]"
	case "ne2":
		return "$i < 2 || json_encode($a[$i - 2]) !== json_encode($e)"
	case "eqnext":
		return "$i + 1 < $a->length && json_encode($a[$i + 1]) === json_encode($e)"
	case "self":
		return "json_encode($a[$i]) === json_encode($e)"
	case "islast":
		return "$i == $a->length - 1"
	case "e":
		return "$e"
	case "arr":
		return "$a"
	case "triple":
		return "[$e, $i, $a]"
	case "prev":
		return "($i >= 1) ? $a[$i - 1] : null"
	case "next":
		return "($i + 1 < $a->length) ? $a[$i + 1] : null"
	case "ends":
		return "[$a[0], $a[$a->length - 1], $a->length]"
	case "len":
		return "$a->length"
	case "rev":
		return "$a->reverse()"
	case "nest":
		return "[$acc, $e, $i, $a]"
	case "acc":
		return "$acc"
	case "cur":
		return "$e"
	case "prevcur":
		return "[($i >= 1) ? $a[$i - 1] : null, $e, $a->length]"
	}
	return ""
}

// localExpr: a value that tells whether the callback's local variables $t / $u already hold something
func localExpr(m string) string {
	return "!isset($t) && !isset($u)"
}

func truthyV(v V) bool { return v.K == 'b' && v.B }

func reverseL(a []V) []V {
	r := make([]V, len(a))
	for i, e := range a {
		r[len(a)-1-i] = e
	}
	return r
}

// decGo: the same decision by the reference (a is the array the callback is documented to get)
func decGo(dec string, acc, e V, i int, a []V) V {
	if strings.HasPrefix(dec, "mask:") {
		bits := dec[5:]
		return Bool(i < len(bits) && bits[i] == '1')
	}
	at := func(k int) V {
		if k < 0 || k >= len(a) {
			return Null()
		}
		return a[k]
	}
	switch dec {
	case "local", "local1":
		return Bool(true)
	case "this":
		return List(a...) // docs/array_methods.md, note 2: `$this` inside the callback is the array
	case "first":
		for k := range a {
			if a[k].AsString() == e.AsString() {
				return Bool(k == i)
			}
		}
		return Bool(-1 == i)
	case "unseen":
		for k := 0; k < i && k < len(a); k++ {
			if a[k].AsString() == e.AsString() {
				return Bool(false)
			}
		}
		return Bool(true)
	case "gt0":
		return Bool(e.K == 'i' && at(0).K == 'i' && e.I > at(0).I)
	case "ne2":
		return Bool(i < 2 || !at(i-2).Equal(e))
	case "eqnext":
		return Bool(i+1 < len(a) && at(i+1).Equal(e))
	case "self":
		return Bool(at(i).Equal(e))
	case "islast":
		return Bool(i == len(a)-1)
	case "e", "cur":
		return e
	case "arr":
		return List(a...)
	case "triple":
		return List(e, Int(int64(i)), List(a...))
	case "prev":
		if i >= 1 {
			return at(i - 1)
		}
		return Null()
	case "next":
		return at(i + 1)
	case "ends":
		return List(at(0), at(len(a)-1), Int(int64(len(a))))
	case "len":
		return Int(int64(len(a)))
	case "rev":
		return List(reverseL(a)...)
	case "nest":
		return List(acc, e, Int(int64(i)), List(a...))
	case "acc":
		return acc
	case "prevcur":
		return List(at(i-1), e, Int(int64(len(a))))
	}
	return Null() // void, "-"
}

// ------------------------------------------------------------ effects

func fxPHP(v string, f Fx, mayBeScalar bool) string {
	var s string
	switch f.Op {
	case "set":
		s = fmt.Sprintf("if (%d < %s->length) { %s[%d] = 99; }", f.J, v, v, f.J)
	case "push":
		s = v + "->push(98);"
	case "pop":
		s = v + "->pop();"
	case "shift":
		s = v + "->shift();"
	case "unshift":
		s = v + "->unshift(97);"
	case "reverse":
		s = v + "->reverse();"
	case "sort":
		s = v + "->sort();"
	case "splice":
		s = v + "->splice(0, 1);"
	case "assign":
		return v + " = [7];"
	case "nset":
		s = fmt.Sprintf("if (%d < %s->length && is_array(%s[%d]) && 0 < %s[%d]->length) { %s[%d][0] = 96; }", f.J, v, v, f.J, v, f.J, v, f.J)
	case "npush":
		s = fmt.Sprintf("if (%d < %s->length && is_array(%s[%d])) { %s[%d]->push(95); }", f.J, v, v, f.J, v, f.J)
	default:
		return ""
	}
	if mayBeScalar {
		return "if (is_array(" + v + ")) { " + s + " } else { " + v + " = 94; }"
	}
	return s
}

// applyFx: the effect on a list by the reference
func applyFx(xs []V, f Fx) []V {
	xs = cloneL(xs)
	mut := func(m string, args ...V) []V {
		o, _ := jsArray(&Case{Kind: "arr", Method: m, Recv: xs, Args: args})
		return o.recv
	}
	switch f.Op {
	case "set":
		if f.J < len(xs) {
			xs[f.J] = Int(99)
		}
	case "push":
		return mut("push", Int(98))
	case "pop":
		return mut("pop")
	case "shift":
		return mut("shift")
	case "unshift":
		return mut("unshift", Int(97))
	case "reverse":
		return mut("reverse")
	case "sort":
		return mut("sort")
	case "splice":
		return mut("splice", Int(0), Int(1))
	case "assign":
		return []V{Int(7)}
	case "nset":
		if f.J < len(xs) && xs[f.J].K == 'l' && len(xs[f.J].L) > 0 {
			in := cloneL(xs[f.J].L)
			in[0] = Int(96)
			xs[f.J] = List(in...)
		}
	case "npush":
		if f.J < len(xs) && xs[f.J].K == 'l' {
			xs[f.J] = List(append(cloneL(xs[f.J].L), Int(95))...)
		}
	}
	return xs
}

func applyFxV(v V, f Fx) V {
	if v.K != 'l' {
		return v // guarded by is_array in the script
	}
	return List(applyFx(v.L, f)...)
}

func (c *Case) hasFxOn(on string) bool {
	for _, f := range c.Fx {
		if f.On == on {
			return true
		}
	}
	return false
}

func (c *Case) capRecv() bool { return !c.untraced() && (c.Cap || c.hasFxOn("recv")) }

// untraced: the callback is a bare expression / empty body — it reports nothing and has no effects
func (c *Case) untraced() bool { return c.Form == "fn" || c.Dec == "none" || c.Dec == "local1" }

// ------------------------------------------------------------ script text of a traced case

func (c *Case) fxCallback() string {
	red := c.Method == "reduce"
	params := "$e, $i, $a"
	if red {
		params = "$acc, $e, $i, $a"
	}
	d := decPHP(c.Dec)
	if c.Dec == "none" {
		// a callback with an empty body: no result at all (the method must take that as null)
		return "function(" + params + ") { }"
	}
	if c.Dec == "local1" {
		// fewer parameters than the method supplies, and a local variable read before it is assigned:
		// every invocation starts with fresh locals, and index / array go nowhere
		p1 := "$e"
		if red {
			p1 = "$acc, $e"
		}
		return "function(" + p1 + ") { $d = " + localExpr(c.Method) + "; $t = [7]; $u = 8; return $d; }"
	}
	if c.Form == "fn" {
		if d == "" {
			d = "null"
		}
		return "fn(" + params + ") => " + d
	}
	var use []string
	if c.capRecv() {
		use = append(use, "&$x")
	}
	if c.hasFxOn("copy") {
		use = append(use, "$c")
	}
	if c.Keep > 0 {
		use = append(use, "&$kept", "&$keptE")
	}
	var sb strings.Builder
	sb.WriteString("function(" + params + ")")
	if len(use) > 0 {
		sb.WriteString(" use (" + strings.Join(use, ", ") + ")")
	}
	sb.WriteString(" { echo json_encode([")
	if red {
		sb.WriteString("$acc, ")
	}
	sb.WriteString("$e, $i, $a")
	if c.capRecv() {
		sb.WriteString(", $x")
	}
	sb.WriteString("]), '" + sepCall + "'; ")
	if c.Keep > 0 {
		fmt.Fprintf(&sb, "if ($i == %d) { $kept = $a; $keptE = $e; } ", c.Keep-1)
	}
	if d != "" {
		sb.WriteString("$d = " + d + "; ")
	}
	if c.Dec == "local" {
		sb.WriteString("$t = [$e, $i]; $u = $a; ")
	}
	for _, f := range c.Fx {
		var st string
		switch f.On {
		case "arg":
			st = fxPHP("$a", f, false)
		case "elem":
			st = fxPHP("$e", f, true)
		case "copy":
			st = fxPHP("$c", f, false)
		case "recv":
			st = fxPHP("$x", f, false)
		}
		if st != "" {
			fmt.Fprintf(&sb, "if ($i == %d) { %s } ", f.At, st)
		}
	}
	if d != "" {
		sb.WriteString("return $d; ")
	} else {
		// `return;` — a function that merely falls off its end yields the value of its last statement
		// in this interpreter (functions in general, not a matter of the array methods)
		sb.WriteString("return; ")
	}
	sb.WriteString("}")
	return sb.String()
}

func fourParts() string {
	return "json_encode($r), '" + sepPart + "', json_encode($x), '" + sepPart + "', json_encode($kept), '" + sepPart + "', json_encode($keptE)"
}

func (c *Case) fxBody() string {
	var sb strings.Builder
	sb.WriteString("$kept = null; $keptE = null; ")
	if c.hasFxOn("copy") {
		sb.WriteString("$c = $x; ")
	}
	cb := c.fxCallback()
	if c.Form == "var" {
		sb.WriteString("$cb = " + cb + "; ")
		cb = "$cb"
	}
	call := cb
	if c.Method == "reduce" && len(c.Args) > 0 {
		call += ", " + phpArgs(c.Args)
	}
	expr := "$x->" + c.Method + "(" + call + ")"
	if c.Chain != "" {
		expr += "->" + c.Chain + "(" + phpArgs(chainArgs(c.Chain)) + ")"
	}
	sb.WriteString("$r = " + expr + "; echo '" + sepRes + "', 'J', " + fourParts() + ";")
	if len(c.Post) > 0 {
		for _, f := range c.Post {
			switch f.On {
			case "res":
				sb.WriteString(" " + fxPHP("$r", f, true))
			case "recv":
				sb.WriteString(" " + fxPHP("$x", f, false))
			case "kept":
				sb.WriteString(" " + fxPHP("$kept", f, true))
			case "keptE":
				sb.WriteString(" " + fxPHP("$keptE", f, true))
			}
		}
		sb.WriteString(" echo '" + sepPart + "', " + fourParts() + ";")
	}
	return sb.String()
}

// ------------------------------------------------------------ canonical forms

func canonFx(ret V, recv []V, calls []V, kept, keptE V, post []V) string {
	s := "ok " + ret.Tok() + " |" + toks(recv) + " |" + toks(calls) + " | " + kept.Tok() + " | " + keptE.Tok()
	if post != nil {
		s += " |post" + toks(post)
	}
	return s
}

func (c *Case) observeFx(raw string) string {
	i := strings.Index(raw, sepRes)
	if i < 0 {
		return "no-output"
	}
	callsPart, res := raw[:i], raw[i+len(sepRes):]
	if res == "E" {
		return "uncaught"
	}
	if len(res) < 1 || res[0] != 'J' {
		return "malformed:" + strconv.Quote(raw)
	}
	parts := strings.Split(res[1:], sepPart)
	want := 4
	if len(c.Post) > 0 {
		want = 8
	}
	if len(parts) != want {
		return "malformed:" + strconv.Quote(raw)
	}
	vs := make([]V, len(parts))
	for k, p := range parts {
		v, err := parseJSON(p)
		if err != nil {
			return "unparsable:" + p
		}
		vs[k] = v
	}
	if vs[1].K != 'l' {
		return "unparsable-receiver:" + parts[1]
	}
	var calls []V
	for _, cs := range strings.Split(callsPart, sepCall) {
		if cs == "" {
			continue
		}
		v, err := parseJSON(cs)
		if err != nil {
			return "unparsable-call:" + cs
		}
		calls = append(calls, v)
	}
	var post []V
	if want == 8 {
		post = vs[4:]
	}
	return canonFx(vs[0], vs[1].L, calls, vs[2], vs[3], post)
}

// ------------------------------------------------------------ reference

// fxReference: the documented behaviour of a traced case, by simulation.
func (c *Case) fxReference() (string, bool) {
	snap := cloneL(c.Recv) // the array as of the start of the call: what is iterated and what every invocation gets
	live := cloneL(c.Recv) // the receiver variable
	var calls []V
	kept, keptE := Null(), Null()
	invoke := func(acc, e V, i int) V {
		if !c.untraced() {
			var ev []V
			if c.Method == "reduce" {
				ev = append(ev, acc)
			}
			ev = append(ev, e, Int(int64(i)), List(snap...))
			if c.capRecv() {
				ev = append(ev, List(live...))
			}
			calls = append(calls, List(ev...))
		}
		d := decGo(c.Dec, acc, e, i, snap)
		if !c.untraced() {
			if c.Keep > 0 && c.Keep-1 == i {
				kept, keptE = List(snap...), e
			}
			for _, f := range c.Fx {
				if f.At == i && f.On == "recv" {
					live = applyFx(live, f)
				}
				// arg / elem / copy: the callback's own values — nothing else may change
			}
		}
		return d
	}
	n := len(snap)
	var ret V
	switch c.Method {
	case "forEach":
		for i := 0; i < n; i++ {
			invoke(Null(), snap[i], i)
		}
		ret = Null()
	case "map":
		r := []V{}
		for i := 0; i < n; i++ {
			r = append(r, invoke(Null(), snap[i], i))
		}
		ret = List(r...)
	case "flatMap":
		r := []V{}
		for i := 0; i < n; i++ {
			m := invoke(Null(), snap[i], i)
			if m.K == 'l' {
				r = append(r, m.L...)
			} else {
				r = append(r, m)
			}
		}
		ret = List(r...)
	case "filter":
		r := []V{}
		for i := 0; i < n; i++ {
			if truthyV(invoke(Null(), snap[i], i)) {
				r = append(r, snap[i])
			}
		}
		ret = List(r...)
	case "find":
		ret = Null()
		for i := 0; i < n; i++ {
			if truthyV(invoke(Null(), snap[i], i)) {
				ret = snap[i]
				break
			}
		}
	case "findIndex":
		ret = Int(-1)
		for i := 0; i < n; i++ {
			if truthyV(invoke(Null(), snap[i], i)) {
				ret = Int(int64(i))
				break
			}
		}
	case "every":
		ret = Bool(true)
		for i := 0; i < n; i++ {
			if !truthyV(invoke(Null(), snap[i], i)) {
				ret = Bool(false)
				break
			}
		}
	case "some":
		ret = Bool(false)
		for i := 0; i < n; i++ {
			if truthyV(invoke(Null(), snap[i], i)) {
				ret = Bool(true)
				break
			}
		}
	case "reduce":
		k := 0
		var acc V
		if len(c.Args) > 0 && c.Args[0].K != 'n' {
			acc = c.Args[0]
		} else if n == 0 {
			acc = Null()
			k = n
		} else {
			acc, k = snap[0], 1
		}
		for ; k < n; k++ {
			acc = invoke(acc, snap[k], k)
		}
		ret = acc
	default:
		return "", false
	}
	if c.Chain != "" {
		if ret.K != 'l' {
			return "", false
		}
		o, ok := jsArray(&Case{Kind: "arr", Method: c.Chain, Recv: ret.L, Args: chainArgs(c.Chain)})
		if !ok {
			return "", false
		}
		ret = o.ret
	}
	var post []V
	if len(c.Post) > 0 {
		r2, x2, k2, e2 := ret, List(live...), kept, keptE
		for _, f := range c.Post {
			switch f.On {
			case "res":
				r2 = scalarOr(r2, f)
			case "recv":
				x2 = applyFxV(x2, f)
			case "kept":
				k2 = scalarOr(k2, f)
			case "keptE":
				e2 = scalarOr(e2, f)
			}
		}
		post = []V{r2, x2, k2, e2}
	}
	return canonFx(ret, live, calls, kept, keptE, post), true
}

// scalarOr mirrors `if (is_array($v)) { effect } else { $v = 94; }`
func scalarOr(v V, f Fx) V {
	if v.K == 'l' {
		return applyFxV(v, f)
	}
	if f.Op == "assign" {
		return List(Int(7))
	}
	return Int(94)
}

// chainReference: `$x->m(args)->op()` for the callback-free methods
func (c *Case) chainReference() (string, bool) {
	d := *c
	d.Chain = ""
	o, ok := jsArray(&d)
	if !ok || o.ret.K != 'l' {
		return "", false
	}
	o2, ok := jsArray(&Case{Kind: "arr", Method: c.Chain, Recv: o.ret.L, Args: chainArgs(c.Chain)})
	if !ok {
		return "", false
	}
	return canonArr(c.Method, o2.ret, o.recv, o.calls), true
}

// ------------------------------------------------------------ model line

// fx <TAB> method <TAB> receiver <TAB> arguments after the callback <TAB> decision <TAB> trace mode <TAB> receiver effects <TAB> chain
// trace mode: n = no trace (arrow function) | a = arguments | r = arguments + receiver as seen through the reference
func (c *Case) fxModelLine() string {
	mode := "a"
	if c.untraced() {
		mode = "n"
	} else if c.capRecv() {
		mode = "r"
	}
	var fx []string
	if !c.untraced() {
		for _, f := range c.Fx {
			if f.On == "recv" {
				fx = append(fx, fmt.Sprintf("%d:%s:%d", f.At, f.Op, f.J))
			}
		}
	}
	fs := "-"
	if len(fx) > 0 {
		fs = strings.Join(fx, ",")
	}
	ch := c.Chain
	if ch == "" {
		ch = "-"
	}
	return "fx\t" + c.Method + "\t" + toks(c.Recv) + "\t" + toks(c.Args) + "\t" + c.Dec + "\t" + mode + "\t" + fs + "\t" + ch
}

// the part of an observation the model speaks about: result, receiver, invocations
func fxModelPart(obs string) string {
	p := strings.Split(obs, " |")
	if len(p) < 3 || !strings.HasPrefix(obs, "ok ") {
		return obs
	}
	return strings.Join(p[:3], " |")
}

// ------------------------------------------------------------ signatures

func (c *Case) fxShape() string {
	dec := c.Dec
	if strings.HasPrefix(dec, "mask:") {
		dec = "mask"
	}
	set := map[string]bool{}
	for _, f := range c.Fx {
		set["cb."+f.On+"."+f.Op] = true
	}
	for _, f := range c.Post {
		set["post."+f.On+"."+f.Op] = true
	}
	if c.Keep > 0 {
		set["keep"] = true
	}
	if c.Chain != "" {
		set["chain."+c.Chain] = true
	}
	if c.Form != "" {
		set["form."+c.Form] = true
	}
	var ks []string
	for k := range set {
		ks = append(ks, k)
	}
	sort.Strings(ks)
	s := "(" + dec
	if len(ks) > 0 {
		s += ";" + strings.Join(ks, ",")
	}
	return s + ")"
}

// fxDiffDetail: the first observable that differs, as text
func fxDiffDetail(impl, want string) string {
	a, b := strings.Split(impl, " |"), strings.Split(want, " |")
	if len(a) != len(b) || !strings.HasPrefix(impl, "ok ") {
		return "got " + impl + ", documented semantics give " + want
	}
	names := []string{"result", "receiver afterwards", "invocations [.. element index array (receiver)]", "kept array argument", "kept element", "after the post effects [result receiver kept keptE]"}
	for i := range a {
		if a[i] != b[i] && i < len(names) {
			return names[i] + ": got" + strings.TrimPrefix(a[i], "ok") + ", documented semantics give" + strings.TrimPrefix(b[i], "ok")
		}
	}
	return "same"
}

// script text of a case without the bookkeeping of the harness
func (c *Case) fxShow() string {
	t := c.fxBody()
	t = strings.Replace(t, "$kept = null; $keptE = null; ", "", 1)
	if i := strings.Index(t, " echo '"+sepRes); i >= 0 {
		rest := ""
		if len(c.Post) > 0 {
			rest = t[i:]
			rest = rest[strings.Index(rest, ";")+1:]
			if j := strings.LastIndex(rest, " echo '"+sepPart); j >= 0 {
				rest = rest[:j]
			}
		}
		t = t[:i] + rest
	}
	t = strings.ReplaceAll(t, "echo json_encode([", "report([")
	t = strings.ReplaceAll(t, "]), '"+sepCall+"';", "]);")
	return t
}

func fxDiffPart(impl, want string) string {
	a, b := strings.Split(impl, " |"), strings.Split(want, " |")
	if len(a) != len(b) || !strings.HasPrefix(impl, "ok ") {
		return "outcome"
	}
	names := []string{"ret", "recv", "calls", "kept", "keptE", "post"}
	for i := range a {
		if a[i] != b[i] && i < len(names) {
			return names[i]
		}
	}
	return "same"
}

func hitFx(c *vh.Ctx, k *Case) {
	if k.Chain != "" {
		c.Hit("chain:" + k.Method + "->" + k.Chain)
	}
	if k.Kind != "fx" {
		return
	}
	d := k.Dec
	if strings.HasPrefix(d, "mask:") {
		d = "mask"
	}
	c.Hit("fx:dec=" + d)
	if k.Form != "" {
		c.Hit("fx:form=" + k.Form)
	}
	for _, f := range k.Fx {
		c.Hit("fx:cb." + f.On + "." + f.Op)
	}
	for _, f := range k.Post {
		c.Hit("fx:post." + f.On + "." + f.Op)
	}
	if k.Keep > 0 {
		c.Hit("fx:keep")
	}
	if k.capRecv() {
		c.Hit("fx:receiver-captured")
	}
}

// ------------------------------------------------------------ shrinking of a traced case

func dropBit(dec string, p int) string {
	if strings.HasPrefix(dec, "mask:") {
		bits := dec[5:]
		if p < len(bits) {
			return "mask:" + bits[:p] + bits[p+1:]
		}
	}
	return dec
}

func shrinkFx(c *Case) *Case {
	cur := *c
	for step := 0; step < 80; step++ {
		progressed := false
		try := func(d Case) bool {
			if d.violates() {
				cur = d
				progressed = true
				return true
			}
			return false
		}
		if cur.Site != "" {
			d := cur
			d.Site = ""
			if try(d) {
				continue
			}
		}
		for i := len(cur.Post) - 1; i >= 0 && !progressed; i-- {
			d := cur
			d.Post = append(append([]Fx{}, cur.Post[:i]...), cur.Post[i+1:]...)
			try(d)
		}
		for i := len(cur.Fx) - 1; i >= 0 && !progressed; i-- {
			d := cur
			d.Fx = append(append([]Fx{}, cur.Fx[:i]...), cur.Fx[i+1:]...)
			try(d)
		}
		if !progressed && cur.Chain != "" {
			d := cur
			d.Chain = ""
			try(d)
		}
		if !progressed && cur.Keep > 0 {
			d := cur
			d.Keep = 0
			try(d)
		}
		if !progressed && cur.Cap {
			d := cur
			d.Cap = false
			try(d)
		}
		if !progressed && cur.Form == "var" {
			d := cur
			d.Form = ""
			try(d)
		}
		for i := len(cur.Recv) - 1; i >= 0 && !progressed; i-- {
			d := cur
			d.Recv = append(cloneL(cur.Recv[:i]), cur.Recv[i+1:]...)
			d.Dec = dropBit(cur.Dec, i)
			try(d)
		}
		for i := 0; i < len(cur.Recv) && !progressed; i++ {
			if cur.Recv[i].K != 'i' {
				d := cur
				d.Recv = cloneL(cur.Recv)
				d.Recv[i] = Int(int64(i + 1))
				try(d)
			}
		}
		if !progressed {
			break
		}
	}
	return &cur
}

// ------------------------------------------------------------ generators

// receivers on which the array-reading decisions separate positions: repeated
// elements, a rejected element in front of kept ones, nested lists
var idiomRecvs = [][]V{
	{Int(3), Int(5), Int(1), Int(4)},
	{Int(1), Int(2), Int(1), Int(3), Int(1)},
	{Str("b"), Str("a"), Str("c"), Str("a")},
	{Int(1), Int(1), Str("a"), Str("a")},
	{List(Int(1)), List(Int(1)), Int(2), List(Int(1)), Int(2)},
	{Int(2), Int(1), Int(2), Int(3), Int(2), Int(4)},
	{Int(0), Int(-1), Int(5), Int(0), Int(7)},
}

func (r *runner) addFx(m string, recv []V, args []V, dec string, mod func(*Case)) {
	c := &Case{Kind: "fx", Method: m, Recv: cloneL(recv), Args: cloneL(args), Dec: dec}
	if mod != nil {
		mod(c)
	}
	r.add(c)
}

func reduceInits() [][]V { return [][]V{{}, {Int(0)}, {List()}} }

// every method x every decision (all keep/reject masks for the predicates) on one receiver, traced, no effects
// special decisions: about the invocation itself (no result, fresh locals), not about the arguments
func specialDec(d string) bool { return d == "void" || d == "none" || d == "local" || d == "local1" }

func (r *runner) enumFxPlain(recv []V, forms bool, special bool) {
	n := len(recv)
	for _, m := range cbMethods {
		inits := [][]V{nil}
		if m == "reduce" {
			inits = reduceInits()
		}
		for _, init := range inits {
			for _, dec := range decsFor(m, n) {
				if specialDec(dec) != special {
					continue
				}
				r.addFx(m, recv, init, dec, nil)
				if forms && m != "forEach" && !special {
					r.addFx(m, recv, init, dec, func(c *Case) { c.Form = "fn" })
				}
			}
		}
	}
}

// a decision under which the method visits every element (no early exit)
func fullDec(m string, n int) string {
	switch m {
	case "filter":
		if n >= 2 {
			return "mask:" + "01" + strings.Repeat("1", n-2)
		}
		return "mask:" + strings.Repeat("1", n)
	case "find", "findIndex", "some":
		return "mask:" + strings.Repeat("0", n)
	case "every":
		return "mask:" + strings.Repeat("1", n)
	case "map", "flatMap":
		return "triple"
	case "reduce":
		return "nest"
	}
	return "-"
}

// single effects: every target x every operation x every invocation x positions {0, last}; kept argument of
// every invocation; every post effect on every observable; every chained in-place method
func (r *runner) enumFxEffects(recv []V) {
	n := len(recv)
	if n == 0 {
		return
	}
	js := []int{0}
	if n > 1 {
		js = append(js, n-1)
	}
	for _, m := range cbMethods {
		dec := fullDec(m, n)
		var init []V
		for at := 0; at < n; at++ {
			for _, on := range []string{"arg", "elem", "copy", "recv"} {
				for _, op := range fxOps {
					if on == "recv" && (op == "nset" || op == "npush") {
						continue // nested arrays are shared between the receiver and the snapshot (Node.js-like); see notes
					}
					for _, j := range js {
						if j > 0 && op != "set" && op != "nset" && op != "npush" {
							continue
						}
						f := Fx{At: at, On: on, Op: op, J: j}
						r.addFx(m, recv, init, dec, func(c *Case) { c.Fx = []Fx{f}; c.Cap = true })
					}
				}
			}
			r.addFx(m, recv, init, dec, func(c *Case) { c.Keep = at + 1 })
		}
		for _, on := range []string{"res", "recv", "kept", "keptE"} {
			for _, op := range fxOps {
				f := Fx{On: on, Op: op}
				r.addFx(m, recv, init, dec, func(c *Case) { c.Keep = 1; c.Post = []Fx{f} })
			}
		}
		if returnsArray(m) {
			for _, op := range chainOps {
				r.addFx(m, recv, init, dec, func(c *Case) { c.Chain = op })
			}
		}
	}
}

// chained in-place methods on the results of the callback-free array-returning methods
func (r *runner) enumChains(recv []V) {
	n := len(recv)
	for _, op := range chainOps {
		add := func(m string, args ...V) {
			r.add(&Case{Kind: "arr", Method: m, Recv: cloneL(recv), Args: args, Chain: op})
		}
		add("slice")
		add("slice", Int(0))
		add("slice", Int(0), Int(int64(n)))
		add("slice", Int(1))
		add("concat")
		add("concat", List(Int(7)))
		add("flat")
		add("flat", Int(0))
		add("reverse")
		add("sort")
		add("splice", Int(0))
		add("splice", Int(0), Int(1), Int(7))
	}
}

func (r *runner) randFx(rng *vh.Rand) *Case {
	n := rng.Range(1, 6)
	if rng.Chance(10) {
		n = rng.Range(7, 10)
	}
	recv := make([]V, n)
	pool := elemPool
	if rng.Chance(40) {
		pool = []V{Int(1), Int(2), Int(3), Str("a"), List(Int(1)), List(Int(2), List(Int(3)))} // repeats are likely
	}
	for i := range recv {
		recv[i] = vh.Pick(rng, pool)
	}
	m := vh.Pick(rng, cbMethods)
	c := &Case{Kind: "fx", Method: m, Recv: recv}
	switch cbKind(m) {
	case "pred":
		if rng.Chance(60) {
			b := make([]byte, n)
			for i := range b {
				b[i] = "01"[rng.Intn(2)]
			}
			c.Dec = "mask:" + string(b)
		} else {
			c.Dec = vh.Pick(rng, predDecs)
		}
	case "cb":
		c.Dec = vh.Pick(rng, mapDecs)
	case "cb4":
		c.Dec = vh.Pick(rng, redDecs)
		if rng.Bool() {
			c.Args = []V{vh.Pick(rng, elemPool)}
		}
	default:
		c.Dec = "-"
	}
	if c.Dec == "none" || c.Dec == "local1" {
		return c
	}
	if rng.Chance(12) && m != "forEach" && c.Dec != "void" && c.Dec != "local" {
		c.Form = "fn"
		return c
	}
	if rng.Chance(20) {
		c.Form = "var"
	}
	c.Cap = rng.Chance(40)
	for k := rng.Intn(4); k > 0; k-- {
		f := Fx{At: rng.Intn(n), On: vh.Pick(rng, []string{"arg", "elem", "copy", "recv"}), Op: vh.Pick(rng, fxOps), J: rng.Intn(n)}
		if f.On == "recv" && (f.Op == "nset" || f.Op == "npush") {
			f.Op = "set"
		}
		c.Fx = append(c.Fx, f)
	}
	if rng.Chance(50) {
		c.Keep = rng.Range(1, n)
	}
	for k := rng.Intn(3); k > 0; k-- {
		c.Post = append(c.Post, Fx{On: vh.Pick(rng, []string{"res", "recv", "kept", "keptE"}), Op: vh.Pick(rng, fxOps), J: rng.Intn(n)})
	}
	if returnsArray(m) && rng.Chance(20) {
		c.Chain = vh.Pick(rng, chainOps)
	}
	if rng.Chance(25) {
		c.Site = vh.Pick(rng, []string{"func", "method"})
	}
	return c
}
