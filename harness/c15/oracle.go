package c15

import (
	"sort"
	"strings"
	"unicode"
)

// Independent reference of the documented semantics (docs/array_methods.md,
// docs/strings.md; ECMA-262 Array.prototype / String.prototype where the
// documents are silent).  Written with index loops in the style of the
// ECMAScript algorithms; it shares nothing with the Lean model.

type opt struct {
	ok bool
	v  int64
}

// optional integer argument i: omitted or null → not given; ok2=false when the
// argument has a type the reference does not define (string, list, bool).
func optIntArg(args []V, i int) (o opt, typed bool) {
	if i >= len(args) || args[i].K == 'n' {
		return opt{}, true
	}
	if args[i].K == 'i' {
		return opt{true, args[i].I}, true
	}
	return opt{}, false
}

func relIndex(n int, k int64) int {
	if k < 0 {
		if int64(n)+k < 0 {
			return 0
		}
		return n + int(k)
	}
	if k > int64(n) {
		return n
	}
	return int(k)
}

type out struct {
	ret   V
	recv  []V
	calls []V // forEach invocations [element, index, array]
}

// callbacks by id — same ids as the Lean driver and the script text.
func predById(id string) func(e V, i int, a []V) bool {
	name, k := splitID(id)
	switch name {
	case "p_true":
		return func(V, int, []V) bool { return true }
	case "p_false":
		return func(V, int, []V) bool { return false }
	case "p_idx_lt":
		return func(_ V, i int, _ []V) bool { return int64(i) < k }
	case "p_idx_ge":
		return func(_ V, i int, _ []V) bool { return int64(i) >= k }
	case "p_idx_even":
		return func(_ V, i int, _ []V) bool { return i%2 == 0 }
	case "p_is_int":
		return func(e V, _ int, _ []V) bool { return e.K == 'i' }
	case "p_is_array":
		return func(e V, _ int, _ []V) bool { return e.K == 'l' }
	case "p_is_string":
		return func(e V, _ int, _ []V) bool { return e.K == 's' }
	case "p_eq_int":
		return func(e V, _ int, _ []V) bool { return e.K == 'i' && e.I == k }
	case "p_len_gt_idx_plus":
		return func(_ V, i int, a []V) bool { return int64(len(a)) > int64(i)+k }
	}
	return nil
}

func cbById(id string) func(e V, i int, a []V) V {
	name, k := splitID(id)
	switch name {
	case "c_e":
		return func(e V, _ int, _ []V) V { return e }
	case "c_i":
		return func(_ V, i int, _ []V) V { return Int(int64(i)) }
	case "c_pair":
		return func(e V, i int, _ []V) V { return List(e, Int(int64(i))) }
	case "c_triple":
		return func(e V, i int, a []V) V { return List(e, Int(int64(i)), List(a...)) }
	case "c_len":
		return func(_ V, _ int, a []V) V { return Int(int64(len(a))) }
	case "c_wrap2":
		return func(e V, _ int, _ []V) V { return List(List(e)) }
	case "c_arr":
		return func(_ V, _ int, a []V) V { return List(a...) }
	case "c_null":
		return func(V, int, []V) V { return Null() }
	case "c_empty":
		return func(V, int, []V) V { return List() }
	case "c_const":
		return func(V, int, []V) V { return Int(k) }
	}
	return nil
}

func cb4ById(id string) func(acc, cur V, i int, a []V) V {
	name, _ := splitID(id)
	switch name {
	case "r_nest":
		return func(acc, cur V, i int, _ []V) V { return List(acc, cur, Int(int64(i))) }
	case "r_cur":
		return func(_, cur V, _ int, _ []V) V { return cur }
	case "r_acc":
		return func(acc, _ V, _ int, _ []V) V { return acc }
	case "r_idx":
		return func(_, _ V, i int, _ []V) V { return Int(int64(i)) }
	case "r_len":
		return func(acc, _ V, _ int, a []V) V { return List(acc, Int(int64(len(a)))) }
	}
	return nil
}

func flatJS(xs []V, depth int64) []V {
	var r []V
	for _, e := range xs {
		if e.K == 'l' && depth > 0 {
			r = append(r, flatJS(e.L, depth-1)...)
		} else {
			r = append(r, e)
		}
	}
	return r
}

// jsArray evaluates one array-method call by the reference. ok=false: the
// reference says nothing about this call (a required argument is missing or an
// argument has a type outside the documented signature).
func jsArray(c *Case) (o out, ok bool) {
	xs := cloneL(c.Recv)
	n := len(xs)
	args := c.Args
	o.recv = xs
	switch c.Method {
	case "length":
		o.ret = Int(int64(n))
	case "push":
		o.recv = append(xs, args...)
		o.ret = Int(int64(len(o.recv)))
	case "unshift":
		o.recv = append(cloneL(args), xs...)
		o.ret = Int(int64(len(o.recv)))
	case "pop":
		if n == 0 {
			o.ret = Null()
		} else {
			o.ret = xs[n-1]
			o.recv = xs[:n-1]
		}
	case "shift":
		if n == 0 {
			o.ret = Null()
		} else {
			o.ret = xs[0]
			o.recv = xs[1:]
		}
	case "slice":
		s, t1 := optIntArg(args, 0)
		e, t2 := optIntArg(args, 1)
		if !t1 || !t2 {
			return o, false
		}
		k := 0
		if s.ok {
			k = relIndex(n, s.v)
		}
		f := n
		if e.ok {
			f = relIndex(n, e.v)
		}
		r := []V{}
		for ; k < f; k++ {
			r = append(r, xs[k])
		}
		o.ret = List(r...)
	case "splice":
		s, t1 := optIntArg(args, 0)
		d, t2 := optIntArg(args, 1)
		if !t1 || !t2 || len(args) == 0 {
			return o, false // start is a required argument
		}
		k := 0
		if s.ok {
			k = relIndex(n, s.v)
		}
		cnt := n - k
		if d.ok {
			cnt = 0
			if d.v > 0 {
				cnt = n - k
				if d.v < int64(cnt) {
					cnt = int(d.v)
				}
			}
		}
		var items []V
		if len(args) > 2 {
			items = args[2:]
		}
		del := []V{}
		for i := 0; i < cnt; i++ {
			del = append(del, xs[k+i])
		}
		nr := append([]V{}, xs[:k]...)
		nr = append(nr, items...)
		nr = append(nr, xs[k+cnt:]...)
		o.ret, o.recv = List(del...), nr
	case "concat":
		r := cloneL(xs)
		for _, it := range args {
			if it.K == 'l' {
				r = append(r, it.L...)
			} else {
				r = append(r, it)
			}
		}
		o.ret = List(r...)
	case "join":
		sep := ","
		if len(args) > 0 && args[0].K != 'n' {
			sep = args[0].AsString()
		}
		p := make([]string, n)
		for i, e := range xs {
			p[i] = e.AsString()
		}
		o.ret = Str(strings.Join(p, sep))
	case "reverse":
		r := make([]V, n)
		for i, e := range xs {
			r[n-1-i] = e
		}
		o.ret, o.recv = List(r...), r
	case "sort":
		r := cloneL(xs)
		sort.SliceStable(r, func(i, j int) bool { return r[i].AsString() < r[j].AsString() })
		o.ret, o.recv = List(r...), r
	case "indexOf", "includes":
		if len(args) == 0 {
			return o, false
		}
		f, t := optIntArg(args, 1)
		if !t {
			return o, false
		}
		k := 0
		if f.ok {
			k = relIndex(n, f.v)
		}
		idx := int64(-1)
		for ; k < n; k++ {
			if xs[k].AsString() == args[0].AsString() {
				idx = int64(k)
				break
			}
		}
		if c.Method == "indexOf" {
			o.ret = Int(idx)
		} else {
			o.ret = Bool(idx >= 0)
		}
	case "flat":
		d, t := optIntArg(args, 0)
		if !t {
			return o, false
		}
		depth := int64(1)
		if d.ok {
			depth = d.v
		}
		o.ret = List(flatJS(xs, depth)...)
	case "forEach":
		o.ret = Null()
		o.calls = []V{}
		for i, e := range xs {
			o.calls = append(o.calls, List(e, Int(int64(i)), List(xs...)))
		}
	case "map", "flatMap":
		f := cbById(c.Cb)
		if f == nil {
			return o, false
		}
		r := []V{}
		for i, e := range xs {
			m := f(e, i, xs)
			if c.Method == "flatMap" && m.K == 'l' {
				r = append(r, m.L...)
			} else {
				r = append(r, m)
			}
		}
		o.ret = List(r...)
	case "filter", "find", "findIndex", "every", "some":
		p := predById(c.Cb)
		if p == nil {
			return o, false
		}
		kept := []V{}
		first := -1
		all, any := true, false
		for i, e := range xs {
			if p(e, i, xs) {
				kept = append(kept, e)
				if first < 0 {
					first = i
				}
				any = true
			} else {
				all = false
			}
		}
		switch c.Method {
		case "filter":
			o.ret = List(kept...)
		case "find":
			o.ret = Null()
			if first >= 0 {
				o.ret = xs[first]
			}
		case "findIndex":
			o.ret = Int(int64(first))
		case "every":
			o.ret = Bool(all)
		case "some":
			o.ret = Bool(any)
		}
	case "reduce":
		f := cb4ById(c.Cb)
		if f == nil {
			return o, false
		}
		k := 0
		var acc V
		if len(args) > 0 && args[0].K != 'n' {
			acc = args[0]
		} else if n == 0 {
			o.ret = Null() // TypeError in JavaScript; the document is silent, null chosen
			return o, true
		} else {
			acc, k = xs[0], 1
		}
		for ; k < n; k++ {
			acc = f(acc, xs[k], k, xs)
		}
		o.ret = acc
	default:
		return o, false
	}
	return o, true
}

// ------------------------------------------------------------ strings

// sres mirrors the driver's answer forms: "int n", "bool T|F", "bytes hex", "texts hex,hex".
type sres struct {
	kind  string
	i     int64
	b     bool
	s     string
	parts []string
}

// textArg: the documented conversion of a search / replacement argument
// (strings as they are, numbers in decimal, booleans true/false, null "null").
func textArg(v V) (string, bool) {
	switch v.K {
	case 's':
		return v.S, true
	case 'i', 'b':
		return v.AsString(), true
	case 'n':
		return "null", true
	}
	return "", false
}

func runeIndex(s, pat []rune) int {
	for i := 0; i+len(pat) <= len(s); i++ {
		j := 0
		for j < len(pat) && s[i+j] == pat[j] {
			j++
		}
		if j == len(pat) {
			return i
		}
	}
	return -1
}

func clampI(v int64, n int) int {
	if v < 0 {
		return 0
	}
	if v > int64(n) {
		return n
	}
	return int(v)
}

func jsString(c *Case) (r sres, ok bool) {
	s := []rune(c.RecvS)
	n := len(s)
	args := c.Args
	need := func(k int) bool { return len(args) >= k }
	switch c.Method {
	case "length":
		return sres{kind: "int", i: int64(n)}, true
	case "indexOf":
		if !need(1) {
			return r, false
		}
		p, t := textArg(args[0])
		if !t {
			return r, false
		}
		return sres{kind: "int", i: int64(runeIndex(s, []rune(p)))}, true
	case "substring":
		if !need(1) || args[0].K != 'i' {
			return r, false
		}
		e, t := optIntArg(args, 1)
		if !t {
			return r, false
		}
		a := clampI(args[0].I, n)
		b := n
		if e.ok {
			b = clampI(e.v, n)
		}
		if a > b {
			a, b = b, a
		}
		return sres{kind: "str", s: string(s[a:b])}, true
	case "replace":
		if !need(2) {
			return r, false
		}
		p, t1 := textArg(args[0])
		q, t2 := textArg(args[1])
		if !t1 || !t2 {
			return r, false
		}
		pat, rep := []rune(p), []rune(q)
		var res []rune
		if len(pat) == 0 {
			res = append(res, rep...)
			for _, ch := range s {
				res = append(res, ch)
				res = append(res, rep...)
			}
		} else {
			i := 0
			for i < n {
				if i+len(pat) <= n && runeIndex(s[i:i+len(pat)], pat) == 0 {
					res = append(res, rep...)
					i += len(pat)
				} else {
					res = append(res, s[i])
					i++
				}
			}
		}
		return sres{kind: "str", s: string(res)}, true
	case "split":
		parts := []string{}
		if !need(1) || args[0].K == 'n' {
			cur := []rune{}
			for _, ch := range s {
				if unicode.IsSpace(ch) {
					if len(cur) > 0 {
						parts = append(parts, string(cur))
						cur = cur[:0]
					}
				} else {
					cur = append(cur, ch)
				}
			}
			if len(cur) > 0 {
				parts = append(parts, string(cur))
			}
			return sres{kind: "strs", parts: parts}, true
		}
		p, t := textArg(args[0])
		if !t {
			return r, false
		}
		pat := []rune(p)
		if len(pat) == 0 {
			for _, ch := range s {
				parts = append(parts, string(ch))
			}
			return sres{kind: "strs", parts: parts}, true
		}
		start, i := 0, 0
		for i+len(pat) <= n {
			if runeIndex(s[i:i+len(pat)], pat) == 0 {
				parts = append(parts, string(s[start:i]))
				i += len(pat)
				start = i
			} else {
				i++
			}
		}
		parts = append(parts, string(s[start:]))
		return sres{kind: "strs", parts: parts}, true
	case "trim":
		a, b := 0, n
		for a < b && unicode.IsSpace(s[a]) {
			a++
		}
		for b > a && unicode.IsSpace(s[b-1]) {
			b--
		}
		return sres{kind: "str", s: string(s[a:b])}, true
	case "toUpperCase", "toLowerCase":
		res := make([]rune, n)
		for i, ch := range s {
			if c.Method == "toUpperCase" {
				res[i] = unicode.ToUpper(ch)
			} else {
				res[i] = unicode.ToLower(ch)
			}
		}
		return sres{kind: "str", s: string(res)}, true
	case "startsWith", "endsWith":
		if !need(1) {
			return r, false
		}
		p, t := textArg(args[0])
		if !t {
			return r, false
		}
		pat := []rune(p)
		if len(pat) > n {
			return sres{kind: "bool", b: false}, true
		}
		if c.Method == "startsWith" {
			return sres{kind: "bool", b: runeIndex(s[:len(pat)], pat) == 0}, true
		}
		return sres{kind: "bool", b: runeIndex(s[n-len(pat):], pat) == 0}, true
	}
	return r, false
}
