package c15

import (
	"bytes"
	"encoding/hex"
	"encoding/json"
	"fmt"
	"strconv"
	"strings"
)

// V is a script value of the modelled universe: null | bool | int | string | list.
type V struct {
	K byte // 'n' 'b' 'i' 's' 'l'
	B bool
	I int64
	S string
	L []V
}

func Null() V          { return V{K: 'n'} }
func Bool(b bool) V    { return V{K: 'b', B: b} }
func Int(i int64) V    { return V{K: 'i', I: i} }
func Str(s string) V   { return V{K: 's', S: s} }
func List(l ...V) V    { return V{K: 'l', L: append([]V{}, l...)} }
func (v V) IsNull() bool { return v.K == 'n' }

func (v V) MarshalJSON() ([]byte, error) {
	switch v.K {
	case 'n':
		return []byte("null"), nil
	case 'b':
		if v.B {
			return []byte("true"), nil
		}
		return []byte("false"), nil
	case 'i':
		return []byte(strconv.FormatInt(v.I, 10)), nil
	case 's':
		return json.Marshal(v.S)
	case 'l':
		if v.L == nil {
			return []byte("[]"), nil
		}
		return json.Marshal(v.L)
	}
	return nil, fmt.Errorf("bad value kind %q", v.K)
}

func (v *V) UnmarshalJSON(b []byte) error {
	dec := json.NewDecoder(bytes.NewReader(b))
	dec.UseNumber()
	var x any
	if err := dec.Decode(&x); err != nil {
		return err
	}
	w, err := fromAny(x)
	if err != nil {
		return err
	}
	*v = w
	return nil
}

func fromAny(x any) (V, error) {
	switch t := x.(type) {
	case nil:
		return Null(), nil
	case bool:
		return Bool(t), nil
	case json.Number:
		i, err := strconv.ParseInt(string(t), 10, 64)
		if err != nil {
			return V{}, fmt.Errorf("non-integer number %s", t)
		}
		return Int(i), nil
	case string:
		return Str(t), nil
	case []any:
		l := make([]V, 0, len(t))
		for _, e := range t {
			w, err := fromAny(e)
			if err != nil {
				return V{}, err
			}
			l = append(l, w)
		}
		return V{K: 'l', L: l}, nil
	}
	return V{}, fmt.Errorf("value outside the modelled universe: %T", x)
}

// parseJSON reads what json_encode printed.
func parseJSON(s string) (V, error) {
	var v V
	err := v.UnmarshalJSON([]byte(s))
	return v, err
}

// Tok is the token form shared with the Lean driver.
func (v V) Tok() string {
	switch v.K {
	case 'n':
		return "n"
	case 'b':
		if v.B {
			return "T"
		}
		return "F"
	case 'i':
		return "i" + strconv.FormatInt(v.I, 10)
	case 's':
		return "s" + hex.EncodeToString([]byte(v.S))
	case 'l':
		return "[" + toks(v.L) + " ]"
	}
	return "?"
}

func toks(l []V) string {
	var sb strings.Builder
	for _, e := range l {
		sb.WriteByte(' ')
		sb.WriteString(e.Tok())
	}
	return sb.String()
}

// PHP literal (strings single-quoted: the generators never use ' or \).
func (v V) PHP() string {
	switch v.K {
	case 'n':
		return "null"
	case 'b':
		if v.B {
			return "true"
		}
		return "false"
	case 'i':
		return strconv.FormatInt(v.I, 10)
	case 's':
		return "'" + v.S + "'"
	case 'l':
		p := make([]string, len(v.L))
		for i, e := range v.L {
			p[i] = e.PHP()
		}
		return "[" + strings.Join(p, ", ") + "]"
	}
	return "null"
}

func phpArgs(args []V) string {
	p := make([]string, len(args))
	for i, e := range args {
		p[i] = e.PHP()
	}
	return strings.Join(p, ", ")
}

// AsString is the documented string form (docs/array_methods.md note 5).
func (v V) AsString() string {
	switch v.K {
	case 'n':
		return ""
	case 'b':
		if v.B {
			return "true"
		}
		return "false"
	case 'i':
		return strconv.FormatInt(v.I, 10)
	case 's':
		return v.S
	case 'l':
		p := make([]string, len(v.L))
		for i, e := range v.L {
			p[i] = e.AsString()
		}
		return "[" + strings.Join(p, ", ") + "]"
	}
	return ""
}

func (v V) Equal(w V) bool { return v.Tok() == w.Tok() }

func cloneL(l []V) []V { return append([]V{}, l...) }
