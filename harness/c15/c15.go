// Package c15: correspondence + violation search for C15 (array and string
// methods behave as documented, Node.js-style).
//
// One case = one method call on a receiver held in a script variable.  The
// real interpreter runs the call in-process (scripts through vh.RunSource,
// many cases per script) and prints json_encode of the result and of the
// receiver afterwards; the Lean driver vm_c15 evaluates Model.Meth /
// Model.MethStr on the same case (correspondence); an independent Go
// re-implementation of the documented semantics (oracle.go) judges the
// property itself.
package c15

import (
	"encoding/hex"
	"encoding/json"
	"fmt"
	"strconv"
	"strings"
	"unicode/utf8"

	"verif/harness/vh"
)

func init() { vh.Register("C15", Run) }

type Case struct {
	Kind   string `json:"kind"` // arr | str
	Method string `json:"m"`
	Recv   []V    `json:"recv,omitempty"`
	RecvS  string `json:"s,omitempty"`
	Args   []V    `json:"args"`           // arguments as written (after the callback for reduce); shorter = omitted
	Cb     string `json:"cb,omitempty"`   // callback id
	Site   string `json:"site,omitempty"` // "" top level | func | method  (where the call is written)
	Prop   bool   `json:"prop,omitempty"` // `->length` property instead of `->length()`

	// storage-aliasing streams (alias.go)
	Dec   string `json:"dec,omitempty"`   // kind fx: what the traced callback returns
	Form  string `json:"form,omitempty"`  // kind fx: "" function literal | fn arrow function (no trace, no effects) | var closure held in a variable
	Cap   bool   `json:"cap,omitempty"`   // kind fx: the callback captures the receiver by reference and reports it at every invocation
	Fx    []Fx   `json:"fx,omitempty"`    // kind fx: effects inside the callback
	Keep  int    `json:"keep,omitempty"`  // kind fx: 1 + invocation whose array argument and element are kept in outer variables
	Post  []Fx   `json:"post,omitempty"`  // kind fx: effects after the call
	Chain string `json:"chain,omitempty"` // in-place method applied to the returned temporary

	skipModel bool // outside what the Lean model covers (non-ASCII case mapping): reference only
}

const (
	sepCase = "\x1e"
	sepPart = "\x1f"
	sepRes  = "\x1c"
	sepCall = "\x1d"
)

var arrMethods = []string{"push", "pop", "shift", "unshift", "slice", "splice", "concat", "join", "reverse", "sort",
	"indexOf", "includes", "find", "findIndex", "forEach", "map", "filter", "reduce", "every", "some", "flat", "flatMap", "length"}
var strMethods = []string{"length", "indexOf", "substring", "replace", "split", "trim", "toUpperCase", "toLowerCase", "startsWith", "endsWith"}

var mutators = map[string]bool{"push": true, "pop": true, "shift": true, "unshift": true, "splice": true, "reverse": true, "sort": true}

func cbKind(m string) string {
	switch m {
	case "find", "findIndex", "filter", "every", "some":
		return "pred"
	case "map", "flatMap":
		return "cb"
	case "forEach":
		return "each"
	case "reduce":
		return "cb4"
	}
	return ""
}

func splitID(id string) (string, int64) {
	p := strings.SplitN(id, ":", 2)
	var k int64
	if len(p) == 2 {
		k, _ = strconv.ParseInt(p[1], 10, 64)
	}
	return p[0], k
}

// script text of a callback id
func cbPHP(id string) string {
	name, k := splitID(id)
	switch name {
	case "p_true":
		return "function($e) { return true; }"
	case "p_false":
		return "function($e) { return false; }"
	case "p_idx_lt":
		return fmt.Sprintf("function($e, $i) { return $i < %d; }", k)
	case "p_idx_ge":
		return fmt.Sprintf("function($e, $i) { return $i >= %d; }", k)
	case "p_idx_even":
		return "function($e, $i) { return $i % 2 == 0; }"
	case "p_is_int":
		return "function($e) { return is_int($e); }"
	case "p_is_array":
		return "function($e) { return is_array($e); }"
	case "p_is_string":
		return "function($e) { return is_string($e); }"
	case "p_eq_int":
		return fmt.Sprintf("function($e) { return $e === %d; }", k)
	case "p_len_gt_idx_plus":
		return fmt.Sprintf("function($e, $i, $a) { return $a->length > $i + %d; }", k)
	case "c_e":
		return "function($e) { return $e; }"
	case "c_i":
		return "function($e, $i) { return $i; }"
	case "c_pair":
		return "function($e, $i) { return [$e, $i]; }"
	case "c_triple":
		return "function($e, $i, $a) { return [$e, $i, $a]; }"
	case "c_len":
		return "function($e, $i, $a) { return $a->length; }"
	case "c_wrap2":
		return "function($e) { return [[$e]]; }"
	case "c_arr":
		return "function($e, $i, $a) { return $a; }"
	case "c_null":
		return "function($e) { return null; }"
	case "c_empty":
		return "function($e) { return []; }"
	case "c_const":
		return fmt.Sprintf("function($e) { return %d; }", k)
	case "r_nest":
		return "function($acc, $cur, $i) { return [$acc, $cur, $i]; }"
	case "r_cur":
		return "function($acc, $cur) { return $cur; }"
	case "r_acc":
		return "function($acc, $cur) { return $acc; }"
	case "r_idx":
		return "function($acc, $cur, $i) { return $i; }"
	case "r_len":
		return "function($acc, $cur, $i, $a) { return [$acc, $a->length]; }"
	case "each":
		return "function($e, $i, $a) { echo json_encode([$e, $i, $a]), '" + sepCall + "'; }"
	}
	return "null"
}

var predIDs = []string{"p_true", "p_false", "p_idx_lt:1", "p_idx_lt:2", "p_idx_ge:1", "p_idx_ge:3", "p_idx_even", "p_is_int", "p_is_array", "p_is_string", "p_eq_int:1", "p_eq_int:2", "p_len_gt_idx_plus:1", "p_len_gt_idx_plus:2"}
var cbIDs = []string{"c_e", "c_i", "c_pair", "c_triple", "c_len", "c_wrap2", "c_arr", "c_null", "c_empty", "c_const:7"}
var cb4IDs = []string{"r_nest", "r_cur", "r_acc", "r_idx", "r_len"}

func stringResult(m string) bool {
	switch m {
	case "substring", "replace", "trim", "toUpperCase", "toLowerCase":
		return true
	}
	return false
}

// body: the statements of one case, receiver in $x
func (c *Case) body() string {
	if c.Kind == "fx" {
		return c.fxBody()
	}
	var call string
	args := phpArgs(c.Args)
	if c.Kind == "arr" {
		switch cbKind(c.Method) {
		case "pred", "cb":
			call = cbPHP(c.Cb)
		case "each":
			call = cbPHP("each")
		case "cb4":
			call = cbPHP(c.Cb)
			if args != "" {
				call += ", " + args
			}
		default:
			call = args
		}
	} else {
		call = args
	}
	expr := "$x->" + c.Method + "(" + call + ")"
	if c.Method == "length" && (c.Kind == "arr" || c.Prop) {
		expr = "$x->length"
	}
	if c.Kind == "arr" && c.Chain != "" {
		expr += "->" + c.Chain + "(" + phpArgs(chainArgs(c.Chain)) + ")"
	}
	enc := "'J', json_encode($r)"
	if c.Kind == "str" && stringResult(c.Method) {
		enc = "'S', $r"
	}
	after := "json_encode($x)"
	if c.Kind == "str" {
		after = "$x"
	}
	return "$r = " + expr + "; echo '" + sepRes + "', " + enc + ", '" + sepPart + "', " + after + ";"
}

func (c *Case) recvPHP() string {
	if c.Kind == "str" {
		return "'" + c.RecvS + "'"
	}
	return List(c.Recv...).PHP()
}

// one case as a guarded block; idx makes helper names unique inside a batch
func (c *Case) block(idx int) string {
	var sb strings.Builder
	switch c.Site {
	case "func":
		fmt.Fprintf(&sb, "function vf%d($x) { %s }\n", idx, c.body())
		fmt.Fprintf(&sb, "try { vf%d(%s); } catch (\\Throwable $e) { echo '%sE'; }\n", idx, c.recvPHP(), sepRes)
	case "method":
		fmt.Fprintf(&sb, "class VK%d { public function g($x) { %s } }\n", idx, c.body())
		fmt.Fprintf(&sb, "try { $o = new VK%d(); $o->g(%s); } catch (\\Throwable $e) { echo '%sE'; }\n", idx, c.recvPHP(), sepRes)
	default:
		fmt.Fprintf(&sb, "try { $x = %s; %s } catch (\\Throwable $e) { echo '%sE'; }\n", c.recvPHP(), c.body(), sepRes)
	}
	fmt.Fprintf(&sb, "echo '%s';\n", sepCase)
	return sb.String()
}

// ------------------------------------------------------------ model line / canonical forms

func (c *Case) modelLine() string {
	if c.Kind == "fx" {
		return c.fxModelLine()
	}
	if c.Kind == "str" {
		return "str\t" + c.Method + "\t" + hex.EncodeToString([]byte(c.RecvS)) + "\t" + toks(c.Args)
	}
	cb := c.Cb
	if cb == "" {
		cb = "-"
	}
	line := "arr\t" + c.Method + "\t" + toks(c.Recv) + "\t" + toks(c.Args) + "\t" + cb
	if c.Chain != "" {
		line += "\t" + c.Chain
	}
	return line
}

func canonArr(m string, ret V, recv []V, calls []V) string {
	s := "ok " + ret.Tok() + " |" + toks(recv)
	if m == "forEach" {
		s += " |" + toks(calls)
	}
	return s
}

func canonStr(r sres) string {
	switch r.kind {
	case "int":
		return "int " + strconv.FormatInt(r.i, 10)
	case "bool":
		if r.b {
			return "bool T"
		}
		return "bool F"
	case "str":
		return "bytes " + hex.EncodeToString([]byte(r.s))
	case "strs":
		p := make([]string, len(r.parts))
		for i, s := range r.parts {
			p[i] = hex.EncodeToString([]byte(s))
		}
		return "texts " + strings.Join(p, ",")
	}
	return "?"
}

// parse what one case printed
func (c *Case) observe(raw string) string {
	if c.Kind == "fx" {
		return c.observeFx(raw)
	}
	i := strings.Index(raw, sepRes)
	if i < 0 {
		return "no-output"
	}
	callsPart, res := raw[:i], raw[i+len(sepRes):]
	if res == "E" {
		return "uncaught"
	}
	parts := strings.SplitN(res, sepPart, 2)
	if len(parts) != 2 || len(parts[0]) < 1 {
		return "malformed:" + strconv.Quote(raw)
	}
	tag, payload := parts[0][0], parts[0][1:]
	if c.Kind == "str" {
		if parts[1] != c.RecvS {
			return "receiver-changed:" + hex.EncodeToString([]byte(parts[1]))
		}
		if tag == 'S' {
			return "bytes " + hex.EncodeToString([]byte(payload))
		}
		v, err := parseJSON(payload)
		if err != nil {
			return "unparsable:" + payload
		}
		switch v.K {
		case 'i':
			return "int " + strconv.FormatInt(v.I, 10)
		case 'b':
			if v.B {
				return "bool T"
			}
			return "bool F"
		case 'l':
			p := make([]string, len(v.L))
			for i, e := range v.L {
				if e.K != 's' {
					return "unparsable:" + payload
				}
				p[i] = hex.EncodeToString([]byte(e.S))
			}
			return "texts " + strings.Join(p, ",")
		}
		return "unparsable:" + payload
	}
	ret, err := parseJSON(payload)
	if err != nil {
		return "unparsable:" + payload
	}
	recv, err := parseJSON(parts[1])
	if err != nil || recv.K != 'l' {
		return "unparsable-receiver:" + parts[1]
	}
	var calls []V
	if c.Method == "forEach" {
		for _, cs := range strings.Split(callsPart, sepCall) {
			if cs == "" {
				continue
			}
			v, err := parseJSON(cs)
			if err != nil {
				return "unparsable-call:" + cs
			}
			calls = append(calls, v)
		}
	}
	return canonArr(c.Method, ret, recv.L, calls)
}

// ------------------------------------------------------------ running the real code

func header() string { return "<?php\n" }

func runScript(src string) vh.Outcome { return vh.RunFresh(src) }

// runCases returns the observation of every case (real interpreter).
func runCases(cs []*Case) []string {
	res := make([]string, len(cs))
	var sb strings.Builder
	sb.WriteString(header())
	for i, c := range cs {
		sb.WriteString(c.block(i))
	}
	o := runScript(sb.String())
	chunks := strings.Split(o.Out, sepCase)
	if o.Kind == "ok" && len(chunks) == len(cs)+1 {
		for i, c := range cs {
			res[i] = c.observe(chunks[i])
		}
		return res
	}
	if len(cs) == 1 {
		switch o.Kind {
		case "go-panic":
			res[0] = "crash:" + o.Detail
		case "ok":
			res[0] = "malformed:" + strconv.Quote(o.Out)
		default:
			res[0] = o.Kind + ":" + o.Detail
		}
		return res
	}
	// something in the batch broke the script as a whole: run one by one
	for i, c := range cs {
		res[i] = runCases([]*Case{c})[0]
	}
	return res
}

// ------------------------------------------------------------ oracle / signatures

func isASCII(s string) bool {
	for i := 0; i < len(s); i++ {
		if s[i] >= 0x80 {
			return false
		}
	}
	return true
}

func argsASCII(args []V) bool {
	for _, a := range args {
		if a.K == 's' && !isASCII(a.S) {
			return false
		}
	}
	return true
}

// byteUnits: strings.md is silent about the unit; these three methods report
// or take positions, which the pinned code counts in bytes.
func byteUnits(m string) bool { return m == "length" || m == "indexOf" || m == "substring" }

// latin1 reinterprets every byte as one character: the reference evaluated on
// it is "the documented behaviour, but measured in bytes".
func latin1(s string) string {
	r := make([]rune, len(s))
	for i := 0; i < len(s); i++ {
		r[i] = rune(s[i])
	}
	return string(r)
}
func unlatin1(s string) string {
	b := make([]byte, 0, len(s))
	for _, r := range s {
		b = append(b, byte(r))
	}
	return string(b)
}

func byteReference(c *Case) (string, bool) {
	d := *c
	d.RecvS = latin1(c.RecvS)
	d.Args = make([]V, len(c.Args))
	for i, a := range c.Args {
		if a.K == 's' {
			a = Str(latin1(a.S))
		}
		d.Args[i] = a
	}
	r, ok := jsString(&d)
	if !ok {
		return "", false
	}
	if r.kind == "str" {
		r.s = unlatin1(r.s)
	}
	return canonStr(r), true
}

func idxClass(v V, n int) string {
	switch v.K {
	case 'n':
		return "null"
	case 'i':
		switch {
		case v.I < -int64(n):
			return "<-len"
		case v.I == -int64(n) && n > 0:
			return "-len"
		case v.I < 0:
			return "neg"
		case v.I == 0:
			return "0"
		case v.I < int64(n):
			return "pos"
		case v.I == int64(n):
			return "len"
		default:
			return ">len"
		}
	case 's':
		return "str"
	case 'l':
		return "list"
	case 'b':
		return "bool"
	}
	return "?"
}

// argument shape of a case: the known-finding signature is (method, shape)
func (c *Case) shape() string {
	n := len(c.Recv)
	cls := func(i int) string {
		if i >= len(c.Args) {
			return "omit"
		}
		return idxClass(c.Args[i], n)
	}
	items := func(from int) string {
		k := len(c.Args) - from
		if k < 0 {
			k = 0
		}
		s := fmt.Sprintf("items=%d", k)
		for i := from; i < len(c.Args); i++ {
			if c.Args[i].K == 'l' {
				return s + "+list"
			}
		}
		return s
	}
	if c.Kind == "str" {
		u := "ascii"
		if !isASCII(c.RecvS) || !argsASCII(c.Args) {
			u = "multibyte"
		}
		switch c.Method {
		case "substring":
			n = utf8.RuneCountInString(c.RecvS)
			return u + ":(" + cls(0) + "," + cls(1) + ")"
		case "split":
			if len(c.Args) == 0 {
				return u + ":omit"
			}
			if c.Args[0].K == 's' && c.Args[0].S == "" {
				return u + ":empty-separator"
			}
			return u + ":" + string(c.Args[0].K)
		}
		return u
	}
	switch c.Method {
	case "slice":
		return "(" + cls(0) + "," + cls(1) + ")"
	case "splice":
		return "(" + cls(0) + "," + cls(1) + "," + items(2) + ")"
	case "push", "unshift", "concat":
		return "(" + items(0) + ")"
	case "indexOf", "includes":
		return "(key," + cls(1) + ")"
	case "flat":
		if len(c.Args) > 0 && c.Args[0].K == 'i' {
			if c.Args[0].I <= 0 {
				return "(depth<=0)"
			}
			return "(depth>0)"
		}
		return "(" + cls(0) + ")"
	case "join":
		if len(c.Args) == 0 {
			return "(omit)"
		}
		return "(" + string(c.Args[0].K) + ")"
	case "reduce":
		name, _ := splitID(c.Cb)
		if len(c.Args) == 0 {
			return "(" + name + ",omit)"
		}
		return "(" + name + "," + string(c.Args[0].K) + ")"
	}
	if c.Cb != "" {
		name, _ := splitID(c.Cb)
		return "(" + name + ")"
	}
	return "()"
}

func diffPart(impl, want string) string {
	if !strings.HasPrefix(want, "ok ") {
		// string methods: a single result
		if strings.SplitN(impl, " ", 2)[0] == strings.SplitN(want, " ", 2)[0] {
			return "ret"
		}
		return "outcome"
	}
	a, b := strings.Split(impl, " |"), strings.Split(want, " |")
	if len(a) != len(b) || !strings.HasPrefix(impl, "ok ") {
		return "outcome"
	}
	names := []string{"ret", "recv", "calls"}
	for i := range a {
		if a[i] != b[i] && i < len(names) {
			return names[i]
		}
	}
	return "same"
}

// expected answer by the reference, in the driver's canonical form
func (c *Case) reference() (string, bool) {
	if c.Kind == "fx" {
		return c.fxReference()
	}
	if c.Kind == "arr" && c.Chain != "" {
		return c.chainReference()
	}
	if c.Kind == "str" {
		r, ok := jsString(c)
		if !ok {
			return "", false
		}
		return canonStr(r), true
	}
	o, ok := jsArray(c)
	if !ok {
		return "", false
	}
	return canonArr(c.Method, o.ret, o.recv, o.calls), true
}

func (c *Case) key() string { b, _ := json.Marshal(c); return string(b) }

func (c *Case) nontrivial() bool {
	if c.Kind == "str" {
		return len(c.RecvS) > 0
	}
	return len(c.Recv) > 0 && (len(c.Args) > 0 || c.Cb != "" || mutators[c.Method] || c.Kind == "fx" || c.Chain != "")
}

// ------------------------------------------------------------ shrinking

func (c *Case) violates() bool {
	want, ok := c.reference()
	if !ok {
		return false
	}
	return runCases([]*Case{c})[0] != want
}

func shrink(c *Case) *Case {
	if c.Kind == "fx" {
		return shrinkFx(c)
	}
	cur := *c
	for step := 0; step < 60; step++ {
		progressed := false
		try := func(d Case) bool {
			if d.violates() {
				cur = d
				progressed = true
				return true
			}
			return false
		}
		if cur.Site != "" {
			d := cur
			d.Site = ""
			if try(d) {
				continue
			}
		}
		if cur.Kind == "arr" {
			for i := len(cur.Recv) - 1; i >= 0 && !progressed; i-- {
				d := cur
				d.Recv = append(cloneL(cur.Recv[:i]), cur.Recv[i+1:]...)
				try(d)
			}
			for i := 0; i < len(cur.Recv) && !progressed; i++ {
				if cur.Recv[i].K != 'i' {
					d := cur
					d.Recv = cloneL(cur.Recv)
					d.Recv[i] = Int(int64(i + 1))
					try(d)
				}
			}
			variadic := cur.Method == "push" || cur.Method == "unshift" || cur.Method == "concat" || (cur.Method == "splice" && len(cur.Args) > 2)
			if !progressed && variadic && len(cur.Args) > 0 {
				d := cur
				d.Args = cloneL(cur.Args[:len(cur.Args)-1])
				try(d)
			}
		} else {
			r := []rune(cur.RecvS)
			for i := len(r) - 1; i >= 0 && !progressed; i-- {
				d := cur
				d.RecvS = string(append(append([]rune{}, r[:i]...), r[i+1:]...))
				try(d)
			}
		}
		if !progressed {
			break
		}
	}
	return &cur
}

// ------------------------------------------------------------ evaluation of a batch

type runner struct {
	c       *vh.Ctx
	m       *vh.Model
	pending []*Case
	known   bool // current stream is the known-findings stream
	shrinks int  // violating cases shrunk so far (bounded: every shrink re-runs scripts)
}

func (r *runner) add(cs *Case) {
	r.pending = append(r.pending, cs)
	if len(r.pending) >= 250 {
		r.flush()
	}
}

func (r *runner) flush() {
	cs := r.pending
	r.pending = nil
	if len(cs) == 0 {
		return
	}
	c := r.c
	impl := runCases(cs)
	var mres []string
	if r.m != nil {
		lines := make([]string, len(cs))
		for i, k := range cs {
			lines[i] = k.modelLine()
		}
		var err error
		mres, err = r.m.AskBatch(lines)
		if err != nil {
			c.Note("model failed: %v", err)
			mres = nil
		}
	}
	for i, k := range cs {
		c.Eval(k.key(), k.nontrivial())
		c.Hit(k.Kind + ":" + k.Method)
		if k.Kind == "arr" || k.Kind == "fx" {
			c.Hit(fmt.Sprintf("arr:len=%d", len(k.Recv)))
			hitFx(c, k)
		} else {
			c.Hit(fmt.Sprintf("str:chars=%d", utf8.RuneCountInString(k.RecvS)))
			if !isASCII(k.RecvS) {
				c.Hit("str:multibyte")
			}
		}
		if k.Site != "" {
			c.Hit("site:" + k.Site)
		}
		c.SampleSome(map[string]any{"case": k, "impl": impl[i]}, 4999)
		// correspondence
		if mres != nil && i < len(mres) && !k.skipModel {
			if mres[i] == "unsupported" || strings.HasPrefix(mres[i], "bad-") {
				c.Hit("model:" + mres[i])
			} else if k.Kind == "fx" {
				if mres[i] != fxModelPart(impl[i]) {
					c.Mismatch(k, fxModelPart(impl[i]), mres[i], "real method vs Model.MethStore (result, receiver, invocations)")
				}
			} else if mres[i] != impl[i] {
				c.Mismatch(k, impl[i], mres[i], "real method vs Model.Meth")
			}
		}
		// property
		want, ok := k.reference()
		if !ok {
			c.Hit("oracle:not-applicable")
			continue
		}
		if impl[i] == want {
			continue
		}
		if k.Kind == "str" && byteUnits(k.Method) && !(isASCII(k.RecvS) && argsASCII(k.Args)) {
			// positions counted in bytes: the known finding, provided the answer
			// is exactly the byte-unit reading of the documented behaviour
			if bw, ok := byteReference(k); ok && bw == impl[i] {
				c.Violation("str:"+k.Method+":multibyte", fmt.Sprintf("%s on multi-byte text counts bytes: got %s, documented (character) semantics give %s", k.Method, impl[i], want), k)
				continue
			}
		}
		s := k
		if r.shrinks < 60 {
			r.shrinks++
			s = shrink(k)
		}
		got := runCases([]*Case{s})[0]
		w2, _ := s.reference()
		if s.Kind == "fx" {
			sig := "fx:" + s.Method + ":" + s.fxShape() + ":" + fxDiffPart(got, w2)
			c.Violation(sig, fmt.Sprintf("%s — $x = %s; %s", fxDiffDetail(got, w2), s.recvPHP(), s.fxShow()), s)
			continue
		}
		sh := s.shape()
		if s.Chain != "" {
			sh += "->" + s.Chain
		}
		sig := s.Kind + ":" + s.Method + ":" + sh + ":" + diffPart(got, w2)
		call := phpArgs(s.Args)
		if s.Cb != "" {
			call = strings.TrimSuffix(s.Cb+", "+call, ", ")
		}
		c.Violation(sig, fmt.Sprintf("$x->%s(%s) on %s: got %s, documented semantics give %s", s.Method, call, s.recvPHP(), got, w2), s)
	}
}

// ------------------------------------------------------------ generators

var elemPoolSmall = []V{Int(1), Str("a"), List(Int(2), List(Int(3)))}
var elemPool = []V{Int(1), Int(2), Int(3), Int(-4), Int(0), Int(10), Str("a"), Str("b"), Str("1"), Str(""), Str("é"), Null(), Bool(true), Bool(false),
	List(), List(Int(1)), List(Int(2), List(Int(3))), List(Int(1), List(Int(2), List(Int(3), List(Int(4))))), List(Str("x"), Null())}

func idxValues(n int) []V {
	vals := []int64{int64(-n - 1), int64(-n), -1, 0, 1, int64(n - 1), int64(n), int64(n + 1)}
	seen := map[int64]bool{}
	out := []V{Null()}
	for _, v := range vals {
		if !seen[v] {
			seen[v] = true
			out = append(out, Int(v))
		}
	}
	return out
}

// every argument tuple of `arity` optional index positions: a suffix may be omitted
func idxTuples(n, arity int) [][]V {
	res := [][]V{{}}
	vals := idxValues(n)
	cur := [][]V{{}}
	for k := 0; k < arity; k++ {
		var nxt [][]V
		for _, p := range cur {
			for _, v := range vals {
				nxt = append(nxt, append(cloneL(p), v))
			}
		}
		res = append(res, nxt...)
		cur = nxt
	}
	return res
}

var itemSets = [][]V{{}, {Int(7)}, {Str("p"), Int(8)}, {List(Int(9), Int(6)), Null(), Str("q")}}

func receivers(maxLen int, pool []V) [][]V {
	res := [][]V{{}}
	cur := [][]V{{}}
	for k := 0; k < maxLen; k++ {
		var nxt [][]V
		for _, p := range cur {
			for _, v := range pool {
				nxt = append(nxt, append(cloneL(p), v))
			}
		}
		res = append(res, nxt...)
		cur = nxt
	}
	return res
}

// all calls of every array method on one receiver, argument space enumerated completely
func (r *runner) enumArr(recv []V) {
	n := len(recv)
	add := func(m string, args []V, cb string) {
		r.add(&Case{Kind: "arr", Method: m, Recv: cloneL(recv), Args: cloneL(args), Cb: cb})
	}
	for _, m := range []string{"pop", "shift", "reverse", "sort", "length", "forEach"} {
		add(m, nil, "")
	}
	for _, it := range itemSets {
		add("push", it, "")
		add("unshift", it, "")
		add("concat", it, "")
	}
	for _, t := range idxTuples(n, 2) {
		add("slice", t, "")
		if len(t) == 0 {
			continue // start is a required argument of splice
		}
		if len(t) < 2 {
			add("splice", t, "")
			continue
		}
		for _, it := range itemSets {
			add("splice", append(cloneL(t), it...), "")
		}
	}
	keys := []V{Int(1), Str("a"), Str("1"), Null(), List(Int(2), List(Int(3))), Str("[2, [3]]")}
	for _, k := range keys {
		for _, t := range idxTuples(n, 1) {
			add("indexOf", append([]V{k}, t...), "")
			add("includes", append([]V{k}, t...), "")
		}
	}
	for _, s := range [][]V{{}, {Null()}, {Str("-")}, {Str("")}, {Int(0)}, {Str(", ")}} {
		add("join", s, "")
	}
	for _, d := range [][]V{{}, {Null()}, {Int(-1)}, {Int(0)}, {Int(1)}, {Int(2)}, {Int(5)}} {
		add("flat", d, "")
	}
	for _, id := range predIDs {
		for _, m := range []string{"find", "findIndex", "filter", "every", "some"} {
			add(m, nil, id)
		}
	}
	for _, id := range cbIDs {
		add("map", nil, id)
		add("flatMap", nil, id)
	}
	for _, id := range cb4IDs {
		for _, init := range [][]V{{}, {Null()}, {Int(0)}, {Str("z")}, {List()}} {
			add("reduce", init, id)
		}
	}
}

func (r *runner) randArr(rng *vh.Rand) *Case {
	n := rng.Intn(7)
	if rng.Chance(5) {
		n = rng.Range(7, 16)
	}
	recv := make([]V, n)
	for i := range recv {
		recv[i] = vh.Pick(rng, elemPool)
	}
	m := vh.Pick(rng, arrMethods)
	c := &Case{Kind: "arr", Method: m, Recv: recv}
	idx := func() V {
		if rng.Chance(12) {
			return Null()
		}
		if rng.Chance(5) {
			return Int(int64(rng.Range(-1000000, 1000000)))
		}
		return Int(int64(rng.Range(-n-2, n+2)))
	}
	items := func() []V {
		k := rng.Intn(4)
		it := make([]V, k)
		for i := range it {
			it[i] = vh.Pick(rng, elemPool)
		}
		return it
	}
	switch m {
	case "push", "unshift", "concat":
		c.Args = items()
	case "slice":
		for k := rng.Intn(3); k > 0; k-- {
			c.Args = append(c.Args, idx())
		}
	case "splice":
		for k := rng.Range(1, 2); k > 0; k-- {
			c.Args = append(c.Args, idx())
		}
		if len(c.Args) == 2 {
			c.Args = append(c.Args, items()...)
		}
	case "indexOf", "includes":
		if n > 0 && rng.Chance(60) {
			c.Args = []V{recv[rng.Intn(n)]}
		} else {
			c.Args = []V{vh.Pick(rng, elemPool)}
		}
		if rng.Bool() {
			c.Args = append(c.Args, idx())
		}
	case "join":
		if rng.Bool() {
			c.Args = []V{vh.Pick(rng, []V{Str("-"), Str(""), Str(", "), Null(), Int(0), Str("é")})}
		}
	case "flat":
		if rng.Chance(70) {
			c.Args = []V{vh.Pick(rng, []V{Null(), Int(-1), Int(0), Int(1), Int(2), Int(3), Int(9)})}
		}
	case "reduce":
		c.Cb = vh.Pick(rng, cb4IDs)
		if rng.Bool() {
			c.Args = []V{vh.Pick(rng, elemPool)}
		}
	}
	switch cbKind(m) {
	case "pred":
		c.Cb = vh.Pick(rng, predIDs)
		if rng.Chance(30) {
			c.Cb = vh.Pick(rng, []string{"p_idx_lt", "p_idx_ge", "p_eq_int", "p_len_gt_idx_plus"}) + ":" + strconv.Itoa(rng.Range(-1, n+1))
		}
	case "cb":
		c.Cb = vh.Pick(rng, cbIDs)
	}
	if rng.Chance(15) {
		c.Site = vh.Pick(rng, []string{"func", "method"})
	}
	return c
}

// --- strings

var asciiChars = []string{"a", "b", "A", "Z", "l", "o", "1", " ", ",", "-", "\t", "x"}
var multiChars = []string{"é", "ö", "中", "€", "ß", "Ω", " ", "　", "😀"}

// characters whose case mapping is outside Model.Text.upper/lower (ASCII only)
func caseModelled(s string) bool {
	for _, r := range s {
		if r >= 0x80 && r != '中' && r != '€' && r != ' ' && r != '　' && r != '😀' {
			return false
		}
	}
	return true
}

func randText(rng *vh.Rand, maxChars int, multi bool) string {
	n := rng.Intn(maxChars + 1)
	var sb strings.Builder
	for i := 0; i < n; i++ {
		if multi && rng.Chance(30) {
			sb.WriteString(vh.Pick(rng, multiChars))
		} else {
			sb.WriteString(vh.Pick(rng, asciiChars))
		}
	}
	return sb.String()
}

func strArgSets(m string, s string, rng *vh.Rand) [][]V {
	r := []rune(s)
	n := len(r)
	sub := func() V {
		if n == 0 || rng.Chance(25) {
			return Str(randText(rng, 2, !isASCII(s)))
		}
		a := rng.Intn(n)
		b := a + rng.Range(0, 2)
		if b > n {
			b = n
		}
		return Str(string(r[a:b]))
	}
	switch m {
	case "indexOf", "startsWith", "endsWith":
		return [][]V{{sub()}, {sub()}, {Str("")}, {Int(1)}, {Null()}}
	case "replace":
		return [][]V{{sub(), Str("Q")}, {sub(), Str("")}, {Str(""), Str("-")}, {sub(), sub()}, {Int(1), Int(2)}}
	case "split":
		return [][]V{{}, {Null()}, {Str(" ")}, {Str("")}, {sub()}, {Str(",")}}
	case "substring":
		var out [][]V
		for _, t := range idxTuples(n, 2) {
			if len(t) >= 1 && t[0].K == 'i' {
				out = append(out, t)
			}
		}
		return out
	}
	return [][]V{{}}
}

func (r *runner) enumStr(s string, rng *vh.Rand) {
	for _, m := range strMethods {
		if (m == "toUpperCase" || m == "toLowerCase") && !caseModelled(s) {
			// non-ASCII cased letters: Go's unicode tables, not modelled; judged by the reference only
			r.add(&Case{Kind: "str", Method: m, RecvS: s, skipModel: true})
			continue
		}
		for _, a := range strArgSets(m, s, rng) {
			r.add(&Case{Kind: "str", Method: m, RecvS: s, Args: a})
		}
	}
	r.add(&Case{Kind: "str", Method: "length", RecvS: s, Prop: true})
}

func allTexts(alpha []string, maxLen int) []string {
	res := []string{""}
	cur := []string{""}
	for k := 0; k < maxLen; k++ {
		var nxt []string
		for _, p := range cur {
			for _, a := range alpha {
				nxt = append(nxt, p+a)
			}
		}
		res = append(res, nxt...)
		cur = nxt
	}
	return res
}

// ------------------------------------------------------------ runner

func Run(c *vh.Ctx) {
	var m *vh.Model
	if c.ModelPath != "" {
		var err error
		m, err = vh.StartModel(c.ModelPath)
		if err != nil {
			c.Note("cannot start model: %v", err)
			m = nil
		} else {
			defer m.Close()
			c.Res.ModelUsed = true
		}
	}
	r := &runner{c: c, m: m}
	if len(c.ReplayRaw) > 0 {
		var k Case
		if err := json.Unmarshal(c.ReplayRaw, &k); err != nil {
			c.Note("bad replay: %v", err)
			return
		}
		r.add(&k)
		r.flush()
		return
	}
	c.Res.Rule = "one case = one method call `$x->m(args)` on a receiver in a variable; result and receiver afterwards (json_encode) compared with the Lean model (correspondence) and with an independent Go reference of the documented semantics (property). Arrays: every receiver up to length L over {1,'a',[2,[3]]} x all 23 methods x every argument tuple over {omitted,null,-len-1,-len,-1,0,1,len-1,len,len+1} x 0..3 variadic items x every named callback (element/index/array); then seeded receivers of length 0..6 (some up to 16) over ints, strings, null, booleans and nested lists. Strings: every text up to length 3 over {a,' ',é} plus seeded texts of 0..12 characters (ASCII and multi-byte) x 10 methods x argument sets (substring: every start/end tuple). Storage aliasing (kind fx): one call of a callback-taking method whose callback prints every argument (element, index, whole array, accumulator, the receiver through a captured reference) at every invocation, decides from the array argument (all keep/reject masks; indexOf / slice+includes / [0] / [$i-2] / [$i+1] readers; returns element / array / nothing), performs effects on its argument, element, a captured copy or the receiver, keeps the argument in an outer variable; afterwards result, receiver, kept argument and kept element are printed, written to one at a time and printed again; in-place methods chained on the returned temporary. Compared with Model.MethStore (result, receiver, invocations) and with an independent simulation of the documented semantics on value-type arrays. non-trivial = non-empty receiver and (arguments or a callback or a mutating method); distinct = distinct concrete case"
	maxLen := c.N(3, 4)
	for _, recv := range receivers(maxLen, elemPoolSmall) {
		r.enumArr(recv)
	}
	r.flush()
	for _, s := range allTexts([]string{"a", " ", "é"}, 3) {
		r.enumStr(s, c.Rand)
	}
	r.flush()
	c.Res.Exhaustive = true
	c.Res.ExhaustiveWhat = fmt.Sprintf("arrays: all receivers of length <= %d over 3 element kinds x all methods x all index-argument tuples x 4 variadic item sets x all named callbacks; strings: all texts of length <= 3 over {a, space, é} x all methods x argument sets; traced callbacks: all receivers of length <= %d over 3 element kinds (+7 with repeats) x 9 methods x every keep/reject mask and every array-reading decision x function/arrow form; single effects: all receivers of length <= %d x 9 methods x 4 targets x 11 operations x every invocation, kept argument of every invocation, 4 x 11 post effects, 7 chained methods", maxLen, c.N(3, 4), c.N(2, 3))
	// seeded
	for i := 0; i < c.N(60000, 1500000); i++ {
		r.add(r.randArr(c.Rand))
	}
	r.flush()
	for i := 0; i < c.N(1500, 40000); i++ {
		r.enumStr(randText(c.Rand, 12, i%2 == 1), c.Rand)
	}
	r.flush()
	// storage aliasing (alias.go): traced callbacks that read every argument, with effects; chained in-place methods
	fxLen := c.N(3, 4)
	for _, special := range []bool{false, true} {
		for _, recv := range receivers(fxLen, elemPoolSmall) {
			r.enumFxPlain(recv, true, special)
		}
		for _, recv := range idiomRecvs {
			r.enumFxPlain(recv, true, special)
		}
	}
	for _, recv := range receivers(c.N(2, 3), elemPoolSmall) {
		r.enumFxEffects(recv)
	}
	for _, recv := range [][]V{{Int(3), List(Int(5)), Int(1)}, {Int(3), Int(5), Int(1), Int(4)}, {List(Int(1)), List(Int(1), List(Int(2))), Int(2), Str("a")}} {
		r.enumFxEffects(recv)
	}
	for _, recv := range receivers(3, elemPoolSmall) {
		r.enumChains(recv)
	}
	r.flush()
	for i := 0; i < c.N(25000, 500000); i++ {
		r.add(r.randFx(c.Rand))
	}
	r.flush()
	// the documentation's own examples and past findings (fixed): must hold
	for _, k := range docExamples() {
		r.add(k)
	}
	// docs/array_methods.md note 2 ("inside the callback `$this` is the array"): not implemented — known finding
	r.add(&Case{Kind: "fx", Method: "map", Recv: []V{Int(1), Int(2)}, Dec: "this", skipModel: true})
	// the negation witnesses of Proofs/Properties/C15.lean (C15_str_*_counterexample), replayed on the real code
	for _, k := range leanWitnesses() {
		r.add(k)
	}
	r.flush()
	if m != nil {
		c.Res.ModelLines = m.Lines
	}
}

func leanWitnesses() []*Case {
	return []*Case{
		{Kind: "str", Method: "length", RecvS: "héllo"},
		{Kind: "str", Method: "indexOf", RecvS: "héllo", Args: []V{Str("l")}},
		{Kind: "str", Method: "substring", RecvS: "héllo", Args: []V{Int(1), Int(4)}},
	}
}

func docExamples() []*Case {
	l := func(v ...int64) []V {
		o := make([]V, len(v))
		for i, x := range v {
			o[i] = Int(x)
		}
		return o
	}
	return []*Case{
		{Kind: "arr", Method: "slice", Recv: l(1, 2, 3, 4, 5), Args: l(2)},
		{Kind: "arr", Method: "slice", Recv: l(1, 2, 3, 4, 5), Args: l(-2)},
		{Kind: "arr", Method: "slice", Recv: l(1, 2, 3, 4, 5), Args: l(1, 3)},
		{Kind: "arr", Method: "splice", Recv: l(1, 2, 3, 4, 5), Args: []V{Int(1), Int(2), Str("a"), Str("b")}},
		{Kind: "arr", Method: "push", Recv: l(1, 2, 3), Args: l(4, 5)},
		{Kind: "arr", Method: "unshift", Recv: l(1, 2, 3), Args: l(9, 8)},
		{Kind: "arr", Method: "concat", Recv: l(1, 2), Args: []V{List(l(3, 4)...), List(l(5, 6)...)}},
		{Kind: "arr", Method: "flat", Recv: []V{Int(1), List(Int(2), Int(3)), List(Int(4), List(Int(5), Int(6)))}},
		{Kind: "arr", Method: "flat", Recv: []V{Int(1), List(Int(2), Int(3)), List(Int(4), List(Int(5), Int(6)))}, Args: l(2)},
		{Kind: "arr", Method: "join", Recv: []V{Str("apple"), Str("banana"), Str("orange")}},
		{Kind: "arr", Method: "reduce", Recv: l(1, 2, 3, 4), Cb: "r_nest"},
		{Kind: "arr", Method: "sort", Recv: []V{Int(5), Str("5"), Int(5), Str("5"), Int(5), Str("5"), Int(5), Str("5"), Int(5), Str("5"), Int(5), Str("5"), Int(5), Str("5"), Int(1)}},
		{Kind: "str", Method: "substring", RecvS: "Hello", Args: l(5, 2)},
		{Kind: "str", Method: "substring", RecvS: "Hello World", Args: l(6)},
		{Kind: "str", Method: "split", RecvS: "Hello World"},
		{Kind: "str", Method: "replace", RecvS: "Hello World", Args: []V{Str("o"), Str("0")}},
	}
}
