package c09

import (
	"fmt"
	"strings"
	"sync"

	"github.com/php-any/origami/data"
	"verif/harness/vh"
)

// The property is about what a script sees: $ch->send / receive / close / isClosed / len on a
// Channel object shared between spawned closures. Every operation the harness performs — in the
// forced schedules, in the stress rounds and in the first-call storms — therefore takes exactly the
// path a script call takes, ON THE CALLING GOROUTINE, at call time:
//
//	closure call (node.LambdaExpression.Call, fresh context, as std/spawn.go does)
//	  -> `$ch->send($v)` (the node the parser builds for the method call)
//	  -> data.ClassValue.GetMethod -> ChannelClass.GetMethod           (class / dispatch layer)
//	  -> visibility check, GetVariables/GetParams, argument binding
//	  -> Channel*Method.Call -> Channel.Send/Receive/Close/IsClosed/Len/Cap
//
// Nothing is resolved ahead of time or on another goroutine: opsScript below is parsed once per
// child process by origami's own parser on a VM built the way the CLI builds it, the closures it
// hands over are what a script would pass to spawn(), and the Channel object is what `new Channel($cap)`
// evaluates to. A change anywhere in that path (a cache in the class object, a shortcut in a method
// object, a shared scratch field …) is executed by every goroutine of every schedule.

const opsScript = `<?php
verif_c09_ops(
    function($cap) { return new Channel($cap); },
    function($ch, $v) { return $ch->send($v); },
    function($ch) { return $ch->receive(); },
    function($ch) { return $ch->close(); },
    function($ch) { return $ch->isClosed(); },
    function($ch) { return $ch->len(); },
    function($ch) { return $ch->cap(); }
);
`

const (
	opNew = iota
	opSend
	opReceive
	opClose
	opIsClosed
	opLen
	opCap
	nOps
)

var opNames = [nOps]string{"new Channel", "send", "receive", "close", "isClosed", "len", "cap"}

type scriptEnv struct {
	env  *vh.VMEnv
	base data.Context // the context the script ran verif_c09_ops in; call contexts are created from it as spawn does
	fn   [nOps]*data.FuncValue
}

type opsFn struct{ sink *scriptEnv }

func (e *opsFn) Call(ctx data.Context) (data.GetValue, data.Control) {
	for i := 0; i < nOps; i++ {
		v, _ := ctx.GetIndexValue(i)
		fv, ok := v.(*data.FuncValue)
		if !ok {
			panic(fmt.Sprintf("verif_c09_ops: argument %d is %T, not a closure", i, v))
		}
		e.sink.fn[i] = fv
	}
	e.sink.base = ctx
	return nil, nil
}
func (e *opsFn) GetName() string { return "verif_c09_ops" }
func (e *opsFn) GetParams() []data.GetValue {
	p := make([]data.GetValue, nOps)
	for i := range p {
		p[i] = data.NewParameter(fmt.Sprintf("f%d", i), i)
	}
	return p
}
func (e *opsFn) GetVariables() []data.Variable {
	p := make([]data.Variable, nOps)
	for i := range p {
		p[i] = data.NewVariable(fmt.Sprintf("f%d", i), i, nil)
	}
	return p
}

var (
	envOnce sync.Once
	theEnv  *scriptEnv
)

// getEnv: one VM per (child) process.
func getEnv() *scriptEnv {
	envOnce.Do(func() {
		e := &scriptEnv{env: vh.NewEnv()}
		e.env.VM.AddFunc(&opsFn{e})
		o := e.env.RunSource(opsScript, "/verif-c09-ops.php")
		if o.Kind != "ok" || e.base == nil {
			panic("std/channel: the script-level operations cannot be set up: " + o.String() + " " + strings.Join(e.env.Thrown, "; "))
		}
		theEnv = e
	})
	return theEnv
}

// callFn calls a script closure with positional arguments the way call_user_func / spawn do: a
// fresh context created from the defining script's context, arguments bound by index.
func (e *scriptEnv) callFn(op int, args ...data.Value) data.GetValue {
	cctx := e.base.CreateContext(make([]data.Variable, len(args)))
	for i, a := range args {
		cctx.SetIndexZVal(i, data.NewZVal(a))
	}
	v, acl := e.fn[op].Call(cctx)
	if acl != nil {
		panic(fmt.Sprintf("script call %s threw: %s", opNames[op], acl.AsString()))
	}
	return v
}

// schan: one script-level Channel object (`new Channel($cap)`).
type schan struct {
	e   *scriptEnv
	obj data.Value
}

func newSchan(capacity int) *schan {
	e := getEnv()
	v := e.callFn(opNew, data.NewIntValue(capacity))
	obj, ok := v.(*data.ClassValue)
	if !ok {
		panic(fmt.Sprintf("new Channel(%d) evaluated to %T", capacity, v))
	}
	return &schan{e: e, obj: obj}
}

func (s *schan) Send(v data.Value) bool {
	b, ok := s.e.callFn(opSend, s.obj, v).(*data.BoolValue)
	if !ok {
		panic("send() did not return a bool")
	}
	return b.Value
}

// Receive: the script sees null for "closed and drained" (the harness only sends ints).
func (s *schan) Receive() (data.Value, bool) {
	v := s.e.callFn(opReceive, s.obj)
	if _, isNull := v.(*data.NullValue); isNull || v == nil {
		return nil, false
	}
	return v.(data.Value), true
}

func (s *schan) Close() { s.e.callFn(opClose, s.obj) }

func (s *schan) IsClosed() bool {
	b, ok := s.e.callFn(opIsClosed, s.obj).(*data.BoolValue)
	if !ok {
		panic("isClosed() did not return a bool")
	}
	return b.Value
}

func (s *schan) Len() int {
	iv, ok := s.e.callFn(opLen, s.obj).(*data.IntValue)
	if !ok {
		panic("len() did not return an int")
	}
	return iv.Value
}

func (s *schan) Cap() int {
	iv, ok := s.e.callFn(opCap, s.obj).(*data.IntValue)
	if !ok {
		panic("cap() did not return an int")
	}
	return iv.Value
}
