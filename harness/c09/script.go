package c09

import (
	"fmt"

	"github.com/php-any/origami/data"
	"github.com/php-any/origami/std/channel"
)

// The property is about what a script sees: $ch->send / receive / close / isClosed / len. The
// harness therefore drives the channel through the script-level method objects of
// std/channel.ChannelClass (channel_methods.go), not through *channel.Channel directly, so a change
// in that glue (a shortcut before Receive, a swallowed result, …) is executed under every forced
// schedule and stress round as well.

type argCtx struct {
	data.Context // nil: the channel methods only read positional arguments
	args         []data.Value
}

func (a *argCtx) GetIndexValue(i int) (data.Value, bool) {
	if i < 0 || i >= len(a.args) {
		return nil, false
	}
	return a.args[i], true
}

type schan struct {
	cls                                   data.ClassStmt
	send, receive, close_, isClosed, len_ data.Method
}

func newSchan(capacity int) *schan {
	cls := channel.NewChannelClass()
	s := &schan{cls: cls}
	get := func(n string) data.Method {
		m, ok := cls.GetMethod(n)
		if !ok {
			panic("std/channel: script method " + n + " is gone")
		}
		return m
	}
	s.send, s.receive, s.close_, s.isClosed, s.len_ = get("send"), get("receive"), get("close"), get("isClosed"), get("len")
	if _, acl := cls.GetConstruct().Call(&argCtx{args: []data.Value{data.NewIntValue(capacity)}}); acl != nil {
		panic("std/channel: __construct failed: " + acl.AsString())
	}
	return s
}

func call(m data.Method, args ...data.Value) data.GetValue {
	v, acl := m.Call(&argCtx{args: args})
	if acl != nil {
		panic(fmt.Sprintf("script method %s threw: %s", m.GetName(), acl.AsString()))
	}
	return v
}

func (s *schan) Send(v data.Value) bool {
	b, ok := call(s.send, v).(*data.BoolValue)
	if !ok {
		panic("send() did not return a bool")
	}
	return b.Value
}

// Receive: the script sees null for "closed and drained" (the harness only sends ints).
func (s *schan) Receive() (data.Value, bool) {
	v := call(s.receive)
	if _, isNull := v.(*data.NullValue); isNull || v == nil {
		return nil, false
	}
	return v.(data.Value), true
}

func (s *schan) Close() { call(s.close_) }

func (s *schan) IsClosed() bool {
	b, ok := call(s.isClosed).(*data.BoolValue)
	if !ok {
		panic("isClosed() did not return a bool")
	}
	return b.Value
}

func (s *schan) Len() int {
	iv, ok := call(s.len_).(*data.IntValue)
	if !ok {
		panic("len() did not return an int")
	}
	return iv.Value
}
