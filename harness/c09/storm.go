package c09

import (
	"encoding/json"
	"fmt"
	"os"
	"runtime"
	"sort"
	"strings"
	"sync"
	"sync/atomic"

	"github.com/php-any/origami/data"
)

// First-call storms (child `c09storm`).
//
// Shared mutable state in the class / dispatch layer of the Channel object (a lazily filled cache,
// a scratch field, a once-flag …) is touched around the FIRST call of each method name on a fresh
// object; free-running stress rounds put only a handful of such moments under concurrency per round,
// and a forced schedule runs one goroutine at a time. A storm makes that moment the whole workload:
// G persistent goroutines walk over thousands of fresh `new Channel($cap)` objects, and for every
// object a spinning barrier releases all of them into their first script-level call on it at the
// same instant (each through the full script path of script.go). Roles per object are seeded:
// send / receive / close / isClosed / len / cap. The oracle is schedule independent:
//
//   - the process survives (a Go `fatal error: concurrent map writes` cannot be recovered);
//   - no call panics or throws; cap() is exactly the constructor argument; len() within 0..cap;
//   - a send whose object nobody closes succeeds (the buffer has room for every sender);
//   - after the storm the object is closed and drained sequentially: what the storm's receivers
//     got plus what is drained is exactly the set of successful sends, each once; every receiver
//     that returned null did so on a closed channel; a send after close fails.
type stormCfg struct {
	G       int    `json:"g"`       // goroutines released together
	Objects int    `json:"objects"` // fresh Channel objects
	Seed    uint64 `json:"seed"`
	Procs   int    `json:"procs"`
	Mix     string `json:"mix"` // "all": every role; "dispatch": isClosed/len/cap/send only (never blocks: pure dispatch pressure)
}

const (
	roleSend = iota
	roleReceive
	roleClose
	roleIsClosed
	roleLen
	roleCap
	nRoles
)

type stormObj struct {
	ch    *schan
	cap   int
	roles []uint8
	// results, written by goroutine g at index g only
	okSend []bool
	got    []int // receive: value, -1 null
	ival   []int // len / cap
}

func stormRoles(rng *xs, g int, mix string) []uint8 {
	roles := make([]uint8, g)
	hasRecv, hasClose := false, false
	for i := range roles {
		var r uint8
		if mix == "dispatch" {
			r = []uint8{roleSend, roleIsClosed, roleLen, roleCap}[rng.next()%4]
		} else {
			r = uint8(rng.next() % nRoles)
		}
		roles[i] = r
		hasRecv = hasRecv || r == roleReceive
		hasClose = hasClose || r == roleClose
	}
	if hasRecv && !hasClose {
		// a receiver must be released by somebody of the same storm step
		for i := range roles {
			if roles[i] != roleReceive {
				roles[i] = roleClose
				hasClose = true
				break
			}
		}
		if !hasClose {
			roles[0] = roleClose
		}
	}
	return roles
}

func stormChild(args []string) int {
	var cfg stormCfg
	if len(args) < 1 || json.Unmarshal([]byte(args[0]), &cfg) != nil || cfg.G < 2 {
		fmt.Fprintln(os.Stderr, "c09storm: bad config")
		return 2
	}
	if cfg.Procs > 0 {
		runtime.GOMAXPROCS(cfg.Procs)
	}
	procs := runtime.GOMAXPROCS(0)
	res := stressRes{Vios: []stressVio{}}
	var vmu sync.Mutex
	vio := func(round int, sig, f string, a ...any) {
		vmu.Lock()
		if len(res.Vios) < 10 {
			res.Vios = append(res.Vios, stressVio{sig, fmt.Sprintf(f, a...), round})
		}
		vmu.Unlock()
	}
	startHeartbeat()
	getEnv()
	rng := &xs{cfg.Seed*0x9E3779B97F4A7C15 + 1}
	const batch = 256
	G := cfg.G
	done := 0
	for done < cfg.Objects {
		n := cfg.Objects - done
		if n > batch {
			n = batch
		}
		objs := make([]*stormObj, n)
		for k := range objs {
			o := &stormObj{cap: G + int(rng.next()%3), roles: stormRoles(rng, G, cfg.Mix), okSend: make([]bool, G), got: make([]int, G), ival: make([]int, G)}
			o.ch = newSchan(o.cap) // constructed before it is shared (assumption of the property)
			objs[k] = o
		}
		var arrive atomic.Int64
		var wg sync.WaitGroup
		for g := 0; g < G; g++ {
			wg.Add(1)
			go func(g int) {
				defer wg.Done()
				for k, o := range objs {
					// barrier: everybody is released into the first call on objs[k] by the last arrival
					target := int64(G) * int64(k+1)
					arrive.Add(1)
					for spins := 0; arrive.Load() < target; spins++ {
						if procs <= G || spins > 300 {
							runtime.Gosched()
						}
					}
					func() {
						defer func() {
							if p := recover(); p != nil {
								vio(done+k, "panic:"+panicKind("P:"+fmt.Sprint(p)), "goroutine %d, first call (%s) on a fresh Channel object panicked: %v", g, roleName(o.roles[g]), p)
							}
						}()
						switch o.roles[g] {
						case roleSend:
							o.okSend[g] = o.ch.Send(data.NewIntValue(g + 1))
						case roleReceive:
							o.got[g] = -1
							if v, ok := o.ch.Receive(); ok {
								if iv, isInt := v.(*data.IntValue); isInt {
									o.got[g] = iv.Value
								} else {
									o.got[g] = -2
								}
							}
						case roleClose:
							o.ch.Close()
						case roleIsClosed:
							o.ch.IsClosed()
						case roleLen:
							o.ival[g] = o.ch.Len()
						case roleCap:
							o.ival[g] = o.ch.Cap()
						}
					}()
				}
			}(g)
		}
		wg.Wait()
		for k, o := range objs {
			judgeStormObj(done+k, o, &res, vio)
		}
		done += n
	}
	res.Rounds = done
	b, _ := json.Marshal(res)
	fmt.Println(string(b))
	return 0
}

func roleName(r uint8) string {
	return [...]string{"send", "receive", "close", "isClosed", "len", "cap"}[r]
}

func judgeStormObj(round int, o *stormObj, res *stressRes, vio func(int, string, string, ...any)) {
	defer func() {
		if p := recover(); p != nil {
			vio(round, "panic:"+panicKind("P:"+fmt.Sprint(p)), "sequential close/drain after the storm panicked: %v", p)
		}
	}()
	closer := false
	for _, r := range o.roles {
		closer = closer || r == roleClose
	}
	sent := map[int]bool{}
	seen := map[int]int{}
	for g, r := range o.roles {
		switch r {
		case roleSend:
			if o.okSend[g] {
				sent[g+1] = true
				res.SendsOK++
			} else {
				res.SendsFail++
				if !closer {
					vio(round, "send-failed-on-open-channel", "send by goroutine %d reported failure although nobody closes this object and the buffer (cap %d) has room for every sender", g, o.cap)
				}
			}
		case roleReceive:
			switch {
			case o.got[g] == -1:
				res.Nulls++
			case o.got[g] == -2:
				vio(round, "invented-value", "goroutine %d received a non-int", g)
			default:
				seen[o.got[g]]++
				res.Received++
			}
		case roleLen:
			if o.ival[g] < 0 || o.ival[g] > o.cap {
				vio(round, "len-out-of-range", "len() = %d on a channel of capacity %d", o.ival[g], o.cap)
			}
		case roleCap:
			if o.ival[g] != o.cap {
				vio(round, "cap-wrong", "cap() = %d on `new Channel(%d)`", o.ival[g], o.cap)
			}
		}
	}
	if !closer && o.ch.IsClosed() {
		vio(round, "closed-without-close", "isClosed() is true although nobody closed this object")
	}
	o.ch.Close()
	if !o.ch.IsClosed() {
		vio(round, "not-closed-after-close", "isClosed() is false after close() returned")
	}
	for {
		v, ok := o.ch.Receive()
		if !ok {
			break
		}
		iv, isInt := v.(*data.IntValue)
		if !isInt {
			vio(round, "invented-value", "drain received a non-int %v", v)
			continue
		}
		seen[iv.Value]++
		res.Received++
	}
	var bad []string
	for v, k := range seen {
		if !sent[v] {
			vio(round, "invented-value", "value %d received, no successful send of it", v)
		}
		if k > 1 {
			vio(round, "duplicate", "value %d received %d times", v, k)
		}
	}
	for v := range sent {
		if seen[v] == 0 {
			bad = append(bad, fmt.Sprint(v))
		}
	}
	if len(bad) > 0 {
		sort.Strings(bad)
		vio(round, "lost", "send reported success, never received although the object was closed and drained: values %s", strings.Join(bad, ","))
	}
	if o.ch.Send(data.NewIntValue(-1)) {
		vio(round, "send-after-close-succeeded", "send after close() returned reported success")
	}
	if l := o.ch.Len(); l != 0 {
		vio(round, "lost-or-extra", "buffer holds %d values after the drain", l)
	}
}
