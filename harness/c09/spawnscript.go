package c09

import (
	"encoding/json"
	"fmt"
	"os"
	"runtime"
	"strings"
	"time"

	"verif/harness/vh"
)

// Real scripts (child `c09script`): the whole thing as a user writes it — `spawn(function() use ($ch) …)`
// producers, consumers and closers on a fresh `new Channel($cap)` per round, joined through further
// channels — parsed and run by origami on a VM built like the CLI's. This is the only stream in which
// std/spawn.go, the closure call, the `use` bindings and the method-call node all take part. The
// script judges every round itself with the same schedule-independent predicates as stress.go
// (exactly once, per-sender order at every consumer, nothing foreign, a producer's failures are
// final, send after close fails) and prints one `V <sig> <detail>` line per failure; the harness
// adds the oracle the script cannot have: the process must survive and the script must reach its
// last line.

type scriptCfg struct {
	P       int    `json:"p"` // producers (1..6)
	C       int    `json:"c"` // consumers (1..6)
	N       int    `json:"n"` // sends per producer (< 1000)
	Closers int    `json:"closers"` // 0: the main script closes after joining the producers; k>0: k spawned closers
	Rounds  int    `json:"rounds"`
	Procs   int    `json:"procs"`
	Seed    uint64 `json:"seed"`
}

// genSpawnScript: arrays are keyed by strings only (on the pinned tree `$d = []; $d[2] = 3; $d[3] = 3; $d[1] = 3;`
// leaves two elements — an array defect outside this property). Captured variables are read when the closure RUNS (node/lambda.go), so every
// round lives in its own function call and nothing captured is reassigned afterwards.
func genSpawnScript(cfg scriptCfg) string {
	var sb strings.Builder
	w := func(f string, a ...any) { fmt.Fprintf(&sb, f, a...) }
	total := cfg.P * cfg.N
	w("<?php\n$round = function($r, $cap, $spin) {\n")
	w("    $bad = 0;\n    $ch = new Channel($cap);\n    $pjoin = new Channel(%d);\n    $cjoin = new Channel(%d);\n    $xjoin = new Channel(%d);\n    $res = new Channel(%d);\n", cfg.P+1, cfg.C+1, cfg.Closers+1, total+8)
	for p := 0; p < cfg.P; p++ {
		w("    spawn(function() use ($ch, $pjoin) {\n        $n = 0; $failed = 0; $late = 0;\n        for ($i = 0; $i < %d; $i++) {\n            if ($ch->send(%d + $i)) { if ($failed > 0) { $late = 1; } $n++; } else { $failed = 1; }\n        }\n        $pjoin->send(%d + $late * 100000 + $n);\n    });\n", cfg.N, (p+1)*1000, (p+1)*1000000)
	}
	for c := 0; c < cfg.C; c++ {
		w("    spawn(function() use ($ch, $cjoin, $res) {\n        while (true) {\n            $v = $ch->receive();\n            if ($v === null) { break; }\n            $res->send(%d + $v);\n        }\n        $after = 0;\n        if ($ch->receive() !== null) { $after = 1; }\n        if (!$ch->isClosed()) { $after = $after + 2; }\n        $cjoin->send($after);\n    });\n", (c+1)*10000)
	}
	for k := 0; k < cfg.Closers; k++ {
		w("    spawn(function() use ($ch, $xjoin, $spin) {\n        $z = 0;\n        for ($i = 0; $i < $spin; $i++) { $z = $z + $i; }\n        $ch->close();\n        $xjoin->send(1);\n    });\n")
	}
	w("    $okOf = [];\n    for ($k = 0; $k < %d; $k++) {\n        $x = $pjoin->receive();\n        $pid = (int)(($x - $x %% 1000000) / 1000000);\n        $y = $x %% 1000000;\n        if ($y >= 100000) { echo \"V send-succeeded-after-failure round $r: producer $pid\\n\"; $bad++; $y = $y - 100000; }\n        $okOf[\"p\" . $pid] = $y;\n    }\n", cfg.P)
	if cfg.Closers == 0 {
		w("    $ch->close();\n")
	} else {
		w("    for ($k = 0; $k < %d; $k++) { $xjoin->receive(); }\n", cfg.Closers)
	}
	w("    if ($ch->send(999999)) { echo \"V send-after-close-succeeded round $r\\n\"; $bad++; }\n")
	w("    for ($k = 0; $k < %d; $k++) {\n        $a = $cjoin->receive();\n        if ($a %% 2 == 1) { echo \"V value-after-null round $r\\n\"; $bad++; }\n        if ($a >= 2) { echo \"V null-before-close round $r\\n\"; $bad++; }\n    }\n", cfg.C)
	w("    $res->close();\n    $seen = [];\n    $last = [];\n    $got = 0;\n")
	w("    while (true) {\n        $x = $res->receive();\n        if ($x === null) { break; }\n        $got++;\n        $v = $x %% 10000;\n        $cid = (int)(($x - $v) / 10000);\n        $i = $v %% 1000;\n        $pid = (int)(($v - $i) / 1000);\n")
	w("        if ($pid < 1 || $pid > %d || $i >= %d) { echo \"V invented-value round $r: $v\\n\"; $bad++; }\n", cfg.P, cfg.N)
	w("        else {\n            if ($i >= $okOf[\"p\" . $pid]) { echo \"V received-but-send-failed round $r: $v\\n\"; $bad++; }\n            if (isset($seen[\"v\" . $v])) { echo \"V duplicate round $r: $v\\n\"; $bad++; }\n            $seen[\"v\" . $v] = 1;\n            $key = \"c\" . $cid . \"p\" . $pid;\n            if (isset($last[$key]) && $last[$key] >= $v) { echo \"V fifo round $r: consumer $cid got $v after \" . $last[$key] . \"\\n\"; $bad++; }\n            $last[$key] = $v;\n        }\n    }\n")
	w("    $want = 0;\n    for ($p = 1; $p <= %d; $p++) { $want += $okOf[\"p\" . $p]; }\n", cfg.P)
	w("    if ($got != $want) { echo \"V lost round $r: $want sends reported success, $got values received after every consumer saw null\\n\"; $bad++; }\n")
	if cfg.Closers == 0 {
		w("    if ($want != %d) { echo \"V send-failed-on-open-channel round $r: $want of %d sends succeeded before close\\n\"; $bad++; }\n", total, total)
	}
	w("    if ($ch->len() != 0) { echo \"V lost-or-extra round $r: buffer not empty\\n\"; $bad++; }\n")
	w("    return $bad * 1000000 + $want;\n};\n")
	w("$bad = 0; $sent = 0;\n$caps = [0, 0, 1, 2, 4, 16];\n$s = %d;\n", cfg.Seed%100000+1)
	w("for ($r = 0; $r < %d; $r++) {\n    $s = ($s * 1103 + 12345) %% 1000003;\n    $x = $round($r, $caps[$s %% 6], $s %% 3000);\n    $sent += $x %% 1000000;\n    $bad += (int)(($x - $x %% 1000000) / 1000000);\n    if ($bad > 8) { break; }\n}\n", cfg.Rounds)
	w("echo \"DONE rounds=%d bad=$bad sent=$sent\\n\";\n", cfg.Rounds)
	return sb.String()
}

func scriptChild(args []string) int {
	var cfg scriptCfg
	if len(args) < 1 || json.Unmarshal([]byte(args[0]), &cfg) != nil {
		fmt.Fprintln(os.Stderr, "c09script: bad config")
		return 2
	}
	if cfg.Procs > 0 {
		runtime.GOMAXPROCS(cfg.Procs)
	}
	res := stressRes{Vios: []stressVio{}}
	env := vh.NewEnv()
	startHeartbeat()
	var o vh.Outcome
	finished := make(chan struct{})
	go func() {
		o = env.RunSource(genSpawnScript(cfg), "/verif-c09-spawn.php")
		close(finished)
	}()
	startBeat := beat.Load()
waitScript:
	for {
		select {
		case <-finished:
			break waitScript
		case <-time.After(time.Second):
			// heartbeat, not wall-clock (see stress.go): one minute of process run time
			if beat.Load()-startBeat >= 1200 {
				res.Vios = append(res.Vios, stressVio{Sig: "hang", Detail: fmt.Sprintf("the script did not finish within 60s of process run time (P=%d C=%d N=%d closers=%d rounds=%d) | goroutines: %s", cfg.P, cfg.C, cfg.N, cfg.Closers, cfg.Rounds, stacks())})
				b, _ := json.Marshal(res)
				fmt.Println(string(b))
				return 0
			}
		}
	}
	doneLine := ""
	for _, l := range strings.Split(o.Out, "\n") {
		switch {
		case strings.HasPrefix(l, "V "):
			f := strings.SplitN(l, " ", 3)
			if len(f) == 3 && len(res.Vios) < 10 {
				res.Vios = append(res.Vios, stressVio{Sig: f[1], Detail: "script reported: " + f[2]})
			}
		case strings.HasPrefix(l, "DONE "):
			doneLine = l
		}
	}
	if o.Kind != "ok" {
		sig := "script-" + o.Kind
		if o.Kind == "go-panic" {
			sig = "panic:" + panicKind("P:"+o.Detail)
		}
		res.Vios = append(res.Vios, stressVio{Sig: sig, Detail: fmt.Sprintf("the script ended with %s: %s", o.Kind, o.Detail)})
	} else if doneLine == "" {
		res.Vios = append(res.Vios, stressVio{Sig: "script-did-not-finish", Detail: "the script returned without reaching its last line; output tail: " + tail(o.Out, 300)})
	}
	for _, t := range env.Thrown {
		if len(res.Vios) < 10 {
			res.Vios = append(res.Vios, stressVio{Sig: "spawned-closure-threw", Detail: "a spawned closure ended with an uncaught throw: " + firstLines(t, 2)})
		}
	}
	var bad int
	if n, _ := fmt.Sscanf(doneLine, "DONE rounds=%d bad=%d sent=%d", &res.Rounds, &bad, &res.SendsOK); n == 3 {
		res.SendsFail = cfg.P*cfg.N*res.Rounds - res.SendsOK
	}
	b, _ := json.Marshal(res)
	fmt.Println(string(b))
	return 0
}
