package c09

import (
	"bufio"
	"fmt"
	"os"
	"runtime"
	"strconv"
	"strings"
	"sync"
	"sync/atomic"
	"time"

	"github.com/php-any/origami/data"
	"github.com/php-any/origami/std/channel"
)

// ------------------------------------------------------------------ schedule syntax (as printed by vm_c09)

type step struct {
	Kind  byte // 'r' run, 'a' abort, 'h' hand
	T, R  int
	Res   string // "-", "T", "F", "N", "U", "I0", "I1", "G<tid>.<val>", "P"; hand: "<send>+<recv>"
	Len   int
	Flag  bool
	Racy  bool
	Blank bool // `x`: not enabled (run command only) — never forced
}

type sched struct {
	Steps   []step
	Maximal bool
}

func parseSched(s string) (sched, error) {
	var sc sched
	for _, tok := range strings.Split(s, ",") {
		if tok == "$M" {
			sc.Maximal = true
			continue
		}
		if tok == "$P" || tok == "" {
			continue
		}
		eq := strings.IndexByte(tok, '=')
		sl := strings.LastIndexByte(tok, '/')
		if eq < 0 || sl < eq {
			return sc, fmt.Errorf("bad step %q", tok)
		}
		var st step
		act, res, tail := tok[:eq], tok[eq+1:sl], tok[sl+1:]
		st.Kind = act[0]
		if st.Kind == 'h' {
			p := strings.Split(act[1:], ".")
			if len(p) != 2 {
				return sc, fmt.Errorf("bad act %q", act)
			}
			st.T, _ = strconv.Atoi(p[0])
			st.R, _ = strconv.Atoi(p[1])
		} else {
			st.T, _ = strconv.Atoi(act[1:])
		}
		st.Res = res
		st.Blank = res == "x"
		if strings.HasSuffix(tail, "~") {
			st.Racy = true
			tail = tail[:len(tail)-1]
		}
		if len(tail) < 2 {
			return sc, fmt.Errorf("bad tail %q", tok)
		}
		st.Flag = tail[len(tail)-1] == 'x'
		st.Len, _ = strconv.Atoi(tail[:len(tail)-1])
		sc.Steps = append(sc.Steps, st)
	}
	return sc, nil
}

// ------------------------------------------------------------------ controlled scheduler

type event struct {
	t     int
	kind  byte // 'y' yield, 'd' op done, 'e' thread exit
	point string
	res   string
	op    byte
}

type session struct {
	ch      *schan
	progs   []string
	grant   []chan struct{}
	events  chan event
	running int  // thread that owns the hook right now (one goroutine runs at a time)
	free    bool // cleanup mode: hooks and grants pass straight through
	mu      sync.Mutex
}

var cur *session // the hook is package-level in std/channel: one session at a time per process

func hook(point string) {
	s := cur
	if s == nil {
		return
	}
	s.mu.Lock()
	free, t := s.free, s.running
	s.mu.Unlock()
	if free {
		return
	}
	s.events <- event{t: t, kind: 'y', point: point}
	<-s.grant[t]
}

func (s *session) isFree() bool {
	s.mu.Lock()
	defer s.mu.Unlock()
	return s.free
}

func val(t, k int) int { return 100*t + k }

func (s *session) doOp(t, k int, op byte) (res string) {
	defer func() {
		if p := recover(); p != nil {
			res = "P:" + fmt.Sprint(p)
		}
	}()
	switch op {
	case 's':
		if s.ch.Send(data.NewIntValue(val(t, k))) {
			return "T"
		}
		return "F"
	case 'r':
		v, ok := s.ch.Receive()
		if !ok {
			return "N"
		}
		if iv, isInt := v.(*data.IntValue); isInt {
			return fmt.Sprintf("G%d.%d", iv.Value/100, iv.Value)
		}
		return fmt.Sprintf("G?%v", v)
	case 'c':
		s.ch.Close()
		return "U"
	case 'i':
		if s.ch.IsClosed() {
			return "I1"
		}
		return "I0"
	}
	return "?"
}

func (s *session) thread(t int) {
	for k := 0; k < len(s.progs[t]); k++ {
		if !s.isFree() {
			<-s.grant[t]
		}
		op := s.progs[t][k]
		r := s.doOp(t, k, op)
		s.events <- event{t: t, kind: 'd', res: r, op: op}
	}
	s.events <- event{t: t, kind: 'e'}
}

// A step that the model says is enabled must finish. "Did not finish" is decided by a heartbeat
// rather than by wall-clock time alone: a goroutine of this process ticks every 50 ms, and a hang is
// declared only after hangBeats ticks were observed while the step made no progress — a paused or
// starved process (VM pause, overloaded machine) does not tick and therefore cannot raise the alarm.
const watchdog = 10 * time.Second
const hangBeats = 200

var errHang = fmt.Errorf("hang")

var beat atomic.Uint64
var beatOnce sync.Once

func startHeartbeat() {
	beatOnce.Do(func() {
		go func() {
			for {
				time.Sleep(50 * time.Millisecond)
				beat.Add(1)
			}
		}()
	})
}

// waitBeats waits for an event until hangBeats heartbeats have passed.
func (s *session) next(tm *time.Timer) (event, error) {
	select {
	case ev := <-s.events:
		return ev, nil
	default:
	}
	start := beat.Load()
	for {
		tm.Reset(time.Second)
		select {
		case ev := <-s.events:
			tm.Stop()
			return ev, nil
		case <-tm.C:
			if beat.Load()-start >= hangBeats {
				return event{}, errHang
			}
		}
	}
}

// outcome of forcing one schedule
type outcome struct {
	status         string // ok | div | mis | vio
	sig            string
	detail         string
	steps          int
	blockedChecked int
}

// runSchedule forces `sc` on a fresh real Channel and compares every step with the prediction.
func runSchedule(capacity int, progs []string, sc sched, settle time.Duration) (out outcome) {
	n := len(progs)
	s := &session{ch: newSchan(capacity), progs: progs, events: make(chan event, 16*n+16)}
	s.grant = make([]chan struct{}, n)
	for t := range s.grant {
		s.grant[t] = make(chan struct{}, 1)
	}
	startHeartbeat()
	cur = s
	channel.VerifYield = hook
	for t := 0; t < n; t++ {
		go s.thread(t)
	}
	tm := time.NewTimer(time.Hour)
	tm.Stop() // go >= 1.23 timers: no stale value after Stop/Reset
	finished := make([]bool, n)
	exited := 0
	inCall := make([]bool, n) // thread is parked at a yield point inside Send/Close
	curOp := make([]int, n)   // index of the current (not yet completed) op
	// observed history for the model-independent oracle
	type obs struct {
		t      int
		op     byte
		res    string
		forced bool // observed while one goroutine ran at a time (global order is the real order)
	}
	forcedPhase := true
	var hist []obs
	fail := func(status, sig, f string, a ...any) {
		if out.status == "" || out.status == "ok" {
			out.status, out.sig, out.detail = status, sig, fmt.Sprintf(f, a...)
		}
	}
	record := func(ev event) {
		hist = append(hist, obs{ev.t, ev.op, ev.res, forcedPhase})
		if strings.HasPrefix(ev.res, "P:") {
			fail("vio", "panic:"+panicKind(ev.res), "thread %d op %c panicked: %s", ev.t, ev.op, ev.res[2:])
		}
		inCall[ev.t] = false
		curOp[ev.t]++
	}
	out.status = "ok"
	diverted := false
	hung := false
stepLoop:
	for i, st := range sc.Steps {
		if st.Blank {
			continue
		}
		out.steps++
		s.mu.Lock()
		s.running = st.T
		s.mu.Unlock()
		if st.Kind == 'p' {
			// probe: the model says thread T is blocked in this state; let it go and see that nothing completes
			probe := settle
			if probe <= 0 {
				probe = 300 * time.Microsecond
			}
			s.grant[st.T] <- struct{}{}
			tm.Reset(probe)
		probeLoop:
			for {
				select {
				case ev := <-s.events:
					if ev.kind == 'e' {
						finished[ev.t] = true
						exited++
						continue
					}
					tm.Stop() // go >= 1.23 timers: no stale value after Stop/Reset
					if ev.kind == 'd' {
						record(ev)
					}
					fail("mis", "", "step %d (p%d): model says the thread is blocked here, implementation went on (%c %q %s)", i, st.T, ev.op, ev.res, ev.point)
					break probeLoop
				case <-tm.C:
					out.blockedChecked++
					break probeLoop
				}
			}
			break stepLoop
		}
		want := 1
		if st.Kind == 'h' {
			// rendezvous: let the receiver reach `<-channel` first, then the sender's select
			s.grant[st.R] <- struct{}{}
			spins := 1
			if st.Racy {
				spins = 50 // give the receiver time to park so the select really has two ready cases
			}
			for k := 0; k < spins; k++ {
				runtime.Gosched()
			}
			want = 2
		}
		s.grant[st.T] <- struct{}{}
		got := map[int]event{}
		for len(got) < want {
			ev, err := s.next(tm)
			if err != nil {
				hung = true
				fail("mis", "", "step %d (%s): model says enabled, implementation did not finish the step within %v (%d heartbeats) | goroutines: %s", i, stepString(st), watchdog, hangBeats, stacks())
				break stepLoop
			}
			if ev.kind == 'e' {
				finished[ev.t] = true
				exited++
				continue
			}
			got[ev.t] = ev
			if ev.kind == 'd' {
				record(ev)
			} else {
				inCall[ev.t] = true
			}
			if st.Kind == 'h' && st.Racy && ev.t == st.T && ev.kind == 'd' && ev.res == "F" {
				diverted = true // select took `<-done`; the receiver stays parked
				break stepLoop
			}
		}
		// compare with the prediction
		var wantT, wantR string
		if st.Kind == 'h' {
			p := strings.SplitN(st.Res, "+", 2)
			wantT, wantR = p[0], p[len(p)-1]
		} else {
			wantT = st.Res
		}
		evT := got[st.T]
		obsT := "-"
		if evT.kind == 'd' {
			obsT = evT.res
		}
		if obsT != wantT {
			if st.Racy && evT.kind == 'd' && (obsT == "T" || obsT == "F") && (wantT == "T" || wantT == "F") {
				diverted = true
				break stepLoop
			}
			fail("mis", "", "step %d (%s): implementation %q, model %q", i, stepString(st), obsT, wantT)
			break stepLoop
		}
		if evT.kind == 'y' {
			// the yield point reached must be the one the model's pc stands for
			if exp := expectedPoint(progs[st.T][curOp[st.T]], evT.point); exp != "" {
				fail("mis", "", "step %d (%s): %s", i, stepString(st), exp)
				break stepLoop
			}
		}
		if st.Kind == 'h' {
			evR := got[st.R]
			if evR.kind != 'd' || evR.res != wantR {
				fail("mis", "", "step %d (%s): receiver observed %q, model %q", i, stepString(st), evR.res, wantR)
				break stepLoop
			}
		}
		if l := s.ch.Len(); l != st.Len {
			fail("mis", "", "step %d (%s): buffer length %d, model %d", i, stepString(st), l, st.Len)
			break stepLoop
		}
		if f := s.ch.IsClosed(); f != st.Flag {
			fail("mis", "", "step %d (%s): IsClosed %v, model %v", i, stepString(st), f, st.Flag)
			break stepLoop
		}
	}
	if diverted {
		out.status = "div"
	}
	// ---- quiescence: what the model says is blocked must really be blocked
	s.mu.Lock()
	s.free = true
	s.mu.Unlock()
	forcedPhase = false
	var blocked []int
	for t := 0; t < n; t++ {
		if !finished[t] && curOp[t] < len(progs[t]) {
			blocked = append(blocked, t)
		}
	}
	blockedAt := map[int]int{}
	if !hung {
		for _, t := range blocked {
			blockedAt[t] = curOp[t]
			select {
			case s.grant[t] <- struct{}{}:
			default:
			}
		}
	}
	checkBlocked := out.status == "ok" && sc.Maximal && len(blocked) > 0 && settle > 0
	if checkBlocked {
		tm.Reset(settle)
	settleLoop:
		for {
			select {
			case ev := <-s.events:
				if ev.kind == 'e' { // a thread that had completed its last op earlier
					finished[ev.t] = true
					exited++
					continue
				}
				tm.Stop() // go >= 1.23 timers: no stale value after Stop/Reset
				if ev.kind == 'd' {
					record(ev)
				}
				fail("mis", "", "quiescent state: model says thread %d is blocked, implementation went on (%c -> %q %s)", ev.t, ev.op, ev.res, ev.point)
				break settleLoop
			case <-tm.C:
				out.blockedChecked = len(blocked)
				break settleLoop
			}
		}
	}
	// ---- cleanup: Close releases everything; all threads must run to completion without a panic
	done := make(chan struct{})
	go func() {
		defer func() {
			if p := recover(); p != nil {
				fail("vio", "panic:"+panicKind("P:"+fmt.Sprint(p)), "cleanup Close panicked: %v", p)
			}
			close(done)
		}()
		s.ch.Close()
	}()
	cleanupStart := beat.Load()
	closeDone := false
	for exited < n || !closeDone {
		var deadline <-chan time.Time
		if beat.Load()-cleanupStart >= hangBeats {
			dl := make(chan time.Time)
			close(dl)
			deadline = dl
		}
		tm.Reset(time.Second)
		select {
		case <-tm.C:
		case <-done:
			closeDone = true
			done = nil
		case ev := <-s.events:
			switch ev.kind {
			case 'e':
				finished[ev.t] = true
				exited++
			case 'd':
				first := false
				if at, ok := blockedAt[ev.t]; ok && at == curOp[ev.t] {
					first = true
				}
				record(ev)
				if first && checkBlocked && out.status == "ok" {
					// a sender blocked at its select is released with false, a blocked receiver with null
					if ev.op == 's' && ev.res != "F" {
						fail("mis", "", "blocked sender %d released by Close returned %q, expected F", ev.t, ev.res)
					}
					if ev.op == 'r' && ev.res != "N" {
						fail("mis", "", "blocked receiver %d released by Close returned %q, expected N", ev.t, ev.res)
					}
				}
			}
		case <-deadline:
			if out.status == "ok" || out.status == "div" {
				out.status, out.sig, out.detail = "vio", "hang:after-close", fmt.Sprintf("after Close %d of %d threads did not finish within %v", n-exited, n, watchdog)
			}
			cur = nil
			return out
		}
	}
	cur = nil
	// ---- model-independent oracle on the observed history (S predicates)
	sentOK := map[string]bool{}
	sentAny := map[string]bool{}
	for t, p := range progs {
		for k := range p {
			if p[k] == 's' {
				sentAny[fmt.Sprintf("G%d.%d", t, val(t, k))] = true
			}
		}
	}
	opCount := make([]int, n)
	for _, o := range hist {
		if o.op == 's' && o.res == "T" {
			sentOK[fmt.Sprintf("G%d.%d", o.t, val(o.t, opCount[o.t]))] = true
		}
		opCount[o.t]++
	}
	seen := map[string]bool{}
	lastFrom := map[[2]int]int{} // (receiver or -1 for the global forced order, sender) -> last value
	nullSeen := false
	nullSeenBy := map[int]bool{}
	for _, o := range hist {
		if o.op != 'r' {
			continue
		}
		if o.res == "N" {
			nullSeen = nullSeen || o.forced
			nullSeenBy[o.t] = true
			continue
		}
		if !strings.HasPrefix(o.res, "G") {
			continue
		}
		if !sentAny[o.res] {
			fail("vio", "invented-value", "received %s which no thread sent", o.res)
		} else if !sentOK[o.res] {
			fail("vio", "received-but-send-failed", "received %s whose send reported failure", o.res)
		}
		if seen[o.res] {
			fail("vio", "duplicate", "value %s received twice", o.res)
		}
		seen[o.res] = true
		var tid, v int
		fmt.Sscanf(o.res, "G%d.%d", &tid, &v)
		keys := [][2]int{{o.t, tid}}
		if o.forced {
			keys = append(keys, [2]int{-1, tid})
		}
		for _, key := range keys {
			if last, ok := lastFrom[key]; ok && v <= last {
				fail("vio", "fifo", "value %d of sender %d received after %d (receiver %d)", v, tid, last, key[0])
			}
			lastFrom[key] = v
		}
		if (nullSeen && o.forced) || nullSeenBy[o.t] {
			fail("vio", "value-after-null", "receive returned %s after an earlier receive returned null", o.res)
		}
	}
	// every thread finished and the channel is closed: what was sent successfully and not received is still buffered
	if l := s.ch.Len(); len(sentOK)-len(seen) != l && out.status == "ok" {
		fail("vio", "lost-or-extra", "%d sends succeeded, %d received, %d left in the buffer", len(sentOK), len(seen), l)
	}
	return out
}

// stacks: where the goroutines of this process are (only those inside std/channel or blocked on a channel/lock are interesting)
func stacks() string {
	buf := make([]byte, 1<<16)
	n := runtime.Stack(buf, true)
	var keep []string
	for _, g := range strings.Split(string(buf[:n]), "\n\n") {
		if strings.Contains(g, "std/channel") {
			l := strings.Split(g, "\n")
			if len(l) > 5 {
				l = l[:5]
			}
			keep = append(keep, strings.Join(l, " / "))
		}
	}
	out := strings.Join(keep, " || ")
	if len(out) > 2500 {
		out = out[:2500]
	}
	return strings.ReplaceAll(out, "\t", " ")
}

func panicKind(res string) string {
	switch {
	case strings.Contains(res, "send on closed channel"):
		return "send-on-closed"
	case strings.Contains(res, "close of closed channel"):
		return "close-of-closed"
	case strings.Contains(res, "close of nil channel"):
		return "close-of-nil"
	}
	return "other"
}

func expectedPoint(op byte, point string) string {
	switch {
	case op == 's' && point == "send:checked":
		return ""
	case op == 'c' && (point == "close:flagged" || point == "close:signalled"):
		return ""
	}
	return fmt.Sprintf("unexpected yield point %q inside op %c", point, op)
}

func stepString(st step) string {
	if st.Kind == 'h' {
		return fmt.Sprintf("h%d.%d", st.T, st.R)
	}
	return fmt.Sprintf("%c%d", st.Kind, st.T)
}

// ------------------------------------------------------------------ child: `__child c09sched <settle_us>`
// stdin: <id>\t<cap>\t<progs>\t<schedule>\t<tries>    stdout: <id>\t<status>\t<sig>\t<detail>\t<steps>\t<blockedChecked>\t<triesUsed>

func schedChild(args []string) int {
	settle := 300 * time.Microsecond
	if len(args) > 0 {
		if us, err := strconv.Atoi(args[0]); err == nil {
			settle = time.Duration(us) * time.Microsecond
		}
	}
	in := bufio.NewReaderSize(os.Stdin, 1<<20)
	w := bufio.NewWriter(os.Stdout)
	defer w.Flush()
	for {
		line, err := in.ReadString('\n')
		line = strings.TrimRight(line, "\n")
		if line != "" {
			f := strings.Split(line, "\t")
			if len(f) < 5 {
				fmt.Fprintf(w, "%s\tmis\t\tbad request line\t0\t0\t0\n", f[0])
			} else {
				capacity, _ := strconv.Atoi(f[1])
				progs := strings.Split(f[2], "|")
				tries, _ := strconv.Atoi(f[4])
				sc, perr := parseSched(f[3])
				var o outcome
				used := 0
				if perr != nil {
					o = outcome{status: "mis", detail: perr.Error()}
				} else {
					for used < tries || used == 0 {
						used++
						o = runSchedule(capacity, progs, sc, settle)
						if o.status != "div" {
							break
						}
					}
				}
				fmt.Fprintf(w, "%s\t%s\t%s\t%s\t%d\t%d\t%d\n", f[0], o.status, o.sig, strings.ReplaceAll(o.detail, "\n", " "), o.steps, o.blockedChecked, used)
				w.Flush()
			}
		}
		if err != nil {
			return 0
		}
	}
}
