// Package c09: trace validation of Model.Chan against the real
// std/channel.Channel, plus a model-independent violation search.
//
// The Lean driver vm_c09 enumerates schedules of small configurations (every
// maximal schedule, or every transition of the reachable state graph, or
// seeded random walks) together with the predicted result of every step. Each
// schedule is forced on a fresh real Channel by a controlled scheduler that
// runs one goroutine at a time through the `verif` yield hooks (child
// processes `c09sched`), and every return value, the buffer length and the
// closed flag are compared after every step. Larger configurations run freely
// (child `c09stress`, GOMAXPROCS 1..16, optionally a -race build) and are judged
// only by schedule-independent predicates.
package c09

import (
	"bufio"
	"bytes"
	"encoding/json"
	"fmt"
	"io"
	"os"
	"os/exec"
	"path/filepath"
	"sort"
	"strings"
	"sync"
	"sync/atomic"
	"time"

	"verif/harness/vh"
)

func init() {
	vh.Register("C09", Run)
	vh.RegisterChild("c09sched", schedChild)
	vh.RegisterChild("c09stress", stressChild)
	vh.RegisterChild("c09storm", stormChild)
	vh.RegisterChild("c09script", scriptChild)
}

// ------------------------------------------------------------------ cases

type Case struct {
	Kind   string     `json:"kind"` // sched | stress | storm | script
	Cap    int        `json:"cap,omitempty"`
	Progs  string     `json:"progs,omitempty"`
	Acts   string     `json:"acts,omitempty"`  // r0,a1,h0.2,…
	Sched  string     `json:"sched,omitempty"` // with the model's predictions (as printed by vm_c09)
	Stress *stressCfg `json:"stress,omitempty"`
	Storm  *stormCfg  `json:"storm,omitempty"`  // first-call storm on fresh Channel objects (storm.go)
	Script *scriptCfg `json:"script,omitempty"` // a real script with spawn (spawnscript.go)
	Tries  int        `json:"tries,omitempty"`  // replay: repeat up to this many times until it fails (free-running parts)
	Race   bool       `json:"race,omitempty"`
}

func actsOf(sched string) string {
	var a []string
	for _, tok := range strings.Split(sched, ",") {
		if i := strings.IndexByte(tok, '='); i > 0 {
			a = append(a, tok[:i])
		}
	}
	return strings.Join(a, ",")
}

// ------------------------------------------------------------------ configurations

type config struct {
	Cap    int
	Progs  []string
	Weight int
}

func (c config) progs() string { return strings.Join(c.Progs, "|") }

func weight(p string) int {
	w := 0
	for _, o := range p {
		switch o {
		case 's':
			w += 2
		case 'c':
			w += 3
		default:
			w++
		}
	}
	return w
}

var producerProgs = []string{"s", "ss", "sss"}
var consumerProgs = []string{"r", "rr", "rrr"}
var closerProgs = []string{"c", "cc", "ci", "ic", "cs", "sc", "cr", "rc", "cic", "scs", "rcr", "sci"}

func multisets(alpha []string, max int) [][]string {
	res := [][]string{{}}
	var rec func(start int, cur []string)
	rec = func(start int, cur []string) {
		if len(cur) == max {
			return
		}
		for i := start; i < len(alpha); i++ {
			nx := append(append([]string{}, cur...), alpha[i])
			res = append(res, nx)
			rec(i, nx)
		}
	}
	rec(0, nil)
	return res
}

// allConfigs: ≤3 producers × ≤3 consumers × ≤1 closer, ≤3 ops per goroutine, capacity 0..4,
// identical programs not permuted; sorted by weight (number of atomic steps).
func allConfigs() []config {
	var cs []config
	for _, ps := range multisets(producerProgs, 3) {
		for _, rs := range multisets(consumerProgs, 3) {
			closers := append([]string{""}, closerProgs...)
			for _, x := range closers {
				var progs []string
				progs = append(progs, ps...)
				progs = append(progs, rs...)
				if x != "" {
					progs = append(progs, x)
				}
				if len(progs) == 0 {
					continue
				}
				w := 0
				sends := 0
				for _, p := range progs {
					w += weight(p)
					sends += strings.Count(p, "s")
				}
				for capacity := 0; capacity <= 4; capacity++ {
					if capacity > sends+1 && capacity > 1 {
						continue // a buffer larger than everything ever sent behaves like sends+1
					}
					cs = append(cs, config{capacity, progs, w})
				}
			}
		}
	}
	sort.SliceStable(cs, func(i, j int) bool {
		if cs[i].Weight != cs[j].Weight {
			return cs[i].Weight < cs[j].Weight
		}
		if len(cs[i].Progs) != len(cs[j].Progs) {
			return len(cs[i].Progs) < len(cs[j].Progs)
		}
		if a, b := cs[i].progs(), cs[j].progs(); a != b {
			return a < b
		}
		return cs[i].Cap < cs[j].Cap
	})
	return cs
}

// ------------------------------------------------------------------ worker pool (child processes)

type job struct {
	id    int
	cfg   config
	sched string
	tries int
	mode  string
}

type jobResult struct {
	job
	status, sig, detail   string
	steps, blocked, tries int
	crashed               bool
	stderr                string
}

type worker struct {
	cmd    *exec.Cmd
	in     io.WriteCloser
	out    *bufio.Reader
	stderr *bytes.Buffer
}

func startWorker(bin string, settleUS int, env []string) (*worker, error) {
	cmd := exec.Command(bin, "__child", "c09sched", fmt.Sprint(settleUS))
	cmd.Env = append(os.Environ(), env...)
	in, err := cmd.StdinPipe()
	if err != nil {
		return nil, err
	}
	out, err := cmd.StdoutPipe()
	if err != nil {
		return nil, err
	}
	w := &worker{cmd: cmd, in: in, out: bufio.NewReaderSize(out, 1<<16), stderr: &bytes.Buffer{}}
	cmd.Stderr = w.stderr
	if err := cmd.Start(); err != nil {
		return nil, err
	}
	return w, nil
}

func (w *worker) stop() {
	w.in.Close()
	done := make(chan struct{})
	go func() { w.cmd.Wait(); close(done) }()
	select {
	case <-done:
	case <-time.After(5 * time.Second):
		w.cmd.Process.Kill()
		<-done
	}
}

func (w *worker) do(j job) (jobResult, error) {
	r := jobResult{job: j}
	line := fmt.Sprintf("%d\t%d\t%s\t%s\t%d\n", j.id, j.cfg.Cap, j.cfg.progs(), j.sched, j.tries)
	if _, err := io.WriteString(w.in, line); err != nil {
		return r, err
	}
	type rd struct {
		s   string
		err error
	}
	ch := make(chan rd, 1)
	go func() { s, err := w.out.ReadString('\n'); ch <- rd{s, err} }()
	select {
	case x := <-ch:
		if x.err != nil {
			return r, x.err
		}
		f := strings.Split(strings.TrimRight(x.s, "\n"), "\t")
		if len(f) < 7 {
			return r, fmt.Errorf("short result line %q", x.s)
		}
		r.status, r.sig, r.detail = f[1], f[2], f[3]
		fmt.Sscan(f[4], &r.steps)
		fmt.Sscan(f[5], &r.blocked)
		fmt.Sscan(f[6], &r.tries)
		return r, nil
	case <-time.After(5 * time.Minute):
		w.cmd.Process.Kill()
		return r, fmt.Errorf("no answer within 5 minutes")
	}
}

type pool struct {
	bin      string
	settleUS int
	jobs     chan job
	results  chan jobResult
	wg       sync.WaitGroup
	stop     atomic.Bool // enough failures seen: remaining jobs are skipped
}

func newPool(bin string, n, settleUS int) *pool {
	p := &pool{bin: bin, settleUS: settleUS, jobs: make(chan job, 4096), results: make(chan jobResult, 4096)}
	for i := 0; i < n; i++ {
		p.wg.Add(1)
		go p.run()
	}
	return p
}

func (p *pool) run() {
	defer p.wg.Done()
	var w *worker
	for j := range p.jobs {
		if p.stop.Load() {
			p.results <- jobResult{job: j, status: "skipped"}
			continue
		}
		if w == nil {
			var err error
			w, err = startWorker(p.bin, p.settleUS, nil)
			if err != nil {
				p.results <- jobResult{job: j, crashed: true, detail: "cannot start child: " + err.Error()}
				continue
			}
		}
		r, err := w.do(j)
		if err != nil {
			// the child died while forcing this schedule (fatal error, os.Exit, runtime deadlock detector …)
			w.in.Close()
			w.cmd.Process.Kill()
			w.cmd.Wait()
			r.crashed = true
			r.detail = err.Error()
			r.stderr = crashHead(w.stderr.String()) + " … " + tail(w.stderr.String(), 600)
			w = nil
		}
		p.results <- r
	}
	if w != nil {
		w.stop()
	}
}

func tail(s string, n int) string {
	if len(s) > n {
		return s[len(s)-n:]
	}
	return s
}

// ------------------------------------------------------------------ runner

type runner struct {
	c        *vh.Ctx
	m        *vh.Model
	pool     *pool
	nextID   int
	pending  int
	failures int
	found    []finding // buffered so that the shortest, most deterministic cases are reported first
	stopAt   int       // replay: stop after this many failing schedules (0: maxFailures)
}

type finding struct {
	vio       bool
	sig, what string
	cs        Case
	rank      int
}

// flush reports the buffered findings: failures inside the forced part of a schedule first, shorter first.
func (r *runner) flush() {
	sort.SliceStable(r.found, func(i, j int) bool { return r.found[i].rank < r.found[j].rank })
	for _, f := range r.found {
		if f.vio {
			r.c.Violation(f.sig, f.what, f.cs)
		} else {
			r.c.Mismatch(f.cs, f.what, f.cs.Sched, "forced schedule: implementation and Model.Chan differ")
		}
	}
	r.found = nil
}

// after this many failing schedules the run stops early (every further one could cost a watchdog period)
const maxFailures = 40

func (r *runner) stopped() bool {
	if r.stopAt > 0 {
		return r.failures >= r.stopAt
	}
	return r.failures >= maxFailures
}

func (r *runner) caseOf(j job) Case {
	return Case{Kind: "sched", Cap: j.cfg.Cap, Progs: j.cfg.progs(), Acts: actsOf(j.sched), Sched: j.sched}
}

func (r *runner) account(res jobResult) {
	c := r.c
	if res.status == "skipped" {
		c.Hit("skipped-after-failures")
		return
	}
	if res.crashed || (res.status != "ok" && res.status != "div") {
		r.failures++
		if r.stopped() && !r.pool.stop.Load() {
			r.pool.stop.Store(true)
			c.Note("stopped early after %d failing schedules", r.failures)
		}
	}
	// which threads take steps (thread ids are single digits), and a 64-bit key of (cap, programs, schedule)
	var mask uint
	sc := res.sched
	h := uint64(14695981039346656037)
	inAct := true // between a ',' and the following '='
	for i := 0; i < len(sc); i++ {
		ch := sc[i]
		h = (h ^ uint64(ch)) * 1099511628211
		switch {
		case ch == ',':
			inAct = true
		case ch == '=':
			inAct = false
		case inAct && i > 0 && ch >= '0' && ch <= '9' && sc[i-1] != 'p':
			mask |= 1 << (ch - '0')
		}
	}
	progs := res.cfg.progs()
	for i := 0; i < len(progs); i++ {
		h = (h ^ uint64(progs[i])) * 1099511628211
	}
	h = (h ^ uint64(res.cfg.Cap)) * 1099511628211
	nontrivial := mask&(mask-1) != 0 && strings.Contains(progs, "s")
	var kb [8]byte
	for i := range kb {
		kb[i] = byte(h >> (8 * i))
	}
	c.Eval(string(kb[:]), nontrivial)
	c.Hit("mode:" + res.mode)
	c.HitN("steps-forced", res.steps)
	if res.blocked > 0 {
		c.Hit("quiescent-blocked-state-checked")
	}
	if strings.Contains(res.sched, "~") {
		c.Hit("sched-with-select-race")
	}
	for k, name := range map[string]string{"=T/": "send-true", "=F/": "send-false", "=N/": "receive-null", "=U/": "close", "=I0/": "isClosed-false", "=I1/": "isClosed-true", "a": "abort-via-done", "h": "rendezvous"} {
		if strings.Contains(res.sched, k) {
			c.Hit("sched-has:" + name)
		}
	}
	if len(c.Res.Samples) < 8 && c.Res.Evaluations%997 == 0 {
		c.Sample(r.caseOf(res.job))
	}
	if res.status == "ok" {
		c.Res.Traces++
		return
	}
	cs := r.caseOf(res.job)
	switch {
	case res.crashed:
		// the forced part is deterministic, a crash in the free-running phases (quiescence check, cleanup) is not: replay retries
		cs.Tries = 400
		r.found = append(r.found, finding{true, "crash:" + crashKind(res.stderr+res.detail), fmt.Sprintf("the child process died while this schedule was forced on the real Channel: %s | %s", res.detail, firstLines(res.stderr, 6)), cs, len(cs.Acts)})
	case res.status == "ok":
		c.Res.Traces++
	case res.status == "div":
		c.Hit("select-race-not-forced")
	case res.status == "vio":
		rank := len(cs.Acts)
		if strings.HasPrefix(res.detail, "cleanup") || !strings.Contains(cs.Progs, "c") {
			rank += 1000 // happened while the harness's own Close released the threads: less deterministic to replay
		}
		r.found = append(r.found, finding{true, res.sig, res.detail, cs, rank})
	default:
		r.found = append(r.found, finding{false, "", res.detail, cs, len(cs.Acts)})
	}
}

func crashKind(s string) string {
	switch {
	case strings.Contains(s, "send on closed channel"):
		return "send-on-closed"
	case strings.Contains(s, "close of closed channel"):
		return "close-of-closed"
	case strings.Contains(s, "all goroutines are asleep"):
		return "deadlock"
	case strings.Contains(s, "concurrent map"):
		return "concurrent-map-access"
	case strings.Contains(s, "DATA RACE"):
		return "data-race"
	case strings.Contains(s, "fatal error:"):
		return "fatal-error"
	}
	return "other"
}

// crashHead: the line that says why a child died (`fatal error: …`, `panic: …`, `WARNING: DATA RACE`)
// plus the frames of the repository under test that follow it.
func crashHead(stderr string) string {
	lines := strings.Split(stderr, "\n")
	start := -1
	for i, l := range lines {
		if strings.HasPrefix(l, "fatal error:") || strings.HasPrefix(l, "panic:") || strings.Contains(l, "WARNING: DATA RACE") {
			start = i
			break
		}
	}
	if start < 0 {
		return firstLines(stderr, 6)
	}
	out := []string{strings.TrimSpace(lines[start])}
	for _, l := range lines[start+1:] {
		t := strings.TrimSpace(l)
		if strings.HasPrefix(t, "github.com/php-any/origami/") && len(out) < 7 {
			if i := strings.LastIndexByte(t, '('); i > 0 {
				t = t[:i]
			}
			out = append(out, strings.TrimPrefix(t, "github.com/php-any/origami/"))
		}
	}
	return strings.Join(out, " / ")
}

func firstLines(s string, n int) string {
	l := strings.Split(strings.TrimSpace(s), "\n")
	if len(l) > n {
		l = l[:n]
	}
	return strings.Join(l, " / ")
}

func (r *runner) drain(block bool) {
	for r.pending > 0 {
		if block {
			r.account(<-r.pool.results)
			r.pending--
			continue
		}
		select {
		case res := <-r.pool.results:
			r.account(res)
			r.pending--
		default:
			return
		}
	}
}

func (r *runner) submit(cfg config, scheds []string, mode string) {
	for _, s := range scheds {
		if s == "" || r.stopped() {
			continue
		}
		tries := 1
		if strings.Contains(s, "~") {
			tries = 30
		}
		r.nextID++
		r.pending++
		for {
			select {
			case r.pool.jobs <- job{id: r.nextID, cfg: cfg, sched: s, tries: tries, mode: mode}:
			default:
				r.account(<-r.pool.results)
				r.pending--
				continue
			}
			break
		}
		r.drain(false)
	}
}

// corpus: minimised past failures (corpus/C09/*.json, action lists) are forced first.
func (r *runner) corpus() {
	wd, _ := os.Getwd()
	files, _ := filepath.Glob(filepath.Join(wd, "..", "corpus", "C09", "*.json"))
	sort.Strings(files)
	for _, f := range files {
		b, err := os.ReadFile(f)
		var cs Case
		if err != nil || json.Unmarshal(b, &cs) != nil || cs.Kind != "sched" {
			r.c.Note("corpus file %s unreadable", filepath.Base(f))
			continue
		}
		resp, err := r.m.Ask(fmt.Sprintf("run\t%d\t%s\t%s", cs.Cap, cs.Progs, cs.Acts))
		if err != nil || !strings.HasPrefix(resp, "n=1") {
			r.c.Mismatch(cs, "", resp, "model driver rejected corpus case "+filepath.Base(f))
			continue
		}
		r.submit(config{Cap: cs.Cap, Progs: strings.Split(cs.Progs, "|")}, []string{strings.SplitN(resp, ";", 2)[1]}, "corpus")
	}
}

// probes: for every reachable state of cfg and every thread the model says is blocked there, force a
// path to the state, let that thread go and require that it does not get anywhere.
func (r *runner) probes(cfg config, max int) {
	scheds, _, err := r.ask(fmt.Sprintf("enum\t%d\t%s\t%d\tprobes", cfg.Cap, cfg.progs(), max))
	if err != nil {
		r.c.Mismatch(cfg, "", "", "model driver failed: "+err.Error())
		return
	}
	r.submit(cfg, scheds, "probes")
}

// ask the model for schedules; returns (schedules, complete)
func (r *runner) ask(req string) ([]string, bool, error) {
	resp, err := r.m.Ask(req)
	if err != nil {
		return nil, false, err
	}
	parts := strings.Split(resp, ";")
	if !strings.HasPrefix(parts[0], "n=") {
		return nil, false, fmt.Errorf("model answered %q", tail(resp, 200))
	}
	return parts[1:], strings.Contains(parts[0], "complete=1"), nil
}

func Run(c *vh.Ctx) {
	c.Res.Rule = "a forced schedule counts as non-trivial when at least two goroutines take steps in it and the configuration contains a send; distinct = distinct (capacity, programs, action list)"
	if len(c.ReplayRaw) > 0 {
		replay(c)
		return
	}
	m, err := vh.StartModel(c.ModelPath)
	if err != nil {
		c.Note("model not available: %v — trace validation needs the model's schedules; only the stress search runs", err)
	} else {
		defer m.Close()
		c.Res.ModelUsed = true
	}
	if m != nil {
		workers := c.Workers
		if workers > 16 {
			workers = 16
		}
		r := &runner{c: c, m: m, pool: newPool(vh.Self(), workers, c.N(150, 300))}
		r.corpus()
		cfgs := allConfigs()
		c.Note("configuration space: %d configurations (≤3 producers × ≤3 consumers × ≤1 closer/mixed thread, ≤3 ops each, capacity 0..4), processed in order of weight (atomic steps)", len(cfgs))
		budgetAll := c.N(400_000, 3_000_000)   // schedules forced in the all-maximal-schedules phase
		budgetEdges := c.N(250_000, 2_000_000) // paths forced in the every-transition phase
		perCfgAll := c.N(6_000, 60_000)
		perCfgEdges := c.N(6_000, 60_000)
		usedAll, usedEdges := 0, 0
		maxAllW, maxEdgesW := 0, 0
		nAll, nEdges, nSkipped := 0, 0, 0
		allOK := true
		var later []config
		for _, cfg := range cfgs {
			if r.stopped() {
				break
			}
			if usedAll >= budgetAll {
				later = append(later, cfg)
				continue
			}
			scheds, complete, err := r.ask(fmt.Sprintf("enum\t%d\t%s\t%d\tall", cfg.Cap, cfg.progs(), perCfgAll))
			if err != nil {
				c.Mismatch(cfg, "", "", "model driver failed: "+err.Error())
				allOK = false
				break
			}
			if !complete {
				later = append(later, cfg)
				continue
			}
			nAll++
			usedAll += len(scheds)
			if cfg.Weight > maxAllW {
				maxAllW = cfg.Weight
			}
			r.submit(cfg, scheds, "all")
			r.probes(cfg, perCfgAll)
		}
		for _, cfg := range later {
			if !allOK || r.stopped() {
				break
			}
			if usedEdges >= budgetEdges {
				nSkipped++
				continue
			}
			scheds, complete, err := r.ask(fmt.Sprintf("enum\t%d\t%s\t%d\tedges", cfg.Cap, cfg.progs(), perCfgEdges))
			if err != nil {
				c.Mismatch(cfg, "", "", "model driver failed: "+err.Error())
				allOK = false
				break
			}
			if !complete {
				nSkipped++
				continue
			}
			nEdges++
			usedEdges += len(scheds)
			if cfg.Weight > maxEdgesW {
				maxEdgesW = cfg.Weight
			}
			r.submit(cfg, scheds, "edges")
			r.probes(cfg, perCfgEdges)
		}
		// seeded random maximal schedules over the whole space, biased to the large configurations
		nWalkCfg := c.N(300, 3000)
		walks := c.N(150, 300)
		walkDone := 0
		for i := 0; i < nWalkCfg && allOK && !r.stopped(); i++ {
			cfg := cfgs[len(cfgs)-1-c.Rand.Intn(len(cfgs)*2/3)]
			scheds, _, err := r.ask(fmt.Sprintf("walk\t%d\t%s\t%d\t%d", cfg.Cap, cfg.progs(), c.Rand.U64()%1_000_000_007, walks))
			if err != nil {
				c.Mismatch(cfg, "", "", "model driver failed: "+err.Error())
				break
			}
			r.submit(cfg, scheds, "walk")
			walkDone++
		}
		close(r.pool.jobs)
		r.drain(true)
		r.pool.wg.Wait()
		r.flush()
		c.Res.ModelLines = m.Lines
		c.Res.Exhaustive = nAll > 0
		c.Res.ExhaustiveWhat = fmt.Sprintf("configurations taken in order of weight (atomic steps): every maximal schedule of %d configurations (weight ≤ %d, those with ≤ %d schedules each; %d schedules); every transition of the reachable state graph of %d further configurations (weight ≤ %d; %d paths); the remaining %d configurations are not enumerated, %d of them sampled by %d seeded random maximal schedules each", nAll, maxAllW, perCfgAll, usedAll, nEdges, maxEdgesW, usedEdges, len(cfgs)-nAll-nEdges, walkDone, walks)
		c.Note("%s", c.Res.ExhaustiveWhat)
		c.Note("forced schedules took %.1fs", c.Elapsed().Seconds())
	}
	t0 := c.Elapsed()
	runStress(c)
	c.Note("storms, spawn scripts and stress rounds took %.1fs", (c.Elapsed() - t0).Seconds())
}

// ------------------------------------------------------------------ stress

// childOut: what one free-running child (stress / storm / script) reported
type childOut struct {
	cs     Case
	res    stressRes
	err    string
	stderr string
}

func runStress(c *vh.Ctx) {
	bin := vh.Self()
	race := false
	if c.Thorough() {
		if rb, err := buildRace(c); err == nil {
			bin, race = rb, true
			c.Note("stress rounds, first-call storms and spawn scripts use a -race build of the harness (a race report makes the child exit non-zero)")
		} else {
			c.Note("no -race build for the stress runs: %v", err)
		}
	}
	procs := []int{1, 2, 3, 4, 8, 16}
	var cases []Case
	// (a) first-call storms: every goroutine released into its first script-level call on a fresh object at once
	nStorm := c.N(8, 32)
	for i := 0; i < nStorm; i++ {
		cfg := stormCfg{G: vh.Pick(c.Rand, []int{3, 4, 6, 8}), Objects: c.N(10000, 60000), Seed: c.Rand.U64(),
			Procs: []int{16, 8, 4, 16, 2, 16, 8, 3}[i%8], Mix: []string{"all", "dispatch"}[i%2]}
		if race {
			cfg.Objects /= 8
		}
		cases = append(cases, Case{Kind: "storm", Storm: &cfg, Race: race})
	}
	// (b) real scripts with spawn
	nScript := c.N(8, 36)
	for i := 0; i < nScript; i++ {
		cfg := scriptCfg{P: c.Rand.Range(1, 4), C: c.Rand.Range(1, 3), N: vh.Pick(c.Rand, []int{1, 3, 3, 20}),
			Closers: vh.Pick(c.Rand, []int{0, 0, 1, 2}), Rounds: c.N(1500, 6000), Procs: []int{16, 4, 8, 2, 16, 1}[i%6], Seed: c.Rand.U64()}
		if race {
			cfg.Rounds /= 6
		}
		cases = append(cases, Case{Kind: "script", Script: &cfg, Race: race})
	}
	// (c) free-running stress through the script-level calls
	n := c.N(18, 120)
	for i := 0; i < n; i++ {
		cfg := stressCfg{
			P: c.Rand.Range(1, 6), C: c.Rand.Range(1, 6), N: vh.Pick(c.Rand, []int{3, 20, 200}),
			Cap: vh.Pick(c.Rand, []int{0, 0, 1, 2, 4, 16}), Closers: vh.Pick(c.Rand, []int{0, 1, 1, 3}),
			Rounds: c.N(150, 400), Seed: c.Rand.U64(), Procs: procs[i%len(procs)], Perturb: c.Rand.Bool(),
		}
		if race {
			cfg.Rounds /= 4
		}
		cases = append(cases, Case{Kind: "stress", Stress: &cfg, Race: race})
	}
	results := make(chan childOut, len(cases))
	sem := make(chan struct{}, 4)
	var wg sync.WaitGroup
	for _, cs := range cases {
		wg.Add(1)
		sem <- struct{}{}
		go func(cs Case) {
			defer wg.Done()
			defer func() { <-sem }()
			results <- runChild(bin, cs)
		}(cs)
	}
	wg.Wait()
	close(results)
	for o := range results {
		b, _ := json.Marshal(o.cs)
		c.Eval(o.cs.Kind+"/"+string(b), true)
		switch o.cs.Kind {
		case "stress":
			c.Hit(fmt.Sprintf("stress:procs=%d", o.cs.Stress.Procs))
		case "storm":
			c.Hit(fmt.Sprintf("storm:procs=%d", o.cs.Storm.Procs))
			c.HitN("storm:fresh-objects", o.res.Rounds)
		case "script":
			c.Hit(fmt.Sprintf("script:procs=%d", o.cs.Script.Procs))
		}
		k := o.cs.Kind
		c.HitN(k+":rounds", o.res.Rounds)
		c.HitN(k+":sends-ok", o.res.SendsOK)
		c.HitN(k+":sends-failed", o.res.SendsFail)
		c.HitN(k+":received", o.res.Received)
		reportChild(c, o)
	}
}

func reportChild(c *vh.Ctx, o childOut) {
	if o.err != "" {
		sig := "crash:" + crashKind(o.stderr+o.err)
		if o.cs.Kind != "stress" {
			sig += "@" + o.cs.Kind // the stream is part of the signature so that its (sturdier) replay is kept beside a forced schedule's
		}
		c.Violation(sig, fmt.Sprintf("%s child died (%s): %s", o.cs.Kind, o.err, o.stderr), o.cs)
		return
	}
	for _, v := range o.res.Vios {
		c.Violation(v.Sig, fmt.Sprintf("%s (round %d): %s", o.cs.Kind, v.Round, v.Detail), o.cs)
	}
}

// runChild runs one stress / storm / script case in a child process of `bin`.
func runChild(bin string, cs Case) (o childOut) {
	o.cs = cs
	var name string
	var b []byte
	switch cs.Kind {
	case "stress":
		name = "c09stress"
		b, _ = json.Marshal(cs.Stress)
	case "storm":
		name = "c09storm"
		b, _ = json.Marshal(cs.Storm)
	case "script":
		name = "c09script"
		b, _ = json.Marshal(cs.Script)
	}
	if name == "" || string(b) == "null" {
		o.err = "malformed case"
		return
	}
	cmd := exec.Command(bin, "__child", name, string(b))
	cmd.Env = append(os.Environ(), "GORACE=halt_on_error=1 exitcode=66")
	var so, se bytes.Buffer
	cmd.Stdout, cmd.Stderr = &so, &se
	done := make(chan error, 1)
	if err := cmd.Start(); err != nil {
		o.err = err.Error()
		return
	}
	go func() { done <- cmd.Wait() }()
	select {
	case err := <-done:
		if err != nil {
			o.err = err.Error()
			o.stderr = crashHead(se.String())
			return
		}
	case <-time.After(10 * time.Minute):
		cmd.Process.Kill()
		o.err = "timeout after 10 minutes"
		return
	}
	if json.Unmarshal(bytes.TrimSpace(so.Bytes()), &o.res) != nil {
		o.err = "unreadable result: " + tail(so.String(), 200)
		o.stderr = crashHead(se.String())
	}
	return
}

// buildRace builds this harness with -race against c.Repo (thorough tier only).
func buildRace(c *vh.Ctx) (string, error) {
	wd, err := os.Getwd() // bin/check runs the harness with cwd = /verif/harness
	if err != nil {
		return "", err
	}
	gomod, err := os.ReadFile(filepath.Join(wd, "go.mod"))
	if err != nil {
		return "", fmt.Errorf("harness sources not found from %s", wd)
	}
	lines := strings.Split(string(gomod), "\n")
	for i, l := range lines {
		if strings.HasPrefix(l, "replace github.com/php-any/origami =>") {
			lines[i] = "replace github.com/php-any/origami => " + c.Repo
		}
	}
	mf := filepath.Join(c.Scratch, "go.mod")
	if err := os.WriteFile(mf, []byte(strings.Join(lines, "\n")), 0o644); err != nil {
		return "", err
	}
	if sum, err := os.ReadFile(filepath.Join(c.Repo, "go.sum")); err == nil {
		os.WriteFile(filepath.Join(c.Scratch, "go.sum"), sum, 0o644)
	}
	outBin := filepath.Join(c.Scratch, "vh_c09_race")
	cmd := exec.Command("go", "build", "-race", "-modfile", mf, "-tags", "verif", "-o", outBin, "./cmd/c09")
	cmd.Dir = wd
	env := []string{}
	for _, e := range os.Environ() {
		if strings.HasPrefix(e, "GOTOOLCHAIN=") || strings.HasPrefix(e, "GOSUMDB=") || strings.HasPrefix(e, "GOFLAGS=") || strings.HasPrefix(e, "GOPROXY=") {
			continue
		}
		env = append(env, e)
	}
	cmd.Env = append(env, "GOFLAGS=-mod=mod", "GOPROXY=off", "CGO_ENABLED=1")
	if b, err := cmd.CombinedOutput(); err != nil {
		return "", fmt.Errorf("go build -race: %v: %s", err, tail(string(b), 300))
	}
	return outBin, nil
}

// ------------------------------------------------------------------ replay

func replay(c *vh.Ctx) {
	var cs Case
	if err := json.Unmarshal(c.ReplayRaw, &cs); err != nil {
		c.Note("cannot read replay case: %v", err)
		c.Mismatch(nil, "", "", "unreadable replay case")
		return
	}
	switch cs.Kind {
	case "stress", "storm", "script":
		// free-running cases are judged without the model; it is started only to show that the driver still answers
		if m, err := vh.StartModel(c.ModelPath); err == nil {
			if resp, err := m.Ask("run\t1\ts|r\tr0,r0,r1"); err == nil && strings.HasPrefix(resp, "n=") {
				c.Res.ModelUsed = true
			}
			m.Close()
		}
		bin := vh.Self()
		if cs.Race {
			if rb, err := buildRace(c); err == nil {
				bin = rb
			} else {
				c.Note("no -race build for the replay: %v", err)
			}
		}
		// free-running: the recorded configuration is repeated until it fails (at most Tries times, default 5)
		tries := cs.Tries
		if tries <= 0 {
			tries = 5
		}
		for i := 0; i < tries; i++ {
			o := runChild(bin, cs)
			c.Eval(fmt.Sprintf("replay/%d", i), true)
			if o.err != "" || len(o.res.Vios) > 0 {
				reportChild(c, o)
				break
			}
		}
	default:
		sched := cs.Sched
		if m, err := vh.StartModel(c.ModelPath); err == nil {
			defer m.Close()
			c.Res.ModelUsed = true
			if resp, err := m.Ask(fmt.Sprintf("run\t%d\t%s\t%s", cs.Cap, cs.Progs, cs.Acts)); err == nil && strings.HasPrefix(resp, "n=1") {
				sched = strings.SplitN(resp, ";", 2)[1]
			}
		}
		cfg := config{Cap: cs.Cap, Progs: strings.Split(cs.Progs, "|")}
		r := &runner{c: c, pool: newPool(vh.Self(), 1, 300), stopAt: 1}
		scheds := []string{sched}
		for i := 1; i < cs.Tries; i++ { // a failure outside the forced part: repeat until it shows
			scheds = append(scheds, sched)
		}
		r.submit(cfg, scheds, "replay")
		close(r.pool.jobs)
		r.drain(true)
		r.pool.wg.Wait()
		r.flush()
	}
}
