package c09

import (
	"encoding/json"
	"fmt"
	"os"
	"runtime"
	"sync"
	"sync/atomic"
	"time"

	"github.com/php-any/origami/data"
	"github.com/php-any/origami/std/channel"
)

// Seeded stress of the real Channel with free-running goroutines. Judged only by
// schedule-independent predicates: no invention, at most once, exactly once after
// the drain, per-sender FIFO at every receiver, drain-then-null, send fails after
// Close has returned, nothing panics, everything terminates.

type stressCfg struct {
	P, C    int // producers, consumers
	N       int // sends per producer
	Cap     int
	Closers int // 0: main closes after the producers are done; k>0: k concurrent closers at a random moment
	Rounds  int
	Seed    uint64
	Procs   int
	Perturb bool // random runtime.Gosched() at the verif yield points
}

type stressVio struct {
	Sig    string `json:"sig"`
	Detail string `json:"detail"`
	Round  int    `json:"round"`
}

type stressRes struct {
	Rounds    int         `json:"rounds"`
	SendsOK   int         `json:"sends_ok"`
	SendsFail int         `json:"sends_failed"`
	Received  int         `json:"received"`
	Nulls     int         `json:"nulls"`
	Vios      []stressVio `json:"violations"`
}

type xs struct{ s uint64 }

func (x *xs) next() uint64 {
	x.s ^= x.s << 13
	x.s ^= x.s >> 7
	x.s ^= x.s << 17
	return x.s
}

func stressChild(args []string) int {
	var cfg stressCfg
	if len(args) < 1 || json.Unmarshal([]byte(args[0]), &cfg) != nil {
		fmt.Fprintln(os.Stderr, "c09stress: bad config")
		return 2
	}
	if cfg.Procs > 0 {
		runtime.GOMAXPROCS(cfg.Procs)
	}
	res := stressRes{Vios: []stressVio{}}
	var vmu sync.Mutex
	round := 0
	vio := func(sig, f string, a ...any) {
		vmu.Lock()
		if len(res.Vios) < 10 {
			res.Vios = append(res.Vios, stressVio{sig, fmt.Sprintf(f, a...), round})
		}
		vmu.Unlock()
	}
	var ctr atomic.Uint64
	if cfg.Perturb {
		channel.VerifYield = func(string) {
			x := ctr.Add(0x9E3779B97F4A7C15)
			x ^= x >> 29
			if x%3 == 0 {
				runtime.Gosched()
			}
		}
	}
	startHeartbeat()
	rng := &xs{cfg.Seed*0x9E3779B97F4A7C15 + 1}
	for round = 0; round < cfg.Rounds; round++ {
		ch := newSchan(cfg.Cap)
		var closeReturned atomic.Bool
		sendOK := make([][]bool, cfg.P)
		recvd := make([][]int, cfg.C)
		var pw, cw, xw sync.WaitGroup
		guard := func(who string) {
			if p := recover(); p != nil {
				vio("panic:"+panicKind("P:"+fmt.Sprint(p)), "%s panicked: %v", who, p)
			}
		}
		for p := 0; p < cfg.P; p++ {
			sendOK[p] = make([]bool, cfg.N)
			pw.Add(1)
			go func(p int) {
				defer pw.Done()
				defer guard(fmt.Sprintf("producer %d", p))
				failed := false
				for i := 0; i < cfg.N; i++ {
					closedBefore := closeReturned.Load()
					ok := ch.Send(data.NewIntValue(p*1_000_000 + i))
					sendOK[p][i] = ok
					if ok && closedBefore {
						vio("send-after-close-succeeded", "producer %d: send %d started after Close had returned and reported success", p, i)
					}
					if ok && failed {
						vio("send-succeeded-after-failure", "producer %d: send %d succeeded after an earlier send had failed", p, i)
					}
					if !ok {
						failed = true
					}
				}
			}(p)
		}
		for c := 0; c < cfg.C; c++ {
			cw.Add(1)
			go func(c int) {
				defer cw.Done()
				defer guard(fmt.Sprintf("consumer %d", c))
				for {
					v, ok := ch.Receive()
					if !ok {
						break
					}
					iv, isInt := v.(*data.IntValue)
					if !isInt {
						vio("invented-value", "consumer %d received a non-int %v", c, v)
						continue
					}
					recvd[c] = append(recvd[c], iv.Value)
				}
				for k := 0; k < 2; k++ { // after the first null only nulls
					if v, ok := ch.Receive(); ok {
						vio("value-after-null", "consumer %d received %v after null", c, v)
					}
				}
				if !ch.IsClosed() {
					vio("null-before-close", "consumer %d got null but IsClosed is false", c)
				}
			}(c)
		}
		spin := int(rng.next() % 4000)
		for k := 0; k < cfg.Closers; k++ {
			xw.Add(1)
			go func(k int) {
				defer xw.Done()
				defer guard(fmt.Sprintf("closer %d", k))
				for i := 0; i < spin; i++ {
					if i%64 == 0 {
						runtime.Gosched()
					}
				}
				ch.Close()
				closeReturned.Store(true)
			}(k)
		}
		finished := make(chan struct{})
		go func() {
			pw.Wait()
			if cfg.Closers == 0 {
				func() {
					defer guard("main closer")
					ch.Close()
					closeReturned.Store(true)
				}()
			}
			xw.Wait()
			cw.Wait()
			close(finished)
		}()
		hung := false
		startBeat := beat.Load()
	waitRound:
		for {
			select {
			case <-finished:
				break waitRound
			case <-time.After(time.Second):
				// heartbeat, not wall-clock: a paused or starved process cannot raise the alarm
				if beat.Load()-startBeat >= 1200 {
					hung = true
					break waitRound
				}
			}
		}
		if hung {
			vio("hang", "round did not terminate within 60s of process run time (P=%d C=%d N=%d cap=%d closers=%d)", cfg.P, cfg.C, cfg.N, cfg.Cap, cfg.Closers)
			res.Rounds = round
			b, _ := json.Marshal(res)
			fmt.Println(string(b))
			return 0
		}
		// ---- judge
		seen := map[int]int{}
		for c := range recvd {
			last := map[int]int{}
			for _, v := range recvd[c] {
				p, i := v/1_000_000, v%1_000_000
				if p < 0 || p >= cfg.P || i >= cfg.N {
					vio("invented-value", "consumer %d received %d which nobody sent", c, v)
					continue
				}
				if !sendOK[p][i] {
					vio("received-but-send-failed", "value %d received but its send reported failure", v)
				}
				if l, ok := last[p]; ok && i <= l {
					vio("fifo", "consumer %d: value %d of producer %d after %d", c, i, p, l)
				}
				last[p] = i
				seen[v]++
				res.Received++
			}
			res.Nulls++
		}
		for v, k := range seen {
			if k > 1 {
				vio("duplicate", "value %d received %d times", v, k)
			}
		}
		for p := range sendOK {
			for i, ok := range sendOK[p] {
				if ok {
					res.SendsOK++
					if cfg.C > 0 && seen[p*1_000_000+i] == 0 {
						vio("lost", "value %d: send reported success, never received although every consumer drained to null", p*1_000_000+i)
					}
				} else {
					res.SendsFail++
				}
			}
		}
		if cfg.C > 0 && ch.Len() != 0 {
			vio("lost-or-extra", "buffer holds %d values after every consumer saw null", ch.Len())
		}
		if ch.Send(data.NewIntValue(-1)) {
			vio("send-after-close-succeeded", "send after the round reported success")
		}
	}
	res.Rounds = cfg.Rounds
	b, _ := json.Marshal(res)
	fmt.Println(string(b))
	return 0
}
