// History stream of C17: many registrations in one process.
//
// The other streams register one callee per signature (functions) or one struct whose method
// names are all different (Bag) and probe every conversion on its own. Here several struct types
// and functions deliberately SHARE method / function / class names with different arities,
// parameter types, result types and receivers; they are registered in several VMs of one process
// and called in every order, interleaved, through the base VM and through TempVMs. Each history
// runs in a fresh child process (state that outlives a call is process-wide, so the order in which
// callees are first used matters). Oracles, per call, independent of the model: the RIGHT Go
// method ran, exactly once, with exactly the values the script passed; the script got exactly
// (===, compared on the Go side of `cap`) what Go returned; a convertible call raises nothing;
// no Go panic. Correspondence: the whole history is sent to the model driver (`hist`, answered by
// Model.Conv.runPlain, which C17_history_independent proves to be call-by-call `Cfg.own`).
package c17

import (
	"bytes"
	"encoding/json"
	"fmt"
	"io"
	"os"
	"os/exec"
	"reflect"
	"sort"
	"strings"
	"time"

	"github.com/php-any/origami/data"
	"github.com/php-any/origami/runtime"

	"verif/harness/vh"
)

// ------------------------------------------------------------ the Go side

type goEvent struct {
	Call int
	Who  string
	Recv []reflect.Value
}

// what the Go side of a history sees and returns
type seqState struct {
	cur    int // the call being executed (set by mark), -1 outside
	echo   []int
	ret    [][]reflect.Value
	log    []goEvent
	args   [][]data.Value // per call
	ctor   [][]data.Value // per call: constructor arguments
	caps   map[int][]string
	done   map[int]bool
	threw  map[int]string
	marked []int
}

var seq *seqState

// every fixture method: record who ran with what, return the echoed argument or the requested value
func out[T any](who string, args ...any) T {
	var zero T
	if seq == nil {
		return zero
	}
	ev := goEvent{Call: seq.cur, Who: who}
	for _, a := range args {
		ev.Recv = append(ev.Recv, reflect.ValueOf(a))
	}
	seq.log = append(seq.log, ev)
	if seq.cur < 0 || seq.cur >= len(seq.echo) {
		return zero
	}
	if e := seq.echo[seq.cur]; e >= 0 {
		if e < len(args) {
			if v, ok := args[e].(T); ok {
				return v
			}
		}
		return zero
	}
	if r := seq.ret[seq.cur]; len(r) > 0 && r[0].IsValid() && r[0].CanInterface() {
		if v, ok := r[0].Interface().(T); ok {
			return v
		}
	}
	return zero
}

func note(who string, args ...any) { out[struct{}](who, args...) }

// Inv: pointer receivers, registered through a pointer
type Inv struct{ n int }

func (x *Inv) Put(item string) string   { return out[string]("Inv.Put", item) }
func (x *Inv) Get() int64               { return out[int64]("Inv.Get") }
func (x *Inv) Scale(f float64) float64  { return out[float64]("Inv.Scale", f) }
func (x *Inv) Flag(b bool) bool         { return out[bool]("Inv.Flag", b) }
func (x *Inv) Mix(s string) string      { return out[string]("Inv.Mix", s) }
func (x *Inv) I(a int64, b int64) int64 { return out[int64]("Inv.I", a, b) }
func (x *Inv) Ret() int64               { return out[int64]("Inv.Ret") }
func (x *Inv) Void(i int)               { note("Inv.Void", i) }

// Led: pointer receivers, longer parameter lists under the same names
type Led struct{ n int }

func (x *Led) Put(account string, amount int64, rate float64) int64 {
	return out[int64]("Led.Put", account, amount, rate)
}
func (x *Led) Get(i int) string                 { return out[string]("Led.Get", i) }
func (x *Led) Scale(n int64, f float64) float64 { return out[float64]("Led.Scale", n, f) }
func (x *Led) Flag(b bool, s string) string     { return out[string]("Led.Flag", b, s) }
func (x *Led) Mix(a bool, b bool) bool          { return out[bool]("Led.Mix", a, b) }
func (x *Led) S(a myStr, b string) myStr        { return out[myStr]("Led.S", a, b) }
func (x *Led) Ret() string                      { return out[string]("Led.Ret") }
func (x *Led) Void()                            { note("Led.Void") }

// Tab: value receivers, registered by value
type Tab struct{ n int }

func (x Tab) Put(n int64) int64             { return out[int64]("Tab.Put", n) }
func (x Tab) Get(a string, b bool) bool     { return out[bool]("Tab.Get", a, b) }
func (x Tab) Scale(a int, b int, c int) int { return out[int]("Tab.Scale", a, b, c) }
func (x Tab) Flag() bool                    { return out[bool]("Tab.Flag") }
func (x Tab) Mix(f float64, i int, s string, b bool) string {
	return out[string]("Tab.Mix", f, i, s, b)
}
func (x Tab) I(a string) string        { return out[string]("Tab.I", a) }
func (x Tab) Ret() float64             { return out[float64]("Tab.Ret") }
func (x Tab) Void(s string, f float64) { note("Tab.Void", s, f) }

// Acct: exported fields (they name the parameters of its methods and are the constructor's parameters)
type Acct struct {
	Owner   string
	Balance int64
}

func (x *Acct) Put(v float64) float64        { return out[float64]("Acct.Put", v) }
func (x *Acct) Get(b bool) float64           { return out[float64]("Acct.Get", b) }
func (x *Acct) Scale(s string) int           { return out[int]("Acct.Scale", s) }
func (x *Acct) Flag(i int64) int64           { return out[int64]("Acct.Flag", i) }
func (x *Acct) Mix(d myInt64, e myF64) myF64 { return out[myF64]("Acct.Mix", d, e) }
func (x *Acct) S(i int) int                  { return out[int]("Acct.S", i) }
func (x *Acct) Ret() bool                    { return out[bool]("Acct.Ret") }
func (x *Acct) F0() string                   { note("Acct.F0"); return x.Owner }
func (x *Acct) F1() int64                    { note("Acct.F1"); return x.Balance }

// Sw: mixed receivers, registered by value; other exported fields than Acct under the same getter names
type Sw struct {
	On    bool
	Level float64
	Tag   string
}

func (x Sw) F0() bool    { note("Sw.F0"); return x.On }
func (x Sw) F1() float64 { note("Sw.F1"); return x.Level }
func (x *Sw) F2() string { note("Sw.F2"); return x.Tag }

func (x Sw) Put(b bool) bool                          { return out[bool]("Sw.Put", b) }
func (x *Sw) Get(f float64) int64                     { return out[int64]("Sw.Get", f) }
func (x Sw) Scale(b bool, f float64, s string) string { return out[string]("Sw.Scale", b, f, s) }
func (x *Sw) Flag(f float64) float64                  { return out[float64]("Sw.Flag", f) }
func (x Sw) I(a bool, b bool, c bool) bool            { return out[bool]("Sw.I", a, b, c) }
func (x *Sw) Ret() myInt                              { return out[myInt]("Sw.Ret") }
func (x Sw) Void(b bool, i int64)                     { note("Sw.Void", b, i) }

// Vec: kinds the reflective path does not convert (the call must be refused, catchably)
type Vec struct{ n int }

func (x *Vec) Put(xs []int) int                   { return out[int]("Vec.Put", xs) }
func (x *Vec) Get(m map[string]int, k string) int { return out[int]("Vec.Get", m, k) }
func (x *Vec) Scale(p *Inv) string                { return out[string]("Vec.Scale", p) }
func (x *Vec) Flag(xs []string, b bool) bool      { return out[bool]("Vec.Flag", xs, b) }
func (x *Vec) Mix(v int8) int8                    { return out[int8]("Vec.Mix", v) }
func (x *Vec) S(u uint32, f float32) float32      { return out[float32]("Vec.S", u, f) }
func (x *Vec) Ret() []int                         { return out[[]int]("Vec.Ret") }
func (x *Vec) Void(a any)                         { note("Vec.Void", a) }

var extraTypes = []typeInfo{
	{"[]string", "other#15", reflect.TypeOf([]string(nil))},
	{"*Inv", "other#16", reflect.TypeOf((*Inv)(nil))},
}

type fixture struct {
	Name    string
	New     func() any
	Methods map[string]methodInfo
	Owner   int      // owner identity for the model (the Go type)
	Fields  []string // types of the exported fields = parameters of the reflective constructor
}

var fixtures = []*fixture{
	{Name: "Inv", New: func() any { return &Inv{} }},
	{Name: "Led", New: func() any { return &Led{} }},
	{Name: "Tab", New: func() any { return Tab{} }},
	{Name: "Acct", New: func() any { return &Acct{} }},
	{Name: "Sw", New: func() any { return Sw{} }},
	{Name: "Vec", New: func() any { return &Vec{} }},
}

var fixtureByName = map[string]*fixture{}
var methodNames []string         // every method name of some fixture, sorted
var methodIDs = map[string]int{} // method / function name -> model id (1…)

func init() {
	for _, t := range extraTypes {
		typeByName[t.Name] = t
	}
	nameOf := map[reflect.Type]string{}
	for n, t := range typeByName {
		nameOf[t.T] = n
	}
	seen := map[string]bool{}
	for i, f := range fixtures {
		f.Owner = i + 1
		f.Methods = map[string]methodInfo{}
		fixtureByName[f.Name] = f
		t := reflect.TypeOf(f.New())
		if t.Kind() != reflect.Ptr {
			t = reflect.PointerTo(t)
		}
		for j := 0; j < t.Elem().NumField(); j++ {
			if fl := t.Elem().Field(j); fl.PkgPath == "" {
				f.Fields = append(f.Fields, nameOf[fl.Type])
			}
		}
		for j := 0; j < t.NumMethod(); j++ {
			m := t.Method(j)
			mi := methodInfo{Name: m.Name}
			for k := 1; k < m.Type.NumIn(); k++ {
				n, ok := nameOf[m.Type.In(k)]
				if !ok {
					panic("c17: fixture parameter type without a name: " + m.Type.In(k).String())
				}
				mi.Params = append(mi.Params, n)
			}
			for k := 0; k < m.Type.NumOut(); k++ {
				n, ok := nameOf[m.Type.Out(k)]
				if !ok {
					panic("c17: fixture result type without a name: " + m.Type.Out(k).String())
				}
				mi.Results = append(mi.Results, n)
			}
			f.Methods[m.Name] = mi
			if !seen[m.Name] {
				seen[m.Name] = true
				methodNames = append(methodNames, m.Name)
			}
		}
	}
	sort.Strings(methodNames)
	for i, n := range methodNames {
		methodIDs[n] = i + 1
	}
	vh.RegisterChild("c17seq", seqChild)
}

// fixtures that have method m, in fixture order
func fixturesWith(m string) []*fixture {
	var out []*fixture
	for _, f := range fixtures {
		if _, ok := f.Methods[m]; ok {
			out = append(out, f)
		}
	}
	return out
}

// ------------------------------------------------------------ the case

type seqCall struct {
	Class  string   `json:"class,omitempty"` // script class name; "" = a registered function
	Method string   `json:"method"`          // method or function name
	Route  string   `json:"route,omitempty"` // "" `$o->M(…)` · dyn `$o->$m(…)` · keep: the script's long-lived object
	Args   []sval   `json:"args"`
	Echo   int      `json:"echo"`
	Ret    []string `json:"ret,omitempty"`
	Ctor   []sval   `json:"ctor,omitempty"` // constructor arguments of the object the method is called on (not with route keep)
}

type seqStep struct {
	// a registration …
	Reg     string   `json:"reg,omitempty"` // class: fixture name registered under script class name Class; fn: function Name
	VM      int      `json:"vm"`
	Class   string   `json:"class,omitempty"`
	Fix     string   `json:"fix,omitempty"`
	Name    string   `json:"name,omitempty"`
	Params  []string `json:"params,omitempty"`
	Results []string `json:"results,omitempty"`
	// … or one script
	Temp  bool      `json:"temp,omitempty"` // run through a new TempVM of VM
	Bare  bool      `json:"bare,omitempty"` // the last call is made outside try/catch
	Calls []seqCall `json:"calls,omitempty"`
}

type seqCase struct {
	Kind  string    `json:"kind"` // "seq"
	NVM   int       `json:"nvm"`
	Steps []seqStep `json:"steps"`
}

func (sc *seqCase) nCalls() int {
	n := 0
	for _, s := range sc.Steps {
		n += len(s.Calls)
	}
	return n
}

// what a call is bound to, resolved against the registrations before it
type boundCall struct {
	step, idx int
	call      *seqCall
	vm        int
	temp, try bool
	who       string // expected Go-side identity
	owner     int
	path      string
	mi        methodInfo
	ok        bool // the callee is registered in that VM at that point
}

func (sc *seqCase) bind() []boundCall {
	type key struct {
		vm   int
		name string
	}
	classes := map[key]*fixture{}
	type fnInfo struct {
		owner int
		mi    methodInfo
	}
	fns := map[key]fnInfo{}
	var out []boundCall
	nfn := 0
	for si := range sc.Steps {
		s := &sc.Steps[si]
		switch s.Reg {
		case "class":
			classes[key{s.VM, s.Class}] = fixtureByName[s.Fix]
			continue
		case "fn":
			nfn++
			fns[key{s.VM, s.Name}] = fnInfo{100 + nfn, methodInfo{Name: s.Name, Params: s.Params, Results: s.Results}}
			continue
		}
		for ci := range s.Calls {
			c := &s.Calls[ci]
			b := boundCall{step: si, idx: ci, call: c, vm: s.VM, temp: s.Temp, try: !(s.Bare && ci == len(s.Calls)-1)}
			if c.Class == "" {
				if f, ok := fns[key{s.VM, c.Method}]; ok {
					b.ok, b.owner, b.mi, b.path = true, f.owner, f.mi, "fn"
					b.who = fmt.Sprintf("fn:%s@vm%d", c.Method, s.VM)
				}
			} else if f := classes[key{s.VM, c.Class}]; f != nil {
				if mi, ok := f.Methods[c.Method]; ok {
					b.ok, b.owner, b.mi, b.path = true, f.Owner, mi, "method"
					b.who = f.Name + "." + c.Method
				}
			}
			out = append(out, b)
		}
	}
	return out
}

func methID(name string) int {
	if id, ok := methodIDs[name]; ok {
		return id
	}
	return 0
}

// the request for the model driver
func (sc *seqCase) histLine() string {
	bs := sc.bind()
	entries := map[string]bool{}
	var es, ops []string
	var allArgs []sval
	owners := map[int]bool{}
	bi := 0
	type key struct {
		vm   int
		name string
	}
	nfn := 0
	for si := range sc.Steps {
		s := &sc.Steps[si]
		switch s.Reg {
		case "class":
			if f := fixtureByName[s.Fix]; f != nil && !owners[f.Owner] {
				owners[f.Owner] = true
			}
			ops = append(ops, fmt.Sprintf("R|%d", fixtureByName[s.Fix].Owner))
			continue
		case "fn":
			nfn++
			ops = append(ops, fmt.Sprintf("R|%d", 100+nfn))
			continue
		}
		for range s.Calls {
			b := bs[bi]
			bi++
			cc := b.callCase()
			meth := 0
			if b.path == "method" {
				meth = methID(b.call.Method)
			}
			if !b.ok {
				ops = append(ops, "C|0|0|none|")
				continue
			}
			e := fmt.Sprintf("%d|%d|%s|%s|%s", b.owner, meth, b.path, cc.modelTypes(cc.Params), cc.modelTypes(cc.Result))
			if !entries[e] {
				entries[e] = true
				es = append(es, e)
			}
			body := "none"
			if len(cc.Result) > 0 {
				if cc.Echo >= 0 {
					body = fmt.Sprintf("arg %d", cc.Echo)
				} else {
					body = "const " + strings.Join(cc.Ret, ",")
				}
			}
			args := make([]string, len(cc.Args))
			for i, a := range cc.Args {
				args[i] = string(a)
			}
			allArgs = append(allArgs, cc.Args...)
			ops = append(ops, fmt.Sprintf("C|%d|%d|%s|%s", b.owner, meth, body, strings.Join(args, ",")))
		}
	}
	return strings.Join([]string{"hist", strings.Join(es, ";"), strings.Join(ops, ";"), parseHints(allArgs)}, "\t")
}

func (b *boundCall) callCase() *callCase {
	cc := &callCase{Kind: "call", Path: b.path, Method: " " + b.who, Params: b.mi.Params, Result: b.mi.Results, Args: b.call.Args, Echo: b.call.Echo, Ret: b.call.Ret}
	if len(cc.Result) == 0 {
		cc.Echo = -1
	}
	if cc.Echo < 0 && len(cc.Result) > 0 {
		for i, enc := range cc.Ret {
			if i < len(cc.Result) {
				cc.retV = append(cc.retV, decodeGo(typeByName[cc.Result[i]].T, enc))
			}
		}
	}
	return cc
}

// ------------------------------------------------------------ running a history (child process)

type callObs struct {
	Reached bool   `json:"reached"`
	Outcome string `json:"outcome"` // ok | throw | go-panic
	Detail  string `json:"detail,omitempty"`
	Impl    string `json:"impl"`
	Sig     string `json:"sig,omitempty"`
	What    string `json:"what,omitempty"`
}

type seqObs struct {
	Calls []callObs `json:"calls"`
	Err   string    `json:"err,omitempty"`
}

type seqEnv struct {
	*vh.VMEnv
	fns int
}

func newSeqEnv() *seqEnv {
	e := &seqEnv{VMEnv: vh.NewEnv()}
	idx := func(ctx data.Context) int {
		v, _ := ctx.GetIndexValue(0)
		if iv, ok := v.(*data.IntValue); ok {
			return iv.Value
		}
		return -1
	}
	e.VM.AddFunc(&nativeFn{name: "arg", n: 2, call: func(ctx data.Context) (data.GetValue, data.Control) {
		k := idx(ctx)
		v, _ := ctx.GetIndexValue(1)
		i := 0
		if iv, ok := v.(*data.IntValue); ok {
			i = iv.Value
		}
		if k < 0 || k >= len(seq.args) || i >= len(seq.args[k]) {
			return data.NewNullValue(), nil
		}
		return seq.args[k][i], nil
	}})
	e.VM.AddFunc(&nativeFn{name: "carg", n: 2, call: func(ctx data.Context) (data.GetValue, data.Control) {
		k := idx(ctx)
		v, _ := ctx.GetIndexValue(1)
		i := 0
		if iv, ok := v.(*data.IntValue); ok {
			i = iv.Value
		}
		if k < 0 || k >= len(seq.ctor) || i >= len(seq.ctor[k]) {
			return data.NewNullValue(), nil
		}
		return seq.ctor[k][i], nil
	}})
	e.VM.AddFunc(&nativeFn{name: "cap", n: 2, call: func(ctx data.Context) (data.GetValue, data.Control) {
		k := idx(ctx)
		v, ok := ctx.GetIndexValue(1)
		if !ok || v == nil {
			seq.caps[k] = append(seq.caps[k], "nil")
		} else {
			seq.caps[k] = append(seq.caps[k], encScript(v))
		}
		return nil, nil
	}})
	e.VM.AddFunc(&nativeFn{name: "mark", n: 1, call: func(ctx data.Context) (data.GetValue, data.Control) {
		seq.cur = idx(ctx)
		seq.marked = append(seq.marked, seq.cur)
		return nil, nil
	}})
	e.VM.AddFunc(&nativeFn{name: "done", n: 1, call: func(ctx data.Context) (data.GetValue, data.Control) {
		seq.done[idx(ctx)] = true
		seq.cur = -1
		return nil, nil
	}})
	e.VM.AddFunc(&nativeFn{name: "threw", n: 2, call: func(ctx data.Context) (data.GetValue, data.Control) {
		msg := ""
		if v, ok := ctx.GetIndexValue(1); ok && v != nil {
			if sv, ok := v.(data.Value); ok {
				msg = sv.AsString()
			}
		}
		seq.threw[idx(ctx)] = strings.SplitN(msg, "\n", 2)[0]
		seq.cur = -1
		return nil, nil
	}})
	return e
}

func (e *seqEnv) registerFn(s *seqStep) {
	var in, outT []reflect.Type
	for _, p := range s.Params {
		in = append(in, typeByName[p].T)
	}
	for _, r := range s.Results {
		outT = append(outT, typeByName[r].T)
	}
	who := fmt.Sprintf("fn:%s@vm%d", s.Name, s.VM)
	fn := reflect.MakeFunc(reflect.FuncOf(in, outT, false), func(args []reflect.Value) []reflect.Value {
		seq.log = append(seq.log, goEvent{Call: seq.cur, Who: who, Recv: append([]reflect.Value(nil), args...)})
		if len(outT) == 0 {
			return nil
		}
		res := make([]reflect.Value, len(outT))
		for i := range outT {
			res[i] = reflect.Zero(outT[i])
		}
		if seq.cur >= 0 && seq.cur < len(seq.echo) {
			if ei := seq.echo[seq.cur]; ei >= 0 && ei < len(args) && args[ei].Type() == outT[0] {
				res[0] = args[ei]
			} else if r := seq.ret[seq.cur]; ei < 0 && len(r) > 0 && r[0].IsValid() && r[0].Type() == outT[0] {
				res[0] = r[0]
			}
		}
		return res
	})
	if ctl := e.Raw.RegisterFunction(s.Name, fn.Interface()); ctl != nil {
		panic("RegisterFunction: " + ctl.AsString())
	}
}

// the script of one step; k0 = global index of its first call; void(i): call i has no result
func stepScript(s *seqStep, k0 int, void func(i int) bool) string {
	var sb strings.Builder
	sb.WriteString("<?php\n")
	kept := map[string]bool{}
	for _, c := range s.Calls {
		if c.Route == "keep" && c.Class != "" && !kept[c.Class] {
			kept[c.Class] = true
			fmt.Fprintf(&sb, "$k_%s = new %s();\n", c.Class, c.Class)
		}
	}
	for i, c := range s.Calls {
		k := k0 + i
		var ax []string
		for j := range c.Args {
			ax = append(ax, fmt.Sprintf("arg(%d, %d)", k, j))
		}
		args := strings.Join(ax, ", ")
		var cx []string
		for j := range c.Ctor {
			cx = append(cx, fmt.Sprintf("carg(%d, %d)", k, j))
		}
		cargs := strings.Join(cx, ", ")
		pre, callee := "", ""
		switch {
		case c.Class == "":
			callee = c.Method
		case c.Route == "keep":
			callee = fmt.Sprintf("$k_%s->%s", c.Class, c.Method)
		case c.Route == "dyn":
			pre = fmt.Sprintf("$o = new %s(%s); $m = '%s'; ", c.Class, cargs, c.Method)
			callee = "$o->$m"
		default:
			pre = fmt.Sprintf("$o = new %s(%s); ", c.Class, cargs)
			callee = "$o->" + c.Method
		}
		stmt := ""
		if void(i) { // no result: called by statement
			stmt = fmt.Sprintf("%s%s(%s); done(%d);", pre, callee, args, k)
		} else {
			stmt = fmt.Sprintf("%s$r = %s(%s); cap(%d, $r); done(%d);", pre, callee, args, k, k)
		}
		if s.Bare && i == len(s.Calls)-1 {
			fmt.Fprintf(&sb, "mark(%d); %s\n", k, stmt)
		} else {
			fmt.Fprintf(&sb, "mark(%d); try { %s } catch (\\Throwable $e) { threw(%d, $e->getMessage()); }\n", k, stmt, k)
		}
	}
	return sb.String()
}

// run src through a new TempVM of the env's VM (what a request of the development server does)
func (e *seqEnv) runTemp(src, path string) (o vh.Outcome) {
	defer func() {
		if r := recover(); r != nil {
			if acl, ok := r.(data.Control); ok {
				o.Kind, o.Detail = "uncaught", strings.SplitN(acl.AsString(), "\n", 2)[0]
				return
			}
			o.Kind, o.Detail = "go-panic", strings.SplitN(fmt.Sprint(r), "\n", 2)[0]
		}
	}()
	tvm, ok := runtime.NewTempVM(e.Raw).(*runtime.TempVM)
	if !ok {
		return vh.Outcome{Kind: "parse-error", Detail: "no TempVM"}
	}
	p := tvm.PrepareParse(e.Parser)
	prog, acl := p.ParseString(src, path)
	if acl != nil {
		return vh.Outcome{Kind: "parse-error", Detail: strings.SplitN(acl.AsString(), "\n", 2)[0]}
	}
	ctx := tvm.CreateContext(p.GetVariables())
	_, ctl := prog.GetValue(ctx)
	if ctl != nil {
		return vh.Outcome{Kind: "uncaught", Detail: strings.SplitN(ctl.AsString(), "\n", 2)[0]}
	}
	return vh.Outcome{Kind: "ok"}
}

func runSeq(sc *seqCase) (res seqObs) {
	bs := sc.bind()
	n := len(bs)
	seq = &seqState{cur: -1, echo: make([]int, n), ret: make([][]reflect.Value, n), args: make([][]data.Value, n), ctor: make([][]data.Value, n),
		caps: map[int][]string{}, done: map[int]bool{}, threw: map[int]string{}}
	ccs := make([]*callCase, n)
	for i := range bs {
		cc := bs[i].callCase()
		ccs[i] = cc
		seq.echo[i] = cc.Echo
		seq.ret[i] = cc.retV
		for _, a := range cc.Args {
			seq.args[i] = append(seq.args[i], a.value())
		}
		for _, a := range bs[i].call.Ctor {
			seq.ctor[i] = append(seq.ctor[i], a.value())
		}
	}
	envs := make([]*seqEnv, sc.NVM)
	for i := range envs {
		envs[i] = newSeqEnv()
	}
	res.Calls = make([]callObs, n)
	k := 0
	nfn := 0
	for si := range sc.Steps {
		s := &sc.Steps[si]
		if s.VM < 0 || s.VM >= len(envs) {
			res.Err = "bad vm index"
			return
		}
		e := envs[s.VM]
		switch s.Reg {
		case "class":
			f := fixtureByName[s.Fix]
			if f == nil {
				res.Err = "unknown fixture " + s.Fix
				return
			}
			if ctl := e.Raw.RegisterReflectClass(s.Class, f.New()); ctl != nil {
				res.Err = "RegisterReflectClass: " + ctl.AsString()
				return
			}
			continue
		case "fn":
			nfn++
			e.registerFn(s)
			continue
		}
		if len(s.Calls) == 0 {
			continue
		}
		k0 := k
		src := stepScript(s, k, func(i int) bool { return len(ccs[k0+i].Result) == 0 })
		seq.cur = -1
		seq.marked = nil
		e.Thrown = nil
		var o vh.Outcome
		if s.Temp {
			o = e.runTemp(src, fmt.Sprintf("/verif-c17-seq-%d.php", si))
		} else {
			o = e.RunSource(src, fmt.Sprintf("/verif-c17-seq-%d.php", si))
		}
		if o.Kind == "parse-error" {
			res.Err = "generated script does not parse: " + o.Detail + "\n" + src
			return
		}
		reached := map[int]bool{}
		for _, m := range seq.marked {
			reached[m] = true
		}
		for i := range s.Calls {
			kk := k + i
			co := &res.Calls[kk]
			if !reached[kk] {
				continue
			}
			co.Reached = true
			switch {
			case seq.done[kk]:
				co.Outcome = "ok"
			case func() bool { _, t := seq.threw[kk]; return t }():
				co.Outcome, co.Detail = "throw", seq.threw[kk]
			case o.Kind == "go-panic":
				co.Outcome, co.Detail = "go-panic", o.Detail
			default:
				co.Outcome, co.Detail = "throw", o.Detail
			}
			var evs []goEvent
			for _, ev := range seq.log {
				if ev.Call == kk {
					evs = append(evs, ev)
				}
			}
			judgeSeq(&bs[kk], ccs[kk], co, evs, seq.caps[kk])
		}
		k += len(s.Calls)
	}
	// Go code that ran outside any call
	for _, ev := range seq.log {
		if ev.Call < 0 && res.Err == "" {
			res.Err = "stray:" + ev.Who
		}
	}
	return
}

func safeImplLine(c *callCase, ob observed) string {
	if ob.Called > 0 && len(ob.Recv) != len(c.Params) {
		return fmt.Sprintf("recv=?%d-values res=%s", len(ob.Recv), ob.Outcome)
	}
	return c.implLine(ob)
}

// judge one call of a history with the single-call oracle plus "the right Go code ran"
func judgeSeq(b *boundCall, cc *callCase, co *callObs, evs []goEvent, caps []string) {
	ob := observed{Outcome: co.Outcome, Detail: co.Detail, Called: len(evs), Captured: caps}
	if len(evs) > 0 {
		ob.Recv = evs[0].Recv
	}
	if !b.ok {
		co.Impl = "unregistered"
		return
	}
	co.Impl = safeImplLine(cc, ob)
	for _, ev := range evs {
		if ev.Who != b.who {
			co.Sig = "wrong-callee@" + b.who
			co.What = fmt.Sprintf("the script called %s but the Go code that ran is %s", b.who, ev.Who)
			return
		}
	}
	if ob.Called == 1 && len(ob.Recv) != len(cc.Params) {
		co.Sig, co.What = "in:arity@"+b.who, fmt.Sprintf("%s has %d parameters and received %d values", b.who, len(cc.Params), len(ob.Recv))
		return
	}
	sig, what := judge(cc, ob)
	if sig == "" && co.Outcome == "throw" && b.try && ob.Called == 0 {
		// a Go panic inside try is seen as an exception: tell it apart by its text
		if strings.Contains(co.Detail, "reflect:") || strings.Contains(co.Detail, "runtime error") {
			sig, what = "panic", "Go panic (converted into an exception by try): "+co.Detail
		}
	}
	if sig != "" {
		// the signature names the kind of failure and the callee, not the values
		kind := sig
		if i := strings.Index(kind, ":"); i >= 0 && !strings.HasPrefix(kind, "in:refused") && !strings.HasPrefix(kind, "out:throw") {
			kind = kind[:i]
		}
		if strings.HasPrefix(kind, "in:refused") {
			kind = "refused"
		}
		if strings.HasPrefix(kind, "out:throw") {
			kind = "out-throw"
		}
		co.Sig = kind + "@" + b.who
		co.What = what
	}
}

func seqChild(args []string) int {
	proto := vh.ProtocolStdout()
	raw, err := io.ReadAll(os.Stdin)
	if err != nil {
		return 2
	}
	var sc seqCase
	if err := json.Unmarshal(raw, &sc); err != nil {
		fmt.Fprintln(proto, `{"err":"bad case"}`)
		return 2
	}
	var res seqObs
	func() {
		defer func() {
			if r := recover(); r != nil {
				res.Err = fmt.Sprintf("runner panic: %v", r)
			}
		}()
		res = runSeq(&sc)
	}()
	b, _ := json.Marshal(res)
	proto.Write(append(b, '\n'))
	return 0
}

// run the history in a fresh process
func runSeqChild(sc *seqCase) (seqObs, error) {
	raw, _ := json.Marshal(sc)
	cmd := exec.Command(vh.Self(), "__child", "c17seq")
	cmd.Stdin = bytes.NewReader(raw)
	var outb, errb bytes.Buffer
	cmd.Stdout, cmd.Stderr = &outb, &errb
	if err := cmd.Start(); err != nil {
		return seqObs{}, err
	}
	done := make(chan error, 1)
	go func() { done <- cmd.Wait() }()
	select {
	case err := <-done:
		if err != nil && outb.Len() == 0 {
			tail := errb.String()
			if len(tail) > 600 {
				tail = tail[len(tail)-600:]
			}
			return seqObs{}, fmt.Errorf("child died: %v: %s", err, tail)
		}
	case <-time.After(120 * time.Second):
		cmd.Process.Kill()
		<-done
		return seqObs{}, fmt.Errorf("child hung")
	}
	var res seqObs
	line := outb.Bytes()
	if i := bytes.LastIndexByte(bytes.TrimRight(line, "\n"), '\n'); i >= 0 {
		line = line[i+1:]
	}
	if err := json.Unmarshal(line, &res); err != nil {
		return seqObs{}, fmt.Errorf("child answer: %v", err)
	}
	return res, nil
}

// ------------------------------------------------------------ parent side: judge, correspondence, shrink

// keep only the calls whose global index is in keep (registrations stay)
func (sc *seqCase) restrict(keep map[int]bool) *seqCase {
	out := &seqCase{Kind: "seq", NVM: sc.NVM}
	k := 0
	for _, s := range sc.Steps {
		if s.Reg != "" {
			out.Steps = append(out.Steps, s)
			continue
		}
		ns := s
		ns.Calls = nil
		lastKept := false
		for i, c := range s.Calls {
			if keep[k+i] {
				ns.Calls = append(ns.Calls, c)
				lastKept = i == len(s.Calls)-1
			}
		}
		if !lastKept {
			ns.Bare = false
		}
		k += len(s.Calls)
		if len(ns.Calls) > 0 {
			out.Steps = append(out.Steps, ns)
		}
	}
	return out
}

// does the LAST call of the history fail with this signature (fresh process)?
func (h *harness) lastFails(sc *seqCase, sig string) bool {
	h.c.Hit("hist:shrink-run")
	res, err := runSeqChild(sc)
	if err != nil || len(res.Calls) == 0 {
		return false
	}
	return res.Calls[len(res.Calls)-1].Sig == sig
}

// shrink a history whose call #fail violates the property: prefix, then ddmin over the earlier calls
func (h *harness) shrinkSeq(sc *seqCase, fail int, sig string) (*seqCase, bool) {
	keep := map[int]bool{}
	for i := 0; i <= fail; i++ {
		keep[i] = true
	}
	cur := sc.restrict(keep)
	if !h.lastFails(cur, sig) {
		return sc, false // not reproducible from the prefix alone: report the whole history
	}
	idx := make([]int, 0, fail)
	for i := 0; i < fail; i++ {
		idx = append(idx, i)
	}
	budget := 160
	idx = ddmin(idx, &budget, func(cand []int) bool {
		k := map[int]bool{fail: true}
		for _, i := range cand {
			k[i] = true
		}
		return h.lastFails(sc.restrict(k), sig)
	})
	k := map[int]bool{fail: true}
	for _, i := range idx {
		k[i] = true
	}
	small := sc.restrict(k)
	// then the registrations no remaining call needs: some of them may be what the failure depends on
	needed := small.neededRegs()
	var free []int
	for i, st := range small.Steps {
		if st.Reg != "" && !needed[i] {
			free = append(free, i)
		}
	}
	without := func(keepFree []int) *seqCase {
		kf := map[int]bool{}
		for _, i := range keepFree {
			kf[i] = true
		}
		out := &seqCase{Kind: "seq", NVM: small.NVM}
		for i, st := range small.Steps {
			if st.Reg != "" && !needed[i] && !kf[i] {
				continue
			}
			out.Steps = append(out.Steps, st)
		}
		return out
	}
	free = ddmin(free, &budget, func(cand []int) bool { return h.lastFails(without(cand), sig) })
	return without(free), true
}

// delta debugging: a small sublist of items for which test still holds (test(items) is assumed)
func ddmin(items []int, budget *int, test func([]int) bool) []int {
	try := func(cand []int) bool {
		if *budget <= 0 {
			return false
		}
		*budget--
		return test(cand)
	}
	if len(items) > 0 && try(nil) {
		return nil
	}
	nchunks := 2
	for len(items) > 1 && *budget > 0 {
		if nchunks > len(items) {
			nchunks = len(items)
		}
		size := (len(items) + nchunks - 1) / nchunks
		reduced := false
		for start := 0; start < len(items); start += size {
			end := start + size
			if end > len(items) {
				end = len(items)
			}
			cand := append(append([]int{}, items[:start]...), items[end:]...)
			if try(cand) {
				items = cand
				if nchunks > 2 {
					nchunks--
				}
				reduced = true
				break
			}
		}
		if !reduced {
			if size == 1 {
				break
			}
			nchunks *= 2
		}
	}
	return items
}

// indices of the registration steps some call of the history resolves to
func (sc *seqCase) neededRegs() map[int]bool {
	type key struct {
		vm   int
		name string
		fn   bool
	}
	last := map[key]int{}
	needed := map[int]bool{}
	for i, s := range sc.Steps {
		switch s.Reg {
		case "class":
			last[key{s.VM, s.Class, false}] = i
		case "fn":
			last[key{s.VM, s.Name, true}] = i
		default:
			for _, c := range s.Calls {
				k := key{s.VM, c.Class, false}
				if c.Class == "" {
					k = key{s.VM, c.Method, true}
				}
				if j, ok := last[k]; ok {
					needed[j] = true
				}
			}
		}
	}
	return needed
}

func (sc *seqCase) describe() string {
	var parts []string
	for _, s := range sc.Steps {
		switch s.Reg {
		case "class":
			parts = append(parts, fmt.Sprintf("vm%d: register %s as class %s", s.VM, s.Fix, s.Class))
		case "fn":
			parts = append(parts, fmt.Sprintf("vm%d: register function %s(%s)->(%s)", s.VM, s.Name, strings.Join(s.Params, ","), strings.Join(s.Results, ",")))
		default:
			for _, c := range s.Calls {
				t := ""
				if s.Temp {
					t = " (TempVM)"
				}
				callee := c.Method
				if c.Class != "" {
					callee = c.Class + "->" + c.Method
				}
				parts = append(parts, fmt.Sprintf("vm%d%s: %s%s", s.VM, t, callee, short(fmt.Sprint(c.Args))))
			}
		}
	}
	if len(parts) > 14 {
		parts = append(parts[:6], append([]string{fmt.Sprintf("… %d more …", len(parts)-12)}, parts[len(parts)-6:]...)...)
	}
	return strings.Join(parts, "; ")
}

// run one history: oracle verdicts of the child, correspondence with the model, shrinking
func (h *harness) doSeq(sc *seqCase, replay bool) {
	sc.Kind = "seq"
	res, err := runSeqChild(sc)
	if err != nil {
		h.c.Violation("hist:crash", "the process running the history did not survive: "+err.Error()+" — "+sc.describe(), sc)
		return
	}
	if strings.HasPrefix(res.Err, "stray:") {
		h.c.Violation("hist:stray-call", "registered Go code ran outside any script call: "+res.Err, sc)
		return
	}
	if res.Err != "" {
		h.c.Mismatch(sc, res.Err, "", "history runner (machinery)")
		return
	}
	bs := sc.bind()
	var model []string
	if h.m != nil {
		ans, err := h.m.Ask(sc.histLine())
		if err != nil {
			h.c.Note("model failed: %v", err)
			h.m = nil
		} else if ans != "" {
			model = strings.Split(ans, " ## ")
		}
		if h.m != nil && len(model) != len(bs) {
			h.c.Mismatch(sc, fmt.Sprintf("%d calls", len(bs)), short(ans), "hist request: the model driver answered another number of calls")
			model = nil
		}
	}
	reported := map[string]bool{}
	mismatched := false
	for i, co := range res.Calls {
		if !co.Reached {
			h.c.Hit("hist:not-reached")
			continue
		}
		b := &bs[i]
		cc := b.callCase()
		h.c.Eval(fmt.Sprintf("hist|%s|vm%d|%v|%s|%v|%s%d", b.who, b.vm, b.temp, b.call.Route, cc.Args, strings.Join(cc.Ret, ","), cc.Echo), true)
		h.c.Hit("hist:outcome:" + co.Outcome)
		h.c.Hit("hist:callee:" + b.who)
		if b.temp {
			h.c.Hit("hist:via-tempvm")
		}
		if b.call.Route != "" {
			h.c.Hit("hist:route:" + b.call.Route)
		}
		if replay && os.Getenv("C17_DUMP") != "" {
			h.c.Note("#%d %s %s :: %s %s", i, b.who, short(fmt.Sprint(cc.Args)), short(co.Impl), short(co.Detail))
		}
		h.c.SampleSome(map[string]any{"history-call": fmt.Sprintf("#%d of %d: %s", i, len(bs), cc.String()), "impl": short(co.Impl)}, 2999)
		if model != nil && !mismatched && b.ok && !implDefined(cc) {
			m := canonModel(model[i])
			if b.try {
				m = strings.Replace(m, "res=panic", "res=throw", 1)
			}
			impl := strings.Replace(co.Impl, "res=go-panic", "res=panic", 1)
			if !sameUpToOpaque(impl, m) {
				mismatched = true
				keep := map[int]bool{}
				for j := 0; j <= i; j++ {
					keep[j] = true
				}
				h.c.Mismatch(sc.restrict(keep), short(impl), short(m), fmt.Sprintf("call #%d (%s) of a history vs Model.Conv.runPlain (= Cfg.own of the callee, C17_history_independent)", i, b.who))
			}
		}
		if co.Sig == "" {
			continue
		}
		sig := "hist:" + co.Sig
		if reported[sig] {
			continue
		}
		reported[sig] = true
		if replay {
			h.c.Violation(sig, co.What+" — call #"+fmt.Sprint(i)+" of: "+sc.describe(), sc)
			continue
		}
		if h.seqReported[sig] {
			h.c.Hit("hist:violation-repeat")
			continue
		}
		h.seqReported[sig] = true
		if len(h.seqReported) > 6 {
			h.c.Hit("hist:violation-more-signatures")
			continue
		}
		if len(h.seqReported) > 3 {
			// enough shrunk replays; the rest as prefixes
			keep := map[int]bool{}
			for j := 0; j <= i; j++ {
				keep[j] = true
			}
			p := sc.restrict(keep)
			h.c.Violation(sig, co.What+" — last call of: "+p.describe(), p)
			continue
		}
		small, ok := h.shrinkSeq(sc, i, co.Sig)
		what := co.What
		if ok {
			alone := small.restrict(map[int]bool{small.nCalls() - 1: true})
			if small.nCalls() > 1 && !h.lastFails(alone, co.Sig) {
				what += " — the same call made alone in a fresh process passes: the outcome depends on what was registered and called before"
			}
		}
		h.c.Violation(sig, what+" — last call of: "+small.describe(), small)
	}
}
