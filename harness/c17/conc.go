// Calls of ONE registered callee in flight at the same time (round 6, stream `conc`, replay kind "conc").
//
// Every other stream of this harness makes its calls one after the other from one goroutine. Scripts
// are not single-threaded (spawn, one goroutine per HTTP request) and a conversion or the Go code may
// re-enter the VM, so several calls of one registered function / one Go object's method can be between
// their first convertToGoValue and their reflect.Value.Call at once. State kept per registration and
// written on the call path (an argument list reused by every call, a scratch slice, a result slot) is
// invisible sequentially and tears values here.
//
// Routes:
//   gate  — 2..16 goroutines, each with its own call context, call the same callee directly
//           (FuncStmt.Call / Method.Call, what CallExpression does); the argument values are data.Values whose
//           accessor (AsInt / AsString / AsFloat — what convertToGoValue calls) waits for the scheduler, so
//           the interleaving "caller c converts its next argument" is DETERMINISTIC and every interleaving
//           of two callers (arity 1..4) and of three callers (arity 1..2) is enumerated; the same schedule
//           is answered by Model.ConvBuf (driver `buf`) and compared.
//   nest  — one goroutine: the conversion of argument `slot` of the outer call makes a complete inner
//           call of the same callee (depth 1..3) — a re-entrant history.
//   body  — the Go code of the callee calls the same callee again before it returns.
//   free  — 2..16 goroutines calling freely (no gates), thousands of calls.
//   spawn — a script: spawn()ed closures call the same registered functions and one shared object's
//           method and compare (===) what came back with what they passed.
//
// Oracle (independent of the model): every argument tuple identifies its caller in EVERY position; the Go
// code logs what it received and renders it into its result; per call: Go received exactly what this
// caller passed (`conc:in@…`), the caller got exactly what Go returned for it (`conc:out@…`), nothing
// was refused or panicked (`conc:refused@…`, `conc:panic@…`).
package c17

import (
	"fmt"
	"reflect"
	"sort"
	"strconv"
	"strings"
	"sync"
	"time"

	"github.com/php-any/origami/data"
	"github.com/php-any/origami/runtime"
)

type concCase struct {
	Kind    string `json:"kind"`
	Route   string `json:"route"`
	Callee  string `json:"callee"`
	Callers int    `json:"callers,omitempty"`
	Sched   []int  `json:"sched,omitempty"`
	Slot    int    `json:"slot,omitempty"`
	Depth   int    `json:"depth,omitempty"`
	Rounds  int    `json:"rounds,omitempty"`
}

func (c *concCase) String() string {
	return fmt.Sprintf("conc route=%s callee=%s callers=%d sched=%v slot=%d depth=%d rounds=%d", c.Route, c.Callee, c.Callers, c.Sched, c.Slot, c.Depth, c.Rounds)
}

// ------------------------------------------------------------ the Go side

// Cx / Cv: struct types whose methods render what they received
type Cx struct{ n int }
type Cv struct{ N int }

func (x *Cx) One(s string) string                    { return concSeen("Cx.One", s) }
func (x *Cx) Pair(a int64, s string) string          { return concSeen("Cx.Pair", a, s) }
func (x *Cx) Tri(n int, s string, f float64) string  { return concSeen("Cx.Tri", n, s, f) }
func (x Cv) Pair(s myStr, a myInt64) string          { return concSeen("Cv.Pair", s, a) }
func (x Cv) Quad(f float64, a int, s string, b int64) string { return concSeen("Cv.Quad", f, a, s, b) }

type concCallee struct {
	name   string
	params []string
	class  string // "" = function
	method string
	res    string // string (rendering of everything received) | int64 | float64 (argument 0 handed back)
}

var concCallees = []concCallee{
	{name: "cf1", params: []string{"int64"}, res: "int64"},
	{name: "cf2", params: []string{"int64", "string"}, res: "string"},
	{name: "cf3", params: []string{"int", "string", "float64"}, res: "string"},
	{name: "cf4", params: []string{"myInt64", "myStr", "float64", "int"}, res: "string"},
	{name: "cff", params: []string{"float64", "string"}, res: "float64"},
	{name: "Cx.One", params: []string{"string"}, class: "Cx", method: "One", res: "string"},
	{name: "Cx.Pair", params: []string{"int64", "string"}, class: "Cx", method: "Pair", res: "string"},
	{name: "Cx.Tri", params: []string{"int", "string", "float64"}, class: "Cx", method: "Tri", res: "string"},
	{name: "Cv.Pair", params: []string{"myStr", "myInt64"}, class: "Cv", method: "Pair", res: "string"},
	{name: "Cv.Quad", params: []string{"float64", "int", "string", "int64"}, class: "Cv", method: "Quad", res: "string"},
}

func concCalleeByName(n string) *concCallee {
	for i := range concCallees {
		if concCallees[i].name == n {
			return &concCallees[i]
		}
	}
	return nil
}

var concLog struct {
	sync.Mutex
	seen map[string]int
	hook func(callee string, first string) // body route: re-enter before returning
}

func renderGo(v reflect.Value) string {
	switch {
	case v.Kind() == reflect.String:
		return v.String()
	case v.CanInt():
		return strconv.FormatInt(v.Int(), 10)
	case v.CanFloat():
		return strconv.FormatFloat(v.Float(), 'f', -1, 64)
	}
	return fmt.Sprint(v.Interface())
}

func concSeenV(callee string, args []reflect.Value) string {
	parts := make([]string, len(args))
	for i, a := range args {
		parts[i] = renderGo(a)
	}
	r := strings.Join(parts, "|")
	concLog.Lock()
	if concLog.seen != nil {
		concLog.seen[callee+"#"+r]++
	}
	hook := concLog.hook
	concLog.Unlock()
	if hook != nil && len(parts) > 0 {
		hook(callee, parts[0])
	}
	return r
}

func concSeen(callee string, args ...any) string {
	vs := make([]reflect.Value, len(args))
	for i, a := range args {
		vs[i] = reflect.ValueOf(a)
	}
	return concSeenV(callee, vs)
}

// the values caller g passes in round r
func concTag(g, r int) int { return (g+1)*1000000 + r }

func concArg(ty string, k, slot int) (data.Value, string) {
	switch typeByName[ty].T.Kind() {
	case reflect.String:
		s := fmt.Sprintf("w%d-%d", k, slot)
		return data.NewStringValue(s), s
	case reflect.Float64:
		f := float64(k) + 0.5
		return data.NewFloatValue(f), strconv.FormatFloat(f, 'f', -1, 64)
	default:
		return data.NewIntValue(k), strconv.Itoa(k)
	}
}

// which caller a rendered received value belongs to (-1 = none of ours)
func concOwner(rendered string) int {
	s := strings.TrimPrefix(rendered, "w")
	if i := strings.IndexAny(s, "-."); i >= 0 {
		s = s[:i]
	}
	k, err := strconv.Atoi(s)
	if err != nil || k < 1000000 {
		return -1
	}
	return k/1000000 - 1
}

// gateVal: a script value whose accessor reports to the scheduler before it answers
type gateVal struct {
	v    data.Value
	hook func()
	used bool
}

func (g *gateVal) fire() {
	if g.hook != nil && !g.used {
		g.used = true
		g.hook()
	}
}
func (g *gateVal) GetValue(ctx data.Context) (data.GetValue, data.Control) { return g, nil }
func (g *gateVal) AsString() string                                         { g.fire(); return g.v.AsString() }
func (g *gateVal) AsInt() (int, error) {
	g.fire()
	if a, ok := g.v.(data.AsInt); ok {
		return a.AsInt()
	}
	return 0, fmt.Errorf("not an int")
}
func (g *gateVal) AsFloat() (float64, error) {
	g.fire()
	if a, ok := g.v.(data.AsFloat); ok {
		return a.AsFloat()
	}
	return 0, fmt.Errorf("not a float")
}

// ------------------------------------------------------------ the VM side

type concEnv struct {
	*env
	base    data.Context
	targets map[string]*concTarget
}

type concTarget struct {
	cc   *concCallee
	vars func() []data.Variable
	call func(ctx data.Context) (data.GetValue, data.Control)
}

func (h *harness) concEnv() *concEnv {
	e := &concEnv{env: newEnv(), targets: map[string]*concTarget{}}
	e.base = runtime.NewContext(e.VM)
	objs := map[string]data.ClassStmt{}
	for i := range concCallees {
		cc := &concCallees[i]
		if cc.class == "" {
			var in []reflect.Type
			for _, p := range cc.params {
				in = append(in, typeByName[p].T)
			}
			out := typeByName[cc.res].T
			name, res := cc.name, cc.res
			fn := reflect.MakeFunc(reflect.FuncOf(in, []reflect.Type{out}, false), func(args []reflect.Value) []reflect.Value {
				r := concSeenV(name, args)
				switch res {
				case "string":
					return []reflect.Value{reflect.ValueOf(r)}
				default:
					return []reflect.Value{args[0].Convert(out)}
				}
			})
			if ctl := e.Raw.RegisterFunction(cc.name, fn.Interface()); ctl != nil {
				panic("RegisterFunction: " + ctl.AsString())
			}
			f, ok := e.Raw.GetFunc(cc.name)
			if !ok {
				panic("GetFunc " + cc.name)
			}
			e.targets[cc.name] = &concTarget{cc: cc, vars: f.GetVariables, call: f.Call}
			continue
		}
		obj := objs[cc.class]
		if obj == nil {
			var inst any = &Cx{}
			if cc.class == "Cv" {
				inst = &Cv{}
			}
			if ctl := e.Raw.RegisterReflectClass(cc.class, inst); ctl != nil {
				panic("RegisterReflectClass: " + ctl.AsString())
			}
			cls, ok := e.Raw.GetClass(cc.class)
			if !ok {
				panic("GetClass " + cc.class)
			}
			// `new Cx()`: ONE object, its methods are what every caller shares
			gv, ctl := cls.(data.GetValue).GetValue(e.base)
			if ctl != nil {
				panic("new " + cc.class + ": " + ctl.AsString())
			}
			obj = gv.(*data.ClassValue).Class
			objs[cc.class] = obj
		}
		m, ok := obj.GetMethod(cc.method)
		if !ok {
			panic("GetMethod " + cc.name)
		}
		e.targets[cc.name] = &concTarget{cc: cc, vars: m.GetVariables, call: m.Call}
	}
	return e
}

type concResult struct {
	passed   []string // rendering of what the caller passed, per slot
	got      string   // what came back, rendered
	outcome  string   // ok | throw | go-panic
	detail   string
}

// one direct call: bind the values in a fresh call context, call, render the answer
func (t *concTarget) invoke(base data.Context, vals []data.Value) (got, outcome, detail string) {
	defer func() {
		if r := recover(); r != nil {
			outcome, detail = "go-panic", firstLineOf(fmt.Sprint(r))
		}
	}()
	vars := t.vars()
	ctx := base.CreateContext(vars)
	for i, v := range vals {
		if i < len(vars) {
			ctx.SetVariableValue(vars[i], v)
		}
	}
	ret, ctl := t.call(ctx)
	if ctl != nil {
		return "", "throw", firstLineOf(ctl.AsString())
	}
	if ret == nil {
		return "", "ok", ""
	}
	v, _ := ret.GetValue(nil)
	switch x := v.(type) {
	case *data.StringValue:
		return x.Value, "ok", ""
	case *data.IntValue:
		return strconv.Itoa(x.Value), "ok", ""
	case *data.FloatValue:
		return strconv.FormatFloat(x.Value, 'f', -1, 64), "ok", ""
	}
	return fmt.Sprintf("%T", v), "ok", ""
}

func firstLineOf(s string) string {
	if i := strings.IndexByte(s, '\n'); i >= 0 {
		return s[:i]
	}
	return s
}

// what the caller should get back when Go received exactly `passed`
func (cc *concCallee) expect(passed []string) string {
	if cc.res == "string" {
		return strings.Join(passed, "|")
	}
	return passed[0]
}

// judge one finished call; seen = the Go-side log of the run
func (h *harness) concJudge(c *concCase, cc *concCallee, who int, r concResult, seen map[string]int) bool {
	want := cc.expect(r.passed)
	switch {
	case r.outcome == "go-panic":
		h.concViolation("conc:panic@"+cc.name, fmt.Sprintf("caller %d of %s: Go panic %q while other calls of the same callee were in flight", who, cc.name, r.detail), c)
	case r.outcome == "throw":
		h.concViolation("conc:refused@"+cc.name, fmt.Sprintf("caller %d of %s passed values of its parameters' kinds (%s), yet the call was refused: %s", who, cc.name, strings.Join(r.passed, ", "), r.detail), c)
	case seen[cc.name+"#"+strings.Join(r.passed, "|")] == 0:
		h.concViolation("conc:in@"+cc.name, fmt.Sprintf("caller %d of %s passed (%s); the Go code never received that argument list — the caller got %q back (a value the calling script never passed reached Go)", who, cc.name, strings.Join(r.passed, ", "), r.got), c)
	case seen[cc.name+"#"+strings.Join(r.passed, "|")] > 1:
		h.concViolation("conc:in@"+cc.name, fmt.Sprintf("caller %d of %s passed (%s) once; the Go code received that argument list %d times — another call's Go code got this caller's values", who, cc.name, strings.Join(r.passed, ", "), seen[cc.name+"#"+strings.Join(r.passed, "|")]), c)
	case r.got != want:
		h.concViolation("conc:out@"+cc.name, fmt.Sprintf("caller %d of %s passed (%s), the Go code received exactly that list once and returned %q, but the caller got %q", who, cc.name, strings.Join(r.passed, ", "), want, r.got), c)
	default:
		return true
	}
	return false
}

func (h *harness) concViolation(sig, what string, c *concCase) {
	key := sig + "/" + c.Route
	if h.seqReported[key] {
		return
	}
	h.seqReported[key] = true
	h.c.Violation(sig, what+" — "+c.String(), c)
}

// ------------------------------------------------------------ route gate

// run the schedule: caller ids, caller c occurring arity(callee) times; occurrence j of c = "c converts its
// argument j and goes on until its next conversion (or, after the last one, through reflect.Value.Call to the end)"
func (h *harness) concGate(e *concEnv, c *concCase) {
	t := e.targets[c.Callee]
	if t == nil {
		h.c.Note("conc: unknown callee %s", c.Callee)
		return
	}
	cc := t.cc
	n := len(cc.params)
	callers := c.Callers
	type ev struct {
		who  int
		done bool
	}
	events := make(chan ev)
	release := make([]chan struct{}, callers)
	results := make([]concResult, callers)
	concLog.Lock()
	concLog.seen = map[string]int{}
	concLog.hook = nil
	concLog.Unlock()
	for g := 0; g < callers; g++ {
		release[g] = make(chan struct{})
		g := g
		vals := make([]data.Value, n)
		results[g].passed = make([]string, n)
		for i, p := range cc.params {
			v, s := concArg(p, concTag(g, 0), i)
			results[g].passed[i] = s
			vals[i] = &gateVal{v: v, hook: func() {
				events <- ev{who: g}
				<-release[g]
			}}
		}
		go func() {
			got, oc, det := t.invoke(e.base, vals)
			results[g].got, results[g].outcome, results[g].detail = got, oc, det
			events <- ev{who: g, done: true}
		}()
	}
	// every caller arrives at its first conversion (or finishes: arity 0)
	waiting := map[int]bool{}
	finished := map[int]bool{}
	timeout := time.After(20 * time.Second)
	arrive := func() bool {
		select {
		case x := <-events:
			if x.done {
				finished[x.who] = true
			} else {
				waiting[x.who] = true
			}
			return true
		case <-timeout:
			return false
		}
	}
	for len(waiting)+len(finished) < callers {
		if !arrive() {
			h.c.Note("conc: callers did not reach their first conversion (machinery)")
			return
		}
	}
	stuck := false
	for _, who := range c.Sched {
		if who < 0 || who >= callers || !waiting[who] {
			continue // a refused / finished caller has no further step
		}
		delete(waiting, who)
		release[who] <- struct{}{}
		if !arrive() {
			stuck = true
			break
		}
	}
	// let whatever still waits run to its end
	for !stuck && len(finished) < callers {
		for who := range waiting {
			delete(waiting, who)
			release[who] <- struct{}{}
			break
		}
		if !arrive() {
			stuck = true
		}
	}
	if stuck {
		h.c.Note("conc: schedule %v of %s did not finish (machinery)", c.Sched, c.Callee)
		return
	}
	concLog.Lock()
	seen := concLog.seen
	concLog.seen = nil
	concLog.Unlock()
	h.c.Eval(fmt.Sprintf("conc|gate|%s|%d|%v", c.Callee, callers, c.Sched), true)
	h.c.Hit("conc:route:gate")
	h.c.Hit(fmt.Sprintf("conc:gate:callers=%d", callers))
	h.c.Hit("conc:callee:" + c.Callee)
	ok := true
	for g := 0; g < callers; g++ {
		h.c.Hit("conc:outcome:" + results[g].outcome)
		if !h.concJudge(c, cc, g, results[g], seen) {
			ok = false
		}
	}
	h.c.SampleSome(map[string]any{"conc": c.String(), "caller0": results[0].got}, 97)
	// correspondence with Model.ConvBuf: who owns each value a caller's Go code received
	if h.m != nil && cc.res == "string" {
		var msched []string
		left := map[int]int{}
		for _, who := range c.Sched {
			if who < 0 || who >= callers || left[who] >= n {
				continue
			}
			left[who]++
			msched = append(msched, strconv.Itoa(who))
			if left[who] == n {
				msched = append(msched, strconv.Itoa(who)) // the last conversion runs on into reflect.Value.Call
			}
		}
		complete := true
		for g := 0; g < callers; g++ {
			if left[g] != n {
				complete = false
			}
		}
		if complete {
			ans, err := h.m.Ask(fmt.Sprintf("buf\tnow\t%d\t%s", n, strings.Join(msched, ",")))
			if err != nil {
				h.c.Note("model failed: %v", err)
				h.m = nil
			} else {
				var order []int
				seenC := map[int]bool{}
				for _, who := range c.Sched {
					if who >= 0 && who < callers && !seenC[who] {
						seenC[who] = true
						order = append(order, who)
					}
				}
				var parts []string
				for _, g := range order {
					var vs []string
					if results[g].outcome == "ok" {
						for i, p := range strings.Split(results[g].got, "|") {
							vs = append(vs, fmt.Sprintf("%d.%d", concOwner(p), i))
						}
					}
					parts = append(parts, fmt.Sprintf("%d:%s", g, strings.Join(vs, ",")))
				}
				impl := strings.Join(parts, " ")
				ans = byCaller(ans)
				if impl = byCaller(impl); impl != ans {
					h.c.Mismatch(c, short(impl), short(ans), "calls in flight: who owns the values each caller's Go code received vs Model.ConvBuf.run (bufPolicy callPathWrites)")
				}
			}
		}
	}
	_ = ok
}

// all interleavings of callers with `n` steps each
func interleavings(callers, n int) [][]int {
	var out [][]int
	left := make([]int, callers)
	for i := range left {
		left[i] = n
	}
	var cur []int
	var rec func()
	rec = func() {
		done := true
		for c := 0; c < callers; c++ {
			if left[c] > 0 {
				done = false
				left[c]--
				cur = append(cur, c)
				rec()
				cur = cur[:len(cur)-1]
				left[c]++
			}
		}
		if done {
			out = append(out, append([]int(nil), cur...))
		}
	}
	rec()
	return out
}

// ------------------------------------------------------------ routes nest / body

// nest: the conversion of argument `slot` of call d makes the complete call d+1 (depth levels)
func (h *harness) concNest(e *concEnv, c *concCase) {
	t := e.targets[c.Callee]
	if t == nil {
		return
	}
	cc := t.cc
	n := len(cc.params)
	depth := c.Depth
	results := make([]concResult, depth+1)
	concLog.Lock()
	concLog.seen = map[string]int{}
	concLog.hook = nil
	concLog.Unlock()
	var level func(d int)
	level = func(d int) {
		vals := make([]data.Value, n)
		results[d].passed = make([]string, n)
		for i, p := range cc.params {
			v, s := concArg(p, concTag(d, 0), i)
			results[d].passed[i] = s
			vals[i] = v
			if i == c.Slot && d < depth {
				vals[i] = &gateVal{v: v, hook: func() { level(d + 1) }}
			}
		}
		results[d].got, results[d].outcome, results[d].detail = t.invoke(e.base, vals)
	}
	if c.Route == "body" {
		// the Go code of call d (recognised by its first argument) makes call d+1 before it returns
		concLog.hook = func(callee, first string) {
			if callee != cc.name {
				return
			}
			if d := concOwner(first); d >= 0 && d < depth && results[d+1].passed == nil {
				level(d + 1)
			}
		}
		saved := c.Slot
		c.Slot = -1
		level(0)
		c.Slot = saved
	} else {
		level(0)
	}
	concLog.Lock()
	seen := concLog.seen
	concLog.seen, concLog.hook = nil, nil
	concLog.Unlock()
	h.c.Eval(fmt.Sprintf("conc|%s|%s|%d|%d", c.Route, c.Callee, c.Slot, depth), true)
	h.c.Hit("conc:route:" + c.Route)
	h.c.Hit("conc:callee:" + c.Callee)
	for d := 0; d <= depth; d++ {
		if results[d].passed == nil {
			h.c.Note("conc: %s level %d of %s was never made (machinery)", c.Route, d, c.Callee)
			continue
		}
		h.c.Hit("conc:outcome:" + results[d].outcome)
		h.concJudge(c, cc, d, results[d], seen)
	}
	// correspondence: outer writes slots 0..slot-1, the inner call runs completely, the outer goes on
	if h.m != nil && cc.res == "string" && c.Route == "nest" {
		var build func(d int) []string
		build = func(d int) []string {
			var s []string
			for i := 0; i <= n; i++ {
				if i == c.Slot && d < depth {
					s = append(s, build(d+1)...)
				}
				s = append(s, strconv.Itoa(d))
			}
			return s
		}
		ans, err := h.m.Ask(fmt.Sprintf("buf\tnow\t%d\t%s", n, strings.Join(build(0), ",")))
		if err == nil {
			var parts []string
			for d := 0; d <= depth; d++ {
				var vs []string
				for i, p := range strings.Split(results[d].got, "|") {
					vs = append(vs, fmt.Sprintf("%d.%d", concOwner(p), i))
				}
				parts = append(parts, fmt.Sprintf("%d:%s", d, strings.Join(vs, ",")))
			}
			ans = byCaller(ans)
			if impl := byCaller(strings.Join(parts, " ")); impl != ans {
				h.c.Mismatch(c, short(impl), short(ans), "re-entrant calls: who owns the values each level's Go code received vs Model.ConvBuf.run")
			}
		}
	}
}

// ------------------------------------------------------------ route free

func (h *harness) concFree(e *concEnv, c *concCase) {
	t := e.targets[c.Callee]
	if t == nil {
		return
	}
	cc := t.cc
	n := len(cc.params)
	concLog.Lock()
	concLog.seen = map[string]int{}
	concLog.hook = nil
	concLog.Unlock()
	type bad struct {
		who int
		r   concResult
	}
	bads := make([][]bad, c.Callers)
	var wg sync.WaitGroup
	start := make(chan struct{})
	for g := 0; g < c.Callers; g++ {
		wg.Add(1)
		go func(g int) {
			defer wg.Done()
			<-start
			for r := 0; r < c.Rounds; r++ {
				vals := make([]data.Value, n)
				res := concResult{passed: make([]string, n)}
				for i, p := range cc.params {
					vals[i], res.passed[i] = concArg(p, concTag(g, r), i)
				}
				res.got, res.outcome, res.detail = t.invoke(e.base, vals)
				if res.outcome != "ok" || res.got != cc.expect(res.passed) {
					if len(bads[g]) < 3 {
						bads[g] = append(bads[g], bad{g, res})
					}
				}
			}
		}(g)
	}
	close(start)
	wg.Wait()
	concLog.Lock()
	seen := concLog.seen
	concLog.seen = nil
	concLog.Unlock()
	h.c.Eval(fmt.Sprintf("conc|free|%s|%d|%d", c.Callee, c.Callers, c.Rounds), true)
	h.c.Hit("conc:route:free")
	h.c.HitN("conc:free:calls", c.Callers*c.Rounds)
	h.c.Hit(fmt.Sprintf("conc:free:callers=%d", c.Callers))
	h.c.Hit("conc:callee:" + c.Callee)
	// every argument list that was passed must have been received exactly once
	if len(seen) != c.Callers*c.Rounds {
		for g := 0; g < c.Callers && len(bads[g]) == 0; g++ {
			for r := 0; r < c.Rounds; r++ {
				res := concResult{passed: make([]string, n), outcome: "ok"}
				for i, p := range cc.params {
					_, res.passed[i] = concArg(p, concTag(g, r), i)
				}
				if seen[cc.name+"#"+strings.Join(res.passed, "|")] != 1 {
					res.got = "(not recorded)"
					bads[g] = append(bads[g], bad{g, res})
					break
				}
			}
		}
	}
	for g := range bads {
		for _, b := range bads[g] {
			h.concJudge(c, cc, b.who, b.r, seen)
		}
	}
}

// ------------------------------------------------------------ route spawn

func (h *harness) concSpawn(e *concEnv, c *concCase) {
	concLog.Lock()
	concLog.seen = nil
	concLog.hook = nil
	concLog.Unlock()
	src := fmt.Sprintf(`<?php
function worker($id, $rounds, $done, $box, $bv) {
    return function () use ($id, $rounds, $done, $box, $bv) {
        $bad = 0;
        $first = "";
        for ($i = 0; $i < $rounds; $i++) {
            $k = ($id + 1) * 1000000 + $i;
            $s = "w" . $k . "-1";
            $r = cf1($k);
            if ($r !== $k) { $bad++; if ($first === "") { $first = "cf1 passed " . $k . " got " . $r; } }
            $want = $k . "|" . $s . "|" . $k . ".5";
            $got = cf3($k, $s, $k + 0.5);
            if ($got !== $want) { $bad++; if ($first === "") { $first = "cf3 passed " . $want . " Go saw " . $got; } }
            $want = $k . "|" . $s;
            $got = $box->Pair($k, $s);
            if ($got !== $want) { $bad++; if ($first === "") { $first = "Cx.Pair passed " . $want . " Go saw " . $got; } }
            $want = $s . "|" . $k;
            $got = $bv->Pair($s, $k);
            if ($got !== $want) { $bad++; if ($first === "") { $first = "Cv.Pair passed " . $want . " Go saw " . $got; } }
        }
        if ($first !== "") { echo "MISMATCH worker " . $id . ": " . $first . "\n"; }
        $done->send($bad);
    };
}
$workers = %d;
$rounds  = %d;
$done    = new Channel($workers);
$box     = new Cx();
$bv      = new Cv();
for ($w = 0; $w < $workers; $w++) { spawn(worker($w, $rounds, $done, $box, $bv)); }
$total = 0;
for ($w = 0; $w < $workers; $w++) { $total = $total + $done->receive(); }
echo "TOTAL_BAD=", $total, "\n";
`, c.Callers, c.Rounds)
	o := e.RunSource(src, "/verif-c17-spawn.php")
	h.c.Eval(fmt.Sprintf("conc|spawn|%d|%d", c.Callers, c.Rounds), true)
	h.c.Hit("conc:route:spawn")
	h.c.HitN("conc:spawn:calls", 4*c.Callers*c.Rounds)
	switch {
	case o.Kind == "go-panic":
		h.concViolation("conc:panic@spawn", "Go panic while spawn()ed closures call the same registered callees: "+o.Detail, c)
	case o.Kind != "ok":
		h.c.Mismatch(c, o.Kind+": "+o.Detail, "ok", "spawn script did not run (machinery)")
	case !strings.Contains(o.Out, "TOTAL_BAD=0\n"):
		first := ""
		for _, l := range strings.Split(o.Out, "\n") {
			if strings.HasPrefix(l, "MISMATCH") {
				first = l
				break
			}
		}
		if first == "" && !strings.Contains(o.Out, "TOTAL_BAD=") {
			h.c.Mismatch(c, short(o.Out)+" kind="+o.Kind+" thrown="+short(strings.Join(e.Thrown, " / ")), "TOTAL_BAD=0", "spawn script printed no total (machinery)")
			return
		}
		h.concViolation("conc:in@spawn", "spawn()ed closures calling the same registered functions / the same object's method got back values computed from arguments they never passed: "+short(first)+" "+short(lastLine(o.Out)), c)
	}
}

// the driver lists callers in the order of their first step; compare sorted by caller
func byCaller(s string) string {
	ps := strings.Fields(s)
	sort.Slice(ps, func(i, j int) bool {
		a, _ := strconv.Atoi(strings.SplitN(ps[i], ":", 2)[0])
		b, _ := strconv.Atoi(strings.SplitN(ps[j], ":", 2)[0])
		return a < b
	})
	return strings.Join(ps, " ")
}

func lastLine(s string) string {
	ls := strings.Split(strings.TrimSpace(s), "\n")
	return ls[len(ls)-1]
}

// ------------------------------------------------------------ the stream

func (h *harness) doConc(e *concEnv, c *concCase) {
	c.Kind = "conc"
	if e == nil {
		e = h.concEnv()
	}
	switch c.Route {
	case "gate":
		h.concGate(e, c)
	case "nest", "body":
		h.concNest(e, c)
	case "free":
		h.concFree(e, c)
	case "spawn":
		h.concSpawn(e, c)
	}
}

func (h *harness) streamConc() (cases int) {
	e := h.concEnv()
	run := func(c *concCase) {
		h.doConc(e, c)
		cases++
	}
	names := make([]string, 0, len(concCallees))
	for _, cc := range concCallees {
		names = append(names, cc.name)
	}
	sort.Strings(names)
	for _, name := range names {
		cc := concCalleeByName(name)
		n := len(cc.params)
		// every interleaving of two callers; of three callers up to arity 2
		for _, s := range interleavings(2, n) {
			run(&concCase{Route: "gate", Callee: name, Callers: 2, Sched: s})
		}
		if n <= 2 {
			for _, s := range interleavings(3, n) {
				run(&concCase{Route: "gate", Callee: name, Callers: 3, Sched: s})
			}
		}
		// seeded schedules of 3..16 callers
		for k := 0; k < h.c.N(6, 60); k++ {
			callers := h.c.Rand.Range(3, 16)
			var s []int
			for g := 0; g < callers; g++ {
				for i := 0; i < n; i++ {
					s = append(s, g)
				}
			}
			for i := len(s) - 1; i > 0; i-- {
				j := h.c.Rand.Intn(i + 1)
				s[i], s[j] = s[j], s[i]
			}
			run(&concCase{Route: "gate", Callee: name, Callers: callers, Sched: s})
		}
		// re-entrant: at every slot, depth 1..3; from the Go code, depth 1..2
		for slot := 0; slot < n; slot++ {
			for depth := 1; depth <= 3; depth++ {
				run(&concCase{Route: "nest", Callee: name, Slot: slot, Depth: depth})
			}
		}
		for depth := 1; depth <= 2; depth++ {
			run(&concCase{Route: "body", Callee: name, Depth: depth})
		}
		// free-running goroutines
		for _, callers := range []int{2, 4, 8, 16} {
			run(&concCase{Route: "free", Callee: name, Callers: callers, Rounds: h.c.N(400, 8000)})
		}
	}
	for _, callers := range []int{2, 4, 8} {
		// a fresh VM per script: the script declares a function
		h.doConc(nil, &concCase{Route: "spawn", Callers: callers, Rounds: h.c.N(150, 3000)})
		cases++
	}
	return cases
}
