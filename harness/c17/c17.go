// Package c17: correspondence + violation search for C17 (values cross the Go
// boundary unchanged in both directions).
//
// Real code driven: runtime.VM.RegisterFunction (functions built with
// reflect.FuncOf/MakeFunc for every signature), runtime.VM.RegisterReflectClass
// (methods of the fixed struct Bag), utils.Convert[T] and utils.ConvertFromIndex[T],
// every call made by a script run through vh.NewEnv().RunSource under recover.
// Values are captured on the Go side (what the function received) and on the
// script side (what the call returned).
//
// Comparands: the Lean model driver vm_c17 (Model.Conv instantiated with the
// regenerated kind tables) and, for the property itself, an oracle that knows
// nothing of the model: "captured == passed, returned == produced, never a Go
// panic, a refused call is a catchable throw and the Go function did not run".
package c17

import (
	"encoding/hex"
	"encoding/json"
	"fmt"
	"math"
	"os"
	"reflect"
	"regexp"
	"strconv"
	"strings"
	"time"

	"github.com/php-any/origami/data"
	"github.com/php-any/origami/node"
	"github.com/php-any/origami/utils"

	"verif/harness/vh"
)

func init() { vh.Register("C17", Run) }

// ------------------------------------------------------------ Go types

type myInt int
type myInt64 int64
type myStr string
type myBool bool
type myF64 float64
type myInt8 int8
type myU16 uint16

type typeInfo struct {
	Name  string       // harness name, used in replay files and signatures
	Model string       // encoding for the model driver: kind or kind#name
	T     reflect.Type //
}

var allTypes = []typeInfo{
	{"string", "string", reflect.TypeOf("")},
	{"bool", "bool", reflect.TypeOf(false)},
	{"int", "int", reflect.TypeOf(int(0))},
	{"int64", "int64", reflect.TypeOf(int64(0))},
	{"float64", "float64", reflect.TypeOf(float64(0))},
	{"int8", "int8", reflect.TypeOf(int8(0))},
	{"int16", "int16", reflect.TypeOf(int16(0))},
	{"int32", "int32", reflect.TypeOf(int32(0))},
	{"uint", "uint", reflect.TypeOf(uint(0))},
	{"uint8", "uint8", reflect.TypeOf(uint8(0))},
	{"uint16", "uint16", reflect.TypeOf(uint16(0))},
	{"uint32", "uint32", reflect.TypeOf(uint32(0))},
	{"uint64", "uint64", reflect.TypeOf(uint64(0))},
	{"float32", "float32", reflect.TypeOf(float32(0))},
	{"myInt", "int#2", reflect.TypeOf(myInt(0))},
	{"myInt64", "int64#3", reflect.TypeOf(myInt64(0))},
	{"myStr", "string#4", reflect.TypeOf(myStr(""))},
	{"myBool", "bool#5", reflect.TypeOf(myBool(false))},
	{"myF64", "float64#6", reflect.TypeOf(myF64(0))},
	{"myInt8", "int8#7", reflect.TypeOf(myInt8(0))},
	{"myU16", "uint16#8", reflect.TypeOf(myU16(0))},
	{"Duration", "int64#1", reflect.TypeOf(time.Duration(0))},
	{"[]int", "other#10", reflect.TypeOf([]int(nil))},
	{"any", "other#11", reflect.TypeOf((*any)(nil)).Elem()},
	{"*int", "other#12", reflect.TypeOf((*int)(nil))},
	{"map", "other#13", reflect.TypeOf(map[string]int(nil))},
	{"struct", "other#14", reflect.TypeOf(struct{ A int }{})},
}

var typeByName = func() map[string]typeInfo {
	m := map[string]typeInfo{}
	for _, t := range allTypes {
		m[t.Name] = t
	}
	return m
}()

var supportedNames = []string{"string", "bool", "int", "int64", "float64"}

func isSupportedKind(k reflect.Kind) bool {
	switch k {
	case reflect.String, reflect.Bool, reflect.Int, reflect.Int64, reflect.Float64:
		return true
	}
	return false
}

func isIntKind(k reflect.Kind) bool {
	return k >= reflect.Int && k <= reflect.Uint64
}
func isSignedKind(k reflect.Kind) bool { return k >= reflect.Int && k <= reflect.Int64 }

// ------------------------------------------------------------ script values

// sval encoding (shared with the model driver): n · b0 · b1 · i<dec> · f<hex16> · s<hex>
type sval string

func svInt(n int64) sval      { return sval("i" + strconv.FormatInt(n, 10)) }
func svFloat(b uint64) sval   { return sval(fmt.Sprintf("f%016x", b)) }
func svStr(s string) sval     { return sval("s" + hex.EncodeToString([]byte(s))) }
func svBool(b bool) sval      { if b { return "b1" }; return "b0" }
func (s sval) class() byte    { return s[0] }
func (s sval) intVal() int64  { n, _ := strconv.ParseInt(string(s[1:]), 10, 64); return n }
func (s sval) bits() uint64   { n, _ := strconv.ParseUint(string(s[1:]), 16, 64); return n }
func (s sval) str() string    { b, _ := hex.DecodeString(string(s[1:])); return string(b) }
func (s sval) boolVal() bool  { return s == "b1" }

func (s sval) value() data.Value {
	switch s.class() {
	case 'n':
		return data.NewNullValue()
	case 'b':
		return data.NewBoolValue(s.boolVal())
	case 'i':
		return data.NewIntValue(int(s.intVal()))
	case 'f':
		return data.NewFloatValue(math.Float64frombits(s.bits()))
	case 's':
		return data.NewStringValue(s.str())
	}
	panic("bad sval " + string(s))
}

// what the script holds, in the model's output syntax (strings as literal terms)
func encScript(v data.GetValue) string {
	switch x := v.(type) {
	case nil:
		return "nil"
	case *data.NullValue:
		return "n"
	case *data.BoolValue:
		return string(svBool(x.Value))
	case *data.IntValue:
		return string(svInt(int64(x.Value)))
	case *data.FloatValue:
		return string(svFloat(math.Float64bits(x.Value)))
	case *data.StringValue:
		return "sL" + hex.EncodeToString([]byte(x.Value))
	}
	return fmt.Sprintf("?%T", v)
}

// a Go value in the model's goval syntax
func encGo(ti string, v reflect.Value) string {
	switch {
	case isSignedKind(v.Kind()):
		return ti + ":i" + strconv.FormatInt(v.Int(), 10)
	case isIntKind(v.Kind()):
		return ti + ":i" + strconv.FormatUint(v.Uint(), 10)
	case v.Kind() == reflect.Float32 || v.Kind() == reflect.Float64:
		return ti + fmt.Sprintf(":f%016x", math.Float64bits(v.Float()))
	case v.Kind() == reflect.Bool:
		if v.Bool() {
			return ti + ":b1"
		}
		return ti + ":b0"
	case v.Kind() == reflect.String:
		return ti + ":sL" + hex.EncodeToString([]byte(v.String()))
	}
	return ti + ":o"
}

// for requests (`const` bodies): strings without the L marker
func encGoReq(ti string, v reflect.Value) string {
	s := encGo(ti, v)
	return strings.Replace(s, ":sL", ":s", 1)
}

// ------------------------------------------------------------ pools

var intPool = []int64{0, 1, -1, 2, 42, 127, 128, -128, -129, 255, 256, 32767, 32768, -32768, -32769, 65535, 65536,
	2147483647, 2147483648, -2147483648, -2147483649, 4294967295, 4294967296, 1 << 53, 1<<53 + 1, -(1 << 53) - 1,
	math.MaxInt64, math.MaxInt64 - 1, math.MinInt64, math.MinInt64 + 1}

var floatPool = []uint64{
	0x0000000000000000, 0x8000000000000000, // ±0
	0x3ff0000000000000, 0xbff0000000000000, // ±1
	0x3ff8000000000000, 0x3fb999999999999a, // 1.5, 0.1
	0x0000000000000001, 0x8000000000000001, 0x000fffffffffffff, 0x0010000000000000, // subnormals, min normal
	0x7fefffffffffffff, 0xffefffffffffffff, // ±MaxFloat64
	0x7ff0000000000000, 0xfff0000000000000, // ±Inf
	0x7ff8000000000000, 0x7ff8000000000001, 0xfff8000000000000, // quiet NaNs
	0x47efffffe0000000, 0x47efffffe0000001, // MaxFloat32, next double (not a float32)
	0x4170000010000000,                     // 16777217 (not a float32)
	0x43e0000000000000, 0xc3e0000000000000, 0x43dfffffffffffff, // 2^63, -2^63, largest double < 2^63
	0x4024000000000000, 0xc024cccccccccccd, 0x3fe0000000000000, 0xbfe0000000000000, // 10, -10.4, 0.5, -0.5
	0x36a0000000000000, // smallest float32 subnormal 2^-149
}

var bigA = strings.Repeat("a", 65536)
var bigMixed = func() string {
	b := make([]byte, 65536)
	x := uint32(12345)
	for i := range b {
		x = x*1664525 + 1013904223
		b[i] = byte(x >> 24)
	}
	return string(b)
}()

var strPool = []string{"", "a", "hello world", "héllo wörld", "\xff\xfe", "a\x00b", "\xe3\x80", "true", "false", "1", "0", "yes",
	"1.5", "-0", "x", " 12", "12", "1e3", "0x10", "inf", "NaN", "9223372036854775808", "'\"\\$", bigA, bigMixed}

func poolFor(class byte) []sval {
	var out []sval
	switch class {
	case 'i':
		for _, n := range intPool {
			out = append(out, svInt(n))
		}
	case 'f':
		for _, b := range floatPool {
			out = append(out, svFloat(b))
		}
	case 's':
		for _, s := range strPool {
			out = append(out, svStr(s))
		}
	case 'b':
		out = []sval{"b0", "b1"}
	case 'n':
		out = []sval{"n"}
	}
	return out
}

var allValues = func() []sval {
	var out []sval
	for _, c := range []byte{'i', 'f', 's', 'b', 'n'} {
		out = append(out, poolFor(c)...)
	}
	return out
}()

// class of script value that *is* a value of this Go kind
func classOfKind(k reflect.Kind) byte {
	switch {
	case k == reflect.String:
		return 's'
	case k == reflect.Bool:
		return 'b'
	case isIntKind(k):
		return 'i'
	case k == reflect.Float32 || k == reflect.Float64:
		return 'f'
	}
	return 0
}

// Go values a function of result type t can return (boundary pool per kind)
func goPool(t reflect.Type, r *vh.Rand) []reflect.Value {
	var out []reflect.Value
	add := func(v reflect.Value) { out = append(out, v.Convert(t)) }
	switch k := t.Kind(); {
	case k == reflect.String:
		for _, s := range strPool {
			add(reflect.ValueOf(s))
		}
	case k == reflect.Bool:
		add(reflect.ValueOf(true))
		add(reflect.ValueOf(false))
	case isSignedKind(k):
		z := reflect.New(t).Elem()
		for _, n := range intPool {
			if !z.OverflowInt(n) {
				add(reflect.ValueOf(n))
			}
		}
	case isIntKind(k):
		z := reflect.New(t).Elem()
		for _, n := range intPool {
			if n >= 0 && !z.OverflowUint(uint64(n)) {
				add(reflect.ValueOf(uint64(n)))
			}
		}
		if !z.OverflowUint(math.MaxUint64) {
			add(reflect.ValueOf(uint64(math.MaxUint64)))
			add(reflect.ValueOf(uint64(1) << 63))
		}
	case k == reflect.Float64:
		for _, b := range floatPool {
			add(reflect.ValueOf(math.Float64frombits(b)))
		}
	case k == reflect.Float32:
		for _, b := range floatPool {
			f := math.Float64frombits(b)
			if float64(float32(f)) == f || f != f {
				add(reflect.ValueOf(float32(f)))
			}
		}
		add(reflect.ValueOf(float32(0.1)))
	default:
		switch t.Kind() {
		case reflect.Slice:
			out = append(out, reflect.ValueOf([]int{1, 2}), reflect.Zero(t))
		case reflect.Interface:
			v := reflect.New(t).Elem()
			v.Set(reflect.ValueOf(7))
			out = append(out, v, reflect.Zero(t))
		case reflect.Ptr:
			x := 3
			out = append(out, reflect.ValueOf(&x), reflect.Zero(t))
		case reflect.Map:
			out = append(out, reflect.ValueOf(map[string]int{"a": 1}), reflect.Zero(t))
		default:
			out = append(out, reflect.Zero(t))
		}
	}
	return out
}

// ------------------------------------------------------------ case

type callCase struct {
	Kind   string   `json:"kind"`             // "call"
	Path   string   `json:"path"`             // fn | method
	Method string   `json:"method,omitempty"` // Bag method name (path == method)
	Params []string `json:"params"`
	Result []string `json:"results"`
	Args   []sval   `json:"args"`
	Echo   int      `json:"echo"` // >= 0: the function returns its argument #Echo as first result; -1: returns Ret
	Ret    []string `json:"ret,omitempty"` // goval encodings of the returned values (request syntax)
	Mode   string   `json:"mode,omitempty"` // how arguments reach the call: "" (arg(i)), var, lit
	retV   []reflect.Value
}

type genCase struct {
	Kind string `json:"kind"` // "gen"
	Fn   string `json:"fn"`   // convert | index
	Ty   string `json:"ty"`
	V    sval   `json:"v"`
}

// ------------------------------------------------------------ the Go side of the boundary

type sinkT struct {
	calls int
	recv  []reflect.Value
	ret   []reflect.Value
	echo  int
}

var sink sinkT

// Bag: methods registered through RegisterReflectClass. No exported fields
// (the reflective constructor would treat them as constructor parameters).
type Bag struct{ n int }

func rec(args ...any) {
	sink.calls++
	sink.recv = sink.recv[:0]
	for _, a := range args {
		sink.recv = append(sink.recv, reflect.ValueOf(a))
	}
}
func retOr[T any](echo T) T {
	if sink.echo >= 0 {
		return echo
	}
	return sink.ret[0].Interface().(T)
}

func (b *Bag) S(x string) string                     { rec(x); return retOr(x) }
func (b *Bag) B(x bool) bool                         { rec(x); return retOr(x) }
func (b *Bag) I(x int) int                           { rec(x); return retOr(x) }
func (b *Bag) I64(x int64) int64                     { rec(x); return retOr(x) }
func (b *Bag) F(x float64) float64                   { rec(x); return retOr(x) }
func (b *Bag) MI64(x myInt64) myInt64                { rec(x); return retOr(x) }
func (b *Bag) MS(x myStr) myStr                      { rec(x); return retOr(x) }
func (b *Bag) I8(x int8) int8                        { rec(x); return retOr(x) }
func (b *Bag) U32(x uint32) uint32                   { rec(x); return retOr(x) }
func (b *Bag) F32(x float32) float32                 { rec(x); return retOr(x) }
func (b *Bag) Sl(x []int) int                        { rec(x); return retOr(len(x)) }
func (b *Bag) Mix(a int64, s string, f float64) float64 { rec(a, s, f); return retOr(f) }
func (b *Bag) Mix2(a bool, i int) string             { rec(a, i); return retOr("") }
func (b *Bag) Void(i int)                            { rec(i) }
func (b *Bag) Nil() int64                            { rec(); return retOr(int64(0)) }
func (b *Bag) RU8() uint8                            { rec(); return retOr(uint8(0)) }
func (b *Bag) RF32() float32                         { rec(); return retOr(float32(0)) }
func (b *Bag) Two(i int) (int, string)               { rec(i); return retOr(i), "second" }

// Rec: exported fields are the parameters of the reflective constructor (ReflectConstructor /
// setFieldValue); the getters read them back. Judged by the oracle only (not in the Lean model).
type Rec struct {
	Name  string
	Age   int
	Big   int64
	Score float64
	Ok    bool
	ID    myInt64
}

func (r *Rec) GetName() string   { return r.Name }
func (r *Rec) GetAge() int       { return r.Age }
func (r *Rec) GetBig() int64     { return r.Big }
func (r *Rec) GetScore() float64 { return r.Score }
func (r *Rec) GetOk() bool       { return r.Ok }
func (r *Rec) GetID() myInt64    { return r.ID }

var recFields = []struct{ getter, ty string }{{"GetName", "string"}, {"GetAge", "int"}, {"GetBig", "int64"}, {"GetScore", "float64"}, {"GetOk", "bool"}, {"GetID", "myInt64"}}

type ctorCase struct {
	Kind string `json:"kind"` // "ctor"
	Args []sval `json:"args"`
}

type methodInfo struct {
	Name    string
	Params  []string
	Results []string
}

var bagMethods = []methodInfo{
	{"S", []string{"string"}, []string{"string"}}, {"B", []string{"bool"}, []string{"bool"}},
	{"I", []string{"int"}, []string{"int"}}, {"I64", []string{"int64"}, []string{"int64"}},
	{"F", []string{"float64"}, []string{"float64"}}, {"MI64", []string{"myInt64"}, []string{"myInt64"}},
	{"MS", []string{"myStr"}, []string{"myStr"}}, {"I8", []string{"int8"}, []string{"int8"}},
	{"U32", []string{"uint32"}, []string{"uint32"}}, {"F32", []string{"float32"}, []string{"float32"}},
	{"Sl", []string{"[]int"}, []string{"int"}}, {"Mix", []string{"int64", "string", "float64"}, []string{"float64"}},
	{"Mix2", []string{"bool", "int"}, []string{"string"}}, {"Void", []string{"int"}, nil},
	{"Nil", nil, []string{"int64"}}, {"RU8", nil, []string{"uint8"}}, {"RF32", nil, []string{"float32"}},
	{"Two", []string{"int"}, []string{"int", "string"}},
}

// ------------------------------------------------------------ environment

type nativeFn struct {
	name string
	n    int
	call func(ctx data.Context) (data.GetValue, data.Control)
}

func (f *nativeFn) GetName() string { return f.name }
func (f *nativeFn) GetParams() []data.GetValue {
	var ps []data.GetValue
	for i := 0; i < f.n; i++ {
		ps = append(ps, node.NewParameter(nil, fmt.Sprintf("p%d", i), i, nil, nil))
	}
	return ps
}
func (f *nativeFn) GetVariables() []data.Variable {
	var vs []data.Variable
	for i := 0; i < f.n; i++ {
		vs = append(vs, node.NewVariable(nil, fmt.Sprintf("p%d", i), i, nil))
	}
	return vs
}
func (f *nativeFn) Call(ctx data.Context) (data.GetValue, data.Control) { return f.call(ctx) }

type env struct {
	*vh.VMEnv
	fns      map[string]string // signature key -> registered function name
	args     []data.Value      // what arg(i) returns
	captured []string          // what cap($r) saw
	marks    []int
	genRes   *genResult
	genFns   map[string]bool
}

func newEnv() *env {
	e := &env{VMEnv: vh.NewEnv(), fns: map[string]string{}, genFns: map[string]bool{}}
	e.VM.AddFunc(&nativeFn{name: "arg", n: 1, call: func(ctx data.Context) (data.GetValue, data.Control) {
		v, _ := ctx.GetIndexValue(0)
		i := 0
		if iv, ok := v.(*data.IntValue); ok {
			i = iv.Value
		}
		return e.args[i], nil
	}})
	e.VM.AddFunc(&nativeFn{name: "cap", n: 1, call: func(ctx data.Context) (data.GetValue, data.Control) {
		v, ok := ctx.GetIndexValue(0)
		if !ok || v == nil {
			e.captured = append(e.captured, "nil")
		} else {
			e.captured = append(e.captured, encScript(v))
		}
		return nil, nil
	}})
	e.VM.AddFunc(&nativeFn{name: "mark", n: 1, call: func(ctx data.Context) (data.GetValue, data.Control) {
		v, _ := ctx.GetIndexValue(0)
		if iv, ok := v.(*data.IntValue); ok {
			e.marks = append(e.marks, iv.Value)
		}
		return nil, nil
	}})
	if ctl := e.Raw.RegisterReflectClass("Bag", &Bag{}); ctl != nil {
		panic("RegisterReflectClass: " + ctl.AsString())
	}
	if ctl := e.Raw.RegisterReflectClass("Rec", &Rec{}); ctl != nil {
		panic("RegisterReflectClass: " + ctl.AsString())
	}
	return e
}

// register (once per environment) a function of the given signature
func (e *env) fnFor(params, results []string) string {
	key := strings.Join(params, ",") + "->" + strings.Join(results, ",")
	if n, ok := e.fns[key]; ok {
		return n
	}
	var in, out []reflect.Type
	for _, p := range params {
		in = append(in, typeByName[p].T)
	}
	for _, r := range results {
		out = append(out, typeByName[r].T)
	}
	ft := reflect.FuncOf(in, out, false)
	fn := reflect.MakeFunc(ft, func(args []reflect.Value) []reflect.Value {
		sink.calls++
		sink.recv = append(sink.recv[:0], args...)
		if len(out) == 0 {
			return nil
		}
		res := make([]reflect.Value, len(out))
		for i := range out {
			if i == 0 && sink.echo >= 0 {
				res[i] = args[sink.echo]
			} else {
				res[i] = sink.ret[i]
			}
		}
		return res
	})
	name := fmt.Sprintf("vf_%d", len(e.fns))
	if ctl := e.Raw.RegisterFunction(name, fn.Interface()); ctl != nil {
		panic("RegisterFunction: " + ctl.AsString())
	}
	e.fns[key] = name
	return name
}

// ------------------------------------------------------------ running one call

type observed struct {
	Outcome  string // ok | throw | go-panic | parse-error
	Detail   string
	Called   int
	Recv     []reflect.Value
	Captured []string
	Marks    []int
	Stack    string
}

var safeLit = regexp.MustCompile(`^[a-z0-9 ]*$`)

// a source literal for the value, "" if the value has no safe literal form
func literalFor(v sval) string {
	switch v.class() {
	case 'n':
		return "null"
	case 'b':
		if v.boolVal() {
			return "true"
		}
		return "false"
	case 'i':
		n := v.intVal()
		if n > -(1<<53) && n < 1<<53 {
			return strconv.FormatInt(n, 10)
		}
	case 's':
		if s := v.str(); safeLit.MatchString(s) && len(s) < 100 {
			return "'" + s + "'"
		}
	case 'f':
		f := math.Float64frombits(v.bits())
		if f == math.Trunc(f*8)/8 && math.Abs(f) < 1e6 && f != 0 && f != math.Trunc(f) {
			return strconv.FormatFloat(f, 'f', -1, 64)
		}
	}
	return ""
}

func (e *env) script(c *callCase, wrap bool) string {
	var sb strings.Builder
	sb.WriteString("<?php\n")
	argExprs := make([]string, len(c.Args))
	for i, a := range c.Args {
		switch c.Mode {
		case "var":
			fmt.Fprintf(&sb, "$v%d = arg(%d);\n", i, i)
			argExprs[i] = fmt.Sprintf("$v%d", i)
		case "lit":
			if l := literalFor(a); l != "" {
				argExprs[i] = l
			} else {
				argExprs[i] = fmt.Sprintf("arg(%d)", i)
			}
		default:
			argExprs[i] = fmt.Sprintf("arg(%d)", i)
		}
	}
	callee := ""
	if c.Path == "method" {
		sb.WriteString("$o = new Bag();\n")
		callee = "$o->" + c.Method
	} else {
		callee = e.fnFor(c.Params, c.Result)
	}
	call := callee + "(" + strings.Join(argExprs, ", ") + ")"
	stmt := ""
	if len(c.Result) == 0 {
		stmt = call + "; mark(7);"
	} else {
		stmt = "$r = " + call + "; cap($r);"
	}
	if wrap {
		sb.WriteString("try { " + stmt + " } catch (\\Throwable $e) { mark(1); }\nmark(2);\n")
	} else {
		sb.WriteString(stmt + "\n")
	}
	return sb.String()
}

func (e *env) run(c *callCase, wrap bool) observed {
	e.args = e.args[:0]
	for _, a := range c.Args {
		e.args = append(e.args, a.value())
	}
	e.captured, e.marks = nil, nil
	e.Thrown = nil
	sink = sinkT{echo: c.Echo, ret: c.retV}
	src := e.script(c, wrap)
	o := e.RunSource(src, "/verif-c17.php")
	ob := observed{Called: sink.calls, Recv: append([]reflect.Value(nil), sink.recv...), Captured: e.captured, Marks: e.marks, Detail: o.Detail, Stack: o.Stack}
	switch {
	case o.Kind == "go-panic":
		ob.Outcome = "go-panic"
	case o.Kind == "parse-error":
		ob.Outcome = "parse-error"
	case o.Kind == "uncaught" || len(e.Thrown) > 0:
		ob.Outcome = "throw"
		if len(e.Thrown) > 0 {
			ob.Detail = strings.SplitN(e.Thrown[0], "\n", 2)[0]
		}
	default:
		ob.Outcome = "ok"
	}
	return ob
}

// ------------------------------------------------------------ canonical forms

func (c *callCase) modelTypes(names []string) string {
	var p []string
	for _, n := range names {
		p = append(p, typeByName[n].Model)
	}
	return strings.Join(p, ",")
}

func parseHints(args []sval) string {
	var hs []string
	seen := map[string]bool{}
	for _, a := range args {
		if a.class() != 's' {
			continue
		}
		h := string(a[1:])
		if seen[h] || len(h) > 200 {
			continue // long strings never parse as floats: the driver answers "no" for unknown strings
		}
		seen[h] = true
		f, err := strconv.ParseFloat(a.str(), 64)
		if err != nil {
			hs = append(hs, h+"=-")
		} else {
			hs = append(hs, fmt.Sprintf("%s=%016x", h, math.Float64bits(f)))
		}
	}
	return strings.Join(hs, ",")
}

func (c *callCase) modelLine() string {
	body := "none"
	if len(c.Result) > 0 {
		if c.Echo >= 0 {
			body = fmt.Sprintf("arg %d", c.Echo)
		} else {
			body = "const " + strings.Join(c.Ret, ",")
		}
	}
	args := make([]string, len(c.Args))
	for i, a := range c.Args {
		args[i] = string(a)
	}
	path := "fn"
	if c.Path == "method" {
		path = "method"
	}
	return strings.Join([]string{"call", path, c.modelTypes(c.Params), c.modelTypes(c.Result), body, strings.Join(args, ","), parseHints(c.Args)}, "\t")
}

func (c *callCase) implLine(ob observed) string {
	recv := "-"
	if ob.Called > 0 {
		var p []string
		for i, v := range ob.Recv {
			p = append(p, encGo(typeByName[c.Params[i]].Model, v))
		}
		recv = strings.Join(p, ";")
	}
	res := ""
	switch ob.Outcome {
	case "ok":
		if len(c.Result) == 0 {
			res = "ok -"
		} else if len(ob.Captured) == 1 {
			res = "ok " + ob.Captured[0]
		} else {
			res = fmt.Sprintf("ok ?captured=%v", ob.Captured)
		}
	case "throw":
		res = "throw"
	default:
		res = "panic"
	}
	return "recv=" + recv + " res=" + res
}

var termRe = regexp.MustCompile(`s(G14|G|V32|V64):([0-9a-f]{16})`)

// evaluate the symbolic string terms of a model answer with Go's own formatting
// (strconv / fmt are modelled-not-verified primitives), drop error and panic kinds
func canonModel(s string) string {
	s = termRe.ReplaceAllStringFunc(s, func(m string) string {
		sm := termRe.FindStringSubmatch(m)
		b, _ := strconv.ParseUint(sm[2], 16, 64)
		f := math.Float64frombits(b)
		var out string
		switch sm[1] {
		case "G14":
			out = strconv.FormatFloat(f, 'g', 14, 64)
		case "G":
			out = fmt.Sprintf("%g", f)
		case "V32":
			out = fmt.Sprintf("%v", float32(f))
		case "V64":
			out = fmt.Sprintf("%v", f)
		}
		return "sL" + hex.EncodeToString([]byte(out))
	})
	if i := strings.Index(s, "res=throw "); i >= 0 {
		s = s[:i] + "res=throw"
	}
	if i := strings.Index(s, "res=panic "); i >= 0 {
		s = s[:i] + "res=panic"
	}
	return s
}

var f32Re = regexp.MustCompile(`(float32(?:#\d+)?:f)([0-9a-f]{16})`)

// the sign and payload of a NaN that went through a float32 conversion are not part of any claim
func canonNaN32(s string) string {
	return f32Re.ReplaceAllStringFunc(s, func(m string) string {
		sm := f32Re.FindStringSubmatch(m)
		b, _ := strconv.ParseUint(sm[2], 16, 64)
		if f := math.Float64frombits(b); f != f {
			return sm[1] + "NaN"
		}
		return m
	})
}

// compare, treating the model's opaque strings (sO) as wildcards for a string
func sameUpToOpaque(impl, model string) bool {
	impl, model = canonNaN32(impl), canonNaN32(model)
	if impl == model {
		return true
	}
	if !strings.Contains(model, "sO") {
		return false
	}
	it := strings.FieldsFunc(impl, func(r rune) bool { return r == ' ' || r == ';' })
	mt := strings.FieldsFunc(model, func(r rune) bool { return r == ' ' || r == ';' })
	if len(it) != len(mt) {
		return false
	}
	for i := range it {
		if it[i] == mt[i] {
			continue
		}
		if strings.HasSuffix(mt[i], "sO") {
			pre := strings.TrimSuffix(mt[i], "sO")
			if strings.HasPrefix(it[i], pre+"sL") {
				continue
			}
		}
		return false
	}
	return true
}

// float → integer conversions outside the int64 range are implementation-defined in Go:
// such a case is judged by the oracle (no panic) but its values are not compared with the model
func implDefined(c *callCase) bool {
	for i, a := range c.Args {
		if a.class() != 'f' || i >= len(c.Params) {
			continue
		}
		if isIntKind(typeByName[c.Params[i]].T.Kind()) {
			f := math.Float64frombits(a.bits())
			if !(f > -9.2e18 && f < 9.2e18) {
				return true
			}
		}
	}
	return false
}

// ------------------------------------------------------------ oracle

// does the script value denote a value of Go type t, and which
func denotes(t reflect.Type, a sval) bool {
	if classOfKind(t.Kind()) != a.class() {
		return false
	}
	switch a.class() {
	case 'i':
		z := reflect.New(t).Elem()
		n := a.intVal()
		if isSignedKind(t.Kind()) {
			return !z.OverflowInt(n)
		}
		return n >= 0 && !z.OverflowUint(uint64(n))
	case 'f':
		if t.Kind() == reflect.Float32 {
			f := math.Float64frombits(a.bits())
			return float64(float32(f)) == f
		}
	}
	return true
}

// is the received Go value exactly the script value
func sameValue(v reflect.Value, a sval) bool {
	switch a.class() {
	case 'i':
		if isSignedKind(v.Kind()) {
			return v.Int() == a.intVal()
		}
		if isIntKind(v.Kind()) {
			return a.intVal() >= 0 && v.Uint() == uint64(a.intVal())
		}
	case 'f':
		if v.Kind() == reflect.Float64 || v.Kind() == reflect.Float32 {
			return math.Float64bits(v.Float()) == a.bits()
		}
	case 's':
		return v.Kind() == reflect.String && v.String() == a.str()
	case 'b':
		return v.Kind() == reflect.Bool && v.Bool() == a.boolVal()
	}
	return false
}

// the script value that is exactly Go value v of a supported kind ("" if none)
func scriptOf(v reflect.Value) string {
	switch v.Kind() {
	case reflect.String:
		return "sL" + hex.EncodeToString([]byte(v.String()))
	case reflect.Bool:
		return string(svBool(v.Bool()))
	case reflect.Int, reflect.Int64:
		return string(svInt(v.Int()))
	case reflect.Float64:
		return string(svFloat(math.Float64bits(v.Float())))
	}
	return ""
}

func short(s string) string {
	if len(s) > 160 {
		return s[:160] + fmt.Sprintf("…(%d bytes)", len(s))
	}
	return s
}

func (c *callCase) String() string {
	return fmt.Sprintf("%s(%s)->(%s) args=%s", c.Path+c.Method, strings.Join(c.Params, ","), strings.Join(c.Result, ","), short(fmt.Sprint(c.Args)))
}

// judge one observed call against the property; returns the violation signature or ""
func judge(c *callCase, ob observed) (sig, what string) {
	if ob.Outcome == "parse-error" {
		return "", "" // machinery problem, reported as a mismatch by the caller
	}
	if ob.Outcome == "go-panic" {
		return "panic", fmt.Sprintf("Go panic escaped the registered function wrapper: %s", ob.Detail)
	}
	if ob.Called > 1 {
		return "in:called-twice", "the Go function ran more than once"
	}
	if ob.Outcome == "ok" && ob.Called == 0 {
		return "silent:" + strings.Join(c.Params, ","), "the call returned normally but the Go function never ran and no error was raised"
	}
	// what the Go side received
	if ob.Called == 1 {
		for i, p := range c.Params {
			t := typeByName[p].T
			a := sval("n")
			if i < len(c.Args) {
				a = c.Args[i]
			}
			if i >= len(ob.Recv) {
				return "in:arity", "the Go function received fewer values than it has parameters"
			}
			if classOfKind(t.Kind()) == a.class() && a.class() != 0 {
				if denotes(t, a) && !sameValue(ob.Recv[i], a) {
					return "in:" + p, fmt.Sprintf("parameter %d (%s): Go received %s, the script passed %s", i, p, short(encGo(p, ob.Recv[i])), short(string(a)))
				}
				if !denotes(t, a) && a.class() == 'i' {
					return "in:wrap:" + p, fmt.Sprintf("parameter %d (%s): the script passed %s, which %s cannot represent, and Go was called with %s", i, p, a, p, encGo(p, ob.Recv[i]))
				}
			}
		}
	} else {
		// not called: must be because some argument could not be converted; if every
		// parameter is of a supported kind and every argument denotes, the refusal is a violation
		all := true
		for i, p := range c.Params {
			t := typeByName[p].T
			if !isSupportedKind(t.Kind()) || i >= len(c.Args) || !denotes(t, c.Args[i]) {
				all = false
			}
		}
		if all {
			return "in:refused:" + strings.Join(c.Params, ","), "every argument is a value of its parameter's kind, yet the call was refused: " + ob.Detail
		}
	}
	// what the script received
	if ob.Outcome == "ok" && ob.Called == 1 && len(c.Result) > 0 {
		var ret reflect.Value
		if c.Echo >= 0 {
			ret = ob.Recv[c.Echo]
		} else {
			ret = c.retV[0]
		}
		if want := scriptOf(ret); want != "" {
			if len(ob.Captured) != 1 || ob.Captured[0] != want {
				return "out:" + c.Result[0], fmt.Sprintf("Go returned %s, the script received %v", short(encGo(c.Result[0], ret)), short(fmt.Sprint(ob.Captured)))
			}
		}
	}
	if ob.Outcome == "throw" && ob.Called == 1 && len(c.Result) > 0 && isSupportedKind(typeByName[c.Result[0]].T.Kind()) {
		return "out:throw:" + c.Result[0], "the Go function ran and returned a value of a supported kind, but the script got an error: " + ob.Detail
	}
	return "", ""
}

// shrink a panicking call to the parameter (or result) that causes it
func (h *harness) panicSig(c *callCase) (string, *callCase) {
	if len(c.Params) <= 1 && len(c.Result) == 0 {
		if len(c.Params) == 1 {
			return "panic:" + c.Params[0], c
		}
		return "panic:call", c
	}
	for i, p := range c.Params {
		a := sval("n")
		if i < len(c.Args) {
			a = c.Args[i]
		}
		if c.Path == "method" {
			break
		}
		one := &callCase{Kind: "call", Path: "fn", Params: []string{p}, Args: []sval{a}, Echo: -1}
		if ob := h.env.run(one, false); ob.Outcome == "go-panic" {
			return "panic:" + p, one
		}
	}
	if len(c.Result) > 0 && c.Path != "method" {
		one := &callCase{Kind: "call", Path: "fn", Result: c.Result, Echo: -1, Ret: c.Ret, retV: c.retV}
		if ob := h.env.run(one, false); ob.Outcome == "go-panic" {
			return "panic:out:" + c.Result[0], one
		}
	}
	if c.Path == "method" {
		return "panic:method:" + c.Method, c
	}
	return "panic:" + strings.Join(c.Params, ","), c
}

// ------------------------------------------------------------ harness

type harness struct {
	c       *vh.Ctx
	m       *vh.Model
	env     *env
	pending []*callCase
	pendOb  []observed
	throwSamples []*callCase
	seqReported  map[string]bool
	fixtureOfCall *fixture // generator state: the fixture whose method histCall is building a call for
}

func (h *harness) flush() {
	if len(h.pending) == 0 {
		return
	}
	if h.m != nil {
		lines := make([]string, len(h.pending))
		for i, c := range h.pending {
			lines[i] = c.modelLine()
		}
		res, err := h.m.AskBatch(lines)
		if err != nil {
			h.c.Note("model failed: %v", err)
			h.m = nil
		} else {
			for i, c := range h.pending {
				if implDefined(c) {
					h.c.Hit("model:skipped-implementation-defined-float-to-int")
					continue
				}
				impl := c.implLine(h.pendOb[i])
				model := canonModel(res[i])
				if !sameUpToOpaque(impl, model) {
					h.c.Mismatch(c, short(impl), short(model), "RegisterFunction/RegisterReflectClass call vs Model.Conv.call")
				}
			}
		}
	}
	h.pending, h.pendOb = h.pending[:0], h.pendOb[:0]
}

func (h *harness) doCall(c *callCase) {
	c.Kind = "call"
	if c.Path == "" {
		c.Path = "fn"
	}
	// materialise return values from their encodings (replay) or the other way round
	if c.Echo < 0 && len(c.Result) > 0 && c.retV == nil {
		for i, enc := range c.Ret {
			c.retV = append(c.retV, decodeGo(typeByName[c.Result[i]].T, enc))
		}
	}
	ob := h.env.run(c, false)
	nontrivial := len(c.Params) > 0 || len(c.Result) > 0
	h.c.Eval(c.Path+c.Method+"|"+strings.Join(c.Params, ",")+"|"+strings.Join(c.Result, ",")+"|"+fmt.Sprint(c.Args)+"|"+strings.Join(c.Ret, ",")+fmt.Sprint(c.Echo)+c.Mode, nontrivial)
	h.c.Hit("outcome:" + ob.Outcome)
	h.c.Hit(fmt.Sprintf("%s:arity=%d", c.Path, len(c.Params)))
	for _, p := range c.Params {
		h.c.Hit("param:" + p)
	}
	for _, r := range c.Result {
		h.c.Hit("result:" + r)
	}
	if c.Mode != "" {
		h.c.Hit("mode:" + c.Mode)
	}
	h.c.SampleSome(map[string]any{"call": c.String(), "impl": short(c.implLine(ob))}, 4999)
	if ob.Outcome == "parse-error" {
		h.c.Mismatch(c, ob.Detail, "", "generated script does not parse (machinery)")
		return
	}
	sig, what := judge(c, ob)
	if sig == "panic" {
		s, small := h.panicSig(c)
		h.c.Violation(s, what+" — "+small.String(), small)
	} else if sig != "" {
		h.c.Violation(sig, what+" — "+c.String(), c)
	}
	if ob.Outcome == "throw" && len(h.throwSamples) < 400 && (h.c.Res.Evaluations%7 == 0) {
		h.throwSamples = append(h.throwSamples, c)
	}
	if h.m != nil {
		h.pending = append(h.pending, c)
		h.pendOb = append(h.pendOb, ob)
		if len(h.pending) >= 256 {
			h.flush()
		}
	}
}

func decodeGo(t reflect.Type, enc string) reflect.Value {
	i := strings.LastIndex(enc, ":")
	p := enc[i+1:]
	switch p[0] {
	case 'i':
		if isSignedKind(t.Kind()) {
			n, _ := strconv.ParseInt(p[1:], 10, 64)
			return reflect.ValueOf(n).Convert(t)
		}
		n, _ := strconv.ParseUint(p[1:], 10, 64)
		return reflect.ValueOf(n).Convert(t)
	case 'f':
		b, _ := strconv.ParseUint(p[1:], 16, 64)
		return reflect.ValueOf(math.Float64frombits(b)).Convert(t)
	case 'b':
		return reflect.ValueOf(p == "b1").Convert(t)
	case 's':
		b, _ := hex.DecodeString(p[1:])
		return reflect.ValueOf(string(b)).Convert(t)
	}
	return reflect.Zero(t)
}

func (h *harness) withRet(c *callCase, rets ...reflect.Value) *callCase {
	c.Echo = -1
	c.retV = rets
	c.Ret = nil
	for i, r := range rets {
		c.Ret = append(c.Ret, encGoReq(typeByName[c.Result[i]].Model, r))
	}
	return c
}

// every call whose refusal was observed is re-run inside try/catch: the error
// must be catchable and the script must continue
func (h *harness) checkCatchable() {
	for _, c := range h.throwSamples {
		ob := h.env.run(c, true)
		h.c.Hit("catchable-rerun")
		if ob.Outcome != "ok" || len(ob.Marks) != 2 || ob.Marks[0] != 1 || ob.Marks[1] != 2 {
			h.c.Violation("uncatchable:"+strings.Join(c.Params, ","), fmt.Sprintf("the refusal is not a catchable script error (outcome %s, marks %v): %s — %s", ob.Outcome, ob.Marks, ob.Detail, c.String()), c)
		}
	}
}

// ------------------------------------------------------------ reflective constructor (oracle only)

func (h *harness) doCtor(cc *ctorCase) {
	cc.Kind = "ctor"
	e := h.env
	e.args = e.args[:0]
	var ax []string
	for i, a := range cc.Args {
		e.args = append(e.args, a.value())
		ax = append(ax, fmt.Sprintf("arg(%d)", i))
	}
	e.captured, e.marks, e.Thrown = nil, nil, nil
	var sb strings.Builder
	sb.WriteString("<?php\n$r = new Rec(" + strings.Join(ax, ", ") + ");\n")
	for _, f := range recFields {
		sb.WriteString("$x = $r->" + f.getter + "(); cap($x);\n")
	}
	o := e.RunSource(sb.String(), "/verif-c17.php")
	h.c.Eval("ctor|"+fmt.Sprint(cc.Args), true)
	h.c.Hit("ctor")
	if o.Kind == "go-panic" {
		h.c.Violation("panic:ctor", "Go panic escaped the reflective constructor: "+o.Detail+" — new Rec"+short(fmt.Sprint(cc.Args)), cc)
		return
	}
	if o.Kind == "parse-error" {
		h.c.Mismatch(cc, o.Detail, "", "generated script does not parse (machinery)")
		return
	}
	if o.Kind == "uncaught" || len(e.Thrown) > 0 {
		h.c.Hit("ctor:throw")
		all := true
		for i, f := range recFields {
			if i < len(cc.Args) && !denotes(typeByName[f.ty].T, cc.Args[i]) {
				all = false
			}
		}
		if all {
			h.c.Violation("ctor:refused", "every constructor argument is a value of its field's kind, yet construction failed — new Rec"+short(fmt.Sprint(cc.Args)), cc)
		}
		return
	}
	for i, f := range recFields {
		if i >= len(cc.Args) || i >= len(e.captured) {
			break
		}
		t := typeByName[f.ty].T
		if denotes(t, cc.Args[i]) {
			want := string(cc.Args[i])
			if cc.Args[i].class() == 's' {
				want = "sL" + string(cc.Args[i][1:])
			}
			if e.captured[i] != want {
				h.c.Violation("ctor:"+f.ty, fmt.Sprintf("field %d (%s) constructed from %s reads back as %s", i, f.ty, short(string(cc.Args[i])), short(e.captured[i])), cc)
			}
		}
	}
}

func (h *harness) streamCtor(n int) {
	for j := 0; j < n; j++ {
		cc := &ctorCase{}
		for i, f := range recFields {
			_ = i
			p := matchingPool(typeByName[f.ty].T)
			switch {
			case j < 40:
				cc.Args = append(cc.Args, p[(j+i)%len(p)])
			case h.c.Rand.Chance(80):
				cc.Args = append(cc.Args, vh.Pick(h.c.Rand, p))
			default:
				cc.Args = append(cc.Args, h.anyValue())
			}
		}
		if j%11 == 10 {
			cc.Args = cc.Args[:h.c.Rand.Intn(len(cc.Args))]
		}
		h.doCtor(cc)
	}
}

// ------------------------------------------------------------ generic converter

type genResult struct {
	val any
	err error
}

type genProbe struct {
	ty   string
	conv func(v data.Value) (any, error)
	idx  func(ctx data.Context) (any, error)
}

func mkProbe[T any](ty string) genProbe {
	return genProbe{ty: ty,
		conv: func(v data.Value) (any, error) { return utils.Convert[T](v) },
		idx:  func(ctx data.Context) (any, error) { return utils.ConvertFromIndex[T](ctx, 0) }}
}

var genProbes = []genProbe{
	mkProbe[string]("string"), mkProbe[bool]("bool"), mkProbe[int]("int"), mkProbe[int64]("int64"), mkProbe[float64]("float64"),
	mkProbe[int8]("int8"), mkProbe[int16]("int16"), mkProbe[int32]("int32"), mkProbe[uint]("uint"), mkProbe[uint8]("uint8"),
	mkProbe[uint16]("uint16"), mkProbe[uint32]("uint32"), mkProbe[uint64]("uint64"), mkProbe[float32]("float32"),
	mkProbe[myInt]("myInt"), mkProbe[myInt64]("myInt64"), mkProbe[myStr]("myStr"), mkProbe[time.Duration]("Duration"),
	mkProbe[[]int]("[]int"), mkProbe[*int]("*int"),
}

func probeFor(ty string) *genProbe {
	for i := range genProbes {
		if genProbes[i].ty == ty {
			return &genProbes[i]
		}
	}
	return nil
}

func (h *harness) doGen(g *genCase) {
	g.Kind = "gen"
	p := probeFor(g.Ty)
	if p == nil {
		h.c.Note("unknown generic probe type %s", g.Ty)
		return
	}
	ti := typeByName[g.Ty]
	var res genResult
	pan := ""
	if g.Fn == "convert" {
		func() {
			defer func() {
				if r := recover(); r != nil {
					pan = fmt.Sprint(r)
				}
			}()
			res.val, res.err = p.conv(g.V.value())
		}()
	} else {
		name := "gx_" + strings.NewReplacer("[", "_", "]", "_", "*", "p").Replace(g.Ty)
		if !h.env.genFns[name] {
			pp := p
			h.env.VM.AddFunc(&nativeFn{name: name, n: 1, call: func(ctx data.Context) (data.GetValue, data.Control) {
				v, err := pp.idx(ctx)
				h.env.genRes = &genResult{v, err}
				return nil, nil
			}})
			h.env.genFns[name] = true
		}
		h.env.args = []data.Value{g.V.value()}
		h.env.genRes = nil
		h.env.Thrown = nil
		o := h.env.RunSource("<?php\n"+name+"(arg(0));\n", "/verif-c17.php")
		if o.Kind == "go-panic" {
			pan = o.Detail
		} else if h.env.genRes == nil {
			h.c.Mismatch(g, o.String(), "", "generic probe did not run (machinery)")
			return
		} else {
			res = *h.env.genRes
		}
	}
	h.c.Eval("gen|"+g.Fn+"|"+g.Ty+"|"+string(g.V), true)
	h.c.Hit("gen:" + g.Fn)
	impl := ""
	switch {
	case pan != "":
		impl = "panic"
		h.c.Hit("gen-outcome:panic")
	case res.err != nil:
		impl = "throw"
		h.c.Hit("gen-outcome:throw")
	default:
		impl = "ok " + encGo(ti.Model, reflect.ValueOf(res.val))
		h.c.Hit("gen-outcome:ok")
	}
	h.c.SampleSome(map[string]any{"gen": g.Fn + "[" + g.Ty + "](" + short(string(g.V)) + ")", "impl": short(impl)}, 997)
	// oracle
	t := ti.T
	switch {
	case pan != "":
		h.c.Violation("gen:panic:"+g.Ty, fmt.Sprintf("utils.%s[%s](%s) panicked: %s", g.Fn, g.Ty, short(string(g.V)), pan), g)
	case res.err == nil:
		rv := reflect.ValueOf(res.val)
		if classOfKind(t.Kind()) == g.V.class() && g.V.class() != 0 {
			if denotes(t, g.V) && !sameValue(rv, g.V) {
				h.c.Violation("gen:in:"+g.Ty, fmt.Sprintf("utils.%s[%s](%s) = %s", g.Fn, g.Ty, short(string(g.V)), short(impl)), g)
			}
			if !denotes(t, g.V) && g.V.class() == 'i' {
				h.c.Violation("gen:wrap:"+g.Ty, fmt.Sprintf("utils.%s[%s](%s) = %s: the integer is not representable in %s and was silently wrapped instead of reported", g.Fn, g.Ty, g.V, impl, g.Ty), g)
			}
		}
	default:
		if t.PkgPath() == "" && isSupportedKind(t.Kind()) && denotes(t, g.V) || (t.PkgPath() == "" && isIntKind(t.Kind()) && denotes(t, g.V)) {
			h.c.Violation("gen:refused:"+g.Ty, fmt.Sprintf("utils.%s[%s](%s) failed although the value is representable: %v", g.Fn, g.Ty, short(string(g.V)), res.err), g)
		}
	}
	// model
	if h.m != nil {
		if g.V.class() == 'f' && isIntKind(t.Kind()) {
			f := math.Float64frombits(g.V.bits())
			z := reflect.New(t).Elem()
			inRange := f == f && f > -9.2e18 && f < 9.2e18
			if inRange {
				if isSignedKind(t.Kind()) {
					inRange = !z.OverflowInt(int64(f))
				} else {
					inRange = f > -1 && !z.OverflowUint(uint64(f))
				}
			}
			if !inRange {
				h.c.Hit("model:skipped-implementation-defined-float-to-int")
				return
			}
		}
		fn := "convert"
		if g.Fn != "convert" {
			fn = "index"
		}
		line := strings.Join([]string{"gen", fn, ti.Model, string(g.V), parseHints([]sval{g.V})}, "\t")
		ans, err := h.m.Ask(line)
		if err != nil {
			h.c.Note("model failed: %v", err)
			h.m = nil
			return
		}
		mc := canonModel("res=" + ans)
		if !sameUpToOpaque("res="+impl, mc) {
			h.c.Mismatch(g, short(impl), short(strings.TrimPrefix(mc, "res=")), "utils.Convert/ConvertFromIndex vs Model.Conv.convertValue/convertFromIndex")
		}
	}
}

// ------------------------------------------------------------ generators

func matchingPool(t reflect.Type) []sval { return poolFor(classOfKind(t.Kind())) }

func (h *harness) randomValue(class byte) sval {
	r := h.c.Rand
	switch class {
	case 'i':
		switch r.Intn(3) {
		case 0:
			return svInt(int64(r.U64()))
		case 1:
			return svInt(int64(r.U64() >> uint(r.Intn(64))))
		}
		return svInt(-int64(r.U64() >> uint(1+r.Intn(63))))
	case 'f':
		b := r.U64()
		if f := math.Float64frombits(b); f != f {
			b = 0x7ff8000000000000 | (b & 1) // keep NaNs quiet
		}
		return svFloat(b)
	case 's':
		n := r.Intn(40)
		b := make([]byte, n)
		for i := range b {
			b[i] = byte(r.U64())
		}
		return svStr(string(b))
	case 'b':
		return svBool(r.Bool())
	}
	return "n"
}

func (h *harness) anyValue() sval {
	r := h.c.Rand
	if r.Chance(70) {
		return vh.Pick(r, allValues)
	}
	return h.randomValue(vh.Pick(r, []byte{'i', 'f', 's', 'b', 'n'}))
}

// A: every signature of arity 0..3 over the supported kinds, every result kind (or none)
func (h *harness) streamSupported(perSig int) int {
	nsig := 0
	results := append([][]string{nil}, func() [][]string {
		var r [][]string
		for _, s := range supportedNames {
			r = append(r, []string{s})
		}
		return r
	}()...)
	var rec func(params []string)
	rec = func(params []string) {
		for _, res := range results {
			nsig++
			h.signatureCalls(params, res, perSig)
		}
		if len(params) == 3 {
			return
		}
		for _, s := range supportedNames {
			rec(append(append([]string{}, params...), s))
		}
	}
	rec(nil)
	return nsig
}

// calls of one signature with arguments of the matching classes
func (h *harness) signatureCalls(params, res []string, n int) {
	pools := make([][]sval, len(params))
	maxLen := 1
	for i, p := range params {
		pools[i] = matchingPool(typeByName[p].T)
		if len(pools[i]) > maxLen {
			maxLen = len(pools[i])
		}
	}
	var rets []reflect.Value
	if len(res) > 0 {
		rets = goPool(typeByName[res[0]].T, h.c.Rand)
	}
	total := n
	if len(params) <= 1 {
		total = maxLen // arity 0 and 1: the whole pool
		if len(params) == 0 {
			total = len(rets)
			if total == 0 {
				total = 1
			}
		}
	}
	for j := 0; j < total; j++ {
		c := &callCase{Params: params, Result: res, Echo: -1}
		for i := range params {
			var a sval
			switch {
			case j < maxLen:
				a = pools[i][(j+i*3)%len(pools[i])]
			case h.c.Rand.Chance(50):
				a = vh.Pick(h.c.Rand, pools[i])
			default:
				a = h.randomValue(classOfKind(typeByName[params[i]].T.Kind()))
			}
			c.Args = append(c.Args, a)
		}
		if len(res) > 0 {
			// echo a parameter of the result's type when there is one (round trip), else return a pool value
			echo := -1
			for i, p := range params {
				if p == res[0] && (j+i)%2 == 0 {
					echo = i
					break
				}
			}
			if echo >= 0 {
				c.Echo = echo
			} else {
				h.withRet(c, rets[j%len(rets)])
			}
		}
		switch j % 5 {
		case 3:
			c.Mode = "var"
		case 4:
			c.Mode = "lit"
		}
		h.doCall(c)
	}
}

// B: every Go type (sized, defined, unsupported) as single parameter × every script value; as result × its pool
func (h *harness) streamAllTypes() {
	for _, t := range allTypes {
		for _, a := range allValues {
			h.doCall(&callCase{Params: []string{t.Name}, Args: []sval{a}, Echo: -1})
		}
		// identity through the boundary
		for _, a := range allValues {
			h.doCall(&callCase{Params: []string{t.Name}, Result: []string{t.Name}, Args: []sval{a}, Echo: 0})
		}
		for _, r := range goPool(t.T, h.c.Rand) {
			h.doCall(h.withRet(&callCase{Result: []string{t.Name}}, r))
		}
	}
	// all pairs of types, a few argument tuples each
	for _, t1 := range allTypes {
		for _, t2 := range allTypes {
			for k := 0; k < 2; k++ {
				c := &callCase{Params: []string{t1.Name, t2.Name}, Echo: -1}
				for _, t := range []typeInfo{t1, t2} {
					if p := matchingPool(t.T); len(p) > 0 && k == 0 {
						c.Args = append(c.Args, vh.Pick(h.c.Rand, p))
					} else {
						c.Args = append(c.Args, h.anyValue())
					}
				}
				h.doCall(c)
			}
		}
	}
	// two results: only the first is converted
	for _, t := range []string{"int", "string", "float64", "int32"} {
		for _, r := range goPool(typeByName[t].T, h.c.Rand)[:2] {
			h.doCall(h.withRet(&callCase{Result: []string{t, "string"}}, r, reflect.ValueOf("second")))
		}
	}
}

// C/D: supported signatures with arguments of any class, missing and surplus arguments
func (h *harness) streamMixed(n int) {
	r := h.c.Rand
	for i := 0; i < n; i++ {
		ar := r.Intn(4)
		c := &callCase{Echo: -1}
		for j := 0; j < ar; j++ {
			if r.Chance(75) {
				c.Params = append(c.Params, vh.Pick(r, supportedNames))
			} else {
				c.Params = append(c.Params, vh.Pick(r, allTypes).Name)
			}
		}
		nargs := ar
		if r.Chance(20) {
			nargs = r.Intn(5)
		}
		for j := 0; j < nargs; j++ {
			if j < ar && r.Chance(50) {
				if p := matchingPool(typeByName[c.Params[j]].T); len(p) > 0 {
					c.Args = append(c.Args, vh.Pick(r, p))
					continue
				}
			}
			c.Args = append(c.Args, h.anyValue())
		}
		if r.Chance(60) {
			rt := vh.Pick(r, allTypes)
			if r.Chance(60) {
				rt = typeByName[vh.Pick(r, supportedNames)]
			}
			c.Result = []string{rt.Name}
			h.withRet(c, vh.Pick(r, goPool(rt.T, r)))
		}
		if r.Chance(20) {
			c.Mode = vh.Pick(r, []string{"var", "lit"})
		}
		h.doCall(c)
	}
}

// E: struct methods
func (h *harness) streamMethods(extra int) {
	for _, m := range bagMethods {
		var rets []reflect.Value
		if len(m.Results) > 0 {
			rets = goPool(typeByName[m.Results[0]].T, h.c.Rand)
		}
		n := len(allValues)
		if len(m.Params) == 0 {
			n = len(rets)
		}
		for j := 0; j < n+extra; j++ {
			c := &callCase{Path: "method", Method: m.Name, Params: m.Params, Result: m.Results, Echo: -1}
			for i, p := range m.Params {
				switch {
				case len(m.Params) == 1 && j < len(allValues):
					c.Args = append(c.Args, allValues[j])
				case h.c.Rand.Chance(60) && len(matchingPool(typeByName[p].T)) > 0:
					c.Args = append(c.Args, vh.Pick(h.c.Rand, matchingPool(typeByName[p].T)))
				default:
					c.Args = append(c.Args, h.anyValue())
				}
				_ = i
			}
			if len(m.Results) > 0 {
				echoable := len(m.Params) > 0 && (m.Results[0] == m.Params[0] || m.Name == "Mix")
				if echoable && j%2 == 0 {
					c.Echo = 0
				} else {
					h.withRet(c, rets[j%len(rets)])
				}
			}
			if m.Name == "Mix" && c.Echo == 0 {
				// Mix echoes its float64 parameter (index 2)
				c.Echo = 2
			}
			if j%9 == 8 {
				c.Args = c.Args[:len(c.Args)/2] // missing arguments
			}
			h.doCall(c)
		}
	}
}

// F: the generic converter
func (h *harness) streamGeneric(random int) {
	for _, p := range genProbes {
		for _, fn := range []string{"convert", "index"} {
			for _, v := range allValues {
				h.doGen(&genCase{Fn: fn, Ty: p.ty, V: v})
			}
			for i := 0; i < random; i++ {
				h.doGen(&genCase{Fn: fn, Ty: p.ty, V: h.anyValue()})
			}
		}
	}
}

// ------------------------------------------------------------ runner

func Run(c *vh.Ctx) {
	h := &harness{c: c, seqReported: map[string]bool{}}
	if c.ModelPath != "" {
		m, err := vh.StartModel(c.ModelPath)
		if err != nil {
			c.Note("cannot start model: %v", err)
		} else {
			h.m = m
			defer m.Close()
			c.Res.ModelUsed = true
		}
	}
	h.env = newEnv()
	if len(c.ReplayRaw) > 0 {
		var k struct {
			Kind string `json:"kind"`
		}
		json.Unmarshal(c.ReplayRaw, &k)
		if k.Kind == "seq" {
			var sc seqCase
			if err := json.Unmarshal(c.ReplayRaw, &sc); err != nil {
				c.Note("bad replay: %v", err)
				return
			}
			h.doSeq(&sc, true)
			if h.m != nil {
				c.Res.ModelLines = h.m.Lines
			}
			return
		}
		if k.Kind == "conc" {
			var cc concCase
			if err := json.Unmarshal(c.ReplayRaw, &cc); err != nil {
				c.Note("bad replay: %v", err)
				return
			}
			h.doConc(nil, &cc)
			if h.m != nil {
				c.Res.ModelLines = h.m.Lines
			}
			return
		}
		if k.Kind == "ctor" {
			var cc ctorCase
			if err := json.Unmarshal(c.ReplayRaw, &cc); err != nil {
				c.Note("bad replay: %v", err)
				return
			}
			h.doCtor(&cc)
			return
		}
		if k.Kind == "gen" {
			var g genCase
			if err := json.Unmarshal(c.ReplayRaw, &g); err != nil {
				c.Note("bad replay: %v", err)
				return
			}
			h.doGen(&g)
		} else {
			var cc callCase
			if err := json.Unmarshal(c.ReplayRaw, &cc); err != nil {
				c.Note("bad replay: %v", err)
				return
			}
			h.doCall(&cc)
			h.flush()
			h.checkCatchable()
		}
		if h.m != nil {
			c.Res.ModelLines = h.m.Lines
		}
		return
	}
	c.Res.Rule = "call: one registered Go function (reflect.MakeFunc) or Bag method invoked by one script; distinct = distinct (path, signature, argument values, returned value, argument passing mode); non-trivial = the signature has at least one parameter or a result. gen: one utils.Convert[T]/ConvertFromIndex[T] application; distinct = (function, T, value). hist: one call inside a history of registrations and calls run in a fresh process; distinct = (callee, VM, route, arguments, returned value). conc: several calls of one callee in flight; distinct = (route, callee, callers, schedule / slot / depth / rounds)"
	nsig := 0
	if os.Getenv("C17_ONLY") == "" { // development aid: C17_ONLY=hist|conc runs only that stream
		nsig = h.streamSupported(c.N(24, 200))
		h.streamAllTypes()
		h.streamMixed(c.N(6000, 400000))
		h.streamMethods(c.N(20, 400))
		h.flush()
		h.checkCatchable()
		h.streamCtor(c.N(300, 5000))
		h.streamGeneric(c.N(30, 1500))
	}
	nconc := 0
	if only := os.Getenv("C17_ONLY"); only == "" || only == "conc" {
		nconc = h.streamConc()
	}
	nh, nhc := 0, 0
	if os.Getenv("C17_ONLY") != "conc" {
		nh, nhc = h.streamHistories(c.N(12, 150), c.N(300, 2000))
	}
	c.Res.Exhaustive = true
	c.Res.ExhaustiveWhat = fmt.Sprintf("all %d signatures of arity 0..3 over {string,bool,int,int64,float64} with each result kind or none (whole boundary pool at arity 0/1, diagonal + seeded tuples above); every one of %d Go types (sized, defined, slice/interface/pointer/map/struct) as single parameter x every pool value of every class, as identity, as result x its pool, and all %d ordered pairs as two parameters; %d Bag methods x pool; reflective constructor of Rec (6 fields) x diagonal of the pools; utils.Convert/ConvertFromIndex for %d target types x every pool value; %d histories (%d calls) over %d struct types sharing %d method names with different arities / parameter types / result types / receivers (plus functions sharing names across VMs), each in a fresh process: for every shared name an Eulerian tour of its callees (every ordered pair adjacent) started at every callee, forwards and backwards, interleaved over two VMs and TempVMs, plus seeded random histories; %d concurrent / re-entrant cases over %d callees (5 functions, 5 methods of 2 shared objects, arity 1..4): EVERY interleaving of the argument conversions of two callers (arity 1..4) and of three callers (arity 1..2) driven deterministically through gated argument values, seeded schedules of 3..16 callers, re-entrant calls from the conversion of every slot (depth 1..3) and from the Go code (depth 1..2), free-running 2/4/8/16 goroutines, spawn()ed script closures (2/4/8 workers)", nsig, len(allTypes), len(allTypes)*len(allTypes), len(bagMethods), len(genProbes), nh, nhc, len(fixtures), len(methodNames), nconc, len(concCallees))
	if h.m != nil {
		c.Res.ModelLines = h.m.Lines
	}
}
