package c17

import (
	"encoding/json"
	"fmt"
	"math"
	"reflect"

	"verif/harness/vh"
)

// values for histories: the boundary pools without the 64 KiB strings (a history carries
// hundreds of calls in one model request); those are used now and then only
func (h *harness) histPool(t reflect.Type) []sval {
	var out []sval
	for _, v := range matchingPool(t) {
		if len(v) < 400 {
			out = append(out, v)
		}
	}
	return out
}

func (h *harness) histAny() sval {
	for {
		if v := h.anyValue(); len(v) < 400 || h.c.Rand.Chance(2) {
			return v
		}
	}
}

// one call of callee (class, method) with signature mi: arguments of the parameters' own classes
// (strict) or of any class, an echoed parameter or a boundary value as result
func (h *harness) histCall(class, method string, mi methodInfo, j int, strict bool) seqCall {
	r := h.c.Rand
	c := seqCall{Class: class, Method: method, Echo: -1}
	for i, p := range mi.Params {
		pool := h.histPool(typeByName[p].T)
		switch {
		case len(pool) > 0 && (strict || r.Chance(75)):
			if strict && j >= 0 {
				c.Args = append(c.Args, pool[(j*7+i*3)%len(pool)])
			} else {
				c.Args = append(c.Args, vh.Pick(r, pool))
			}
		case len(pool) > 0 && r.Chance(10) && len(matchingPool(typeByName[p].T)) > 0:
			c.Args = append(c.Args, vh.Pick(r, matchingPool(typeByName[p].T))) // 64 KiB strings included
		default:
			c.Args = append(c.Args, h.histAny())
		}
	}
	// constructor arguments: always values of the fields' own kinds; a getter F<i> must return field i
	if f := h.fixtureOfCall; f != nil && len(f.Fields) > 0 && class != "" {
		getter := len(method) == 2 && method[0] == 'F' && method[1] >= '0' && method[1] <= '9'
		if getter || r.Chance(40) {
			for i, ft := range f.Fields {
				pool := h.histPool(typeByName[ft].T)
				if j >= 0 {
					c.Ctor = append(c.Ctor, pool[(j*11+i*5)%len(pool)])
				} else {
					c.Ctor = append(c.Ctor, vh.Pick(r, pool))
				}
			}
		}
		if getter {
			i := int(method[1] - '0')
			a := c.Ctor[i]
			ti := typeByName[f.Fields[i]]
			c.Ret = []string{encGoReq(ti.Model, decodeSval(ti.T, a))}
			return c
		}
	}
	if len(mi.Results) > 0 {
		echo := -1
		for i, p := range mi.Params {
			if p == mi.Results[0] && (j+i)%2 == 0 {
				echo = i
				break
			}
		}
		if echo >= 0 {
			c.Echo = echo
		} else {
			var rets []reflect.Value
			for _, v := range goPool(typeByName[mi.Results[0]].T, r) {
				if v.Kind() != reflect.String || v.Len() < 200 {
					rets = append(rets, v)
				}
			}
			rv := rets[0]
			if j >= 0 {
				rv = rets[(j*5)%len(rets)]
			} else {
				rv = vh.Pick(r, rets)
			}
			c.Ret = []string{encGoReq(typeByName[mi.Results[0]].Model, rv)}
		}
	}
	return c
}

// the Go value of type t that script value a denotes (a is a value of t's own kind)
func decodeSval(t reflect.Type, a sval) reflect.Value {
	switch a.class() {
	case 'i':
		return reflect.ValueOf(a.intVal()).Convert(t)
	case 'f':
		return reflect.ValueOf(math.Float64frombits(a.bits())).Convert(t)
	case 's':
		return reflect.ValueOf(a.str()).Convert(t)
	case 'b':
		return reflect.ValueOf(a.boolVal()).Convert(t)
	}
	return reflect.Zero(t)
}

// node sequence of an Eulerian circuit of the complete digraph on n nodes (every ordered pair
// of distinct nodes adjacent exactly once), starting at start
func eulerTour(n, start int) []int {
	if n <= 1 {
		return []int{0}
	}
	next := make([]int, n)         // per node: how many outgoing edges are used
	target := func(u, k int) int { // k-th outgoing edge of u
		v := (u + 1 + k) % n
		return v
	}
	var stack, circuit []int
	stack = append(stack, start%n)
	for len(stack) > 0 {
		u := stack[len(stack)-1]
		if next[u] < n-1 {
			v := target(u, next[u])
			next[u]++
			stack = append(stack, v)
		} else {
			circuit = append(circuit, u)
			stack = stack[:len(stack)-1]
		}
	}
	for i, j := 0, len(circuit)-1; i < j; i, j = i+1, j-1 {
		circuit[i], circuit[j] = circuit[j], circuit[i]
	}
	return circuit
}

// functions that share names across VMs (and with the methods)
var histFns = [][]seqStep{
	{ // VM 0
		{Reg: "fn", Name: "xput", Params: []string{"string"}, Results: []string{"string"}},
		{Reg: "fn", Name: "xget", Params: nil, Results: []string{"int64"}},
		{Reg: "fn", Name: "Put", Params: []string{"int64", "bool"}, Results: []string{"bool"}},
		{Reg: "fn", Name: "xmix", Params: []string{"float64", "float64"}, Results: []string{"float64"}},
	},
	{ // VM 1
		{Reg: "fn", Name: "xput", Params: []string{"string", "int64", "float64"}, Results: []string{"int64"}},
		{Reg: "fn", Name: "xget", Params: []string{"int"}, Results: []string{"string"}},
		{Reg: "fn", Name: "Put", Params: []string{"float64"}, Results: []string{"float64"}},
		{Reg: "fn", Name: "xmix", Params: []string{"myStr", "bool", "int"}, Results: nil},
	},
}

// the systematic history number (rot, reversed): two VMs; VM 1 registers every fixture under the
// class name of the NEXT fixture (same class name, another Go type); for every shared method name
// an Eulerian tour of the fixtures that have it, started at fixture rot
func (h *harness) tourHistory(rot int, reversed bool) *seqCase {
	sc := &seqCase{Kind: "seq", NVM: 2}
	nf := len(fixtures)
	classIn := func(vm int, f *fixture) string { // script class name of fixture f in vm
		if vm == 0 {
			return f.Name
		}
		return fixtures[(f.Owner-1+nf-1)%nf].Name
	}
	registered := map[string]bool{}
	lazy := rot%2 == 1
	reg := func(vm int, f *fixture) {
		k := fmt.Sprintf("%d/%s", vm, f.Name)
		if !registered[k] {
			registered[k] = true
			sc.Steps = append(sc.Steps, seqStep{Reg: "class", VM: vm, Class: classIn(vm, f), Fix: f.Name})
		}
	}
	if !lazy {
		for vm := 0; vm < 2; vm++ {
			for _, f := range fixtures {
				reg(vm, f)
			}
		}
	}
	for vm := 0; vm < 2; vm++ {
		for _, s := range histFns[vm] {
			s.VM = vm
			sc.Steps = append(sc.Steps, s)
		}
	}
	j := rot * 131
	script := 0
	for ni := range methodNames {
		m := methodNames[(ni+rot)%len(methodNames)]
		fs := fixturesWith(m)
		if len(fs) < 2 {
			continue
		}
		tour := eulerTour(len(fs), rot%len(fs))
		if reversed {
			for a, b := 0, len(tour)-1; a < b; a, b = a+1, b-1 {
				tour[a], tour[b] = tour[b], tour[a]
			}
		}
		for at := 0; at < len(tour); {
			n := 1 + (script+rot)%4
			if at+n > len(tour) {
				n = len(tour) - at
			}
			vm := script % 2
			st := seqStep{VM: vm, Temp: script%3 == 2, Bare: script%2 == 0}
			for _, node := range tour[at : at+n] {
				f := fs[node]
				if lazy {
					reg(vm, f)
				}
				h.fixtureOfCall = f
				c := h.histCall(classIn(vm, f), m, f.Methods[m], j, j%6 != 5)
				switch j % 7 {
				case 3:
					if len(c.Ctor) == 0 {
						c.Route = "keep"
					}
				case 5:
					c.Route = "dyn"
				}
				j++
				st.Calls = append(st.Calls, c)
			}
			sc.Steps = append(sc.Steps, st)
			at += n
			script++
		}
		// the functions of both VMs in between
		for vm := 0; vm < 2; vm++ {
			st := seqStep{VM: vm, Temp: (script+vm)%2 == 0, Bare: vm == 1}
			for _, fn := range histFns[vm] {
				if (ni+len(fn.Name))%2 == 0 {
					continue
				}
				h.fixtureOfCall = nil
				st.Calls = append(st.Calls, h.histCall("", fn.Name, methodInfo{Name: fn.Name, Params: fn.Params, Results: fn.Results}, j, true))
				j++
			}
			if len(st.Calls) > 0 {
				sc.Steps = append(sc.Steps, st)
			}
		}
	}
	return sc
}

// a seeded random history: 1..3 VMs, every VM with its own random class-name → fixture mapping and its
// own functions under shared names, registrations interleaved with the calls
func (h *harness) randomHistory(ncalls int) *seqCase {
	r := h.c.Rand
	sc := &seqCase{Kind: "seq", NVM: 1 + r.Intn(3)}
	type vmState struct {
		classOf map[string]*fixture // class name -> fixture registered under it
		names   []string
		fns     []seqStep
	}
	vms := make([]*vmState, sc.NVM)
	fnNames := []string{"xput", "xget", "Put", "Get", "xmix"}
	sigPool := supportedNames
	for vm := range vms {
		vms[vm] = &vmState{classOf: map[string]*fixture{}}
	}
	register := func(vm int) {
		v := vms[vm]
		if r.Chance(70) {
			// a class: a free class name (drawn from the fixture names, so that names collide across VMs)
			var free []string
			for _, f := range fixtures {
				if v.classOf[f.Name] == nil {
					free = append(free, f.Name)
				}
			}
			if len(free) > 0 {
				name := vh.Pick(r, free)
				f := vh.Pick(r, fixtures)
				if r.Chance(40) {
					f = fixtureByName[name]
				}
				v.classOf[name] = f
				v.names = append(v.names, name)
				sc.Steps = append(sc.Steps, seqStep{Reg: "class", VM: vm, Class: name, Fix: f.Name})
				return
			}
		}
		var free []string
		for _, n := range fnNames {
			used := false
			for _, f := range v.fns {
				used = used || f.Name == n
			}
			if !used {
				free = append(free, n)
			}
		}
		if len(free) == 0 {
			return
		}
		s := seqStep{Reg: "fn", VM: vm, Name: vh.Pick(r, free)}
		for i, n := 0, r.Intn(4); i < n; i++ {
			if r.Chance(85) {
				s.Params = append(s.Params, vh.Pick(r, sigPool))
			} else {
				s.Params = append(s.Params, vh.Pick(r, allTypes).Name)
			}
		}
		if r.Chance(80) {
			s.Results = []string{vh.Pick(r, sigPool)}
		}
		v.fns = append(v.fns, s)
		sc.Steps = append(sc.Steps, s)
	}
	for vm := range vms {
		register(vm)
		register(vm)
	}
	made := 0
	for made < ncalls {
		vm := r.Intn(sc.NVM)
		v := vms[vm]
		if r.Chance(6) {
			register(vm)
			continue
		}
		st := seqStep{VM: vm, Temp: r.Chance(30), Bare: r.Chance(40)}
		for i, n := 0, 1+r.Intn(5); i < n; i++ {
			var c seqCall
			if len(v.names) > 0 && (len(v.fns) == 0 || r.Chance(80)) {
				cls := vh.Pick(r, v.names)
				f := v.classOf[cls]
				var ms []string
				for m := range f.Methods {
					ms = append(ms, m)
				}
				m := pickSorted(r, ms)
				h.fixtureOfCall = f
				c = h.histCall(cls, m, f.Methods[m], -1, r.Chance(70))
				switch r.Intn(6) {
				case 0:
					if len(c.Ctor) == 0 {
						c.Route = "keep"
					}
				case 1:
					c.Route = "dyn"
				}
			} else if len(v.fns) > 0 {
				fn := vh.Pick(r, v.fns)
				h.fixtureOfCall = nil
				c = h.histCall("", fn.Name, methodInfo{Name: fn.Name, Params: fn.Params, Results: fn.Results}, -1, r.Chance(70))
			} else {
				continue
			}
			if len(c.Args) > 0 && r.Chance(4) {
				c.Args = c.Args[:len(c.Args)-1] // a missing argument
			} else if r.Chance(4) {
				c.Args = append(c.Args, h.histAny()) // a surplus one
			}
			st.Calls = append(st.Calls, c)
			made++
		}
		if len(st.Calls) > 0 {
			sc.Steps = append(sc.Steps, st)
		}
	}
	return sc
}

func pickSorted(r *vh.Rand, xs []string) string {
	// map iteration order must not reach the random stream
	for i := 1; i < len(xs); i++ {
		for j := i; j > 0 && xs[j] < xs[j-1]; j-- {
			xs[j], xs[j-1] = xs[j-1], xs[j]
		}
	}
	return vh.Pick(r, xs)
}

// minimised histories that failed once (they run first, in every tier)
var pastHistories = []string{
	// abc9d26: `$r = $o->Ret();` twice in one script, Go returns -0.0 and then +0.0 — the second assignment was
	// skipped by data.AssignFloatToZVal (-0.0 == 0.0) and the script received -0.0 again; and the other way round
	`{"kind":"seq","nvm":3,"steps":[{"reg":"class","vm":1,"class":"Sw","fix":"Tab"},{"vm":1,"temp":true,"calls":[` +
		`{"class":"Sw","method":"Ret","args":null,"echo":-1,"ret":["float64:f8000000000000000"]},` +
		`{"class":"Sw","method":"Ret","route":"dyn","args":null,"echo":-1,"ret":["float64:f0000000000000000"]},` +
		`{"class":"Sw","method":"Ret","args":null,"echo":-1,"ret":["float64:f8000000000000000"]}]}]}`,
}

// all history streams; returns (#histories, #calls)
func (h *harness) streamHistories(nrandom, ncalls int) (int, int) {
	nh, nc := 0, 0
	for _, raw := range pastHistories {
		var sc seqCase
		if err := json.Unmarshal([]byte(raw), &sc); err != nil {
			h.c.Note("past history unreadable: %v", err)
			continue
		}
		h.doSeq(&sc, false)
		h.c.Hit("hist:past-failure")
		nh++
		nc += sc.nCalls()
	}
	maxFs := 0
	for _, m := range methodNames {
		if n := len(fixturesWith(m)); n > maxFs {
			maxFs = n
		}
	}
	for rot := 0; rot < maxFs; rot++ {
		for _, rev := range []bool{false, true} {
			sc := h.tourHistory(rot, rev)
			h.doSeq(sc, false)
			nh++
			nc += sc.nCalls()
		}
	}
	for i := 0; i < nrandom; i++ {
		sc := h.randomHistory(ncalls)
		h.doSeq(sc, false)
		nh++
		nc += sc.nCalls()
	}
	return nh, nc
}
