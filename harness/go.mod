module verif/harness

go 1.25.0

require github.com/php-any/origami v0.0.0

require (
	filippo.io/edwards25519 v1.1.0 // indirect
	github.com/dlclark/regexp2 v1.11.5 // indirect
	github.com/go-sql-driver/mysql v1.9.3 // indirect
	github.com/gorilla/websocket v1.5.3 // indirect
	github.com/ncruces/go-strftime v1.0.0 // indirect
	github.com/spf13/cobra v1.10.2 // indirect
	github.com/spf13/pflag v1.0.9 // indirect
	google.golang.org/protobuf v1.36.11 // indirect
)

replace github.com/php-any/origami => /repo
