package c08

import (
	"encoding/json"
	"fmt"
	"strings"
)

// Inherited property defaults (added with the regenerated facts of extract/c08: the mutant of
// ClassValue.GetPropertyStmt showed that nothing looked at properties through parents at all).
// A linear chain K0 <- K1 <- … <- K(n-1); `public $p = 'k<i>'` is declared in a subset of the classes,
// K0 also has `function get() { return $this->p; }`. An object of class Kd must see, from outside and from
// the inherited method, the default of the NEAREST declaring class at or above Kd. Judged by this Go oracle only.
//
// Known finding (fix offered in fixes/C08-inherited-property-default.patch): ClassStatement.GetValue initialises
// the inherited properties by walking the whole chain upwards and storing every ancestor default the class itself
// does not declare, so the ROOT-most declaration is stored last and wins. A mismatch that is exactly that is
// reported under the known signature, any other mismatch as a violation.

type propCase struct {
	Kind string `json:"kind"` // props
	N    int    `json:"n"`
	Decl []bool `json:"decl"` // Decl[k]: Kk declares $p
	Pfx  string `json:"pfx"`
}

func (pc propCase) script() string {
	var sb strings.Builder
	sb.WriteString("<?php\n")
	for k := 0; k < pc.N; k++ {
		ext := ""
		if k > 0 {
			ext = fmt.Sprintf(" extends %sK%d", pc.Pfx, k-1)
		}
		fmt.Fprintf(&sb, "class %sK%d%s {\n", pc.Pfx, k, ext)
		if pc.Decl[k] {
			fmt.Fprintf(&sb, "  public $p = 'k%d';\n", k)
		}
		if k == 0 {
			sb.WriteString("  public function get() { return $this->p; }\n")
		}
		sb.WriteString("}\n")
	}
	for d := 0; d < pc.N; d++ {
		if pc.pick(d, false) >= 0 {
			fmt.Fprintf(&sb, "$o = new %sK%d(); echo $o->p, ',', $o->get(), '|';\n", pc.Pfx, d)
		} else {
			sb.WriteString("echo '-|';\n")
		}
	}
	return sb.String()
}

// the declaring class an object of class Kd takes the default from: the nearest at or above Kd, or (rootMost) the farthest
func (pc propCase) pick(d int, rootMost bool) int {
	best := -1
	for k := d; k >= 0; k-- {
		if pc.Decl[k] {
			if !rootMost {
				return k
			}
			best = k
		}
	}
	return best
}

func (pc propCase) render(rootMostIfInherited bool) string {
	var sb strings.Builder
	for d := 0; d < pc.N; d++ {
		k := pc.pick(d, false)
		if k < 0 {
			sb.WriteString("-|")
			continue
		}
		if rootMostIfInherited && !pc.Decl[d] {
			k = pc.pick(d, true)
		}
		fmt.Fprintf(&sb, "k%d,k%d|", k, k)
	}
	return sb.String()
}

func (r *runner) runProp(pc propCase) {
	o := r.script(pc.script())
	want := pc.render(false)
	key := fmt.Sprintf("props:%d:%v", pc.N, pc.Decl)
	r.c.Eval(key, pc.N >= 3)
	r.c.Hit("kind:props")
	r.c.SampleSome(map[string]any{"kind": "props", "n": pc.N, "decl": pc.Decl, "out": o.Out}, 89)
	if o.Kind == "ok" && o.Out == want {
		return
	}
	if o.Kind == "ok" && o.Out == pc.render(true) {
		r.c.Violation("property-default:root-most-wins", fmt.Sprintf("an inherited property declared by several ancestors gets the ROOT-most default: %d classes, $p declared in %v prints %q, nearest declaration gives %q", pc.N, pc.Decl, o.Out, want), pc)
		return
	}
	r.c.Violation("property-default", fmt.Sprintf("inherited property default over %d classes with $p declared in %v prints %q (%s %s), nearest declaration gives %q", pc.N, pc.Decl, o.Out, o.Kind, o.Detail, want), pc)
}

// all chains of 2..5 classes × every subset of declaring classes (complete)
func (r *runner) runProps() {
	n := 0
	for size := 2; size <= 5; size++ {
		for mask := 1; mask < 1<<size; mask++ {
			decl := make([]bool, size)
			for k := 0; k < size; k++ {
				decl[k] = mask&(1<<k) != 0
			}
			r.runProp(propCase{Kind: "props", N: size, Decl: decl, Pfx: fmt.Sprintf("Y%d", n)})
			n++
		}
	}
}

func (r *runner) replayProp(raw json.RawMessage) bool {
	var pc propCase
	if json.Unmarshal(raw, &pc) == nil && pc.Kind == "props" && pc.N > 0 && len(pc.Decl) == pc.N {
		r.runProp(pc)
		return true
	}
	return false
}
