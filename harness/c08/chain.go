package c08

import (
	"encoding/json"
	"fmt"
	"strings"

)

// Chained parent:: calls (added after the seeded change seeded/C08-parent-chain-gap was missed):
// a linear chain of classes K0 <- K1 <- … <- K(n-1); method m() is defined in a subset of them;
// every definition prints its class and, if some class above it defines m, calls parent::m().
// Calling m() on an object of class Kd must print the defining classes from the most-derived
// definition at or above Kd upwards — each parent:: hop runs the NEAREST definition strictly above
// the class the running code was written in. Judged by this Go oracle only (model-independent);
// the single hop is what Model.Hier.parentMethod / table `pp` already tie to the code.

type chainCase struct {
	Kind string `json:"kind"` // chain
	N    int    `json:"n"`
	Def  []bool `json:"def"` // Def[k]: Kk defines m
	Pfx  string `json:"pfx"`
}

func (cc chainCase) script() string {
	var sb strings.Builder
	sb.WriteString("<?php\n")
	for k := 0; k < cc.N; k++ {
		ext := ""
		if k > 0 {
			ext = fmt.Sprintf(" extends %sK%d", cc.Pfx, k-1)
		}
		fmt.Fprintf(&sb, "class %sK%d%s {\n", cc.Pfx, k, ext)
		if cc.Def[k] {
			above := false
			for j := 0; j < k; j++ {
				if cc.Def[j] {
					above = true
				}
			}
			fmt.Fprintf(&sb, "  public function m() { echo \"%d>\"; ", k)
			if above {
				sb.WriteString("parent::m(); ")
			}
			sb.WriteString("}\n")
		}
		sb.WriteString("}\n")
	}
	for d := 0; d < cc.N; d++ {
		has := false
		for j := 0; j <= d; j++ {
			if cc.Def[j] {
				has = true
			}
		}
		if has {
			fmt.Fprintf(&sb, "$o = new %sK%d(); $o->m(); echo \"|\";\n", cc.Pfx, d)
		} else {
			sb.WriteString("echo \"-|\";\n")
		}
	}
	return sb.String()
}

func (cc chainCase) expected() string {
	var sb strings.Builder
	for d := 0; d < cc.N; d++ {
		any := false
		for k := d; k >= 0; k-- {
			if cc.Def[k] {
				fmt.Fprintf(&sb, "%d>", k)
				any = true
			}
		}
		if !any {
			sb.WriteString("-")
		}
		sb.WriteString("|")
	}
	return sb.String()
}

func (r *runner) runChain(cc chainCase) {
	o := r.script(cc.script())
	want := cc.expected()
	key := fmt.Sprintf("chain:%d:%v", cc.N, cc.Def)
	r.c.Eval(key, cc.N >= 3)
	r.c.Hit("kind:chain")
	r.c.SampleSome(map[string]any{"kind": "chain", "n": cc.N, "def": cc.Def, "out": o.Out}, 97)
	if o.Kind != "ok" || o.Out != want {
		r.c.Violation("parent-chain", fmt.Sprintf("chained parent::m() over %d classes with m defined in %v prints %q (%s %s), nearest-ancestor dispatch gives %q", cc.N, cc.Def, o.Out, o.Kind, o.Detail, want), cc)
	}
}

// all chains of 2..5 classes × every subset of defining classes (complete)
func (r *runner) runChains() {
	n := 0
	for size := 2; size <= 5; size++ {
		for mask := 1; mask < 1<<size; mask++ {
			def := make([]bool, size)
			for k := 0; k < size; k++ {
				def[k] = mask&(1<<k) != 0
			}
			r.runChain(chainCase{Kind: "chain", N: size, Def: def, Pfx: fmt.Sprintf("Z%d", n)})
			n++
		}
	}
}

func (r *runner) replayChain(raw json.RawMessage) bool {
	var cc chainCase
	if json.Unmarshal(raw, &cc) == nil && cc.Kind == "chain" && cc.N > 0 && len(cc.Def) == cc.N {
		r.runChain(cc)
		return true
	}
	return false
}
