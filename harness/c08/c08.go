// Package c08: correspondence + violation search for C08 (instanceof, type
// hints, catch and dispatch follow the declared class hierarchy).
//
// A hierarchy description (classes with single inheritance, interfaces with
// multiple extends, implements edges, instance/static methods with parameter
// counts) is rendered as origami class/interface declarations plus probe code,
// run in-process, and the truth tables it prints are compared with
//   - the Lean model driver vm_c08 (Model.Hier)            → Mismatch
//   - an independent Go oracle computed from the description → Violation
// (reachability over the three edge kinds, most-derived / nearest-ancestor
// lookup, structural `like`).
package c08

import (
	"encoding/json"
	"fmt"
	"os"
	"path/filepath"
	"sort"
	"strings"

	"verif/harness/vh"
)

func init() { vh.Register("C08", Run) }

// ------------------------------------------------------------ description

type Meth struct {
	N int `json:"n"` // method name number (0,1 instance; 20,21 static; >=1000 probes)
	A int `json:"a"` // number of parameters
}

type Cls struct {
	Ext  int    `json:"e"` // index of the parent class (always smaller), -1 = none
	X    int    `json:"x,omitempty"` // exc cases, root classes only: 1 = extends Exception, 2 = extends RuntimeException
	Impl []int  `json:"i"`
	M    []Meth `json:"m"` // instance methods
	S    []Meth `json:"s"` // static methods
}

type Ifc struct {
	Ext []int  `json:"e"`
	M   []Meth `json:"m"`
}

type Hier struct {
	C []Cls `json:"c"`
	I []Ifc `json:"i"`
}

type Case struct {
	Kind string `json:"kind"` // rel | like | known
	H    Hier   `json:"h"`
}

var baseNames = []int{0, 1, 20, 21}

func isStaticName(n int) bool { return n >= 20 && n < 1000 }

func methName(n int) string {
	switch {
	case n < 20:
		return fmt.Sprintf("m%d", n)
	case n < 1000:
		return fmt.Sprintf("s%d", n-20)
	}
	kind, k, j := (n-1000)/100, (n-1000)/10%10, (n-1000)%10
	return fmt.Sprintf("%c%d_%d", "pftuwxyzv"[kind], k, j)
}

func probe(kind, k, j int) int { return 1000 + kind*100 + k*10 + j }

func (h Hier) clone() Hier {
	var o Hier
	for _, c := range h.C {
		o.C = append(o.C, Cls{Ext: c.Ext, X: c.X, Impl: append([]int{}, c.Impl...), M: append([]Meth{}, c.M...), S: append([]Meth{}, c.S...)})
	}
	for _, i := range h.I {
		o.I = append(o.I, Ifc{Ext: append([]int{}, i.Ext...), M: append([]Meth{}, i.M...)})
	}
	return o
}

// withProbes adds the probe methods of the given kinds to every class.
func (h Hier) withProbes(kinds ...int) Hier {
	o := h.clone()
	for k := range o.C {
		for _, kind := range kinds {
			switch kind {
			case 0: // p: parent::<name>
				for j := range baseNames {
					o.C[k].M = append(o.C[k].M, Meth{probe(0, k, j), 0})
				}
			case 1, 2, 5: // f: self::<static>, t: static::<static>, x: self::y
				for j := 2; j < 4; j++ {
					o.C[k].M = append(o.C[k].M, Meth{probe(kind, k, j), 0})
				}
			case 3, 6, 8: // u, y, v: static methods
				for j := 2; j < 4; j++ {
					o.C[k].S = append(o.C[k].S, Meth{probe(kind, k, j), 0})
				}
			case 4: // w: $this probes
				o.C[k].M = append(o.C[k].M, Meth{probe(4, k, 0), 1})
			case 7: // z: self::<instance>
				for j := 0; j < 2; j++ {
					o.C[k].M = append(o.C[k].M, Meth{probe(7, k, j), 0})
				}
			}
		}
	}
	return o
}

// ------------------------------------------------------------ model line

func methList(ms []Meth) string {
	var p []string
	for _, m := range ms {
		p = append(p, fmt.Sprintf("%d/%d", m.N, m.A))
	}
	return strings.Join(p, ",")
}

func intList(xs []int, off int) string {
	var p []string
	for _, x := range xs {
		p = append(p, fmt.Sprint(x+off))
	}
	return strings.Join(p, ",")
}

func modelLine(kind string, h Hier) string {
	var cs, is []string
	for k, c := range h.C {
		e := "-"
		if c.Ext >= 0 {
			e = fmt.Sprint(10 + c.Ext)
		} else if kind == "exc" && c.X == 1 {
			e = "1"
		} else if kind == "exc" && c.X == 2 {
			e = "3"
		}
		cs = append(cs, fmt.Sprintf("%d:%s:%s:%s:%s", 10+k, e, intList(c.Impl, 100), methList(c.M), methList(c.S)))
	}
	for k, i := range h.I {
		is = append(is, fmt.Sprintf("%d:%s:%s", 100+k, intList(i.Ext, 100), methList(i.M)))
	}
	if kind == "exc" {
		// the std classes: Exception (1) implements Throwable (0); RuntimeException (3) extends Exception
		cs = append(cs, "1:-:0::", "3:1:::")
		is = append(is, "0::")
	}
	return kind + "\t" + strings.Join(cs, ";") + "\t" + strings.Join(is, ";")
}

// ------------------------------------------------------------ rendering

type renderer struct {
	pfx string
	h   Hier
	exc bool
	sb  strings.Builder
}

func (r *renderer) cn(k int) string { return fmt.Sprintf("%sC%d", r.pfx, k) }
func (r *renderer) in(k int) string { return fmt.Sprintf("%sI%d", r.pfx, k) }
func (r *renderer) types() []string {
	var t []string
	for k := range r.h.C {
		t = append(t, r.cn(k))
	}
	if r.exc {
		t = append(t, "Exception", "RuntimeException")
	}
	for k := range r.h.I {
		t = append(t, r.in(k))
	}
	if r.exc {
		t = append(t, "Throwable")
	}
	return t
}
func (r *renderer) fn(ti int) string { return fmt.Sprintf("%sa%d", strings.ToLower(r.pfx), ti) }

func params(n int) string {
	var p []string
	for i := 0; i < n; i++ {
		p = append(p, fmt.Sprintf("$p%d", i))
	}
	return strings.Join(p, ", ")
}

func (r *renderer) parentIdx(k int) int { return r.h.C[k].Ext }

// body of a method of class k
func (r *renderer) body(k int, m Meth) string {
	if m.N < 1000 {
		return fmt.Sprintf("echo \"%d\";", k)
	}
	kind, j := (m.N-1000)/100, (m.N-1000)%10
	switch kind {
	case 0:
		return fmt.Sprintf("parent::%s(1, 2);", methName(baseNames[j]))
	case 1, 7:
		return fmt.Sprintf("self::%s(1, 2);", methName(baseNames[j]))
	case 2, 3, 6:
		return fmt.Sprintf("static::%s(1, 2);", methName(baseNames[j]))
	case 5:
		return fmt.Sprintf("self::%s();", methName(probe(6, k, j)))
	case 8:
		if r.parentIdx(k) < 0 {
			return "parent::nothing();"
		}
		return fmt.Sprintf("parent::%s();", methName(probe(6, r.parentIdx(k), j)))
	case 4:
		var sb strings.Builder
		sb.WriteString("if ($p0 == 1) { ")
		for _, t := range r.types() {
			fmt.Fprintf(&sb, "echo ($this instanceof %s) ? \"1\" : \"0\"; echo \",\"; ", t)
		}
		sb.WriteString("} else { ")
		for ti := range r.types() {
			fmt.Fprintf(&sb, "try { %s($this); echo \"1\"; } catch (Throwable $e) { echo \"0\"; } echo \",\"; ", r.fn(ti))
		}
		sb.WriteString("}")
		return sb.String()
	}
	return ""
}

func (r *renderer) decls(withFns bool) {
	sb := &r.sb
	sb.WriteString("<?php\n")
	for k, i := range r.h.I {
		fmt.Fprintf(sb, "interface %s", r.in(k))
		if len(i.Ext) > 0 {
			var e []string
			for _, x := range i.Ext {
				e = append(e, r.in(x))
			}
			fmt.Fprintf(sb, " extends %s", strings.Join(e, ", "))
		}
		sb.WriteString(" {")
		for _, m := range i.M {
			fmt.Fprintf(sb, " public function %s(%s);", methName(m.N), params(m.A))
		}
		sb.WriteString(" }\n")
	}
	for k, c := range r.h.C {
		fmt.Fprintf(sb, "class %s", r.cn(k))
		if c.Ext >= 0 {
			fmt.Fprintf(sb, " extends %s", r.cn(c.Ext))
		} else if r.exc && c.X == 1 {
			sb.WriteString(" extends Exception")
		} else if r.exc && c.X == 2 {
			sb.WriteString(" extends RuntimeException")
		}
		if len(c.Impl) > 0 {
			var e []string
			for _, x := range c.Impl {
				e = append(e, r.in(x))
			}
			fmt.Fprintf(sb, " implements %s", strings.Join(e, ", "))
		}
		sb.WriteString(" {\n")
		for _, m := range c.M {
			fmt.Fprintf(sb, "  public function %s(%s) { %s }\n", methName(m.N), params(m.A), r.body(k, m))
		}
		for _, m := range c.S {
			fmt.Fprintf(sb, "  public static function %s(%s) { %s }\n", methName(m.N), params(m.A), r.body(k, m))
		}
		sb.WriteString("}\n")
	}
	if withFns {
		for ti, t := range r.types() {
			fmt.Fprintf(sb, "function %s(%s $x) { return 1; }\n", r.fn(ti), t)
		}
	}
	for k := range r.h.C {
		root := k
		for r.h.C[root].Ext >= 0 {
			root = r.h.C[root].Ext
		}
		if r.exc && r.h.C[root].X > 0 {
			fmt.Fprintf(sb, "$o%d = new %s(\"x\");\n", k, r.cn(k)) // Exception's constructor wants the message
		} else {
			fmt.Fprintf(sb, "$o%d = new %s();\n", k, r.cn(k))
		}
	}
}

func (r *renderer) section(name string, rows int, row func(d int)) {
	fmt.Fprintf(&r.sb, "echo \"%s=\";\n", name)
	for d := 0; d < rows; d++ {
		row(d)
		r.sb.WriteString("echo \".\";\n")
	}
	r.sb.WriteString("echo \"\\n\";\n")
}

func (r *renderer) call(expr string) {
	fmt.Fprintf(&r.sb, "try { %s; } catch (Throwable $e) { echo \"-\"; } echo \",\";\n", expr)
}

func renderRel(pfx string, h Hier) string {
	r := &renderer{pfx: pfx, h: h}
	r.decls(true)
	n := len(h.C)
	r.section("io", n, func(d int) {
		for _, t := range r.types() {
			fmt.Fprintf(&r.sb, "echo ($o%d instanceof %s) ? \"1\" : \"0\"; echo \",\";\n", d, t)
		}
	})
	r.section("it", n, func(d int) { r.call(fmt.Sprintf("$o%d->%s(1)", d, methName(probe(4, d, 0)))) })
	r.section("pa", n, func(d int) {
		for ti := range r.types() {
			fmt.Fprintf(&r.sb, "try { %s($o%d); echo \"1\"; } catch (Throwable $e) { echo \"0\"; } echo \",\";\n", r.fn(ti), d)
		}
	})
	r.section("pt", n, func(d int) { r.call(fmt.Sprintf("$o%d->%s(2)", d, methName(probe(4, d, 0)))) })
	r.section("ca", n, func(d int) {
		for _, t := range r.types() {
			fmt.Fprintf(&r.sb, "try { try { throw $o%d; } catch (%s $e) { echo \"1\"; } } catch (%s $e) { echo \"0\"; } echo \",\";\n", d, t, r.cn(d))
		}
	})
	r.section("dm", n, func(d int) {
		for _, m := range baseNames {
			r.call(fmt.Sprintf("$o%d->%s(1, 2)", d, methName(m)))
		}
	})
	r.section("pp", n, func(d int) {
		for k := 0; k < n; k++ {
			for j := range baseNames {
				r.call(fmt.Sprintf("$o%d->%s()", d, methName(probe(0, k, j))))
			}
		}
	})
	for _, s := range []struct {
		name string
		kind int
	}{{"sf", 1}, {"st", 2}} {
		s := s
		r.section(s.name, n, func(d int) {
			for k := 0; k < n; k++ {
				for j := 2; j < 4; j++ {
					r.call(fmt.Sprintf("$o%d->%s()", d, methName(probe(s.kind, k, j))))
				}
			}
		})
	}
	r.section("ss", n, func(d int) {
		for k := 0; k < n; k++ {
			for j := 2; j < 4; j++ {
				r.call(fmt.Sprintf("%s::%s()", r.cn(d), methName(probe(3, k, j))))
			}
		}
	})
	return r.sb.String()
}

// exc: some root classes extend the std classes Exception / RuntimeException; relation tables only
func renderExc(pfx string, h Hier) string {
	r := &renderer{pfx: pfx, h: h, exc: true}
	r.decls(true)
	n := len(h.C)
	r.section("io", n, func(d int) {
		for _, t := range r.types() {
			fmt.Fprintf(&r.sb, "echo ($o%d instanceof %s) ? \"1\" : \"0\"; echo \",\";\n", d, t)
		}
	})
	r.section("pa", n, func(d int) {
		for ti := range r.types() {
			fmt.Fprintf(&r.sb, "try { %s($o%d); echo \"1\"; } catch (Throwable $e) { echo \"0\"; } echo \",\";\n", r.fn(ti), d)
		}
	})
	r.section("ca", n, func(d int) {
		for _, t := range r.types() {
			fmt.Fprintf(&r.sb, "try { try { throw $o%d; } catch (%s $e) { echo \"1\"; } } catch (%s $e) { echo \"0\"; } echo \",\";\n", d, t, r.cn(d))
		}
	})
	return r.sb.String()
}

func renderLike(pfx string, h Hier) string {
	r := &renderer{pfx: pfx, h: h}
	r.decls(false)
	r.section("lk", len(h.C), func(d int) {
		for _, t := range r.types() {
			fmt.Fprintf(&r.sb, "echo ($o%d like %s) ? \"1\" : \"0\"; echo \",\";\n", d, t)
		}
	})
	return r.sb.String()
}

func renderKnown(pfx string, h Hier) string {
	r := &renderer{pfx: pfx, h: h}
	r.decls(false)
	n := len(h.C)
	r.section("xf", n, func(d int) {
		for k := 0; k < n; k++ {
			for j := 2; j < 4; j++ {
				r.call(fmt.Sprintf("$o%d->%s()", d, methName(probe(5, k, j))))
			}
		}
	})
	r.section("vf", n, func(d int) {
		for k := 0; k < n; k++ {
			for j := 2; j < 4; j++ {
				r.call(fmt.Sprintf("%s::%s()", r.cn(d), methName(probe(8, k, j))))
			}
		}
	})
	r.section("zf", n, func(d int) {
		for k := 0; k < n; k++ {
			for j := 0; j < 2; j++ {
				r.call(fmt.Sprintf("$o%d->%s()", d, methName(probe(7, k, j))))
			}
		}
	})
	return r.sb.String()
}

// parseTables turns "name=c,c,.c,c,.\n" lines into name -> canonical table
// (rows joined by '.', single-character cells concatenated, anything else in
// parentheses). The it/pt rows are printed by a probe method as one call cell
// "b,b,b," + "," — flattened the same way.
func parseTables(out string) map[string]string {
	res := map[string]string{}
	for _, line := range strings.Split(out, "\n") {
		eq := strings.IndexByte(line, '=')
		if eq <= 0 {
			continue
		}
		name, body := line[:eq], line[eq+1:]
		var rows []string
		for _, row := range strings.Split(body, ".") {
			if row == "" {
				continue
			}
			var sb strings.Builder
			for _, cell := range strings.Split(row, ",") {
				if cell == "" {
					continue
				}
				if len(cell) == 1 {
					sb.WriteString(cell)
				} else {
					sb.WriteString("(" + cell + ")")
				}
			}
			rows = append(rows, sb.String())
		}
		res[name] = strings.Join(rows, ".")
	}
	return res
}

func joinTables(t map[string]string, order []string) string {
	var p []string
	for _, n := range order {
		p = append(p, n+"="+t[n])
	}
	return strings.Join(p, "|")
}

var orderOf = map[string][]string{
	"rel":   {"io", "it", "pa", "pt", "ca", "dm", "pp", "sf", "st", "ss"},
	"like":  {"lk"},
	"known": {"xf", "vf", "zf"},
	"exc":   {"io", "pa", "ca"},
}

// ------------------------------------------------------------ oracle (independent of the model)

// reach: set of type names ("C<k>" / "I<k>") an object of class d is an instance of.
func (h Hier) reach(d int) map[string]bool {
	seen := map[string]bool{}
	var visitI func(i int)
	visitI = func(i int) {
		key := fmt.Sprintf("I%d", i)
		if seen[key] {
			return
		}
		seen[key] = true
		for _, j := range h.I[i].Ext {
			visitI(j)
		}
	}
	for c := d; c >= 0; c = h.C[c].Ext {
		seen[fmt.Sprintf("C%d", c)] = true
		for _, i := range h.C[c].Impl {
			visitI(i)
		}
	}
	return seen
}

func has(ms []Meth, n int) (Meth, bool) {
	for _, m := range ms {
		if m.N == n {
			return m, true
		}
	}
	return Meth{}, false
}

// nearest class at or above `from` that declares n (inst / static / either); -1 if none
func (h Hier) nearest(from int, n int, inst, stat bool) (int, Meth) {
	for c := from; c >= 0; c = h.C[c].Ext {
		if inst {
			if m, ok := has(h.C[c].M, n); ok {
				return c, m
			}
		}
		if stat {
			if m, ok := has(h.C[c].S, n); ok {
				return c, m
			}
		}
	}
	return -1, Meth{}
}

func (h Hier) isAncOrSelf(k, d int) bool {
	for c := d; c >= 0; c = h.C[c].Ext {
		if c == k {
			return true
		}
	}
	return false
}

func digit(c int) string {
	if c < 0 {
		return "-"
	}
	return fmt.Sprint(c)
}

func (h Hier) typeKeys() []string {
	var t []string
	for k := range h.C {
		t = append(t, fmt.Sprintf("C%d", k))
	}
	for k := range h.I {
		t = append(t, fmt.Sprintf("I%d", k))
	}
	return t
}

func (h Hier) oracleRel() map[string]string {
	n := len(h.C)
	var rel, dm, pp, sf, st, ss []string
	for d := 0; d < n; d++ {
		r := h.reach(d)
		var sb strings.Builder
		for _, t := range h.typeKeys() {
			if r[t] {
				sb.WriteByte('1')
			} else {
				sb.WriteByte('0')
			}
		}
		rel = append(rel, sb.String())
		// $o->name(): most-derived instance method, else most-derived static method
		var row strings.Builder
		for _, m := range baseNames {
			c, _ := h.nearest(d, m, true, false)
			if c < 0 {
				c, _ = h.nearest(d, m, false, true)
			}
			row.WriteString(digit(c))
		}
		dm = append(dm, row.String())
		var rp, rf, rt, rs strings.Builder
		for k := 0; k < n; k++ {
			up := h.isAncOrSelf(k, d)
			for j, m := range baseNames {
				// parent::m written in k: nearest definition strictly above k. A class without a parent that
				// says parent:: is not a valid program (PHP refuses to compile it): no expectation ('*').
				switch {
				case !up:
					rp.WriteString("-")
				case h.C[k].Ext < 0:
					rp.WriteString("*")
				default:
					c, _ := h.nearest(h.C[k].Ext, m, true, true)
					rp.WriteString(digit(c))
				}
				if j >= 2 {
					cf, ct := -1, -1
					if up {
						cf, _ = h.nearest(k, m, false, true) // self:: → defining class
						ct, _ = h.nearest(d, m, false, true) // static:: → runtime class
					}
					rf.WriteString(digit(cf))
					rt.WriteString(digit(ct))
					rs.WriteString(digit(ct)) // D::u(): static:: → the named class D
				}
			}
		}
		pp, sf, st, ss = append(pp, rp.String()), append(sf, rf.String()), append(st, rt.String()), append(ss, rs.String())
	}
	j := func(x []string) string { return strings.Join(x, ".") }
	return map[string]string{"io": j(rel), "it": j(rel), "pa": j(rel), "pt": j(rel), "ca": j(rel),
		"dm": j(dm), "pp": j(pp), "sf": j(sf), "st": j(st), "ss": j(ss)}
}

func (h Hier) oracleExc() map[string]string {
	var rows []string
	for d := range h.C {
		r := h.reach(d)
		root := d
		for h.C[root].Ext >= 0 {
			root = h.C[root].Ext
		}
		x := h.C[root].X
		var sb strings.Builder
		bit := func(b bool) {
			if b {
				sb.WriteByte('1')
			} else {
				sb.WriteByte('0')
			}
		}
		for k := range h.C {
			bit(r[fmt.Sprintf("C%d", k)])
		}
		bit(x >= 1) // Exception
		bit(x == 2) // RuntimeException
		for k := range h.I {
			bit(r[fmt.Sprintf("I%d", k)])
		}
		bit(x >= 1) // Throwable
		rows = append(rows, sb.String())
	}
	t := strings.Join(rows, ".")
	return map[string]string{"io": t, "pa": t, "ca": t}
}

func (h Hier) oracleLike() map[string]string {
	var rows []string
	for d := range h.C {
		var sb strings.Builder
		check := func(target []Meth) {
			ok := true
			for _, tm := range target {
				c, m := h.nearest(d, tm.N, true, false)
				if c < 0 || m.A != tm.A {
					ok = false
				}
			}
			if ok {
				sb.WriteByte('1')
			} else {
				sb.WriteByte('0')
			}
		}
		for _, c := range h.C {
			check(c.M)
		}
		for _, i := range h.I {
			check(i.M)
		}
		rows = append(rows, sb.String())
	}
	return map[string]string{"lk": strings.Join(rows, ".")}
}

// what PHP semantics (forwarding of the late-static-binding class; self:: reaching instance methods) prescribe
func (h Hier) oracleKnown() map[string]string {
	n := len(h.C)
	var xf, vf, zf []string
	for d := 0; d < n; d++ {
		var rx, rv, rz strings.Builder
		for k := 0; k < n; k++ {
			up := h.isAncOrSelf(k, d)
			for j := 2; j < 4; j++ {
				c := -1
				if up {
					c, _ = h.nearest(d, baseNames[j], false, true)
				}
				rx.WriteString(digit(c))
				cv := -1
				if up && h.C[k].Ext >= 0 {
					cv = c
				}
				rv.WriteString(digit(cv))
			}
			for j := 0; j < 2; j++ {
				c := -1
				if up {
					c, _ = h.nearest(k, baseNames[j], true, true)
				}
				rz.WriteString(digit(c))
			}
		}
		xf, vf, zf = append(xf, rx.String()), append(vf, rv.String()), append(zf, rz.String())
	}
	j := func(x []string) string { return strings.Join(x, ".") }
	return map[string]string{"xf": j(xf), "vf": j(vf), "zf": j(zf)}
}

// ------------------------------------------------------------ running one case

type runner struct {
	c     *vh.Ctx
	m     *vh.Model
	env   *vh.VMEnv
	used  int
	count int
}

func (r *runner) script(src string) vh.Outcome {
	if r.env == nil || r.used >= 40 {
		r.env = vh.NewEnv()
		r.used = 0
	}
	r.used++
	return r.env.RunSource(src, "/verif-c08.php")
}

func firstDiff(order []string, a, b map[string]string) string {
	for _, n := range order {
		if a[n] != b[n] {
			return n
		}
	}
	return ""
}

// sameUpToWild: b may contain '*' (no expectation) cells; both are one character per cell
func sameUpToWild(a, b string) bool {
	if len(a) != len(b) {
		return false
	}
	for i := 0; i < len(a); i++ {
		if a[i] != b[i] && b[i] != '*' {
			return false
		}
	}
	return true
}

func firstDiffWild(order []string, a, b map[string]string) string {
	for _, n := range order {
		if !sameUpToWild(a[n], b[n]) {
			return n
		}
	}
	return ""
}

func shape(h Hier) string {
	depth := 0
	for k := range h.C {
		d := 0
		for c := k; c >= 0; c = h.C[c].Ext {
			d++
		}
		if d > depth {
			depth = d
		}
	}
	return fmt.Sprintf("classes=%d ifaces=%d depth=%d", len(h.C), len(h.I), depth)
}

func nontrivial(h Hier) bool {
	// at least one extends edge or one implements edge
	for _, c := range h.C {
		if c.Ext >= 0 || len(c.Impl) > 0 {
			return true
		}
	}
	return false
}

func (r *runner) run(cs Case) {
	c := r.c
	r.count++
	pfx := fmt.Sprintf("V%d", r.count)
	var full Hier
	var src string
	var oracle map[string]string
	switch cs.Kind {
	case "rel":
		full = cs.H.withProbes(0, 1, 2, 3, 4)
		src = renderRel(pfx, full)
		oracle = cs.H.oracleRel()
	case "like":
		full = cs.H
		src = renderLike(pfx, full)
		oracle = cs.H.oracleLike()
	case "exc":
		full = cs.H
		src = renderExc(pfx, full)
		oracle = cs.H.oracleExc()
	case "known":
		full = cs.H.withProbes(5, 6, 7, 8)
		src = renderKnown(pfx, full)
		oracle = cs.H.oracleKnown()
	default:
		c.Note("unknown case kind %q", cs.Kind)
		return
	}
	order := orderOf[cs.Kind]
	line := modelLine(cs.Kind, full)
	o := r.script(src)
	key := cs.Kind + "|" + modelLine("", cs.H)
	c.Eval(key, nontrivial(cs.H))
	c.Hit(cs.Kind + ":" + shape(cs.H))
	c.SampleSome(map[string]any{"case": cs, "out": o.Out}, 499)
	if o.Kind != "ok" {
		c.Violation(cs.Kind+":script-"+o.Kind, fmt.Sprintf("generated hierarchy script did not run to completion: %s %s", o.Kind, o.Detail), cs)
		return
	}
	impl := parseTables(o.Out)
	implS := joinTables(impl, order)
	// cells evaluated
	for _, n := range order {
		c.HitN("cells:"+n, len(strings.ReplaceAll(impl[n], ".", "")))
	}
	var model map[string]string
	if r.m != nil {
		got, err := r.m.Ask(line)
		if err != nil {
			c.Note("model failed: %v", err)
			r.m = nil
		} else {
			model = map[string]string{}
			for _, part := range strings.Split(got, "|") {
				if eq := strings.IndexByte(part, '='); eq > 0 {
					model[part[:eq]] = part[eq+1:]
				}
			}
			if cs.Kind != "known" && got != implS {
				c.Mismatch(cs, implS, got, "origami vs Model.Hier, first differing table: "+firstDiff(order, impl, model))
			}
		}
	}
	if cs.Kind == "known" {
		// known stream: only confirms that the recorded deviations still reproduce, and that they are the
		// recorded ones (the model predicts exactly what the pinned code does)
		sigs := map[string]string{"xf": "lsb:self-hop", "vf": "lsb:parent-hop-static-context", "zf": "self:instance-method"}
		what := map[string]string{
			"xf": "static:: after a self:: call binds to the class the code was written in, not to the runtime class of the object",
			"vf": "static:: after a parent:: call made in a static context binds to the class defining the running method, not to the class named in the call",
			"zf": "self::m() cannot call an instance method (only static methods are looked up)",
		}
		for _, n := range order {
			if impl[n] == oracle[n] {
				continue
			}
			if model != nil && model[n] != impl[n] {
				c.Violation("known-stream:"+n+":unrecorded", fmt.Sprintf("table %s: origami %q, PHP semantics %q, model of the recorded deviation %q", n, impl[n], oracle[n], model[n]), cs)
				continue
			}
			c.Violation(sigs[n], fmt.Sprintf("%s (table %s: origami %q, expected %q)", what[n], n, impl[n], oracle[n]), cs)
		}
		return
	}
	if n := firstDiffWild(order, impl, oracle); n != "" {
		c.Violation(sigOf(cs.Kind, n), fmt.Sprintf("table %s differs from the hierarchy: origami %q, expected %q", n, impl[n], oracle[n]), cs)
	}
}

func sigOf(kind, table string) string {
	switch table {
	case "io", "it":
		return "instanceof:" + table
	case "pa", "pt":
		return "typed-parameter:" + table
	case "ca":
		return "catch"
	case "dm":
		return "dispatch"
	case "pp":
		return "parent"
	case "sf":
		return "self"
	case "st", "ss":
		return "static:" + table
	case "lk":
		return "like"
	}
	return kind + ":" + table
}

// ------------------------------------------------------------ generators

// all parent vectors for n classes (parent index smaller than own)
func parentVectors(n int) [][]int {
	res := [][]int{{}}
	for i := 0; i < n; i++ {
		var next [][]int
		for _, v := range res {
			for p := -1; p < i; p++ {
				next = append(next, append(append([]int{}, v...), p))
			}
		}
		res = next
	}
	return res
}

func subsets(k int) [][]int {
	var res [][]int
	for mask := 0; mask < 1<<k; mask++ {
		var s []int
		for b := 0; b < k; b++ {
			if mask&(1<<b) != 0 {
				s = append(s, b)
			}
		}
		res = append(res, s)
	}
	return res
}

// interface-extends shapes for k <= 2 interfaces
func ifaceShapes(k int) [][][]int {
	switch k {
	case 0:
		return [][][]int{{}}
	case 1:
		return [][][]int{{nil}}
	}
	return [][][]int{{nil, nil}, {{1}, nil}, {nil, {0}}}
}

// method layout mask: bit 2*i = class i declares m0, bit 2*i+1 = class i declares s0
func applyLayout(h *Hier, mask int) {
	for i := range h.C {
		h.C[i].M, h.C[i].S = nil, nil
		if mask&(1<<(2*i)) != 0 {
			h.C[i].M = append(h.C[i].M, Meth{0, 2})
		}
		if mask&(1<<(2*i+1)) != 0 {
			h.C[i].S = append(h.C[i].S, Meth{20, 0})
		}
	}
}

func randomMethods(r *vh.Rand, h *Hier, density int) {
	for i := range h.C {
		h.C[i].M, h.C[i].S = nil, nil
		for _, n := range []int{0, 1} {
			if r.Chance(density) {
				h.C[i].M = append(h.C[i].M, Meth{n, r.Intn(3)})
			}
		}
		for _, n := range []int{20, 21} {
			if r.Chance(density) {
				h.C[i].S = append(h.C[i].S, Meth{n, r.Intn(3)})
			}
		}
	}
}

func randomHier(r *vh.Rand, n, k int) Hier {
	var h Hier
	for i := 0; i < n; i++ {
		p := -1
		if i > 0 && r.Chance(75) {
			p = r.Intn(i)
		}
		var impl []int
		for b := 0; b < k; b++ {
			if r.Chance(30) {
				impl = append(impl, b)
			}
		}
		h.C = append(h.C, Cls{Ext: p, Impl: impl})
	}
	// random DAG over the interfaces: a random order, edges only towards earlier positions
	pos := make([]int, k)
	for i := range pos {
		pos[i] = i
	}
	for i := k - 1; i > 0; i-- {
		j := r.Intn(i + 1)
		pos[i], pos[j] = pos[j], pos[i]
	}
	h.I = make([]Ifc, k)
	for a := 0; a < k; a++ {
		for b := 0; b < k; b++ {
			if pos[b] < pos[a] && r.Chance(45) {
				h.I[a].Ext = append(h.I[a].Ext, b)
			}
		}
	}
	return h
}

// likeRepair gives interface methods to the interfaces and makes every class concrete: a class must provide
// (own or inherited, any kind) every method of every interface it reaches, otherwise origami refuses `new`.
func likeRepair(r *vh.Rand, h *Hier, ifaceDensity int) {
	for i := range h.I {
		h.I[i].M = nil
		for _, n := range []int{0, 1} {
			if r.Chance(ifaceDensity) {
				h.I[i].M = append(h.I[i].M, Meth{n, r.Intn(3)})
			}
		}
	}
	for d := range h.C {
		for key := range h.reach(d) {
			if key[0] != 'I' {
				continue
			}
			var i int
			fmt.Sscanf(key[1:], "%d", &i)
			for _, m := range h.I[i].M {
				if c, _ := h.nearest(d, m.N, true, true); c < 0 {
					a := m.A
					if r.Chance(35) {
						a = r.Intn(3)
					}
					h.C[d].M = append(h.C[d].M, Meth{m.N, a})
				}
			}
		}
		sort.Slice(h.C[d].M, func(a, b int) bool { return h.C[d].M[a].N < h.C[d].M[b].N })
	}
}

func ifaceAcyclic(is []Ifc) bool {
	state := make([]int, len(is))
	var visit func(i int) bool
	visit = func(i int) bool {
		if state[i] == 1 {
			return false
		}
		if state[i] == 2 {
			return true
		}
		state[i] = 1
		for _, j := range is[i].Ext {
			if !visit(j) {
				return false
			}
		}
		state[i] = 2
		return true
	}
	for i := range is {
		if !visit(i) {
			return false
		}
	}
	return true
}

// ------------------------------------------------------------ runner

func Run(c *vh.Ctx) {
	var m *vh.Model
	if c.ModelPath != "" {
		var err error
		m, err = vh.StartModel(c.ModelPath)
		if err != nil {
			c.Note("cannot start model: %v", err)
			m = nil
		} else {
			defer m.Close()
			c.Res.ModelUsed = true
		}
	}
	r := &runner{c: c, m: m}
	defer func() {
		if r.m != nil {
			c.Res.ModelLines = r.m.Lines
		}
	}()
	if len(c.ReplayRaw) > 0 {
		if r.replayChain(c.ReplayRaw) || r.replayProp(c.ReplayRaw) || r.replayName(c.ReplayRaw) {
			return
		}
		var cs Case
		if err := json.Unmarshal(c.ReplayRaw, &cs); err != nil {
			c.Note("bad replay: %v", err)
			return
		}
		r.run(cs)
		return
	}
	c.Res.Rule = "a case = one hierarchy (classes with single inheritance, interfaces with multiple extends, implements edges, instance/static methods with parameter counts) rendered as origami declarations and run in-process; rel cases print, for every (object class, type) pair, instanceof / $this instanceof / T-typed parameter with the object / with $this / catch (T), and for every (object, method) pair the class whose method runs for $o->m(), parent::m(), self::s(), static::s() (probe methods written in every class, called on every object); like cases print $o like T for every pair; exc cases let root classes extend the std classes Exception / RuntimeException and print instanceof / typed parameter / catch against the user types plus Exception, RuntimeException, Throwable; known cases replay the recorded static-binding deviations. Each table is compared with the Lean model and with reachability / most-derived lookup computed in Go from the description. non-trivial = has at least one extends or implements edge; distinct = distinct (kind, hierarchy)"

	// 0. committed corpus of past failures
	if files, _ := filepath.Glob("../corpus/C08/*.json"); len(files) > 0 {
		sort.Strings(files)
		for _, f := range files {
			b, err := os.ReadFile(f)
			if err != nil {
				continue
			}
			var rf struct {
				Case Case `json:"case"`
			}
			if json.Unmarshal(b, &rf) == nil && rf.Case.Kind != "" {
				r.run(rf.Case)
				c.Hit("corpus")
			}
		}
	}

	// 1. complete enumeration: every structure with <= 3 classes and <= 2 interfaces
	full := c.Thorough()
	structures := 0
	for n := 1; n <= 3; n++ {
		for k := 0; k <= 2; k++ {
			subs := subsets(k)
			for _, pv := range parentVectors(n) {
				for _, ish := range ifaceShapes(k) {
					// implements: every assignment of a subset to every class
					total := 1
					for i := 0; i < n; i++ {
						total *= len(subs)
					}
					for code := 0; code < total; code++ {
						var h Hier
						x := code
						for i := 0; i < n; i++ {
							h.C = append(h.C, Cls{Ext: pv[i], Impl: append([]int{}, subs[x%len(subs)]...)})
							x /= len(subs)
						}
						for _, e := range ish {
							h.I = append(h.I, Ifc{Ext: append([]int{}, e...)})
						}
						structures++
						if full {
							for mask := 0; mask < 1<<(2*n); mask++ {
								hh := h.clone()
								applyLayout(&hh, mask)
								r.run(Case{"rel", hh})
							}
						} else {
							hh := h.clone()
							applyLayout(&hh, c.Rand.Intn(1<<(2*n)))
							r.run(Case{"rel", hh})
						}
					}
				}
			}
		}
	}
	// every override layout over every extends shape (quick: with seeded implements edges; thorough did the product above)
	if !full {
		for n := 1; n <= 3; n++ {
			for _, pv := range parentVectors(n) {
				for mask := 0; mask < 1<<(2*n); mask++ {
					h := randomHier(c.Rand, n, 2)
					for i := range h.C {
						h.C[i].Ext = pv[i]
					}
					applyLayout(&h, mask)
					r.run(Case{"rel", h})
				}
			}
		}
	}
	// every interface-extends DAG over <= 4 interfaces (all acyclic subsets of the 12 directed edges), one class
	// implementing interface 0 — label symmetry makes this every (DAG, implemented node) pair; the order of the
	// extends lists is seeded
	dags := 0
	for mask := 0; mask < 1<<12; mask++ {
		var h Hier
		h.I = make([]Ifc, 4)
		bit := 0
		for a := 0; a < 4; a++ {
			for b := 0; b < 4; b++ {
				if a == b {
					continue
				}
				if mask&(1<<bit) != 0 {
					h.I[a].Ext = append(h.I[a].Ext, b)
				}
				bit++
			}
		}
		if !ifaceAcyclic(h.I) {
			continue
		}
		dags++
		for a := range h.I {
			if c.Rand.Bool() {
				e := h.I[a].Ext
				for i, j := 0, len(e)-1; i < j; i, j = i+1, j-1 {
					e[i], e[j] = e[j], e[i]
				}
			}
		}
		h.C = []Cls{{Ext: -1, Impl: []int{0}}}
		if c.Rand.Chance(30) {
			h.C = append(h.C, Cls{Ext: 0})
		}
		r.run(Case{"rel", h})
	}
	// like: every extends shape x every class declaring m0 with 0 / 1 parameters or not x every target interface
	for n := 1; n <= 3; n++ {
		for _, pv := range parentVectors(n) {
			pow := 1
			for i := 0; i < n; i++ {
				pow *= 3
			}
			for code := 0; code < pow; code++ {
				for im := 0; im < 3; im++ {
					var h Hier
					x := code
					for i := 0; i < n; i++ {
						cl := Cls{Ext: pv[i]}
						if x%3 > 0 {
							cl.M = []Meth{{0, x%3 - 1}}
						}
						x /= 3
						h.C = append(h.C, cl)
					}
					ifc := Ifc{}
					if im > 0 {
						ifc.M = []Meth{{0, im - 1}}
					}
					h.I = []Ifc{ifc}
					r.run(Case{"like", h})
				}
			}
		}
	}
	c.Res.Exhaustive = true
	if full {
		c.Res.ExhaustiveWhat = fmt.Sprintf("rel: all %d structures with <= 3 classes (every parent vector) and <= 2 interfaces (every extends shape, every implements assignment), each with every layout of m0/s0 declared-or-not per class; all %d interface-extends DAGs over 4 interfaces below one implementing class; like: every extends shape of <= 3 classes x m0 absent / 0 / 1 parameters per class x target interface method absent / 0 / 1 parameters", structures, dags)
	} else {
		c.Res.ExhaustiveWhat = fmt.Sprintf("rel: all %d structures with <= 3 classes and <= 2 interfaces (every parent vector, interface-extends shape and implements assignment; method layout seeded), all %d interface-extends DAGs over 4 interfaces below one implementing class, and every layout of m0/s0 declared-or-not per class over every parent vector (implements seeded); like: every extends shape of <= 3 classes x m0 absent / 0 / 1 parameters per class x target interface method absent / 0 / 1 parameters", structures, dags)
	}

	// 2. seeded larger hierarchies (<= 5 classes, <= 4 interfaces)
	for i := 0; i < c.N(350, 6000); i++ {
		h := randomHier(c.Rand, c.Rand.Range(2, 5), c.Rand.Range(0, 4))
		randomMethods(c.Rand, &h, 45)
		r.run(Case{"rel", h})
	}
	for i := 0; i < c.N(500, 8000); i++ {
		h := randomHier(c.Rand, c.Rand.Range(1, 5), c.Rand.Range(0, 4))
		randomMethods(c.Rand, &h, 50)
		for k := range h.C {
			h.C[k].S = nil
		}
		likeRepair(c.Rand, &h, 60)
		r.run(Case{"like", h})
	}

	// exceptions: root classes extending the std classes Exception / RuntimeException (Exception implements
	// Throwable), tested against catch (Exception) / (Throwable) and the user types
	for i := 0; i < c.N(150, 2500); i++ {
		h := randomHier(c.Rand, c.Rand.Range(1, 4), c.Rand.Range(0, 3))
		for k := range h.C {
			if h.C[k].Ext < 0 {
				h.C[k].X = c.Rand.Intn(3)
			}
		}
		r.run(Case{"exc", h})
	}

	// chained parent:: calls over linear chains of up to 5 classes (complete)
	r.runChains()

	// inherited property defaults over linear chains of up to 5 classes (complete)
	r.runProps()

	// near-miss names of every special name the deciders know (complete over forms x kinds x relatedness)
	r.runNames()

	// 3. known stream: the recorded deviations must still be the recorded ones
	knownCases := []Hier{
		// C0 <- C1 <- C2, s0 declared at every level
		{C: []Cls{{Ext: -1, M: []Meth{{0, 0}}, S: []Meth{{20, 0}}}, {Ext: 0, S: []Meth{{20, 0}}}, {Ext: 1, S: []Meth{{20, 0}}}}},
	}
	for i := 0; i < c.N(20, 200); i++ {
		h := randomHier(c.Rand, c.Rand.Range(2, 4), 0)
		randomMethods(c.Rand, &h, 70)
		knownCases = append(knownCases, h)
	}
	for _, h := range knownCases {
		r.run(Case{"known", h})
	}
}
