package c05

import (
	"encoding/json"
	"fmt"
	"os"
	"sort"
	"strings"

	"verif/harness/vh"
)

func init() { vh.Register("C05", Run) }

type replay struct {
	Kind string `json:"kind"`           // prog | cli | known | script
	Case *Case  `json:"case,omitempty"` // prog
	Name string `json:"name,omitempty"` // cli / known: which scenario
}

type runner struct {
	c        *vh.Ctx
	m        *vh.Model
	shrunk   map[string]int // divergence kind → violations shrunk so far
	failures int            // violating or mismatching programs so far
	longFull int            // long-running programs also evaluated in full by the model so far
}

// after this many failing programs the remaining generated programs are skipped: the check has
// failed anyway and every further failure costs a shrink
const floodLimit = 60

// ------------------------------------------------------------ judging one program

func tokens(trace string) []string {
	var res []string
	for _, t := range strings.Split(trace, ";") {
		if t != "" {
			res = append(res, t)
		}
	}
	return res
}

func countPrefix(toks []string, p string) map[string]int {
	m := map[string]int{}
	for _, t := range toks {
		if strings.HasPrefix(t, p) {
			m[t]++
		}
	}
	return m
}

func filterPrefix(toks []string, p string) string {
	var r []string
	for _, t := range toks {
		if strings.HasPrefix(t, p) {
			r = append(r, t)
		}
	}
	return strings.Join(r, ";")
}

// kind of departure from PHP's rules, most specific first
func divergence(gotFinal, gotTrace, expFinal, expTrace string) string {
	g, e := tokens(gotTrace), tokens(expTrace)
	gf, ef := countPrefix(g, "F"), countPrefix(e, "F")
	for k, n := range ef {
		if gf[k] < n {
			return "finally-skipped"
		}
	}
	for k, n := range gf {
		if ef[k] < n {
			return "finally-repeated"
		}
	}
	if filterPrefix(g, "C") != filterPrefix(e, "C") {
		return "wrong-catch"
	}
	if strings.HasPrefix(gotFinal, "parse-error") {
		return "not-accepted"
	}
	if gotTrace != expTrace {
		return "trace"
	}
	if gotFinal != expFinal {
		if strings.HasPrefix(expFinal, "uncaught") || strings.HasPrefix(gotFinal, "uncaught") {
			return "uncaught"
		}
		return "final"
	}
	return ""
}

func features(c Case) string {
	set := map[string]bool{}
	if c.Long {
		set["long-run"] = true
	}
	if c.sharedCount() >= 2 {
		set["rerun"] = true
	}
	for _, b := range c.blocks() {
		featuresOf(b, set)
	}
	var fs []string
	for k := range set {
		fs = append(fs, k)
	}
	sort.Strings(fs)
	return strings.Join(fs, ",")
}

func featuresOf(b []Stmt, set map[string]bool) {
	walk(b, func(s Stmt) {
		switch s.K {
		case "cf":
			set["recursion"] = true
		case "gp":
			set["hostpanic"] = true
		case "ie":
			set["runtime-error"] = true
		case "rt":
			set["rethrow"] = true
		case "b":
			set["break"] = true
		case "c":
			set["continue"] = true
		case "r":
			set["return"] = true
		case "l":
			set["loop"] = true
		case "f":
			set["call"] = true
			if s.Via != "" {
				set[viaName(s.Via)] = true
			}
		case "y":
			if s.HasFin {
				set["finally"] = true
			}
			if len(s.Catches) > 0 {
				set["catch"] = true
			}
			if s.Q != "" {
				set["bare"] = true
			}
			for _, cl := range s.Catches {
				if cl.Q {
					set["bare"] = true
				}
			}
		}
	})
}

func violates(c Case) (string, implRes, string, string) {
	impl := runScript(c.script())
	ef, et := reference(c)
	if c.Long {
		return longDivergence(c, impl.Final, impl.Trace, ef, et), impl, ef, et
	}
	return divergence(impl.Final, impl.Trace, ef, et), impl, ef, et
}

// ------------------------------------------------------------ shrinking (greedy, keeps the divergence kind)

func cloneStmts(b []Stmt) []Stmt {
	raw, _ := json.Marshal(b)
	var r []Stmt
	json.Unmarshal(raw, &r)
	return r
}

// candidates: every program obtained by deleting one statement, or replacing one compound statement
// by its body / one try by its try-block, or dropping one catch clause / the finally block
func candidates(b []Stmt) [][]Stmt {
	var res [][]Stmt
	var rec func(cur []Stmt, rebuild func([]Stmt) []Stmt)
	rec = func(cur []Stmt, rebuild func([]Stmt) []Stmt) {
		for i := range cur {
			i := i
			del := append(append([]Stmt{}, cur[:i]...), cur[i+1:]...)
			res = append(res, rebuild(del))
			s := cur[i]
			splice := func(repl []Stmt) []Stmt {
				r := append([]Stmt{}, cur[:i]...)
				r = append(r, repl...)
				return append(r, cur[i+1:]...)
			}
			with := func(ns Stmt) []Stmt {
				r := append([]Stmt{}, cur...)
				r[i] = ns
				return r
			}
			if s.K == "l" || s.K == "y" {
				res = append(res, rebuild(splice(s.Body)))
			}
			if s.K == "l" && s.N > 8 {
				// a long-running loop: fewer iterations first (every later candidate runs faster)
				for _, n := range []int{s.N / 2, s.N - s.N/8, s.N - 1} {
					ns := s
					ns.N = n
					res = append(res, rebuild(with(ns)))
				}
			} else if s.K == "l" && s.N > 1 {
				ns := s
				ns.N = 1
				res = append(res, rebuild(with(ns)))
			}
			if s.K == "f" && s.Via != "" {
				ns := s
				ns.Via = ""
				res = append(res, rebuild(with(ns)))
			}
			if s.K == "y" {
				// a part rendered without its marker gets the marker back (the failure then does not need the bare shape)
				if s.Q != "" {
					ns := s
					ns.Q = ""
					res = append(res, rebuild(with(ns)))
				}
				for k := range s.Catches {
					if s.Catches[k].Q {
						ns := s
						ns.Catches = append([]Catch{}, s.Catches...)
						ns.Catches[k].Q = false
						res = append(res, rebuild(with(ns)))
					}
				}
				for k := range s.Catches {
					ns := s
					ns.Catches = append(append([]Catch{}, s.Catches[:k]...), s.Catches[k+1:]...)
					if len(ns.Catches) > 0 || ns.HasFin {
						res = append(res, rebuild(with(ns)))
					}
				}
				if s.HasFin && len(s.Catches) > 0 {
					ns := s
					ns.HasFin, ns.Fin = false, nil
					res = append(res, rebuild(with(ns)))
				}
			}
			if len(s.Body) > 0 || s.K == "l" || s.K == "f" || s.K == "y" {
				rec(s.Body, func(nb []Stmt) []Stmt { ns := s; ns.Body = nb; return rebuild(with(ns)) })
			}
			for k := range s.Catches {
				k := k
				rec(s.Catches[k].Body, func(nb []Stmt) []Stmt {
					ns := s
					ns.Catches = append([]Catch{}, s.Catches...)
					ns.Catches[k].Body = nb
					return rebuild(with(ns))
				})
			}
			if s.HasFin {
				rec(s.Fin, func(nb []Stmt) []Stmt { ns := s; ns.Fin = nb; return rebuild(with(ns)) })
			}
		}
	}
	rec(b, func(x []Stmt) []Stmt { return x })
	return res
}

func validJumps(b []Stmt, inLoop bool) bool {
	for _, s := range b {
		switch s.K {
		case "b", "c":
			if !inLoop {
				return false
			}
		case "l":
			if !validJumps(s.Body, true) {
				return false
			}
		case "f":
			if !validJumps(s.Body, false) {
				return false
			}
		case "y":
			if !validJumps(s.Body, inLoop) || !validJumps(s.Fin, inLoop) {
				return false
			}
			for _, c := range s.Catches {
				if !validJumps(c.Body, inLoop) {
					return false
				}
			}
		}
	}
	return true
}

// candidates of a whole case: one shrinking step in the top level or in one named function, one level of
// recursion less, the last named function dropped when nothing calls it
func caseCandidates(c Case) []Case {
	var res []Case
	if c.Depth > 1 {
		nc := c
		nc.Depth--
		res = append(res, nc)
	}
	if n := len(c.Fns); n > 0 {
		called := false
		for _, b := range c.blocks() {
			walk(b, func(s Stmt) {
				if s.K == "cf" && s.N == n-1 {
					called = true
				}
			})
		}
		if !called {
			nc := c
			nc.Fns = c.Fns[:n-1]
			res = append(res, nc)
		}
	}
	for _, cand := range candidates(c.Prog) {
		if validJumps(cand, false) {
			nc := c
			nc.Prog = cand
			if c.Long && !nc.longShape() {
				continue // a long-running program stays one loop whose body starts with the iteration marker
			}
			res = append(res, nc)
		}
	}
	for k := range c.Fns {
		for _, cand := range candidates(c.Fns[k]) {
			if validJumps(cand, false) {
				nc := c
				nc.Fns = append([][]Stmt{}, c.Fns...)
				nc.Fns[k] = cand
				res = append(res, nc)
			}
		}
	}
	return res
}

func cloneCase(c Case) Case {
	raw, _ := json.Marshal(c)
	var r Case
	json.Unmarshal(raw, &r)
	return r
}

func shrink(c Case, kind string) Case {
	cur := c
	for round := 0; round < 60; round++ {
		improved := false
		for _, cand := range caseCandidates(cur) {
			nc := cloneCase(cand)
			if k, _, _, _ := violates(nc); k == kind {
				cur = nc
				improved = true
				break
			}
		}
		if !improved {
			break
		}
	}
	return cur
}

// ------------------------------------------------------------ one case through implementation, oracle, model

func (r *runner) check(c Case, replayMode bool) {
	if r.failures >= floodLimit && !replayMode {
		r.c.Hit("skipped-after-flood")
		return
	}
	if c.Long {
		r.checkLong(c, replayMode)
		return
	}
	ef, et, steps, pendingCalls := referenceFull(c)
	if steps > c.stepLimit() && !replayMode {
		r.c.Hit("skipped-too-long")
		return
	}
	impl := runScript(c.script())
	toks := tokens(et)
	nontrivial := len(toks) >= 3
	quiet := c.quietList()
	r.c.Eval(c.modelProg()+"#"+c.G.model()+"#"+quiet, nontrivial)
	r.c.Hit("final:" + strings.SplitN(ef, ":", 2)[0])
	r.c.Hit(fmt.Sprintf("try-depth:%d", c.tryDepth()))
	if c.rec() {
		r.c.Hit(fmt.Sprintf("recursion-depth:%d", c.Depth))
		switch {
		case pendingCalls == 0:
			r.c.Hit("calls-while-a-control-is-pending:0")
		case pendingCalls < 4:
			r.c.Hit("calls-while-a-control-is-pending:1-3")
		default:
			r.c.Hit("calls-while-a-control-is-pending:4+")
		}
	}
	r.c.HitN("events:T", len(countTok(toks, "T")))
	r.c.HitN("events:F", len(countTok(toks, "F")))
	r.c.HitN("events:C", len(countTok(toks, "C")))
	if quiet != "" {
		r.c.Hit("bare-parts")
	}
	r.c.SampleSome(map[string]any{"prog": c.modelProg(), "bare": quiet, "graph": c.G.model(), "trace": et, "final": ef}, 997)

	// property: the real interpreter against PHP's rules
	if kind := divergence(impl.Final, impl.Trace, ef, et); kind != "" {
		r.failures++
		sc := c
		if r.shrunk[kind] < 3 || replayMode {
			r.shrunk[kind]++
			sc = shrink(c, kind)
		}
		si := runScript(sc.script())
		sf, st := reference(sc)
		sig := "exc:" + kind + ":" + features(sc)
		r.c.Violation(sig, fmt.Sprintf("program %q%s over %s: origami %s, PHP's rules %s|%s", sc.modelProg(), bareNote(sc), sc.G.model(), si, sf, st),
			replay{Kind: "prog", Case: &sc})
	}

	// correspondence: the real interpreter against the Lean model
	if r.m != nil {
		// a program with bare parts: the model's events of those parts are hidden (Model.Exc.hide)
		runCmd, specCmd, qarg := "run", "spec", ""
		if quiet != "" {
			runCmd, specCmd, qarg = "runq", "specq", "\t"+quiet
		}
		line := runCmd + "\tfixed\t" + c.G.model() + "\t" + c.modelProg() + qarg
		ans, err := r.m.Ask(line)
		if err != nil {
			r.c.Mismatch(replay{Kind: "prog", Case: &c}, impl.String(), "model error: "+err.Error(), "")
			return
		}
		r.c.Res.Traces++
		if ans != impl.String() {
			r.failures++
			note := ""
			if pin, err := r.m.Ask(runCmd + "\tpinned\t" + c.G.model() + "\t" + c.modelProg() + qarg); err == nil && pin == impl.String() {
				note = "the implementation agrees with the pre-fix (pinned) model: one of the C05 fixes is missing from this tree"
			}
			r.c.Mismatch(replay{Kind: "prog", Case: &c}, impl.String(), ans, note)
		}
		// the Lean spec and the Go reference must agree as well (two independent statements of PHP's rules)
		if sp, err := r.m.Ask(specCmd + "\t" + c.G.model() + "\t" + c.modelProg() + qarg); err == nil && sp != ef+"|"+et {
			r.c.Mismatch(replay{Kind: "prog", Case: &c}, "go-reference "+ef+"|"+et, "lean-spec "+sp, "Spec.Exc and the Go reference interpreter disagree")
		}
	}
	if replayMode {
		r.c.Note("replay: origami %s ; reference %s|%s", impl, ef, et)
	}
}

// how a report names the parts of a program that are rendered without their marker
func bareNote(c Case) string {
	note := ""
	if q := c.quietList(); q != "" {
		note = " [rendered without the markers " + q + "]"
	}
	if c.sharedCount() >= 2 {
		var calls []Stmt
		sharedCalls(c.Prog, &calls)
		kinds := map[string]bool{}
		walk(c.Prog, func(s Stmt) {
			if s.K == "ie" {
				kinds[ieKinds[s.N%len(ieKinds)].name] = true
			}
		})
		var ks []string
		for k := range kinds {
			ks = append(ks, k)
		}
		sort.Strings(ks)
		note += fmt.Sprintf(" [the %d calls f{ … } are calls of ONE %s whose body is rendered once, the differing leaves under `if ($w == j)`: every call executes the SAME try statements; PHP's rules are applied to the program as written, a fresh copy per call", len(calls), map[string]string{"h": "function", "hm": "method of one object", "hs": "static method", "hc": "closure"}[func() string {
			if len(calls) > 0 {
				return calls[0].Via
			}
			return "h"
		}()])
		if len(ks) > 0 {
			note += "; gp written for the interpreter-raised error " + strings.Join(ks, ", ")
		}
		note += "]"
	}
	return note
}

func countTok(toks []string, p string) []string {
	var r []string
	for _, t := range toks {
		if strings.HasPrefix(t, p) {
			r = append(r, t)
		}
	}
	return r
}

// ------------------------------------------------------------ fixed cases that must keep passing (the witnesses of the fixed findings)

func witnessCases() []Case {
	g := enumGraph()
	return []Case{
		// fixed C05-finally-skipped-on-go-panic
		{G: g, Tag: "witness/panic-finally", Prog: []Stmt{{K: "y", N: 1, Body: []Stmt{{K: "gp"}}, Catches: []Catch{{Types: []int{0}, Body: []Stmt{{K: "e", N: 1}}}}, HasFin: true, Fin: []Stmt{{K: "e", N: 2}}}}},
		// fixed C05-rethrow-loses-class
		{G: g, Tag: "witness/rethrow", Prog: []Stmt{{K: "y", N: 2, Body: []Stmt{{K: "y", N: 1, Body: []Stmt{{K: "t", Cls: 4, N: 1}}, Catches: []Catch{{Types: []int{3}, Body: []Stmt{{K: "rt"}}}}}},
			Catches: []Catch{{Types: []int{4}, Body: []Stmt{{K: "e", N: 1}}}, {Types: []int{1}, Body: []Stmt{{K: "e", N: 2}}}}}}},
		// a panic in a catch body is not offered to the sibling clauses
		{G: g, Tag: "witness/panic-in-catch", Prog: []Stmt{{K: "y", N: 2, Body: []Stmt{{K: "y", N: 1, Body: []Stmt{{K: "t", Cls: 4, N: 1}}, Catches: []Catch{{Types: []int{4}, Body: []Stmt{{K: "gp"}}}, {Types: []int{0}, Body: []Stmt{{K: "e", N: 1}}}}, HasFin: true, Fin: []Stmt{{K: "e", N: 2}}}},
			Catches: []Catch{{Types: []int{0}, Body: []Stmt{{K: "e", N: 3}}}}}}},
		// unguarded host panics leave the interpreter
		{G: g, Tag: "misc/panic-top", Prog: []Stmt{{K: "e", N: 1}, {K: "gp"}, {K: "e", N: 2}}},
		{G: g, Tag: "misc/panic-func-loop", Prog: []Stmt{{K: "e", N: 1}, {K: "l", N: 2, Body: []Stmt{{K: "f", Body: []Stmt{{K: "gp"}}}}}, {K: "e", N: 2}}},
		// finally return overrides a pending return / a pending exception
		{G: g, Tag: "misc/finally-return", Prog: []Stmt{{K: "f", Body: []Stmt{{K: "y", N: 1, Body: []Stmt{{K: "r", N: 1}}, HasFin: true, Fin: []Stmt{{K: "r", N: 2}}}}}}},
		{G: g, Tag: "misc/finally-return-swallows", Prog: []Stmt{{K: "f", Body: []Stmt{{K: "y", N: 1, Body: []Stmt{{K: "t", Cls: 4, N: 1}}, HasFin: true, Fin: []Stmt{{K: "r", N: 2}}}}}}},
		{G: g, Tag: "misc/top-return", Prog: []Stmt{{K: "y", N: 1, Body: []Stmt{{K: "r", N: 4}}, HasFin: true, Fin: []Stmt{{K: "e", N: 1}}}, {K: "e", N: 2}}},
		// re-entrant: walk($n) { try { return } finally { walk($n - 1) } } — every activation returns its own value
		{G: g, Tag: "reentry/walk", Depth: 3, Prog: []Stmt{{K: "cf", N: 0}}, Fns: [][]Stmt{{{K: "y", N: 1, Body: []Stmt{{K: "r", N: 7}}, HasFin: true, Fin: []Stmt{{K: "cf", N: 0}}}}}},
		// a pending exception survives mutual recursion in the finally block and is caught two levels up
		{G: g, Tag: "reentry/mutual-throw", Depth: 3, Prog: []Stmt{{K: "y", N: 3, Body: []Stmt{{K: "cf", N: 0}}, Catches: []Catch{{Types: []int{0}, Body: []Stmt{{K: "e", N: 6}}}}}},
			Fns: [][]Stmt{{{K: "y", N: 1, Body: []Stmt{{K: "t", Cls: 4, N: 3}}, HasFin: true, Fin: []Stmt{{K: "cf", N: 1}}}},
				{{K: "y", N: 2, Body: []Stmt{{K: "cf", N: 0}}, Catches: []Catch{{Types: []int{3}, Body: []Stmt{{K: "e", N: 5}}}}}}}},
		// a call of a function that is not declared is a class-less error
		{G: g, Tag: "reentry/undeclared", Depth: 1, Prog: []Stmt{{K: "y", N: 1, Body: []Stmt{{K: "cf", N: 5}}, Catches: []Catch{{Types: []int{4}, Body: []Stmt{{K: "e", N: 1}}}, {Types: []int{0}, Body: []Stmt{{K: "e", N: 2}}}}}, {K: "cf", N: 5}}},
		{G: g, Tag: "misc/unbound-rethrow", Prog: []Stmt{{K: "y", N: 1, Body: []Stmt{{K: "rt"}}, Catches: []Catch{{Types: []int{4}, Body: []Stmt{{K: "e", N: 1}}}, {Types: []int{1}, Body: []Stmt{{K: "e", N: 2}}}}}}},
	}
}

// ------------------------------------------------------------ entry point

func Run(c *vh.Ctx) {
	r := &runner{c: c, shrunk: map[string]int{}}
	if c.ModelPath != "" {
		if m, err := vh.StartModel(c.ModelPath); err == nil {
			r.m = m
			c.Res.ModelUsed = true
			defer m.Close()
		} else {
			c.Note("model not started: %v", err)
		}
	}
	c.Res.Rule = "a case counts as non-trivial when PHP's rules give it a trace of at least 3 events; distinct = distinct (program, hierarchy) pairs"

	if len(c.ReplayRaw) > 0 {
		var rp replay
		if err := json.Unmarshal(c.ReplayRaw, &rp); err != nil {
			c.Note("cannot read replay: %v", err)
			return
		}
		switch rp.Kind {
		case "prog":
			if rp.Case != nil {
				r.check(*rp.Case, true)
			}
		case "cli":
			r.cli(rp.Name)
		case "known":
			r.known(rp.Name)
		case "script":
			r.extra(rp.Name)
		}
		return
	}

	for _, w := range witnessCases() {
		r.check(w, false)
		c.Hit("stream:witness")
	}
	if os.Getenv("C05_ONLY") == "rerun" { // development aid: the re-execution stream alone
		usable, excluded := probeKinds()
		n := 0
		enumRerun(c.Thorough(), usable, func(cs Case) { r.check(cs, false); n++ })
		for i := 0; i < c.N(400, 8000); i++ {
			r.check(randRerunCase(c.Rand, usable), false)
		}
		c.HitN("stream:rerun", n)
		c.Note("C05_ONLY=rerun: %d programs in %.1f s; kinds usable %d, left out %v", n, c.Elapsed().Seconds(), len(usable), excluded)
		if r.m != nil {
			c.Res.ModelLines = r.m.Lines
		}
		return
	}
	if os.Getenv("C05_ONLY") == "shapes" { // development aid: the body-shape stream alone
		n := 0
		enumShapes(c.Thorough(), func(cs Case) { r.check(cs, false); n++ })
		c.HitN("stream:shapes", n)
		c.Note("C05_ONLY=shapes: %d programs in %.1f s", n, c.Elapsed().Seconds())
		if r.m != nil {
			c.Res.ModelLines = r.m.Lines
		}
		return
	}
	// the long-running programs first: state of the process that is not restored (a counter, a stack, a cache)
	// is then found by a program that shows the drift on its own, before thousands of short programs add to it
	tLong := c.Elapsed()
	nl := 0
	enumLong(c.Thorough(), func(cs Case) { r.check(cs, false); nl++ })
	c.HitN("stream:long-run", nl)
	longWhat := fmt.Sprintf("; long-running: one loop of 2 000–2 400 (thorough: some 6 000) iterations of a closed try statement that an exception of the caught class / of another class / of a subclass, a host panic, a return or nothing leaves through calls %s deep — functions, methods, static methods, closures, constructors, uniform and mixed — with nothing / try-finally / catch-rethrow / catch-throw-new on the way, and break / continue leaving the try block or the handler: %d programs, every iteration compared", map[bool]string{false: "1, 3 and 5", true: "1, 2, 3 and 5"}[c.Thorough()], nl)
	nrl := c.N(30, 600)
	for i := 0; i < nrl; i++ {
		r.check(randLongCase(c.Rand), false)
	}
	c.HitN("stream:random-long-run", nrl)
	c.Note("long-running streams: %d programs in %.1f s", nl+nrl, (c.Elapsed() - tLong).Seconds())

	// body shapes: parts rendered without their markers (pure-control catch bodies, empty blocks, a try statement that
	// is the only statement of a block) — what a rewrite of the try statement keyed on the shape of its parts needs
	nsh := 0
	enumShapes(c.Thorough(), func(cs Case) { r.check(cs, false); nsh++ })
	c.HitN("stream:shapes", nsh)
	shapeWhat := fmt.Sprintf("; body shapes (parts rendered WITHOUT their marker, so that a catch body is exactly `throw $e;` / empty / `throw new K6` / `return` / `break` / `continue` / one echo, a finally block is empty / exactly one such statement, a try block is exactly its throw): two clauses (clause type × clause type over %s, the shape under test in position 0 or 1, the other clause keeps its marker) × finally × thrown object; three clauses with the shape in each position; two bare clauses with independent shapes; bare try blocks × bare finally blocks × 5 clause lists; a try statement that is the ONLY statement of a bare try block / catch body / finally block of another (6 inner clause lists × 3 inner finally × outer lists): %d programs", map[bool]string{false: "{same, parent, Throwable, sibling}", true: "{same, parent, Exception, Throwable, inherited interface, parent interface, sibling, union}"}[c.Thorough()], nsh)

	// re-executed try statements: ONE function holding the try statement(s) is called 2..4 times, every call throwing
	// another member of a pool (user Exception, host panic, errors the interpreter raises itself, user classes, nothing)
	tRe := c.Elapsed()
	usable, excluded := probeKinds()
	for _, e := range excluded {
		c.Hit("rerun:kind-left-out:" + strings.SplitN(e, ":", 2)[0])
		c.Note("re-execution stream: interpreter-raised error kind not object-less on this tree, left out of the pool — %s", e)
	}
	c.HitN("rerun:interpreter-raised-kinds", len(usable))
	nru := 0
	enumRerun(c.Thorough(), usable, func(cs Case) { r.check(cs, false); nru++ })
	c.HitN("stream:rerun", nru)
	nrr2 := c.N(400, 8000)
	for i := 0; i < nrr2; i++ {
		r.check(randRerunCase(c.Rand, usable), false)
	}
	c.HitN("stream:random-rerun", nrr2)
	c.Note("re-execution streams: %d + %d programs in %.1f s (%d of %d interpreter-raised error kinds in the pool)", nru, nrr2, (c.Elapsed() - tRe).Seconds(), len(usable), len(ieKinds))
	rerunWhat := fmt.Sprintf("; re-executed try statements: one function / method of one object / static method / closure holding the try statement(s) is called k times, the slot in the try block (or in a function called from it) doing another member of the pool {throw new Exception, host panic, %d kinds of error the interpreter raises itself (measured object-less by probe try statements executed once), user classes K3, K4, nothing} in each call — clause lists {none, every single clause and every ordered pair over Error, Exception, Throwable, K3, K4, a union, two triples} × {single try, nested in try/catch (Throwable)/finally of the same function, thrown from a callee} × all sequences of length 2 (%s): %d programs, each compared with the program in which every call has its own copy of the try statements", len(usable), map[bool]string{false: "pool of 7, kinds in rotation, nested on every second list, callee-thrown on every third; length 3 over 4 members on every second list", true: "full pool; length 3 over 7, length 4 over 4 members"}[c.Thorough()], nru)

	n1 := 0
	enumDepth1(func(cs Case) { r.check(cs, false); n1++ })
	c.HitN("stream:depth1", n1)
	n2 := 0
	enumDepth2(c.Thorough(), func(cs Case) { r.check(cs, false); n2++ })
	c.HitN("stream:depth2", n2)
	c.Res.Exhaustive = true
	c.Res.ExhaustiveWhat = fmt.Sprintf("depth 1: every exit path {fall,return,break,continue,throw,host panic,throw from a callee} × handler layout (13 class/interface relations singly, 6 multi-clause layouts, none) × catch-body action {normal,throw,rethrow,return,break,continue,host panic} × finally {none,normal,return,throw,break,continue,host panic} × context {top,loop,function,function+loop,guarded} = %d programs; depth 2: inner frame in the body / a catch body / the finally block of an outer frame over the %s alphabets = %d programs", n1, map[bool]string{false: "reduced", true: "full"}[c.Thorough()], n2)

	nre := 0
	enumReentry(c.Thorough(), func(cs Case) { r.check(cs, false); nre++ })
	c.HitN("stream:reentry", nre)
	c.Res.ExhaustiveWhat += fmt.Sprintf("; re-entrant: one frame in a function g0 that calls itself again (directly, through a second function, through an anonymous function, inside try/catch (Throwable); 2 or 3 nested activations; top-level call guarded or not) from the try block / the catch bodies / the finally block before the part's own action: exit path × {no clause, matching, non-matching, Throwable} × catch-body action × finally action × %s × {loop, no loop} × %s = %d programs", map[bool]string{false: "{one part, all parts}", true: "every non-empty set of parts"}[c.Thorough()], map[bool]string{false: "3 of the 16 shapes in rotation", true: "16 shapes"}[c.Thorough()], nre)

	c.Res.ExhaustiveWhat += longWhat
	c.Res.ExhaustiveWhat += shapeWhat
	c.Res.ExhaustiveWhat += rerunWhat

	nr := c.N(1500, 60000)
	for i := 0; i < nr; i++ {
		r.check(randCase(c.Rand), false)
	}
	c.HitN("stream:random", nr)
	nrr := c.N(1200, 30000)
	for i := 0; i < nrr; i++ {
		r.check(randRecCase(c.Rand), false)
	}
	c.HitN("stream:random-reentrant", nrr)

	if r.failures >= floodLimit {
		c.Note("more than %d failing programs: the remaining generated programs were skipped", floodLimit)
	}
	r.extra("")
	r.known("")
	r.cli("")
	if r.m != nil {
		c.Res.ModelLines = r.m.Lines
	}
}
