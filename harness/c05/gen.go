package c05

import (
	"fmt"

	"verif/harness/vh"
)

// ------------------------------------------------------------ the fixed hierarchy of the enumeration
//
//   Throwable(0)   I10   I11 extends I10   I12
//   Exception(1) implements Throwable
//   K3 extends Exception implements I11      K6 extends Exception implements I12
//   K4 extends K3        (the class that is thrown)
//   K5 extends K4
func enumGraph() Graph {
	return Graph{
		Classes: []Cls{{1, -1, []int{0}}, {3, 1, []int{11}}, {4, 3, nil}, {5, 4, nil}, {6, 1, []int{12}}},
		Ifaces:  []Ifc{{0, nil}, {10, nil}, {11, []int{10}}, {12, nil}},
	}
}

const thrownCls = 4
const otherCls = 6

// relation of one catch clause to the thrown class K4
type rel struct {
	name  string
	types []int
}

var rels = []rel{
	{"same", []int{4}}, {"parent", []int{3}}, {"root", []int{1}}, {"throwable", []int{0}},
	{"child", []int{5}}, {"sibling", []int{6}}, {"iface-inherited", []int{11}}, {"iface-parent", []int{10}},
	{"iface-unrelated", []int{12}}, {"union-no-yes", []int{6, 3}}, {"union-no-no", []int{6, 12}},
	{"union-yes-no", []int{4, 6}}, {"error-name", []int{2}},
}

func relByName(n string) rel {
	for _, r := range rels {
		if r.name == n {
			return r
		}
	}
	panic("no relation " + n)
}

// handler layouts: clause lists (by relation name)
func layouts(full bool) [][]string {
	ls := [][]string{{}}
	if full {
		for _, r := range rels {
			ls = append(ls, []string{r.name})
		}
		ls = append(ls,
			[]string{"child", "same"}, []string{"parent", "same"}, []string{"sibling", "child"},
			[]string{"sibling", "iface-unrelated", "iface-parent"}, []string{"root", "same"}, []string{"error-name", "throwable"})
	} else {
		ls = append(ls, []string{"parent"}, []string{"child", "same"}, []string{"sibling"}, []string{"throwable"})
	}
	return ls
}

// ------------------------------------------------------------ frames

// One try statement described by what each of its parts does.
type frame struct {
	Exit     string   // fall ret brk cont throw gopanic callthrow inner
	Layout   []string // relations of the catch clauses, in source order
	CatchAct string   // normal throw rethrow ret brk cont gopanic inner   (every clause body does the same)
	Fin      string   // none normal ret throw brk cont gopanic inner
	Inner    *frame   // placed where a part says "inner"
}

type builder struct {
	marker, site, tryID int
}

func (b *builder) e() Stmt   { b.marker++; return Stmt{K: "e", N: b.marker} }
func (b *builder) thr(c int) Stmt { b.site++; return Stmt{K: "t", Cls: c, N: b.site} }

func (b *builder) action(a string, inner *frame, loopDepth int) []Stmt {
	switch a {
	case "fall", "normal":
		return []Stmt{b.e()}
	case "ret":
		b.marker++
		return []Stmt{b.e(), {K: "r", N: b.marker}, b.e()}
	case "brk":
		return []Stmt{b.e(), {K: "b"}, b.e()}
	case "cont":
		return []Stmt{b.e(), {K: "c"}, b.e()}
	case "throw":
		return []Stmt{b.e(), b.thr(thrownCls), b.e()}
	case "throwother":
		return []Stmt{b.e(), b.thr(otherCls), b.e()}
	case "rethrow":
		return []Stmt{b.e(), {K: "rt"}, b.e()}
	case "gopanic":
		return []Stmt{b.e(), {K: "gp"}, b.e()}
	case "callthrow":
		return []Stmt{b.e(), {K: "f", Body: []Stmt{b.e(), b.thr(thrownCls)}}, b.e()}
	case "inner":
		return []Stmt{b.e(), b.try(*inner, loopDepth), b.e()}
	}
	panic("no action " + a)
}

func (b *builder) try(f frame, loopDepth int) Stmt {
	b.tryID++
	s := Stmt{K: "y", N: b.tryID}
	s.Body = b.action(f.Exit, f.Inner, loopDepth)
	for _, rn := range f.Layout {
		act := f.CatchAct
		if act == "throw" {
			act = "throwother"
		}
		s.Catches = append(s.Catches, Catch{Types: relByName(rn).types, Body: b.action(act, f.Inner, loopDepth)})
	}
	if f.Fin != "none" {
		s.HasFin = true
		act := f.Fin
		if act == "throw" {
			act = "throwother"
		}
		s.Fin = b.action(act, f.Inner, loopDepth)
	}
	return s
}

func usesJump(f *frame) bool {
	if f == nil {
		return false
	}
	j := func(a string) bool { return a == "brk" || a == "cont" }
	return j(f.Exit) || j(f.CatchAct) || j(f.Fin) || usesJump(f.Inner)
}

// contexts: top · loop · func · funcloop · guarded (function+loop inside a top-level try that catches everything)
var contexts = []string{"top", "loop", "func", "funcloop", "guarded"}

func inLoopCtx(ctx string) bool { return ctx == "loop" || ctx == "funcloop" || ctx == "guarded" }

func buildCase(f frame, ctx string) Case {
	b := &builder{}
	b.tryID = 0
	var prog []Stmt
	mk := func(loop bool) []Stmt {
		t := b.try(f, 0)
		if loop {
			return []Stmt{b.e(), {K: "l", N: 2, Body: []Stmt{b.e(), t, b.e()}}, b.e()}
		}
		return []Stmt{b.e(), t, b.e()}
	}
	switch ctx {
	case "top":
		prog = mk(false)
	case "loop":
		prog = mk(true)
	case "func":
		prog = []Stmt{b.e(), {K: "f", Body: mk(false)}, b.e()}
	case "funcloop":
		prog = []Stmt{b.e(), {K: "f", Body: mk(true)}, b.e()}
	case "guarded":
		body := []Stmt{b.e(), {K: "f", Body: mk(true)}, b.e()}
		b.tryID = 90
		g := Stmt{K: "y", N: 91, Body: body, Catches: []Catch{{Types: []int{0}, Body: []Stmt{b.e()}}}, HasFin: true, Fin: []Stmt{b.e()}}
		prog = []Stmt{b.e(), g, b.e()}
	}
	return Case{G: enumGraph(), Prog: prog}
}

func throwing(exit string) bool { return exit == "throw" || exit == "gopanic" || exit == "callthrow" }

// depth 1: every exit path × handler layout × catch-body action × finally action × context
func enumDepth1(emit func(Case)) {
	exits := []string{"fall", "ret", "brk", "cont", "throw", "gopanic", "callthrow"}
	acts := []string{"normal", "throw", "rethrow", "ret", "brk", "cont", "gopanic"}
	fins := []string{"none", "normal", "ret", "throw", "brk", "cont", "gopanic"}
	for _, ex := range exits {
		ls := layouts(true)
		if !throwing(ex) {
			ls = [][]string{{}, {"same"}}
		}
		for _, l := range ls {
			as := acts
			if !throwing(ex) || len(l) == 0 {
				as = []string{"normal"}
			}
			for _, a := range as {
				for _, fin := range fins {
					if len(l) == 0 && fin == "none" {
						continue // `try {}` alone is not a statement
					}
					f := frame{Exit: ex, Layout: l, CatchAct: a, Fin: fin}
					for _, ctx := range contexts {
						if usesJump(&f) && !inLoopCtx(ctx) {
							continue
						}
						c := buildCase(f, ctx)
						c.Tag = fmt.Sprintf("d1/%s/%v/%s/%s/%s", ex, l, a, fin, ctx)
						emit(c)
					}
				}
			}
		}
	}
}

// inner frames of the depth-2 enumeration
func innerFrames(full bool) []frame {
	exits := []string{"fall", "ret", "brk", "throw", "gopanic"}
	acts := []string{"normal", "rethrow", "throw"}
	fins := []string{"none", "normal", "ret", "throw"}
	if full {
		exits = []string{"fall", "ret", "brk", "cont", "throw", "gopanic", "callthrow"}
		acts = []string{"normal", "throw", "rethrow", "ret", "brk", "gopanic"}
		fins = []string{"none", "normal", "ret", "throw", "brk", "gopanic"}
	}
	var res []frame
	for _, ex := range exits {
		ls := layouts(false)
		if !throwing(ex) {
			ls = [][]string{{}}
		}
		for _, l := range ls {
			as := acts
			if len(l) == 0 {
				as = []string{"normal"}
			}
			for _, a := range as {
				for _, fin := range fins {
					if len(l) == 0 && fin == "none" {
						continue
					}
					res = append(res, frame{Exit: ex, Layout: l, CatchAct: a, Fin: fin})
				}
			}
		}
	}
	return res
}

// depth 2: an inner frame in the body / a catch body / the finally block of an outer frame
func enumDepth2(full bool, emit func(Case)) {
	inner := innerFrames(full)
	outerLayouts := [][]string{{}, {"throwable"}, {"sibling"}}
	outerFins := []string{"none", "normal", "ret"}
	if full {
		outerLayouts = append(outerLayouts, []string{"child", "parent"})
		outerFins = append(outerFins, "throw", "brk")
	}
	ctxs := []string{"top", "funcloop"}
	if full {
		ctxs = []string{"top", "loop", "funcloop", "guarded"}
	}
	for i := range inner {
		in := inner[i]
		var outers []frame
		for _, l := range outerLayouts {
			for _, fin := range outerFins {
				if len(l) == 0 && fin == "none" {
					continue
				}
				outers = append(outers, frame{Exit: "inner", Layout: l, CatchAct: "normal", Fin: fin, Inner: &in})
			}
		}
		for _, fin := range outerFins {
			outers = append(outers, frame{Exit: "throw", Layout: []string{"parent"}, CatchAct: "inner", Fin: fin, Inner: &in})
		}
		for _, l := range outerLayouts {
			for _, ex := range []string{"fall", "throw"} {
				outers = append(outers, frame{Exit: ex, Layout: l, CatchAct: "normal", Fin: "inner", Inner: &in})
			}
		}
		for _, o := range outers {
			for _, ctx := range ctxs {
				if usesJump(&o) && !inLoopCtx(ctx) {
					continue
				}
				c := buildCase(o, ctx)
				c.Tag = fmt.Sprintf("d2/%s.%v.%s.%s/in:%s.%v.%s.%s/%s", o.Exit, o.Layout, o.CatchAct, o.Fin, in.Exit, in.Layout, in.CatchAct, in.Fin, ctx)
				emit(c)
			}
		}
	}
}

// ------------------------------------------------------------ seeded random programs (depth ≤ 4, hierarchies ≤ 5 user classes)

func randGraph(r *vh.Rand) Graph {
	g := builtinGraph()
	nI := r.Intn(4)
	for k := 0; k < nI; k++ {
		i := Ifc{Name: 10 + k}
		for p := 0; p < k; p++ {
			if r.Chance(35) {
				i.Ext = append(i.Ext, 10+p)
			}
		}
		g.Ifaces = append(g.Ifaces, i)
	}
	nC := 1 + r.Intn(5)
	for k := 0; k < nC; k++ {
		c := Cls{Name: 3 + k, Ext: 1}
		if k > 0 && r.Chance(70) {
			c.Ext = 3 + r.Intn(k)
		}
		for p := 0; p < nI; p++ {
			if r.Chance(30) {
				c.Impl = append(c.Impl, 10+p)
			}
		}
		g.Classes = append(g.Classes, c)
	}
	return g
}

type rgen struct {
	r      *vh.Rand
	g      Graph
	b      builder
	budget int
	noHost bool // keep the host-panic statement out (a panic outside every try ends the run at once)
}

func (x *rgen) userClass() int {
	cs := x.g.Classes
	c := cs[x.r.Intn(len(cs))]
	return c.Name // may be Exception itself
}

func (x *rgen) catchTypes() []int {
	var pool []int
	for _, c := range x.g.Classes {
		pool = append(pool, c.Name)
	}
	for _, i := range x.g.Ifaces {
		pool = append(pool, i.Name)
	}
	if x.r.Chance(5) {
		pool = append(pool, 2)
	}
	n := 1
	if x.r.Chance(20) {
		n = 2 + x.r.Intn(2)
	}
	var ts []int
	for k := 0; k < n; k++ {
		ts = append(ts, pool[x.r.Intn(len(pool))])
	}
	return ts
}

// block of 1..3 statements; depth = remaining try nesting; inLoop / inCatch / guarded say what is legal here
func (x *rgen) block(depth int, inLoop, inCatch, guarded bool) []Stmt {
	n := 1 + x.r.Intn(3)
	var res []Stmt
	for k := 0; k < n && x.budget > 0; k++ {
		x.budget--
		p := x.r.Intn(100)
		switch {
		case p < 22:
			res = append(res, x.b.e())
		case p < 34:
			res = append(res, x.b.thr(x.userClass()))
		case p < 38 && inCatch:
			res = append(res, Stmt{K: "rt"})
		case p < 42 && guarded && !x.noHost:
			res = append(res, Stmt{K: "gp"})
		case p < 48:
			x.b.marker++
			res = append(res, Stmt{K: "r", N: x.b.marker})
		case p < 53 && inLoop:
			res = append(res, Stmt{K: "b"})
		case p < 58 && inLoop:
			res = append(res, Stmt{K: "c"})
		case p < 66:
			res = append(res, Stmt{K: "l", N: 1 + x.r.Intn(3), Body: x.block(depth, true, inCatch, guarded)})
		case p < 74:
			res = append(res, Stmt{K: "f", Body: x.block(depth, false, false, guarded)})
		case depth > 0:
			x.b.tryID++
			s := Stmt{K: "y", N: x.b.tryID}
			s.Body = x.block(depth-1, inLoop, inCatch, true)
			nc := x.r.Intn(4)
			for c := 0; c < nc; c++ {
				s.Catches = append(s.Catches, Catch{Types: x.catchTypes(), Body: x.block(depth-1, inLoop, true, guarded)})
			}
			if nc == 0 || x.r.Chance(60) {
				s.HasFin = true
				s.Fin = x.block(depth-1, inLoop, inCatch, guarded)
			}
			res = append(res, s)
		default:
			res = append(res, x.b.e())
		}
	}
	if len(res) == 0 {
		res = append(res, x.b.e())
	}
	return res
}

func randCase(r *vh.Rand) Case {
	x := &rgen{r: r, g: randGraph(r), budget: 14 + r.Intn(30)}
	depth := 1 + r.Intn(4)
	return Case{G: x.g, Prog: x.block(depth, false, false, false), Tag: "random"}
}
