package c05

import (
	"fmt"

	"verif/harness/vh"
)

// ------------------------------------------------------------ the fixed hierarchy of the enumeration
//
//   Throwable(0)   I10   I11 extends I10   I12
//   Exception(1) implements Throwable
//   K3 extends Exception implements I11      K6 extends Exception implements I12
//   K4 extends K3        (the class that is thrown)
//   K5 extends K4
func enumGraph() Graph {
	return Graph{
		Classes: []Cls{{1, -1, []int{0}}, {3, 1, []int{11}}, {4, 3, nil}, {5, 4, nil}, {6, 1, []int{12}}},
		Ifaces:  []Ifc{{0, nil}, {10, nil}, {11, []int{10}}, {12, nil}},
	}
}

const thrownCls = 4
const otherCls = 6

// relation of one catch clause to the thrown class K4
type rel struct {
	name  string
	types []int
}

var rels = []rel{
	{"same", []int{4}}, {"parent", []int{3}}, {"root", []int{1}}, {"throwable", []int{0}},
	{"child", []int{5}}, {"sibling", []int{6}}, {"iface-inherited", []int{11}}, {"iface-parent", []int{10}},
	{"iface-unrelated", []int{12}}, {"union-no-yes", []int{6, 3}}, {"union-no-no", []int{6, 12}},
	{"union-yes-no", []int{4, 6}}, {"error-name", []int{2}},
}

func relByName(n string) rel {
	for _, r := range rels {
		if r.name == n {
			return r
		}
	}
	panic("no relation " + n)
}

// handler layouts: clause lists (by relation name)
func layouts(full bool) [][]string {
	ls := [][]string{{}}
	if full {
		for _, r := range rels {
			ls = append(ls, []string{r.name})
		}
		ls = append(ls,
			[]string{"child", "same"}, []string{"parent", "same"}, []string{"sibling", "child"},
			[]string{"sibling", "iface-unrelated", "iface-parent"}, []string{"root", "same"}, []string{"error-name", "throwable"})
	} else {
		ls = append(ls, []string{"parent"}, []string{"child", "same"}, []string{"sibling"}, []string{"throwable"})
	}
	return ls
}

// ------------------------------------------------------------ frames

// One try statement described by what each of its parts does.
type frame struct {
	Exit     string   // fall ret brk cont throw gopanic callthrow inner
	Layout   []string // relations of the catch clauses, in source order
	CatchAct string   // normal throw rethrow ret brk cont gopanic inner   (every clause body does the same)
	Fin      string   // none normal ret throw brk cont gopanic inner
	Inner    *frame   // placed where a part says "inner"
	Reenter  string   // re-entrant programs: the parts that call the enclosing function again before they do
	//                   what Exit / CatchAct / Fin say — letters b (try block) c (every catch body) f (finally block)
}

type builder struct {
	marker, site, tryID int
	reenter             func() []Stmt // the statements that call the enclosing function again (nil: none)
}

// the part's action, preceded by the re-entering call when the frame asks for it in this part
func (b *builder) part(f frame, which byte, a string, loopDepth int) []Stmt {
	act := b.action(a, f.Inner, loopDepth)
	if b.reenter == nil || !containsByte(f.Reenter, which) {
		return act
	}
	return append(append([]Stmt{b.e()}, b.reenter()...), act...)
}

func containsByte(s string, c byte) bool {
	for i := 0; i < len(s); i++ {
		if s[i] == c {
			return true
		}
	}
	return false
}

func (b *builder) e() Stmt   { b.marker++; return Stmt{K: "e", N: b.marker} }
func (b *builder) thr(c int) Stmt { b.site++; return Stmt{K: "t", Cls: c, N: b.site} }

func (b *builder) action(a string, inner *frame, loopDepth int) []Stmt {
	switch a {
	case "fall", "normal":
		return []Stmt{b.e()}
	case "ret":
		b.marker++
		return []Stmt{b.e(), {K: "r", N: b.marker}, b.e()}
	case "brk":
		return []Stmt{b.e(), {K: "b"}, b.e()}
	case "cont":
		return []Stmt{b.e(), {K: "c"}, b.e()}
	case "throw":
		return []Stmt{b.e(), b.thr(thrownCls), b.e()}
	case "throwother":
		return []Stmt{b.e(), b.thr(otherCls), b.e()}
	case "rethrow":
		return []Stmt{b.e(), {K: "rt"}, b.e()}
	case "gopanic":
		return []Stmt{b.e(), {K: "gp"}, b.e()}
	case "callthrow":
		return []Stmt{b.e(), {K: "f", Body: []Stmt{b.e(), b.thr(thrownCls)}}, b.e()}
	case "inner":
		return []Stmt{b.e(), b.try(*inner, loopDepth), b.e()}
	}
	panic("no action " + a)
}

func (b *builder) try(f frame, loopDepth int) Stmt {
	b.tryID++
	s := Stmt{K: "y", N: b.tryID}
	s.Body = b.part(f, 'b', f.Exit, loopDepth)
	for _, rn := range f.Layout {
		act := f.CatchAct
		if act == "throw" {
			act = "throwother"
		}
		s.Catches = append(s.Catches, Catch{Types: relByName(rn).types, Body: b.part(f, 'c', act, loopDepth)})
	}
	if f.Fin != "none" {
		s.HasFin = true
		act := f.Fin
		if act == "throw" {
			act = "throwother"
		}
		s.Fin = b.part(f, 'f', act, loopDepth)
	}
	return s
}

func usesJump(f *frame) bool {
	if f == nil {
		return false
	}
	j := func(a string) bool { return a == "brk" || a == "cont" }
	return j(f.Exit) || j(f.CatchAct) || j(f.Fin) || usesJump(f.Inner)
}

// contexts: top · loop · func · funcloop · guarded (function+loop inside a top-level try that catches everything)
var contexts = []string{"top", "loop", "func", "funcloop", "guarded"}

func inLoopCtx(ctx string) bool { return ctx == "loop" || ctx == "funcloop" || ctx == "guarded" }

func buildCase(f frame, ctx string) Case {
	b := &builder{}
	b.tryID = 0
	var prog []Stmt
	mk := func(loop bool) []Stmt {
		t := b.try(f, 0)
		if loop {
			return []Stmt{b.e(), {K: "l", N: 2, Body: []Stmt{b.e(), t, b.e()}}, b.e()}
		}
		return []Stmt{b.e(), t, b.e()}
	}
	switch ctx {
	case "top":
		prog = mk(false)
	case "loop":
		prog = mk(true)
	case "func":
		prog = []Stmt{b.e(), {K: "f", Body: mk(false)}, b.e()}
	case "funcloop":
		prog = []Stmt{b.e(), {K: "f", Body: mk(true)}, b.e()}
	case "guarded":
		body := []Stmt{b.e(), {K: "f", Body: mk(true)}, b.e()}
		b.tryID = 90
		g := Stmt{K: "y", N: 91, Body: body, Catches: []Catch{{Types: []int{0}, Body: []Stmt{b.e()}}}, HasFin: true, Fin: []Stmt{b.e()}}
		prog = []Stmt{b.e(), g, b.e()}
	}
	return Case{G: enumGraph(), Prog: prog}
}

func throwing(exit string) bool { return exit == "throw" || exit == "gopanic" || exit == "callthrow" }

// depth 1: every exit path × handler layout × catch-body action × finally action × context
func enumDepth1(emit func(Case)) {
	exits := []string{"fall", "ret", "brk", "cont", "throw", "gopanic", "callthrow"}
	acts := []string{"normal", "throw", "rethrow", "ret", "brk", "cont", "gopanic"}
	fins := []string{"none", "normal", "ret", "throw", "brk", "cont", "gopanic"}
	for _, ex := range exits {
		ls := layouts(true)
		if !throwing(ex) {
			ls = [][]string{{}, {"same"}}
		}
		for _, l := range ls {
			as := acts
			if !throwing(ex) || len(l) == 0 {
				as = []string{"normal"}
			}
			for _, a := range as {
				for _, fin := range fins {
					if len(l) == 0 && fin == "none" {
						continue // `try {}` alone is not a statement
					}
					f := frame{Exit: ex, Layout: l, CatchAct: a, Fin: fin}
					for _, ctx := range contexts {
						if usesJump(&f) && !inLoopCtx(ctx) {
							continue
						}
						c := buildCase(f, ctx)
						c.Tag = fmt.Sprintf("d1/%s/%v/%s/%s/%s", ex, l, a, fin, ctx)
						emit(c)
					}
				}
			}
		}
	}
}

// inner frames of the depth-2 enumeration
func innerFrames(full bool) []frame {
	exits := []string{"fall", "ret", "brk", "throw", "gopanic"}
	acts := []string{"normal", "rethrow", "throw"}
	fins := []string{"none", "normal", "ret", "throw"}
	if full {
		exits = []string{"fall", "ret", "brk", "cont", "throw", "gopanic", "callthrow"}
		acts = []string{"normal", "throw", "rethrow", "ret", "brk", "gopanic"}
		fins = []string{"none", "normal", "ret", "throw", "brk", "gopanic"}
	}
	var res []frame
	for _, ex := range exits {
		ls := layouts(false)
		if !throwing(ex) {
			ls = [][]string{{}}
		}
		for _, l := range ls {
			as := acts
			if len(l) == 0 {
				as = []string{"normal"}
			}
			for _, a := range as {
				for _, fin := range fins {
					if len(l) == 0 && fin == "none" {
						continue
					}
					res = append(res, frame{Exit: ex, Layout: l, CatchAct: a, Fin: fin})
				}
			}
		}
	}
	return res
}

// depth 2: an inner frame in the body / a catch body / the finally block of an outer frame
func enumDepth2(full bool, emit func(Case)) {
	inner := innerFrames(full)
	outerLayouts := [][]string{{}, {"throwable"}, {"sibling"}}
	outerFins := []string{"none", "normal", "ret"}
	if full {
		outerLayouts = append(outerLayouts, []string{"child", "parent"})
		outerFins = append(outerFins, "throw", "brk")
	}
	ctxs := []string{"top", "funcloop"}
	if full {
		ctxs = []string{"top", "loop", "funcloop", "guarded"}
	}
	for i := range inner {
		in := inner[i]
		var outers []frame
		for _, l := range outerLayouts {
			for _, fin := range outerFins {
				if len(l) == 0 && fin == "none" {
					continue
				}
				outers = append(outers, frame{Exit: "inner", Layout: l, CatchAct: "normal", Fin: fin, Inner: &in})
			}
		}
		for _, fin := range outerFins {
			outers = append(outers, frame{Exit: "throw", Layout: []string{"parent"}, CatchAct: "inner", Fin: fin, Inner: &in})
		}
		for _, l := range outerLayouts {
			for _, ex := range []string{"fall", "throw"} {
				outers = append(outers, frame{Exit: ex, Layout: l, CatchAct: "normal", Fin: "inner", Inner: &in})
			}
		}
		for _, o := range outers {
			for _, ctx := range ctxs {
				if usesJump(&o) && !inLoopCtx(ctx) {
					continue
				}
				c := buildCase(o, ctx)
				c.Tag = fmt.Sprintf("d2/%s.%v.%s.%s/in:%s.%v.%s.%s/%s", o.Exit, o.Layout, o.CatchAct, o.Fin, in.Exit, in.Layout, in.CatchAct, in.Fin, ctx)
				emit(c)
			}
		}
	}
}

// ------------------------------------------------------------ re-entrant programs
//
// The function g0 is one frame (a try statement described by what its parts do), in a loop or not, followed by
// `return`; the parts named by Reenter call g0 again — directly, through a second function g1 (mutual recursion) or
// through an anonymous function — with $n - 1 *before* they do their own action. So while the inner activations
// run, the outer one holds: in the try block nothing yet (the loop state at most); in a catch body the caught
// object; in the finally block the pending return value / thrown object / break / continue of the try-catch part.
// Every activation returns, throws and prints numbers that carry its level, so a pending control, a catch
// variable or a loop position that is kept per statement instead of per activation shows in the trace.

var reentryForms = []string{"direct", "mutual", "wrapped", "caught"}

type reentryShape struct {
	Form   string // direct | mutual (through g1) | wrapped (through an anonymous function) | caught (the call sits in try / catch (Throwable): what the inner activation throws stays inside the part that called it)
	Levels int    // activations of g0 nested in one another (2 or 3)
	Guard  bool   // the top-level call sits in try / catch (Throwable) / finally
}

func reentryShapes() []reentryShape {
	var res []reentryShape
	for _, f := range reentryForms {
		for _, l := range []int{2, 3} {
			for _, g := range []bool{false, true} {
				res = append(res, reentryShape{f, l, g})
			}
		}
	}
	return res
}

func buildReentry(f frame, loop bool, sh reentryShape) Case {
	b := &builder{}
	switch sh.Form {
	case "direct":
		b.reenter = func() []Stmt { return []Stmt{{K: "cf", N: 0}} }
	case "mutual":
		b.reenter = func() []Stmt { return []Stmt{{K: "cf", N: 1}} }
	case "caught":
		b.reenter = func() []Stmt {
			b.tryID++
			return []Stmt{{K: "y", N: 50 + b.tryID, Body: []Stmt{{K: "cf", N: 0}}, Catches: []Catch{{Types: []int{0}, Body: []Stmt{b.e()}}}}}
		}
	case "wrapped":
		b.reenter = func() []Stmt {
			b.marker++
			return []Stmt{{K: "f", Body: []Stmt{{K: "cf", N: 0}, b.e(), {K: "r", N: b.marker}}}}
		}
	}
	t := b.try(f, 0)
	var g0 []Stmt
	if loop {
		g0 = []Stmt{b.e(), {K: "l", N: 2, Body: []Stmt{b.e(), t, b.e()}}, b.e()}
	} else {
		g0 = []Stmt{b.e(), t, b.e()}
	}
	b.marker++
	g0 = append(g0, Stmt{K: "r", N: b.marker})
	c := Case{G: enumGraph(), Fns: [][]Stmt{g0}}
	c.Depth = sh.Levels
	if sh.Form == "mutual" {
		// g1 relays: every second level is an activation of g1 holding nothing but its own return value
		b.marker++
		g1 := []Stmt{b.e(), {K: "cf", N: 0}, b.e(), {K: "r", N: b.marker}}
		c.Fns = append(c.Fns, g1)
		c.Depth = 2*sh.Levels - 1
	}
	call := []Stmt{b.e(), {K: "cf", N: 0}, b.e()}
	if sh.Guard {
		b.tryID = 90
		c.Prog = []Stmt{b.e(), {K: "y", N: 91, Body: call, Catches: []Catch{{Types: []int{0}, Body: []Stmt{b.e()}}}, HasFin: true, Fin: []Stmt{b.e()}}, b.e()}
	} else {
		c.Prog = call
	}
	return c
}

// the places a frame can re-enter from: every non-empty subset of {try block, catch bodies, finally block} that the
// frame has (full), or the singletons and the full set (reduced)
func reenterSets(f frame, full bool) []string {
	var parts []byte
	parts = append(parts, 'b')
	if len(f.Layout) > 0 {
		parts = append(parts, 'c')
	}
	if f.Fin != "none" {
		parts = append(parts, 'f')
	}
	var res []string
	for m := 1; m < 1<<len(parts); m++ {
		var s []byte
		for k, p := range parts {
			if m&(1<<k) != 0 {
				s = append(s, p)
			}
		}
		if full || len(s) == 1 || len(s) == len(parts) {
			res = append(res, string(s))
		}
	}
	return res
}

// re-entry: exit path × handler layout × catch-body action × finally action × re-entering parts × {loop, no loop};
// × every shape (recursion form × levels × guarded top) in the full enumeration, three shapes per program, rotating
// through all of them, in the reduced one
func enumReentry(full bool, emit func(Case)) {
	exits := []string{"fall", "ret", "brk", "cont", "throw", "gopanic", "callthrow"}
	acts := []string{"normal", "throw", "rethrow", "ret", "brk", "cont", "gopanic"}
	fins := []string{"none", "normal", "ret", "throw", "brk", "cont", "gopanic"}
	shapes := reentryShapes()
	rot := 0
	for _, ex := range exits {
		ls := [][]string{{}, {"same"}, {"sibling"}, {"throwable"}}
		if !throwing(ex) {
			ls = [][]string{{}, {"same"}}
		}
		for _, l := range ls {
			as := acts
			if !throwing(ex) || len(l) == 0 || l[0] == "sibling" {
				as = []string{"normal"} // the clause body never runs
			}
			for _, a := range as {
				for _, fin := range fins {
					if len(l) == 0 && fin == "none" {
						continue
					}
					f0 := frame{Exit: ex, Layout: l, CatchAct: a, Fin: fin}
					for _, re := range reenterSets(f0, full) {
						f := f0
						f.Reenter = re
						loops := []bool{false, true}
						if usesJump(&f) {
							loops = []bool{true}
						}
						for _, loop := range loops {
							var shs []reentryShape
							if full {
								shs = shapes
							} else {
								shs = []reentryShape{shapes[rot%len(shapes)], shapes[(rot+5)%len(shapes)], shapes[(rot+10)%len(shapes)]}
								rot++
							}
							for _, sh := range shs {
								c := buildReentry(f, loop, sh)
								c.Tag = fmt.Sprintf("re/%s/%v/%s/%s/reenter:%s/loop:%v/%s.%d.%v", ex, l, a, fin, re, loop, sh.Form, sh.Levels, sh.Guard)
								emit(c)
							}
						}
					}
				}
			}
		}
	}
}

// ------------------------------------------------------------ seeded random programs (depth ≤ 4, hierarchies ≤ 5 user classes)

func randGraph(r *vh.Rand) Graph {
	g := builtinGraph()
	nI := r.Intn(4)
	for k := 0; k < nI; k++ {
		i := Ifc{Name: 10 + k}
		for p := 0; p < k; p++ {
			if r.Chance(35) {
				i.Ext = append(i.Ext, 10+p)
			}
		}
		g.Ifaces = append(g.Ifaces, i)
	}
	nC := 1 + r.Intn(5)
	for k := 0; k < nC; k++ {
		c := Cls{Name: 3 + k, Ext: 1}
		if k > 0 && r.Chance(70) {
			c.Ext = 3 + r.Intn(k)
		}
		for p := 0; p < nI; p++ {
			if r.Chance(30) {
				c.Impl = append(c.Impl, 10+p)
			}
		}
		g.Classes = append(g.Classes, c)
	}
	return g
}

type rgen struct {
	r      *vh.Rand
	g      Graph
	b      builder
	budget int
	noHost bool // keep the host-panic statement out (a panic outside every try ends the run at once)
	nfns   int  // named functions that `cf` may call (0: no such statement)
	vias   bool // calls are rendered as functions, methods, static methods, closures or constructors at random
	bare   bool // parts of try statements are rendered without their marker at random (Catch.Q, Stmt.Q)
}

func (x *rgen) via(body []Stmt) string {
	if !x.vias {
		return ""
	}
	v := viaKinds[x.r.Intn(len(viaKinds))]
	if v == "k" && returnsValue(body) {
		v = "m"
	}
	return v
}

func (x *rgen) userClass() int {
	cs := x.g.Classes
	c := cs[x.r.Intn(len(cs))]
	return c.Name // may be Exception itself
}

func (x *rgen) catchTypes() []int {
	var pool []int
	for _, c := range x.g.Classes {
		pool = append(pool, c.Name)
	}
	for _, i := range x.g.Ifaces {
		pool = append(pool, i.Name)
	}
	if x.r.Chance(5) {
		pool = append(pool, 2)
	}
	n := 1
	if x.r.Chance(20) {
		n = 2 + x.r.Intn(2)
	}
	var ts []int
	for k := 0; k < n; k++ {
		ts = append(ts, pool[x.r.Intn(len(pool))])
	}
	return ts
}

// block of 1..3 statements; depth = remaining try nesting; inLoop / inCatch / guarded say what is legal here
func (x *rgen) block(depth int, inLoop, inCatch, guarded bool) []Stmt {
	n := 1 + x.r.Intn(3)
	var res []Stmt
	for k := 0; k < n && x.budget > 0; k++ {
		x.budget--
		p := x.r.Intn(100)
		if x.nfns > 0 && x.r.Chance(18) {
			res = append(res, Stmt{K: "cf", N: x.r.Intn(x.nfns)})
			continue
		}
		switch {
		case p < 22:
			res = append(res, x.b.e())
		case p < 34:
			res = append(res, x.b.thr(x.userClass()))
		case p < 38 && inCatch:
			res = append(res, Stmt{K: "rt"})
		case p < 42 && guarded && !x.noHost:
			res = append(res, Stmt{K: "gp"})
		case p < 48:
			x.b.marker++
			res = append(res, Stmt{K: "r", N: x.b.marker})
		case p < 53 && inLoop:
			res = append(res, Stmt{K: "b"})
		case p < 58 && inLoop:
			res = append(res, Stmt{K: "c"})
		case p < 66:
			res = append(res, Stmt{K: "l", N: 1 + x.r.Intn(3), Body: x.block(depth, true, inCatch, guarded)})
		case p < 74:
			fb := x.block(depth, false, false, guarded)
			res = append(res, Stmt{K: "f", Body: fb, Via: x.via(fb)})
		case depth > 0:
			x.b.tryID++
			s := Stmt{K: "y", N: x.b.tryID}
			s.Body = x.block(depth-1, inLoop, inCatch, true)
			nc := x.r.Intn(4)
			for c := 0; c < nc; c++ {
				s.Catches = append(s.Catches, Catch{Types: x.catchTypes(), Body: x.block(depth-1, inLoop, true, guarded)})
				if x.bare && x.r.Chance(40) {
					s.Catches[c].Q = true
				}
			}
			if nc == 0 || x.r.Chance(60) {
				s.HasFin = true
				s.Fin = x.block(depth-1, inLoop, inCatch, guarded)
				if x.bare && x.r.Chance(30) {
					s.Q += "f"
				}
			}
			if x.bare && x.r.Chance(30) {
				s.Q += "b"
			}
			res = append(res, s)
		default:
			res = append(res, x.b.e())
		}
	}
	if len(res) == 0 {
		res = append(res, x.b.e())
	}
	return res
}

func randCase(r *vh.Rand) Case {
	// calls are functions, or (every second program) functions, methods, static methods, closures and constructors
	x := &rgen{r: r, g: randGraph(r), budget: 14 + r.Intn(30)}
	x.vias = r.Chance(50)
	x.bare = r.Chance(35) // every third program or so: catch bodies / try blocks / finally blocks without their marker
	depth := 1 + r.Intn(4)
	return Case{G: x.g, Prog: x.block(depth, false, false, false), Tag: "random"}
}

// a random re-entrant program: 1–3 named functions with random bodies that call one another (and themselves) from
// anywhere — try blocks, catch bodies, finally blocks, loops — 1–3 levels deep
func randRecCase(r *vh.Rand) Case {
	x := &rgen{r: r, g: randGraph(r), nfns: 1 + r.Intn(3)}
	c := Case{G: x.g, Depth: 1 + r.Intn(3), Tag: "random-reentrant"}
	depth := 1 + r.Intn(3)
	for k := 0; k < x.nfns; k++ {
		x.budget = 6 + r.Intn(14)
		c.Fns = append(c.Fns, x.block(depth, false, false, false))
	}
	x.budget = 3 + r.Intn(8)
	c.Prog = append(x.block(1, false, false, false), Stmt{K: "cf", N: 0})
	return c
}
