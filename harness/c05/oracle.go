package c05

import (
	"fmt"
	"strings"
)

// Reference interpreter: PHP's rules for the small language, written over the
// generator's AST with completion records. It knows nothing of the Lean model
// or of node/try.go. The subtype test is plain reachability over the declared
// edges (extends, implements, interface-extends).

type thrown struct {
	obj  bool
	cls  int
	site int
}

func (t thrown) String() string {
	if !t.obj {
		return "internal"
	}
	return fmt.Sprintf("%d:%d", t.cls, t.site)
}

type ckind int

const (
	cNormal ckind = iota
	cBreak
	cContinue
	cReturn
	cThrow
	cHostFailure // a panic of the host: a class-less throwable as soon as a try is around it
)

type completion struct {
	kind ckind
	val  int
	exc  thrown
}

type ref struct {
	g     Graph
	fns   [][]Stmt
	trace strings.Builder
	steps int // statements executed; the generators discard cases that run too long
	limit int // the run is cut after this many statements
	// evidence that a case re-enters: calls of named functions made while some activation holds a pending
	// control over a finally block (return / throw / break / continue) or a caught object in a catch body
	pend, pendingCalls int
}

// a case whose reference run executes more statements than this is not used
const stepLimit = 4000

// … except the long-running programs (Case.Long): thousands of iterations of a short body
const longStepLimit = 600000

func (c Case) stepLimit() int {
	if c.Long {
		return longStepLimit
	}
	return stepLimit
}

func (r *ref) supertypes(cls int) map[int]bool {
	seen := map[int]bool{}
	var visit func(n int)
	visit = func(n int) {
		if seen[n] {
			return
		}
		seen[n] = true
		for _, c := range r.g.Classes {
			if c.Name == n {
				if c.Ext >= 0 {
					visit(c.Ext)
				}
				for _, i := range c.Impl {
					visit(i)
				}
			}
		}
		for _, i := range r.g.Ifaces {
			if i.Name == n {
				for _, p := range i.Ext {
					visit(p)
				}
			}
		}
	}
	visit(cls)
	return seen
}

func (r *ref) instanceOf(t thrown, ty int) bool {
	if !t.obj {
		return ty == 0 || ty == 1 || ty == 2
	}
	return r.supertypes(t.cls)[ty]
}

// lvl: the value of $n in the activation that executes the block. A call is a new activation: nothing of the
// caller's state (its pending completion, its caught object, its loop) is visible to the callee — they are Go
// locals of this interpreter's own frames.
func (r *ref) block(b []Stmt, caught *thrown, lvl int) completion {
	for _, s := range b {
		if c := r.stmt(s, caught, lvl); c.kind != cNormal {
			return c
		}
	}
	return completion{}
}

func (r *ref) called(c completion) completion {
	switch c.kind {
	case cReturn:
		fmt.Fprintf(&r.trace, "R%d;", c.val)
	case cNormal:
		r.trace.WriteString("R-;")
	default:
		return c
	}
	return completion{}
}

func (r *ref) stmt(s Stmt, caught *thrown, lvl int) completion {
	r.steps++
	if r.steps > r.limit {
		return completion{kind: cHostFailure}
	}
	tagged := func(v int) int { return lvl*levelMul + v }
	switch s.K {
	case "e":
		fmt.Fprintf(&r.trace, "m%d;", tagged(s.N))
	case "t":
		return completion{kind: cThrow, exc: thrown{true, s.Cls, tagged(s.N)}}
	case "rt":
		if caught == nil {
			return completion{kind: cThrow} // `throw` of an unbound variable: a class-less error
		}
		return completion{kind: cThrow, exc: *caught}
	case "gp", "ie":
		return completion{kind: cHostFailure}
	case "r":
		return completion{kind: cReturn, val: tagged(s.N)}
	case "b":
		return completion{kind: cBreak}
	case "c":
		return completion{kind: cContinue}
	case "l":
		for n := 0; n < s.N; n++ {
			c := r.block(s.Body, caught, lvl)
			if c.kind == cBreak {
				break
			}
			if c.kind == cContinue || c.kind == cNormal {
				continue
			}
			return c
		}
	case "f":
		return r.called(r.block(s.Body, nil, lvl))
	case "cf":
		if lvl == 0 {
			return completion{}
		}
		if s.N < 0 || s.N >= len(r.fns) {
			return completion{kind: cThrow} // no such function: a class-less error
		}
		if r.pend > 0 {
			r.pendingCalls++
		}
		return r.called(r.block(r.fns[s.N], nil, lvl-1))
	case "y":
		if !s.quiet('b') {
			fmt.Fprintf(&r.trace, "T%d;", tagged(s.N))
		}
		pending := asThrow(r.block(s.Body, caught, lvl))
		if pending.kind == cThrow {
			for k, cl := range s.Catches {
				hit := false
				for _, ty := range cl.Types {
					if r.instanceOf(pending.exc, ty) {
						hit = true
						break
					}
				}
				if hit {
					e := pending.exc
					if !cl.Q {
						fmt.Fprintf(&r.trace, "C%d.%d:%s;", tagged(s.N), k, e)
					}
					r.pend++
					pending = asThrow(r.block(cl.Body, &e, lvl))
					r.pend--
					break
				}
			}
		}
		if s.HasFin {
			if !s.quiet('f') {
				fmt.Fprintf(&r.trace, "F%d;", tagged(s.N))
			}
			if pending.kind != cNormal {
				r.pend++
			}
			f := asThrow(r.block(s.Fin, caught, lvl))
			if pending.kind != cNormal {
				r.pend--
			}
			if f.kind != cNormal {
				return f // what finally does replaces what was pending
			}
		}
		return pending
	}
	return completion{}
}

func asThrow(c completion) completion {
	if c.kind == cHostFailure {
		return completion{kind: cThrow}
	}
	return c
}

// expected marker trace and final state of a case, by PHP's rules
func reference(c Case) (final, trace string) {
	final, trace, _ = referenceSteps(c)
	return
}

// the same, with the number of statements the run executed (> stepLimit: the run was cut, the case is unusable)
func referenceSteps(c Case) (final, trace string, steps int) {
	final, trace, steps, _ = referenceFull(c)
	return
}

func referenceFull(c Case) (final, trace string, steps, pendingCalls int) {
	r := &ref{g: c.G, fns: c.Fns, limit: c.stepLimit()}
	done := r.block(c.Prog, nil, c.Depth)
	switch done.kind {
	case cNormal:
		final = "ok"
	case cReturn:
		final = fmt.Sprintf("ret%d", done.val)
	case cThrow:
		final = "uncaught:" + done.exc.String()
	case cHostFailure:
		final = "gopanic"
	default:
		final = "stray"
	}
	return final, r.trace.String(), r.steps, r.pendingCalls
}
