// Package c05: correspondence + violation search for C05 (first matching
// catch, finally exactly once, uncaught errors fail the process).
//
// A case is a class hierarchy (≤ 5 user classes, a few interfaces, the
// built-ins Throwable/Exception) and a program of the small language of
// Model.Exc: markers, `throw new K`, `throw $e`, a host function that panics,
// return / break / continue, a `for` loop with a constant trip count, a call
// of a function whose body sits at the call site, named functions g0, g1, …
// that call themselves and each other with $n - 1 (re-entrant programs),
// try / catch* / finally.
// The program is rendered as ONE origami script whose blocks print markers
// (T<i>; F<i>; C<i>.<k>:<class>:<site>; m<n>; R<v>;), run in-process on a
// fresh VM, and the marker trace + the way the run ends are compared
//   - with the Lean model `vm_c05` (`Model.Exc.run`, cfg fixed)  → correspondence,
//   - with a reference interpreter written here over the same AST (PHP's
//     rules, completion records, reachability in the declared hierarchy),
//     independent of the model                                   → property violation.
// Exit status: real subprocesses of the binary built from the tree.
package c05

import (
	"fmt"
	"strconv"
	"strings"
)

// ------------------------------------------------------------ hierarchy

// Names are numbers as in the model: 0 Throwable (interface), 1 Exception
// (class, implements Throwable), 2 Error (no such class in origami; only the
// base-name rule for object-less throwables knows it).
type Cls struct {
	Name int   `json:"n"`
	Ext  int   `json:"x"` // -1: none
	Impl []int `json:"i,omitempty"`
}
type Ifc struct {
	Name int   `json:"n"`
	Ext  []int `json:"x,omitempty"`
}
type Graph struct {
	Classes []Cls `json:"c"`
	Ifaces  []Ifc `json:"i"`
}

func builtinGraph() Graph {
	return Graph{Classes: []Cls{{Name: 1, Ext: -1, Impl: []int{0}}}, Ifaces: []Ifc{{Name: 0}}}
}

func (g Graph) isIface(n int) bool {
	for _, i := range g.Ifaces {
		if i.Name == n {
			return true
		}
	}
	return false
}

func (g Graph) phpName(n int) string {
	switch n {
	case 0:
		return "Throwable"
	case 1:
		return "Exception"
	case 2:
		return "Error"
	}
	if g.isIface(n) {
		return "I" + strconv.Itoa(n)
	}
	return "K" + strconv.Itoa(n)
}

func ints(l []int) string {
	s := make([]string, len(l))
	for i, x := range l {
		s[i] = strconv.Itoa(x)
	}
	return strings.Join(s, ",")
}

// model: classes `name:ext|-:impl,impl;…` `|` interfaces `name:ext,ext;…`
func (g Graph) model() string {
	var cs, is []string
	for _, c := range g.Classes {
		e := "-"
		if c.Ext >= 0 {
			e = strconv.Itoa(c.Ext)
		}
		cs = append(cs, fmt.Sprintf("%d:%s:%s", c.Name, e, ints(c.Impl)))
	}
	for _, i := range g.Ifaces {
		is = append(is, fmt.Sprintf("%d:%s", i.Name, ints(i.Ext)))
	}
	return strings.Join(cs, ";") + "|" + strings.Join(is, ";")
}

// declarations in dependency order (interfaces first; a parent before its children: the generator
// only points to smaller names)
func (g Graph) php() string {
	var sb strings.Builder
	for _, i := range g.Ifaces {
		if i.Name <= 2 {
			continue
		}
		fmt.Fprintf(&sb, "interface %s", g.phpName(i.Name))
		if len(i.Ext) > 0 {
			var ps []string
			for _, p := range i.Ext {
				ps = append(ps, g.phpName(p))
			}
			fmt.Fprintf(&sb, " extends %s", strings.Join(ps, ", "))
		}
		sb.WriteString(" {}\n")
	}
	for _, c := range g.Classes {
		if c.Name <= 2 {
			continue
		}
		fmt.Fprintf(&sb, "class %s", g.phpName(c.Name))
		if c.Ext >= 0 {
			fmt.Fprintf(&sb, " extends %s", g.phpName(c.Ext))
		}
		if len(c.Impl) > 0 {
			var ps []string
			for _, p := range c.Impl {
				ps = append(ps, g.phpName(p))
			}
			fmt.Fprintf(&sb, " implements %s", strings.Join(ps, ", "))
		}
		sb.WriteString(" {}\n")
	}
	return sb.String()
}

// ------------------------------------------------------------ programs

type Catch struct {
	Types []int  `json:"t"`
	Body  []Stmt `json:"b,omitempty"`
	// Q (quiet): the clause is rendered WITHOUT its `echo "C<i>.<k>:…"` marker, so that its body is exactly Body —
	// `catch (K $e) { throw $e; }`, `catch (K $e) {}`, `catch (K $e) { return 7; }` … (shape streams: a parser or a
	// constructor that treats such "pure control" bodies specially never meets them otherwise). The model still
	// emits the clause's `caught` event; it is hidden from its answer (Model.Exc.hide, driver commands runq / specq).
	Q bool `json:"q,omitempty"`
}

// K: e echo(N) · t throw(Cls,N=site) · rt rethrow · gp host panic · r return(N) · b break · c continue ·
// l loop(N times, Body) · f call(Body) · y try(N=id, Body, Catches, HasFin, Fin) ·
// cf call of named function g<N> with $n - 1, guarded by `if ($n > 0)` (re-entrant programs)
type Stmt struct {
	K       string  `json:"k"`
	N       int     `json:"n,omitempty"`
	Cls     int     `json:"cls,omitempty"`
	Body    []Stmt  `json:"b,omitempty"`
	Catches []Catch `json:"cs,omitempty"`
	HasFin  bool    `json:"hf,omitempty"`
	Fin     []Stmt  `json:"fin,omitempty"`
	// Via (statements of kind f only): the kind of callee the body is rendered as — "" a named function,
	// "m" a method of a fresh object, "s" a static method, "c" a closure stored in a variable, "k" a
	// constructor (`new H()`; only for bodies that return no value). The model has one notion of call
	// (Model.Exc.callResult): every kind must hand on controls the way FunctionStatement.Call does.
	Via string `json:"via,omitempty"`
	// Q (statements of kind y only): the parts rendered without their marker — b: the try block does not start with
	// `echo "T<i>;"`, f: the finally block does not start with `echo "F<i>;"` (see Catch.Q)
	Q string `json:"q,omitempty"`
}

func (s Stmt) quiet(part byte) bool { return containsByte(s.Q, part) }

// the markers the rendering leaves out, as the driver's runq / specq commands take them: `T<i>,F<i>,C<i>.<k>,…`
func (c Case) quietList() string {
	var q []string
	for _, b := range c.blocks() {
		walk(b, func(s Stmt) {
			if s.K != "y" {
				return
			}
			if s.quiet('b') {
				q = append(q, fmt.Sprintf("T%d", s.N))
			}
			if s.quiet('f') {
				q = append(q, fmt.Sprintf("F%d", s.N))
			}
			for k, cl := range s.Catches {
				if cl.Q {
					q = append(q, fmt.Sprintf("C%d.%d", s.N, k))
				}
			}
		})
	}
	return strings.Join(q, ",")
}

// the kinds of callee a statement of kind f can be rendered as
var viaKinds = []string{"", "m", "s", "c", "k"}

func viaName(v string) string {
	switch v {
	case "m":
		return "method"
	case "s":
		return "static-method"
	case "c":
		return "closure"
	case "k":
		return "constructor"
	}
	return "function"
}

// returnsValue: the block can execute a `return n` of its own activation (not one inside a callee)
func returnsValue(b []Stmt) bool {
	for _, s := range b {
		switch s.K {
		case "r":
			return true
		case "l":
			if returnsValue(s.Body) {
				return true
			}
		case "y":
			if returnsValue(s.Body) || returnsValue(s.Fin) {
				return true
			}
			for _, c := range s.Catches {
				if returnsValue(c.Body) {
					return true
				}
			}
		}
	}
	return false
}

// A case with named functions (Fns: g0, g1, …) is re-entrant: every function has one parameter $n, a call
// passes $n - 1, the top level starts with $n = Depth, and every number a statement prints, returns or puts
// into an exception message is $n * 1000 + <number>, so that the trace says which activation did it.
type Case struct {
	G     Graph    `json:"g"`
	Prog  []Stmt   `json:"p"`
	Fns   [][]Stmt `json:"fns,omitempty"`
	Depth int      `json:"d,omitempty"`
	Tag   string   `json:"tag,omitempty"` // where the case came from (enumeration cell / stream)
	// Long: a long-running program — the top level is ONE loop `l<N>{ m<M0> … }` of thousands of iterations whose
	// body starts with a marker; the step limit of the generators does not apply, the model is asked through the
	// iteration theorem (`iter`), and reports show the first iteration that departs instead of the whole trace.
	Long bool `json:"long,omitempty"`
	// Share: the calls `f` of the program whose Via starts with "h" are calls of ONE function h($w) (method of one
	// object / static method / closure): their bodies, equal up to the leaves that differ, are rendered as one body in
	// which a differing leaf is `if ($w == j) { … }` — the try statements of the body are the SAME nodes in every call
	// (rerun.go). The model, the spec and the reference interpreter see the program as it stands: every call a fresh copy.
	Share bool `json:"sh,omitempty"`
}

// levelMul: $n * levelMul + number
const levelMul = 1000

func hasKind(b []Stmt, k string) bool {
	found := false
	walk(b, func(s Stmt) {
		if s.K == k {
			found = true
		}
	})
	return found
}

// rec: the case is rendered in the re-entrant form (functions take $n, numbers carry the level)
func (c Case) rec() bool {
	return len(c.Fns) > 0 || c.Depth > 0 || hasKind(c.Prog, "cf")
}

// all statement lists of the case: the top level first, then the named functions
func (c Case) blocks() [][]Stmt {
	return append([][]Stmt{c.Prog}, c.Fns...)
}

func modelBlock(sb *strings.Builder, b []Stmt) {
	for _, s := range b {
		switch s.K {
		case "e":
			fmt.Fprintf(sb, "e%d ", s.N)
		case "t":
			fmt.Fprintf(sb, "t%d.%d ", s.Cls, s.N)
		case "rt", "gp", "b", "c":
			sb.WriteString(s.K + " ")
		case "ie": // an error the interpreter raises itself: object-less, like the host failure (measured by probeKinds)
			sb.WriteString("gp ")
		case "r":
			fmt.Fprintf(sb, "r%d ", s.N)
		case "l":
			fmt.Fprintf(sb, "l%d{ ", s.N)
			modelBlock(sb, s.Body)
			sb.WriteString("} ")
		case "f":
			sb.WriteString("f{ ")
			modelBlock(sb, s.Body)
			sb.WriteString("} ")
		case "cf":
			fmt.Fprintf(sb, "g%d ", s.N)
		case "y":
			fmt.Fprintf(sb, "y%d{ ", s.N)
			modelBlock(sb, s.Body)
			sb.WriteString("} ")
			for _, c := range s.Catches {
				fmt.Fprintf(sb, "k%s{ ", ints(c.Types))
				modelBlock(sb, c.Body)
				sb.WriteString("} ")
			}
			if s.HasFin {
				sb.WriteString("F{ ")
				modelBlock(sb, s.Fin)
				sb.WriteString("} ")
			}
			sb.WriteString("; ")
		}
	}
}

// [n<depth>] <main> [|| <g0> [|| <g1> …]]
func (c Case) modelProg() string {
	var sb strings.Builder
	if c.Depth > 0 {
		fmt.Fprintf(&sb, "n%d ", c.Depth)
	}
	modelBlock(&sb, c.Prog)
	for _, f := range c.Fns {
		sb.WriteString("|| ")
		modelBlock(&sb, f)
	}
	return strings.TrimSpace(sb.String())
}

// ------------------------------------------------------------ rendering as an origami / PHP script

type renderer struct {
	g     Graph
	funcs []string
	nfn   int
	nloop int
	rec   bool // re-entrant form
	// shared rendering (Case.Share): how the j-th call of the shared function is written (format with %d), calls so far
	share  string
	nshare int
}

// a number as the script writes it where an expression is allowed
func (r *renderer) num(v int) string {
	if r.rec {
		return fmt.Sprintf("$n * %d + %d", levelMul, v)
	}
	return strconv.Itoa(v)
}

// `echo "<prefix><number><suffix>";`
func (r *renderer) echoNum(prefix string, v int, suffix string) string {
	if r.rec {
		return fmt.Sprintf("echo \"%s\", $n * %d + %d, \"%s\";", prefix, levelMul, v, suffix)
	}
	return fmt.Sprintf("echo \"%s%d%s\";", prefix, v, suffix)
}

// cm($e): "<class>:<site>" for an object made by `new K("s<site>")`, "internal" for anything else.
const prelude = `function cm($e) {
  $m = $e->getMessage();
  $c = get_class($e);
  if (strlen($m) >= 2 && strlen($m) <= 7 && substr($m, 0, 1) == "s" && is_numeric(substr($m, 1))) {
    return $c . ":" . substr($m, 1);
  }
  return "internal";
}
`

func (r *renderer) block(sb *strings.Builder, b []Stmt, ind string, catchVar string) {
	for _, s := range b {
		switch s.K {
		case "e":
			fmt.Fprintf(sb, "%s%s\n", ind, r.echoNum("m", s.N, ";"))
		case "t":
			if r.rec {
				fmt.Fprintf(sb, "%sthrow new %s(\"s\" . (%s));\n", ind, r.g.phpName(s.Cls), r.num(s.N))
			} else {
				fmt.Fprintf(sb, "%sthrow new %s(\"s%d\");\n", ind, r.g.phpName(s.Cls), s.N)
			}
		case "rt":
			v := catchVar
			if v == "" {
				v = "$eunbound"
			}
			fmt.Fprintf(sb, "%sthrow %s;\n", ind, v)
		case "gp":
			fmt.Fprintf(sb, "%sverif_panic();\n", ind)
		case "ie":
			fmt.Fprintf(sb, "%s%s\n", ind, ieKinds[s.N%len(ieKinds)].code)
		case "r":
			fmt.Fprintf(sb, "%sreturn %s;\n", ind, r.num(s.N))
		case "b":
			fmt.Fprintf(sb, "%sbreak;\n", ind)
		case "c":
			fmt.Fprintf(sb, "%scontinue;\n", ind)
		case "l":
			r.nloop++
			v := fmt.Sprintf("$i%d", r.nloop)
			fmt.Fprintf(sb, "%sfor (%s = 0; %s < %d; %s++) {\n", ind, v, v, s.N, v)
			r.block(sb, s.Body, ind+"  ", catchVar)
			fmt.Fprintf(sb, "%s}\n", ind)
		case "f":
			if r.share != "" && strings.HasPrefix(s.Via, "h") {
				fmt.Fprintf(sb, "%s$r = %s;\n", ind, fmt.Sprintf(r.share, r.nshare))
				r.nshare++
				fmt.Fprintf(sb, "%secho \"R\", is_int($r) ? $r : \"-\", \";\";\n", ind)
				continue
			}
			r.nfn++
			k := r.nfn
			param, arg := "", ""
			if r.rec {
				param, arg = "$n", "$n" // the anonymous function works for the activation that calls it
			}
			via := s.Via
			if via == "k" && returnsValue(s.Body) {
				via = "m" // `new` yields the object whatever the constructor returns
			}
			var fb strings.Builder
			switch via {
			case "m", "s", "k":
				decl := map[string]string{"m": "function m", "s": "static function s", "k": "function __construct"}[via]
				fmt.Fprintf(&fb, "class H%d {\n  %s(%s) {\n", k, decl, param)
				r.block(&fb, s.Body, "    ", "")
				fb.WriteString("  }\n}\n")
				r.funcs = append(r.funcs, fb.String())
				switch via {
				case "m":
					fmt.Fprintf(sb, "%s$o%d = new H%d();\n%s$r = $o%d->m(%s);\n", ind, k, k, ind, k, arg)
				case "s":
					fmt.Fprintf(sb, "%s$r = H%d::s(%s);\n", ind, k, arg)
				case "k":
					fmt.Fprintf(sb, "%s$r = new H%d(%s);\n", ind, k, arg)
				}
			case "c":
				fmt.Fprintf(sb, "%s$c%d = function(%s) {\n", ind, k, param)
				r.block(sb, s.Body, ind+"  ", "")
				fmt.Fprintf(sb, "%s};\n%s$r = $c%d(%s);\n", ind, ind, k, arg)
			default:
				fmt.Fprintf(&fb, "function f%d(%s) {\n", k, param)
				r.block(&fb, s.Body, "  ", "")
				fb.WriteString("}\n")
				r.funcs = append(r.funcs, fb.String())
				fmt.Fprintf(sb, "%s$r = f%d(%s);\n", ind, k, arg)
			}
			fmt.Fprintf(sb, "%secho \"R\", is_int($r) ? $r : \"-\", \";\";\n", ind)
		case "cf":
			fmt.Fprintf(sb, "%sif ($n > 0) {\n%s  $r = g%d($n - 1);\n%s  echo \"R\", is_int($r) ? $r : \"-\", \";\";\n%s}\n", ind, ind, s.N, ind, ind)
		case "y":
			fmt.Fprintf(sb, "%stry {\n", ind)
			if !s.quiet('b') {
				fmt.Fprintf(sb, "%s  %s\n", ind, r.echoNum("T", s.N, ";"))
			}
			r.block(sb, s.Body, ind+"  ", catchVar)
			fmt.Fprintf(sb, "%s}", ind)
			for k, c := range s.Catches {
				var ts []string
				for _, t := range c.Types {
					ts = append(ts, r.g.phpName(t))
				}
				v := fmt.Sprintf("$e%d", s.N)
				if c.Q {
					fmt.Fprintf(sb, " catch (%s %s) {\n", strings.Join(ts, " | "), v)
				} else if r.rec {
					fmt.Fprintf(sb, " catch (%s %s) {\n%s  echo \"C\", %s, \".%d:\", cm(%s), \";\";\n", strings.Join(ts, " | "), v, ind, r.num(s.N), k, v)
				} else {
					fmt.Fprintf(sb, " catch (%s %s) {\n%s  echo \"C%d.%d:\", cm(%s), \";\";\n", strings.Join(ts, " | "), v, ind, s.N, k, v)
				}
				r.block(sb, c.Body, ind+"  ", v)
				fmt.Fprintf(sb, "%s}", ind)
			}
			if s.HasFin {
				fmt.Fprintf(sb, " finally {\n")
				if !s.quiet('f') {
					fmt.Fprintf(sb, "%s  %s\n", ind, r.echoNum("F", s.N, ";"))
				}
				r.block(sb, s.Fin, ind+"  ", catchVar)
				fmt.Fprintf(sb, "%s}", ind)
			}
			sb.WriteString("\n")
		}
	}
}

func (c Case) script() string {
	r := &renderer{g: c.G, rec: c.rec()}
	sharedDecl, sharedInit := "", ""
	if c.Share && !r.rec {
		sharedDecl, sharedInit = r.shared(c.Prog)
	}
	var body strings.Builder
	body.WriteString(sharedInit)
	r.block(&body, c.Prog, "", "")
	var named []string
	for k, f := range c.Fns {
		var fb strings.Builder
		fmt.Fprintf(&fb, "function g%d($n) {\n", k)
		r.block(&fb, f, "  ", "")
		fb.WriteString("}\n")
		named = append(named, fb.String())
	}
	var sb strings.Builder
	sb.WriteString("<?php\n")
	sb.WriteString(c.G.php())
	sb.WriteString(prelude)
	if hasKind(c.Prog, "ie") {
		sb.WriteString(iePrelude)
	}
	for _, f := range named {
		sb.WriteString(f)
	}
	// callees are rendered after their callers; declare them in reverse so that every function
	// exists before the statement that calls it runs
	for i := len(r.funcs) - 1; i >= 0; i-- {
		sb.WriteString(r.funcs[i])
	}
	sb.WriteString(sharedDecl)
	if r.rec {
		fmt.Fprintf(&sb, "$n = %d;\n", c.Depth)
	}
	sb.WriteString(body.String())
	sb.WriteString("echo \"END;\";\n")
	return sb.String()
}

// ------------------------------------------------------------ static facts used by generators and signatures

func walk(b []Stmt, f func(s Stmt)) {
	for _, s := range b {
		f(s)
		walk(s.Body, f)
		for _, c := range s.Catches {
			walk(c.Body, f)
		}
		walk(s.Fin, f)
	}
}

func (c Case) tryDepth() int {
	d := 0
	for _, b := range c.blocks() {
		if x := depthOf(b); x > d {
			d = x
		}
	}
	return d
}

func depthOf(b []Stmt) int {
	d := 0
	for _, s := range b {
		x := depthOf(s.Body)
		for _, c := range s.Catches {
			if y := depthOf(c.Body); y > x {
				x = y
			}
		}
		if y := depthOf(s.Fin); y > x {
			x = y
		}
		if s.K == "y" {
			x++
		}
		if x > d {
			d = x
		}
	}
	return d
}

func sizeOf(b []Stmt) int {
	n := 0
	walk(b, func(Stmt) { n++ })
	return n
}
