package c05

import (
	"bytes"
	"context"
	"fmt"
	"os"
	"os/exec"
	"path/filepath"
	"strings"
	"time"

)

// ------------------------------------------------------------ exit status: real subprocesses of the binary built from the tree

type cliScenario struct {
	Name    string
	Files   map[string]string // name → content; "main.php" is run unless Arg is set
	Arg     string            // script path argument relative to the scenario dir ("" = main.php)
	Input   string            // Model.Cli input (driver syntax)
	Fail    bool              // PHP-level expectation: non-zero status
	Diag    bool              //   a diagnostic on stderr
	Out     string            //   exact stdout ("*" = not compared)
	Code    int               // expected exact code when the statement fixes it (-1: any non-zero / zero per Fail)
	Known   string            // signature of the known finding this scenario confirms ("" = main stream)
	SpecIn  string            // the input as PHP sees it when that differs from what origami does with it ("" = Input)
	KnownAs string            // the exact departure ("a+b") that constitutes the known finding
	Best    bool              // best effort: skipped with a note when the trigger no longer triggers
}

func cliScenarios() []cliScenario {
	return []cliScenario{
		{Name: "normal", Files: map[string]string{"main.php": "<?php\necho \"m1;\";\necho \"m2;\";\n"}, Input: "s:e1,e2:normal", Out: "m1;m2;", Code: 0},
		{Name: "parse", Files: map[string]string{"main.php": "<?php\necho \"m1;\";\nfoo(;\n"}, Input: "parse", Fail: true, Diag: true, Out: "", Code: -1},
		{Name: "parse-class-noname", Files: map[string]string{"main.php": "<?php\necho \"m1;\";\nclass { }\n"}, Input: "parse", Fail: true, Diag: true, Out: "", Code: -1},
		{Name: "parse-stray-brace", Files: map[string]string{"main.php": "<?php\necho \"m1;\";\n}\n"}, Input: "parse", Fail: true, Diag: true, Out: "", Code: -1},
		{Name: "parse-unterminated-string", Files: map[string]string{"main.php": "<?php\necho \"m1;\";\necho \"unterminated;\n"}, Input: "parse", Fail: true, Diag: true, Out: "", Code: -1},
		{Name: "uncaught", Files: map[string]string{"main.php": "<?php\necho \"m1;\";\nthrow new Exception(\"boom\");\necho \"m2;\";\n"}, Input: "s:e1:uncaught", Fail: true, Diag: true, Out: "m1;", Code: -1},
		{Name: "uncaught-user-class", Files: map[string]string{"main.php": "<?php\nclass K3 extends Exception {}\necho \"m1;\";\ntry { throw new K3(\"boom\"); } catch (RuntimeException $e) { echo \"m9;\"; }\necho \"m2;\";\n"}, Input: "s:e1:uncaught", Fail: true, Diag: true, Out: "m1;", Code: -1},
		{Name: "uncaught-in-function", Files: map[string]string{"main.php": "<?php\nfunction f() { echo \"m2;\"; throw new Exception(\"boom\"); }\necho \"m1;\";\nf();\necho \"m3;\";\n"}, Input: "s:e1,e2:uncaught", Fail: true, Diag: true, Out: "m1;m2;", Code: -1},
		{Name: "uncaught-through-finally", Files: map[string]string{"main.php": "<?php\necho \"m1;\";\ntry { throw new Exception(\"boom\"); } finally { echo \"m2;\"; }\necho \"m3;\";\n"}, Input: "s:e1,e2:uncaught", Fail: true, Diag: true, Out: "m1;m2;", Code: -1},
		{Name: "runtime-error-in-function", Files: map[string]string{"main.php": "<?php\nfunction f() { return undefined_fn_c05(); }\necho \"m1;\";\nf();\necho \"m2;\";\n"}, Input: "s:e1:uncaught", Fail: true, Diag: true, Out: "m1;", Code: -1},
		{Name: "exit3", Files: map[string]string{"main.php": "<?php\necho \"m1;\";\nexit(3);\necho \"m2;\";\n"}, Input: "s:e1:exit3", Fail: true, Out: "m1;", Code: 3},
		{Name: "exit0", Files: map[string]string{"main.php": "<?php\necho \"m1;\";\nexit(0);\necho \"m2;\";\n"}, Input: "s:e1:exit0", Out: "m1;", Code: 0},
		{Name: "exit-in-try-finally", Files: map[string]string{"main.php": "<?php\necho \"m1;\";\ntry { exit(4); } finally { echo \"m2;\"; }\n"}, Input: "s:e1:exit4", Fail: true, Out: "m1;", Code: 4},
		{Name: "missing", Files: map[string]string{}, Arg: "nosuchfile.php", Input: "missing", Fail: true, Diag: true, Out: "*", Code: -1},
		{Name: "include-broken", Files: map[string]string{"main.php": "<?php\necho \"m1;\";\ninclude __DIR__ . \"/broken.php\";\necho \"m2;\";\n", "broken.php": "<?php\nfoo(;\n"}, Input: "s:e1:uncaught", Fail: true, Diag: true, Out: "m1;", Code: -1},
		{Name: "late-control", Files: map[string]string{"main.php": "<?php\necho \"m1;\";\ngoto nolabel_c05;\necho \"m2;\";\n"}, Input: "s:e1:late", Fail: true, Diag: true, Out: "m1;", Code: -1},
		{Name: "host-panic", Files: map[string]string{"main.php": "<?php\nclass PairC05<K, V> { public K $a; }\necho \"m1;\";\n$p = new PairC05<int>();\necho \"m2;\";\n"}, Input: "s:e1:panic", Fail: true, Diag: true, Out: "m1;", Code: -1, Best: true},
		// output still sitting in ob_start buffers is flushed however the script ends
		{Name: "ob-uncaught", Files: map[string]string{"main.php": "<?php\necho \"m1;\";\nob_start();\necho \"m2;\";\nthrow new Exception(\"boom\");\n"}, Input: "s:e1,ob,e2:uncaught", Fail: true, Diag: true, Out: "m1;m2;", Code: -1},
		{Name: "ob-normal", Files: map[string]string{"main.php": "<?php\necho \"m1;\";\nob_start();\necho \"m2;\";\n"}, Input: "s:e1,ob,e2:normal", Out: "m1;m2;", Code: 0},
		{Name: "ob-exit", Files: map[string]string{"main.php": "<?php\necho \"m1;\";\nob_start();\necho \"m2;\";\nob_start();\necho \"m3;\";\nexit(3);\n"}, Input: "s:e1,ob,e2,ob,e3:exit3", Fail: true, Out: "m1;m2;m3;", Code: 3},
		{Name: "ob-nested-taken-back-uncaught", Files: map[string]string{"main.php": "<?php\necho \"m1;\";\nob_start();\necho \"m2;\";\nob_start();\necho \"m3;\";\n$x = ob_get_clean();\necho \"m4;\";\nfunction f() { throw new Exception(\"boom\"); }\nf();\n"}, Input: "s:e1,ob,e2,ob,e3,oc,e4:uncaught", Fail: true, Diag: true, Out: "m1;m2;m4;", Code: -1},
		// fixed (aa1fc00): a source whose last block is never closed, an unterminated array literal and a bare try are parse errors
		{Name: "unclosed-block", Files: map[string]string{"main.php": "<?php\necho \"m1;\";\nif (true) {\n  echo \"m2;\";\n"}, Input: "parse", Fail: true, Diag: true, Out: "", Code: -1},
		{Name: "unclosed-array", Files: map[string]string{"main.php": "<?php\necho \"m1;\";\n$a = [1, 2;\necho \"m2;\";\n"}, Input: "parse", Fail: true, Diag: true, Out: "", Code: -1},
		{Name: "bare-try", Files: map[string]string{"main.php": "<?php\necho \"m1;\";\ntry { echo \"m2;\"; }\necho \"m3;\";\n"}, Input: "parse", Fail: true, Diag: true, Out: "", Code: -1},
		{Name: "ob-taken-back", Files: map[string]string{"main.php": "<?php\necho \"m1;\";\nob_start();\necho \"m2;\";\n$x = ob_get_clean();\necho \"m3;\";\nthrow new Exception(\"boom\");\n"}, Input: "s:e1,ob,e2,oc,e3:uncaught", Fail: true, Diag: true, Out: "m1;m3;", Code: -1},
	}
}

func goEnv() []string {
	var env []string
	for _, e := range os.Environ() {
		if strings.HasPrefix(e, "GOFLAGS=") || strings.HasPrefix(e, "GOPROXY=") || strings.HasPrefix(e, "GOTOOLCHAIN=") || strings.HasPrefix(e, "GOSUMDB=") {
			continue
		}
		env = append(env, e)
	}
	return append(env, "GOFLAGS=-mod=mod", "GOPROXY=off")
}

func (r *runner) buildBinary() (string, error) {
	bin := filepath.Join(r.c.Scratch, "zy")
	if _, err := os.Stat(bin); err == nil {
		return bin, nil
	}
	ctx, cancel := context.WithTimeout(context.Background(), 10*time.Minute)
	defer cancel()
	cmd := exec.CommandContext(ctx, "go", "build", "-o", bin, ".")
	cmd.Dir = r.c.Repo
	cmd.Env = goEnv()
	out, err := cmd.CombinedOutput()
	if err != nil {
		return "", fmt.Errorf("go build %s: %v: %s", r.c.Repo, err, lastLines(string(out), 5))
	}
	return bin, nil
}

func lastLines(s string, n int) string {
	ls := strings.Split(strings.TrimSpace(s), "\n")
	if len(ls) > n {
		ls = ls[len(ls)-n:]
	}
	return strings.Join(ls, " / ")
}

type procRes struct {
	Code   int
	Stdout string
	Stderr string
	Hung   bool
}

func runBinary(bin, dir, arg string) procRes {
	ctx, cancel := context.WithTimeout(context.Background(), 30*time.Second)
	defer cancel()
	cmd := exec.CommandContext(ctx, bin, arg)
	cmd.Dir = dir
	var so, se bytes.Buffer
	cmd.Stdout, cmd.Stderr = &so, &se
	cmd.WaitDelay = 2 * time.Second
	err := cmd.Run() // CommandContext kills with SIGKILL on timeout (origami ignores SIGTERM)
	res := procRes{Stdout: so.String(), Stderr: se.String()}
	if ctx.Err() != nil {
		res.Hung = true
		res.Code = -1
		return res
	}
	if err != nil {
		if ee, ok := err.(*exec.ExitError); ok {
			res.Code = ee.ExitCode()
		} else {
			res.Code = -2
			res.Stderr += err.Error()
		}
	}
	return res
}

func (r *runner) cli(only string) {
	bin, err := r.buildBinary()
	if err != nil {
		r.c.Mismatch(replay{Kind: "cli"}, err.Error(), "", "the interpreter binary could not be built from the tree; exit-status scenarios not run")
		return
	}
	for _, sc := range cliScenarios() {
		if only != "" && sc.Name != only {
			continue
		}
		dir := filepath.Join(r.c.Scratch, "cli-"+sc.Name)
		os.MkdirAll(dir, 0o755)
		for n, content := range sc.Files {
			os.WriteFile(filepath.Join(dir, n), []byte(content), 0o644)
		}
		arg := sc.Arg
		if arg == "" {
			arg = "main.php"
		}
		p := runBinary(bin, dir, filepath.Join(dir, arg))
		r.c.Eval("cli:"+sc.Name, true)
		r.c.Hit("stream:cli")
		got := fmt.Sprintf("code=%d diag=%v out=%q", p.Code, strings.TrimSpace(p.Stderr) != "", p.Stdout)
		rp := replay{Kind: "cli", Name: sc.Name}
		if p.Hung {
			r.c.Violation("cli:hang:"+sc.Name, "zy did not terminate within 30 s on scenario "+sc.Name, rp)
			continue
		}
		if sc.Best && p.Code == 0 {
			r.c.Note("cli scenario %s: the trigger no longer fails on this tree (exit 0); skipped", sc.Name)
			continue
		}
		// the property, judged without the model
		var bad []string
		if sc.Fail && p.Code == 0 {
			bad = append(bad, "exit-zero")
		}
		if !sc.Fail && p.Code != 0 {
			bad = append(bad, "exit-nonzero")
		}
		if sc.Code >= 0 && p.Code != sc.Code && len(bad) == 0 {
			bad = append(bad, "exit-code")
		}
		if sc.Diag && strings.TrimSpace(p.Stderr) == "" {
			bad = append(bad, "no-diagnostic")
		}
		if sc.Out != "*" && p.Stdout != sc.Out {
			if strings.HasPrefix(sc.Out, p.Stdout) {
				bad = append(bad, "output-lost")
			} else {
				bad = append(bad, "output-differs")
			}
		}
		if len(bad) > 0 {
			sig := "cli:" + strings.Join(bad, "+") + ":" + sc.Name
			if sc.Known != "" && strings.Join(bad, "+") == sc.KnownAs {
				sig = sc.Known
			}
			r.c.Violation(sig, fmt.Sprintf("zy %s: %s; expected fail=%v diag=%v out=%q", sc.Name, got, sc.Fail, sc.Diag, sc.Out), rp)
		}
		// correspondence with Model.Cli and consistency of Spec.Cli with the table above
		if r.m != nil {
			ans, err := r.m.Ask("cli\tfixed\t" + sc.Input)
			if err == nil {
				r.c.Res.Traces++
				want := fmt.Sprintf("code=%d diag=%s out=%s", p.Code, map[bool]string{true: "1", false: "0"}[strings.TrimSpace(p.Stderr) != ""], markerNums(p.Stdout))
				if sc.Out == "*" {
					ans = strings.SplitN(ans, " out=", 2)[0]
					want = strings.SplitN(want, " out=", 2)[0]
				}
				if ans != want {
					note := ""
					if pin, e2 := r.m.Ask("cli\tnoflush\t" + sc.Input); e2 == nil && pin == want {
						note = "the binary agrees with Model.Cli without flushOnExit: fix C05-flush-buffers-before-exit is missing from this tree"
					} else if pin, e2 := r.m.Ask("cli\tpinned\t" + sc.Input); e2 == nil && strings.HasPrefix(pin, strings.SplitN(want, " out=", 2)[0]) {
						note = "the binary agrees with the pre-fix (pinned) Model.Cli: fix C05-cli-exit-status is missing from this tree"
					}
					r.c.Mismatch(rp, want, ans, note)
				}
			}
			specIn := sc.SpecIn
			if specIn == "" {
				specIn = sc.Input
			}
			if sp, err := r.m.Ask("clispec\t" + specIn); err == nil {
				b := map[bool]string{true: "1", false: "0"}
				want := fmt.Sprintf("fail=%s diag=%s out=%s", b[sc.Fail], b[sc.Diag], markerNums(sc.Out))
				if sc.Out == "*" {
					sp = strings.SplitN(sp, " out=", 2)[0]
					want = strings.SplitN(want, " out=", 2)[0]
				}
				if sp != want {
					r.c.Mismatch(rp, "go-table "+want, "lean-spec "+sp, "Spec.Cli and the scenario table disagree")
				}
			}
		}
	}
}

// "m1;m2;" → "1,2"
func markerNums(out string) string {
	var ns []string
	for _, t := range tokens(out) {
		if strings.HasPrefix(t, "m") {
			ns = append(ns, t[1:])
		} else {
			ns = append(ns, "?"+t)
		}
	}
	return strings.Join(ns, ",")
}

// ------------------------------------------------------------ known findings outside the model's language, confirmed each run

type knownScenario struct {
	Name, Sig, Script, Good, What string
}

func knownScenarios() []knownScenario {
	return []knownScenario{
		{
			Name: "catch-var", Sig: "exc:catch-var:not-same-object",
			Script: "<?php\nclass A extends Exception { public $tag = 0; public function who() { return \"w\" . $this->tag; } }\nclass B extends A {}\n$o = new B(\"m\");\n$o->tag = 7;\n" +
				"try { throw $o; } catch (A $e) {\n  echo get_class($e), \";\";\n  echo ($e === $o) ? \"same;\" : \"different;\";\n  echo ($e instanceof B) ? \"instB;\" : \"notB;\";\n" +
				"  try { echo $e->tag, \";\"; } catch (Throwable $t) { echo \"noprop;\"; }\n  try { echo $e->who(), \";\"; } catch (Throwable $t) { echo \"nomethod;\"; }\n}\n",
			Good: "B;same;instB;7;w7;",
			What: "the catch variable is not the thrown object: `catch (A $e)` binds the *data.ThrowValue wrapper (node/try.go tryValue: SetVariableValue(catchBlock.Variable, c)); get_class/getMessage answer for the object, but $e === $o is false, $e instanceof B is false and user properties / methods are unreachable",
		},
		{
			Name: "message-shared", Sig: "exc:message-shared",
			Script: "<?php\n$a = new Exception(\"a\");\n$b = new Exception(\"b\");\necho $a->getMessage(), \";\", $b->getMessage(), \";\";\n",
			Good:   "a;b;",
			What:   "all instances of Exception (and of user classes extending it) share one message field: ExceptionClass.GetValue copies the struct but its method objects keep pointing at the one *Exception created by NewExceptionClass, so $a->getMessage() answers with the message of the most recently constructed exception (the message captured by `throw` at throw time is right)",
		},
	}
}

// script-level scenarios around the small language (constructs the model does not have: foreach, while,
// methods, arguments, string interpolation); judged against the output PHP gives
func extraScenarios() []knownScenario {
	cls := "<?php\nclass K3 extends Exception {}\nclass K4 extends K3 {}\nclass O { function m() { throw new K4(\"s1\"); } function ok() { return 5; } }\nfunction thrower() { throw new K4(\"s2\"); }\nfunction id($x) { return $x; }\n$o = new O();\n"
	return []knownScenario{
		{Name: "interpolation", Sig: "exc:uncatchable:interpolation",
			Script: cls + "echo \"m1;\";\ntry { echo \"T1;\"; $s = \"v={$o->m()}\"; echo \"no;\"; } catch (K3 $e) { echo \"C1:\", get_class($e), \";\"; } finally { echo \"F1;\"; }\necho \"m2;\";\n",
			Good: "m1;T1;C1:K4;F1;m2;", What: "an exception thrown while evaluating a string interpolation \"{$o->m()}\" inside try is not offered to the catch clauses and finally does not run (nested node.Program hands the control to VM.ThrowControl)"},
		{Name: "interpolation-heredoc", Sig: "exc:uncatchable:interpolation",
			Script: cls + "try { echo \"T1;\"; $s = <<<EOT\nv={$o->m()}\nEOT;\necho \"no;\"; } catch (K3 $e) { echo \"C1;\"; } finally { echo \"F1;\"; }\necho \"m2;\";\n",
			Good: "T1;C1;F1;m2;", What: "an exception thrown while evaluating a heredoc interpolation inside try is not catchable"},
		{Name: "foreach-break-finally", Sig: "exc:finally:foreach-break",
			Script: cls + "foreach ([1, 2, 3] as $i) { try { echo \"T$i;\"; if ($i == 2) { break; } echo \"b$i;\"; } finally { echo \"F$i;\"; } }\necho \"m2;\";\n",
			Good: "T1;b1;F1;T2;F2;m2;", What: "finally on break inside foreach"},
		{Name: "foreach-continue-finally", Sig: "exc:finally:foreach-continue",
			Script: cls + "foreach ([1, 2, 3] as $i) { try { echo \"T$i;\"; if ($i == 2) { continue; } echo \"b$i;\"; } finally { echo \"F$i;\"; } }\necho \"m2;\";\n",
			Good: "T1;b1;F1;T2;F2;T3;b3;F3;m2;", What: "finally on continue inside foreach"},
		{Name: "while-break-finally", Sig: "exc:finally:while-break",
			Script: cls + "$i = 0;\nwhile ($i < 3) { $i++; try { echo \"T$i;\"; if ($i == 2) { break; } } finally { echo \"F$i;\"; } }\necho \"m2;\";\n",
			Good: "T1;F1;T2;F2;m2;", What: "finally on break inside while"},
		{Name: "method-throw", Sig: "exc:catch:method",
			Script: cls + "try { echo \"T1;\"; $o->m(); echo \"no;\"; } catch (K4 $e) { echo \"C1:\", $e->getMessage(), \";\"; } finally { echo \"F1;\"; }\n",
			Good: "T1;C1:s1;F1;", What: "exception thrown by a method"},
		{Name: "argument-throw", Sig: "exc:catch:argument",
			Script: cls + "try { echo \"T1;\"; echo id(thrower()); echo \"no;\"; } catch (K3 $e) { echo \"C1:\", get_class($e), \";\"; } finally { echo \"F1;\"; }\necho \"m2;\";\n",
			Good: "T1;C1:K4;F1;m2;", What: "exception thrown while evaluating a call argument"},
		{Name: "catch-without-variable", Sig: "exc:catch:no-variable",
			Script: cls + "try { echo \"T1;\"; thrower(); } catch (K3) { echo \"C1;\"; }\necho \"m2;\";\n",
			Good: "T1;C1;m2;", What: "catch (K3) without a variable"},
		{Name: "nested-function-finally-order", Sig: "exc:finally:unwind-order",
			Script: cls + "function a() { try { echo \"Ta;\"; b(); } finally { echo \"Fa;\"; } }\nfunction b() { try { echo \"Tb;\"; thrower(); } finally { echo \"Fb;\"; } }\ntry { a(); } catch (Exception $e) { echo \"C:\", get_class($e), \";\"; }\n",
			Good: "Ta;Tb;Fb;Fa;C:K4;", What: "finally blocks run innermost first while an exception unwinds through two functions"},
		{Name: "return-value-computed-before-finally", Sig: "exc:finally:return-value",
			Script: cls + "function rv() { $x = 1; try { return $x; } finally { $x = 2; echo \"F;\"; } }\necho rv(), \";\";\n",
			Good: "F;1;", What: "the returned value is computed before the finally block runs"},
		// re-entrancy through constructs the small language does not have: what an activation has pending while its
		// finally block / catch body / loop body runs belongs to that activation, also when the callee is the same code
		{Name: "reentry-method", Sig: "exc:reentry:method",
			Script: "<?php\nclass W {\n  function walk($n) { try { return \"w$n\"; } finally { echo \"F$n;\"; if ($n > 0) { echo $this->walk($n - 1), \";\"; } } }\n}\n$o = new W();\necho $o->walk(2), \";\";\n",
			Good: "F2;F1;F0;w0;w1;w2;", What: "a method whose finally block calls the method again: every activation returns its own pending value"},
		{Name: "reentry-static-method", Sig: "exc:reentry:static-method",
			Script: "<?php\nclass W {\n  static function sw($n) { try { return \"s$n\"; } finally { if ($n > 0) { echo W::sw($n - 1), \";\"; } } }\n}\necho W::sw(2), \";\";\n",
			Good: "s0;s1;s2;", What: "a static method whose finally block calls it again"},
		{Name: "reentry-closure", Sig: "exc:reentry:closure",
			Script: "<?php\n$f = function($n) use (&$f) { try { return \"c$n\"; } finally { if ($n > 0) { echo $f($n - 1), \";\"; } } };\necho $f(2), \";\";\n",
			Good: "c0;c1;c2;", What: "a closure whose finally block calls the closure again"},
		{Name: "reentry-catch-return", Sig: "exc:reentry:catch-return",
			Script: "<?php\nclass K3 extends Exception {}\nfunction h($n) {\n  try { throw new K3(\"b$n\"); }\n  catch (K3 $e) { if ($n > 0) { echo h($n - 1), \";\"; } return \"h:\" . $e->getMessage(); }\n  finally { if ($n > 0) { echo h($n - 1), \";\"; } }\n}\necho h(1), \";\";\n",
			Good: "h:b0;h:b0;h:b1;", What: "the catch variable and the value returned from a catch body survive re-entry from the catch body and from the finally block"},
		{Name: "reentry-foreach-mutual", Sig: "exc:reentry:foreach-mutual",
			Script: "<?php\nfunction p($n) {\n  foreach ([1, 2, 3] as $i) {\n    try { if ($i == 1) { continue; } if ($i == 2) { return \"p$n.$i\"; } }\n    finally { if ($n > 0) { echo q($n - 1), \";\"; } }\n  }\n  return \"end$n\";\n}\nfunction q($n) { return \"q<\" . p($n) . \">\"; }\necho p(1), \";\";\n",
			Good: "q<p0.2>;q<p0.2>;p1.2;", What: "a pending continue and a pending return inside foreach survive mutual recursion from the finally block (the loop position too)"},
		{Name: "reentry-while-break", Sig: "exc:reentry:while-break",
			Script: "<?php\nfunction w($n) {\n  $i = 0;\n  while ($i < 3) {\n    $i++;\n    try { if ($i == 2) { break; } echo \"b$n.$i;\"; }\n    finally { if ($n > 0) { echo w($n - 1), \";\"; } }\n  }\n  return \"w$n.$i\";\n}\necho w(1), \";\";\n",
			Good: "b1.1;b0.1;w0.2;b0.1;w0.2;w1.2;", What: "a pending break inside while survives re-entry from the finally block"},
		{Name: "reentry-finally-override", Sig: "exc:reentry:finally-override",
			Script: "<?php\nfunction o($n) { try { return \"t$n\"; } finally { if ($n > 0) { o($n - 1); } if ($n == 1) { return \"f$n\"; } } }\necho o(2), \";\", o(1), \";\", o(0), \";\";\n",
			Good: "t2;f1;t0;", What: "only a return in the activation's own finally block overrides its pending return: the inner activation's override does not leak out"},
		{Name: "reentry-pending-throw", Sig: "exc:reentry:pending-throw",
			Script: "<?php\nclass K3 extends Exception {}\nfunction t($n) {\n  try { try { throw new K3(\"x$n\"); } finally { if ($n > 0) { try { t($n - 1); } catch (K3 $i) { echo \"in:\", $i->getMessage(), \";\"; } } } }\n  catch (K3 $e) { echo \"out:\", $e->getMessage(), \";\"; throw $e; }\n}\ntry { t(2); } catch (K3 $e) { echo \"top:\", $e->getMessage(), \";\"; }\n",
			Good: "out:x0;in:x0;out:x1;in:x1;out:x2;top:x2;", What: "a pending exception survives a finally block in which deeper activations throw, catch and rethrow objects of the same class from the same statements"},
	}
}

func (r *runner) extra(only string) {
	for _, k := range extraScenarios() {
		if only != "" && k.Name != only {
			continue
		}
		res := runScript(k.Script)
		r.c.Eval("script:"+k.Name, true)
		r.c.Hit("stream:scripts")
		if res.Raw != k.Good {
			r.c.Violation(k.Sig, fmt.Sprintf("%s — script printed %q (run ended %s), PHP prints %q", k.What, res.Raw, res.Final, k.Good), replay{Kind: "script", Name: k.Name})
		}
	}
}

func (r *runner) known(only string) {
	for _, k := range knownScenarios() {
		if only != "" && k.Name != only {
			continue
		}
		res := runScript(k.Script)
		r.c.Eval("known:"+k.Name, true)
		r.c.Hit("stream:known")
		if res.Raw != k.Good {
			r.c.Violation(k.Sig, fmt.Sprintf("%s — script printed %q (final %s), PHP prints %q", k.What, res.Raw, res.Final, k.Good), replay{Kind: "known", Name: k.Name})
		}
	}
}
