package c05

import (
	"fmt"
	"strings"
)

// ------------------------------------------------------------ body shapes
//
// Every other stream renders a try block, a catch body and a finally block with a marker as its first statement
// (`echo "T1;"`, `echo "C1.0:…";`, `echo "F1;"`) and surrounds the part's action with further markers, so a block of
// a generated script never consisted of control statements only: `catch (K $e) { throw $e; }`, `catch (K $e) {}`,
// `finally {}`, `try { throw new K(); }`, a try statement that is the only statement of a block. A parser or a
// constructor that rewrites the try statement by the SHAPE of its parts (drops a clause that "only rethrows", drops
// an empty clause or an empty finally, merges clauses with equal bodies, folds a try that is the only statement of a
// try block into the outer statement, hoists a finally that "only returns") is sound for some clause lists and not
// for others, and met none of its trigger shapes. Here the parts are rendered bare (Catch.Q, Stmt.Q): the block is
// exactly its action. What happened is still observable: through the markers of the parts that keep them (a later
// clause that must not run prints its C marker), through the statements after the try (loop markers, the caller's
// `R<v>;`), and through the way the run ends. The reference interpreter (PHP's rules) judges; the model's events of
// the bare parts are hidden from its answer (Model.Exc.hide).

type bodyShape struct {
	marked bool   // the part keeps its marker
	act    string // empty rt tother tsame ret brk cont gp echo callthrow
}

func (s bodyShape) String() string {
	if s.marked {
		return "m+" + s.act
	}
	return s.act
}

func (s bodyShape) jump() bool { return s.act == "brk" || s.act == "cont" }

// the statements of a part that does exactly `act`
func (b *builder) pure(act string) []Stmt {
	switch act {
	case "empty":
		return nil
	case "rt":
		return []Stmt{{K: "rt"}}
	case "tother":
		return []Stmt{b.thr(otherCls)}
	case "tsame":
		return []Stmt{b.thr(thrownCls)}
	case "tchild":
		return []Stmt{b.thr(5)}
	case "ret":
		b.marker++
		return []Stmt{{K: "r", N: b.marker}}
	case "brk":
		return []Stmt{{K: "b"}}
	case "cont":
		return []Stmt{{K: "c"}}
	case "gp":
		return []Stmt{{K: "gp"}}
	case "echo":
		return []Stmt{b.e()}
	case "callthrow":
		return []Stmt{{K: "f", Body: []Stmt{b.thr(thrownCls)}}}
	}
	panic("no pure action " + act)
}

func (b *builder) shapedClause(relName string, sh bodyShape) Catch {
	return Catch{Types: relByName(relName).types, Body: b.pure(sh.act), Q: !sh.marked}
}

// a clause that keeps its marker and prints one more: it shows in the trace when it runs
func (b *builder) witnessClause(relName string) Catch {
	return Catch{Types: relByName(relName).types, Body: []Stmt{b.e()}}
}

// finally variants: none · normal (marker + one statement) · bare-<act>
func (b *builder) setFinally(s *Stmt, fin string) {
	switch {
	case fin == "none":
	case fin == "normal":
		s.HasFin, s.Fin = true, []Stmt{b.e()}
	case strings.HasPrefix(fin, "bare-"):
		s.HasFin, s.Fin = true, b.pure(strings.TrimPrefix(fin, "bare-"))
		s.Q += "f"
	default:
		panic("no finally variant " + fin)
	}
}

func hasJump(b []Stmt) bool {
	return hasKind(b, "b") || hasKind(b, "c")
}

// the statement in a context: top level, or in a loop of two iterations inside a function (break / continue /
// return are legal there, the caller prints what the call returned)
func (b *builder) inContext(t Stmt, ctx string) []Stmt {
	switch ctx {
	case "top":
		return []Stmt{b.e(), t, b.e()}
	case "funcloop":
		return []Stmt{b.e(), {K: "f", Body: []Stmt{b.e(), {K: "l", N: 2, Body: []Stmt{b.e(), t, b.e()}}, b.e()}}, b.e()}
	}
	panic("no context " + ctx)
}

func emitShape(emit func(Case), b *builder, t Stmt, tag string) {
	for _, ctx := range []string{"top", "funcloop"} {
		if ctx == "top" && hasJump([]Stmt{t}) {
			continue
		}
		nb := *b // the same numbering in both contexts
		c := Case{G: enumGraph(), Prog: nb.inContext(t, ctx), Tag: "shape/" + tag + "/" + ctx}
		emit(cloneCase(c))
	}
}

func shapeAlphabets(full bool) (types []string, bare, marked []bodyShape, fins, thrown []string) {
	types = []string{"same", "parent", "throwable", "sibling"}
	for _, a := range []string{"empty", "rt", "tother", "ret", "brk", "cont", "echo"} {
		bare = append(bare, bodyShape{false, a})
	}
	marked = []bodyShape{{true, "empty"}, {true, "rt"}}
	fins = []string{"none", "normal"}
	thrown = []string{"tsame"}
	if full {
		types = []string{"same", "parent", "root", "throwable", "iface-inherited", "iface-parent", "sibling", "union-no-yes"}
		bare = append(bare, bodyShape{false, "tsame"}, bodyShape{false, "gp"})
		marked = append(marked, bodyShape{true, "tother"}, bodyShape{true, "ret"}, bodyShape{true, "brk"})
		fins = []string{"none", "normal", "bare-empty", "bare-ret"}
		thrown = []string{"tsame", "tchild", "gp", "callthrow"}
	}
	return
}

// enumShapes: see the comment at the top. Returns nothing; every case goes to emit.
//
//	A  two clauses: clause type × clause type × the shape under test in position 0 or 1, the other clause a witness
//	   (keeps its marker) × finally × what the try block throws
//	B  three clauses: the shape under test in each position, the two others witnesses
//	C  two clauses, both bare, each with its own shape (what ran shows in how the statement is left)
//	D  bare try blocks × bare / empty finally blocks × clause lists
//	E  a try statement that is the only statement of a bare try block / catch body / finally block of another
func enumShapes(full bool, emit func(Case)) {
	types, bare, marked, fins, thrown := shapeAlphabets(full)
	shapes := append(append([]bodyShape{}, bare...), marked...)

	// A
	for _, th := range thrown {
		for _, t0 := range types {
			for _, t1 := range types {
				for _, sh := range shapes {
					for pos := 0; pos < 2; pos++ {
						for _, fin := range fins {
							b := &builder{}
							b.tryID++
							t := Stmt{K: "y", N: b.tryID, Body: b.pure(th)}
							if pos == 0 {
								t.Catches = []Catch{b.shapedClause(t0, sh), b.witnessClause(t1)}
							} else {
								t.Catches = []Catch{b.witnessClause(t0), b.shapedClause(t1, sh)}
							}
							b.setFinally(&t, fin)
							emitShape(emit, b, t, fmt.Sprintf("A/%s/%s,%s/%s@%d/%s", th, t0, t1, sh, pos, fin))
						}
					}
				}
			}
		}
	}

	// B
	types3 := []string{"same", "parent", "throwable", "sibling"}
	shapes3 := []bodyShape{{false, "empty"}, {false, "rt"}, {false, "tother"}, {false, "ret"}, {false, "brk"}}
	if full {
		shapes3 = shapes
	}
	for _, t0 := range types3 {
		for _, t1 := range types3 {
			for _, t2 := range types3 {
				ts := []string{t0, t1, t2}
				for _, sh := range shapes3 {
					for pos := 0; pos < 3; pos++ {
						b := &builder{}
						b.tryID++
						t := Stmt{K: "y", N: b.tryID, Body: b.pure("tsame")}
						for k := 0; k < 3; k++ {
							if k == pos {
								t.Catches = append(t.Catches, b.shapedClause(ts[k], sh))
							} else {
								t.Catches = append(t.Catches, b.witnessClause(ts[k]))
							}
						}
						// every program of this stream sits in the function + loop context (quick); both contexts in thorough
						tag := fmt.Sprintf("B/%s,%s,%s/%s@%d", t0, t1, t2, sh, pos)
						if full {
							emitShape(emit, b, t, tag)
						} else {
							c := Case{G: enumGraph(), Prog: b.inContext(t, "funcloop"), Tag: "shape/" + tag + "/funcloop"}
							emit(cloneCase(c))
						}
					}
				}
			}
		}
	}

	// C
	pair := []bodyShape{{false, "empty"}, {false, "rt"}, {false, "tother"}, {false, "ret"}, {false, "brk"}}
	if full {
		pair = bare
	}
	for _, t0 := range types3 {
		for _, t1 := range types3 {
			for _, s0 := range pair {
				for _, s1 := range pair {
					b := &builder{}
					b.tryID++
					t := Stmt{K: "y", N: b.tryID, Body: b.pure("tsame")}
					t.Catches = []Catch{b.shapedClause(t0, s0), b.shapedClause(t1, s1)}
					tag := fmt.Sprintf("C/%s,%s/%s,%s", t0, t1, s0, s1)
					if full {
						emitShape(emit, b, t, tag)
					} else {
						c := Case{G: enumGraph(), Prog: b.inContext(t, "funcloop"), Tag: "shape/" + tag + "/funcloop"}
						emit(cloneCase(c))
					}
				}
			}
		}
	}

	// D
	tryActs := []string{"empty", "tsame", "ret", "brk", "cont", "gp", "callthrow", "echo"}
	finVars := []string{"none", "normal", "bare-empty", "bare-ret", "bare-brk", "bare-cont", "bare-tother", "bare-gp", "bare-echo"}
	type layout struct {
		name string
		mk   func(b *builder) []Catch
	}
	layoutsD := []layout{
		{"none", func(b *builder) []Catch { return nil }},
		{"same", func(b *builder) []Catch { return []Catch{b.witnessClause("same")} }},
		{"same:rt,root", func(b *builder) []Catch {
			return []Catch{b.shapedClause("same", bodyShape{false, "rt"}), b.witnessClause("root")}
		}},
		{"throwable:empty", func(b *builder) []Catch { return []Catch{b.shapedClause("throwable", bodyShape{false, "empty"})} }},
		{"sibling:rt,parent:ret", func(b *builder) []Catch {
			return []Catch{b.shapedClause("sibling", bodyShape{false, "rt"}), b.shapedClause("parent", bodyShape{false, "ret"})}
		}},
	}
	for _, ta := range tryActs {
		for _, fv := range finVars {
			for _, l := range layoutsD {
				if l.name == "none" && fv == "none" {
					continue
				}
				b := &builder{}
				b.tryID++
				t := Stmt{K: "y", N: b.tryID, Body: b.pure(ta), Q: "b"}
				t.Catches = l.mk(b)
				b.setFinally(&t, fv)
				emitShape(emit, b, t, fmt.Sprintf("D/%s/%s/%s", ta, l.name, fv))
			}
		}
	}

	// E
	type clauseList struct {
		name string
		mk   func(b *builder) []Catch
	}
	innerLists := []clauseList{
		{"same:rt", func(b *builder) []Catch { return []Catch{b.shapedClause("same", bodyShape{false, "rt"})} }},
		{"same:empty", func(b *builder) []Catch { return []Catch{b.shapedClause("same", bodyShape{false, "empty"})} }},
		{"same:tother", func(b *builder) []Catch { return []Catch{b.shapedClause("same", bodyShape{false, "tother"})} }},
		{"parent:rt,root", func(b *builder) []Catch {
			return []Catch{b.shapedClause("parent", bodyShape{false, "rt"}), b.witnessClause("root")}
		}},
		{"sibling", func(b *builder) []Catch { return []Catch{b.witnessClause("sibling")} }},
		{"same:rt,throwable:empty", func(b *builder) []Catch {
			return []Catch{b.shapedClause("same", bodyShape{false, "rt"}), b.shapedClause("throwable", bodyShape{false, "empty"})}
		}},
	}
	innerFins := []string{"none", "normal", "bare-empty"}
	outerLists := []clauseList{
		{"none", func(b *builder) []Catch { return nil }},
		{"same", func(b *builder) []Catch { return []Catch{b.witnessClause("same")} }},
		{"root", func(b *builder) []Catch { return []Catch{b.witnessClause("root")} }},
		{"sibling", func(b *builder) []Catch { return []Catch{b.witnessClause("sibling")} }},
		{"same:rt,throwable", func(b *builder) []Catch {
			return []Catch{b.shapedClause("same", bodyShape{false, "rt"}), b.witnessClause("throwable")}
		}},
	}
	mkInner := func(b *builder, body []Stmt, bareBody bool, il clauseList, ifin string) Stmt {
		b.tryID++
		in := Stmt{K: "y", N: b.tryID, Body: body}
		if bareBody {
			in.Q = "b"
		}
		in.Catches = il.mk(b)
		b.setFinally(&in, ifin)
		return in
	}
	for _, il := range innerLists {
		for _, ifin := range innerFins {
			// the inner statement is the whole try block of the outer one
			for _, bareBody := range []bool{false, true} {
				for _, ol := range outerLists {
					for _, ofin := range []string{"none", "normal"} {
						if ol.name == "none" && ofin == "none" {
							continue
						}
						b := &builder{}
						b.tryID++
						out := Stmt{K: "y", N: b.tryID, Q: "b"}
						out.Body = []Stmt{mkInner(b, b.pure("tsame"), bareBody, il, ifin)}
						out.Catches = ol.mk(b)
						b.setFinally(&out, ofin)
						emitShape(emit, b, out, fmt.Sprintf("E/body/%s/%s/bare:%v/%s/%s", il.name, ifin, bareBody, ol.name, ofin))
					}
				}
			}
			// … the whole body of a clause of the outer one (the inner try block throws the caught object again, or another)
			for _, ia := range []string{"rt", "tother"} {
				for _, second := range []string{"none", "throwable"} {
					for _, ofin := range []string{"none", "normal"} {
						b := &builder{}
						b.tryID++
						out := Stmt{K: "y", N: b.tryID, Body: b.pure("tsame")}
						in := mkInner(b, b.pure(ia), true, il, ifin)
						out.Catches = []Catch{{Types: relByName("same").types, Body: []Stmt{in}, Q: true}}
						if second != "none" {
							out.Catches = append(out.Catches, b.witnessClause(second))
						}
						b.setFinally(&out, ofin)
						emitShape(emit, b, out, fmt.Sprintf("E/catch/%s/%s/%s/%s/%s", il.name, ifin, ia, second, ofin))
					}
				}
			}
			// … the whole finally block of the outer one
			for _, oa := range []string{"echo", "tsame"} {
				for _, ol := range []string{"none", "sibling"} {
					b := &builder{}
					b.tryID++
					out := Stmt{K: "y", N: b.tryID, Body: b.pure(oa)}
					if ol != "none" {
						out.Catches = []Catch{b.witnessClause(ol)}
					}
					in := mkInner(b, b.pure("tsame"), false, il, ifin)
					out.HasFin, out.Fin, out.Q = true, []Stmt{in}, "f"
					emitShape(emit, b, out, fmt.Sprintf("E/finally/%s/%s/%s/%s", il.name, ifin, oa, ol))
				}
			}
		}
	}
}
