package c05

// Re-executed try statements (round 6, seed C05-catch-index-cache-by-name).
//
// Model.Exc.execC scans the clauses afresh for every thrown value: a try statement (the AST node) has no memory. A
// per-node memo of the dispatch — "which clause handled a thrown value with this key" — makes what the statement does
// depend on what the SAME node met in earlier executions. Every other stream executes one try node with one kind of
// thrown thing (a loop repeats the same throw; a recursive function throws the same class at every level), so no
// history could mislead such a memo.
//
// Here ONE function h($w) — function / method of one object / static method / closure — holds the try statement(s)
// and is called k = 2..4 times; call j makes the slot in the try block do the j-th member of a pool: `throw new
// Exception`, a host panic, an error the interpreter raises itself (undefined function / method / class, division and
// modulo by zero, a type error of a parameter or a return value, a call on null …: ieKinds), user classes K3 / K4 (K4
// extends K3 extends Exception), nothing. The reference semantics is independent of history by construction: the
// model, the Lean spec and the Go reference interpreter are given the program in which every call has its OWN copy of
// the body (`f{ … }` k times — fresh try statements); only the rendering shares the nodes (Case.Share, renderer.shared).
// What an interpreter-raised error matches is measured per kind in every run with probe try statements that are
// executed once (probeKinds): object-less, i.e. exactly the built-in names Throwable / Exception / Error — a kind for
// which that does not hold is left out and reported.

import (
	"fmt"
	"reflect"
	"strings"

	"verif/harness/vh"
)

type ieKind struct {
	name string
	code string
}

// errors the interpreter raises itself (utils.NewThrow / data.NewErrorThrow sites a script reaches without `throw new`)
var ieKinds = []ieKind{
	{"undefined-function", `undefined_fn_zz9();`},
	{"undefined-method", `$o9 = new O9(); $o9->nomethod9();`},
	{"undefined-static-method", `O9::nostatic9();`},
	{"unknown-class", `$o9 = new NoSuchClass9();`},
	{"modulo-by-zero", `$z9 = 1 % 0;`},
	{"intdiv-by-zero", `$z9 = intdiv(1, 0);`},
	{"division-by-zero", `$z9 = 1 / 0;`},
	{"parameter-type", `tp9("abc");`},
	{"return-type", `tr9();`},
	{"method-on-null", `$nul9 = null; $nul9->m();`},
	{"private-method", `$o9 = new O9(); $o9->pm9();`},
	{"undefined-variable-function", `$f9 = "nofn9"; $f9();`},
	{"throw-non-object", `throw 5;`},
	{"undefined-class-constant", `$z9 = O9::NOCONST9;`},
	{"foreach-over-int", `foreach (5 as $v9) {}`},
	{"clone-non-object", `$z9 = clone 5;`},
}

const iePrelude = `function tp9(int $x) { return $x; }
function tr9(): int { return "abc"; }
class O9 { public function m() { return 1; } private function pm9() { return 1; } }
`

// probeKinds: for every kind, five try statements each executed ONCE on a fresh VM — catch (Throwable), (Exception),
// (Error), (K3), (I10) — inside a catch-all. Usable = raises, matches exactly the three built-in names, and cm() calls
// it "internal" (what the model's host failure is). Returns the usable kind indices and a description of the others.
func probeKinds() (usable []int, report []string) {
	g := enumGraph()
	types := []int{0, 1, 2, 3, 10}
	want := "Y0;Y1;Y2;N3;N10;"
	probe := func(code string) string {
		var sb strings.Builder
		sb.WriteString("<?php\n" + g.php() + prelude + iePrelude)
		for _, t := range types {
			fmt.Fprintf(&sb, "try { try { %s echo \"Q%d;\"; } catch (%s $e) { echo \"Y%d\", cm($e) == \"internal\" ? \"\" : \"?\", \";\"; } } catch (Throwable $z) { echo \"N%d;\"; }\n", code, t, g.phpName(t), t, t)
		}
		sb.WriteString("echo \"END;\";\n")
		res := runScript(sb.String())
		if res.Final != "ok" {
			return res.Final + "|" + res.Trace
		}
		return res.Trace
	}
	if got := probe("verif_panic();"); got != want {
		report = append(report, fmt.Sprintf("host-panic: %s", got))
	}
	for i, k := range ieKinds {
		if got := probe(k.code); got == want {
			usable = append(usable, i)
		} else {
			report = append(report, fmt.Sprintf("%s: %s", k.name, got))
		}
	}
	return
}

// ------------------------------------------------------------ shared rendering

// the calls of the shared function, in the order the renderer meets them (not inside one another)
func sharedCalls(b []Stmt, out *[]Stmt) {
	for _, s := range b {
		if s.K == "f" && strings.HasPrefix(s.Via, "h") {
			*out = append(*out, s)
			continue
		}
		sharedCalls(s.Body, out)
		for _, c := range s.Catches {
			sharedCalls(c.Body, out)
		}
		sharedCalls(s.Fin, out)
	}
}

// sharedCount: how many calls of the shared function the rendering of the case has (0: not a shared case)
func (c Case) sharedCount() int {
	if !c.Share || c.rec() {
		return 0
	}
	var calls []Stmt
	sharedCalls(c.Prog, &calls)
	return len(calls)
}

func leafKind(k string) bool {
	switch k {
	case "e", "t", "gp", "ie", "rt", "r":
		return true
	}
	return false
}

// sharedBlock renders the blocks bs (one per call) as ONE block: a position where all calls have the same statement is
// rendered once; try statements that differ only inside are rendered as one try statement; differing leaves become
// `if ($w == j) { … }`. false: the blocks are not parallel (the caller falls back to one function per call).
func (r *renderer) sharedBlock(sb *strings.Builder, bs [][]Stmt, ind string, catchVar string) bool {
	n := len(bs[0])
	for _, b := range bs {
		if len(b) != n {
			return false
		}
	}
	for p := 0; p < n; p++ {
		col := make([]Stmt, len(bs))
		same, allTry, allLeaf, allCall := true, true, true, true
		for j := range bs {
			col[j] = bs[j][p]
			if !reflect.DeepEqual(col[j], col[0]) {
				same = false
			}
			if col[j].K != "y" {
				allTry = false
			}
			if !leafKind(col[j].K) {
				allLeaf = false
			}
			if col[j].K != "f" || col[j].Via != "" {
				allCall = false
			}
		}
		switch {
		case same:
			r.block(sb, col[:1], ind, catchVar)
		case allLeaf:
			for j := range col {
				fmt.Fprintf(sb, "%sif ($w == %d) {\n", ind, j)
				r.block(sb, col[j:j+1], ind+"  ", catchVar)
				fmt.Fprintf(sb, "%s}\n", ind)
			}
		case allCall: // one callee for all calls of the shared function; it is told which call this is
			r.nfn++
			k := r.nfn
			bodies := make([][]Stmt, len(col))
			for j := range col {
				bodies[j] = col[j].Body
			}
			var fb strings.Builder
			fmt.Fprintf(&fb, "function f%d($w) {\n", k)
			if !r.sharedBlock(&fb, bodies, "  ", "") {
				return false
			}
			fb.WriteString("}\n")
			r.funcs = append(r.funcs, fb.String())
			fmt.Fprintf(sb, "%s$r = f%d($w);\n%secho \"R\", is_int($r) ? $r : \"-\", \";\";\n", ind, k, ind)
		case allTry:
			s := col[0]
			for _, o := range col[1:] {
				if o.N != s.N || o.Q != s.Q || o.HasFin != s.HasFin || len(o.Catches) != len(s.Catches) {
					return false
				}
				for k := range o.Catches {
					if !reflect.DeepEqual(o.Catches[k].Types, s.Catches[k].Types) || o.Catches[k].Q != s.Catches[k].Q {
						return false
					}
				}
			}
			part := func(get func(Stmt) []Stmt) [][]Stmt {
				res := make([][]Stmt, len(col))
				for j := range col {
					res[j] = get(col[j])
				}
				return res
			}
			fmt.Fprintf(sb, "%stry {\n", ind)
			if !s.quiet('b') {
				fmt.Fprintf(sb, "%s  %s\n", ind, r.echoNum("T", s.N, ";"))
			}
			if !r.sharedBlock(sb, part(func(x Stmt) []Stmt { return x.Body }), ind+"  ", catchVar) {
				return false
			}
			fmt.Fprintf(sb, "%s}", ind)
			for k, c := range s.Catches {
				var ts []string
				for _, t := range c.Types {
					ts = append(ts, r.g.phpName(t))
				}
				v := fmt.Sprintf("$e%d", s.N)
				fmt.Fprintf(sb, " catch (%s %s) {\n", strings.Join(ts, " | "), v)
				if !c.Q {
					fmt.Fprintf(sb, "%s  echo \"C%d.%d:\", cm(%s), \";\";\n", ind, s.N, k, v)
				}
				kk := k
				if !r.sharedBlock(sb, part(func(x Stmt) []Stmt { return x.Catches[kk].Body }), ind+"  ", v) {
					return false
				}
				fmt.Fprintf(sb, "%s}", ind)
			}
			if s.HasFin {
				sb.WriteString(" finally {\n")
				if !s.quiet('f') {
					fmt.Fprintf(sb, "%s  %s\n", ind, r.echoNum("F", s.N, ";"))
				}
				if !r.sharedBlock(sb, part(func(x Stmt) []Stmt { return x.Fin }), ind+"  ", catchVar) {
					return false
				}
				fmt.Fprintf(sb, "%s}", ind)
			}
			sb.WriteString("\n")
		default:
			return false
		}
	}
	return true
}

// shared: the declaration of the shared function (before the main program) and what the main program starts with;
// sets r.share. Nothing is set when the calls are not parallel or are fewer than two.
func (r *renderer) shared(prog []Stmt) (decl, init string) {
	var calls []Stmt
	sharedCalls(prog, &calls)
	if len(calls) < 2 {
		return "", ""
	}
	via := calls[0].Via
	bodies := make([][]Stmt, len(calls))
	for j, c := range calls {
		if c.Via != via {
			return "", ""
		}
		bodies[j] = c.Body
	}
	saved := *r
	var hb strings.Builder
	ind := "  "
	if via == "hm" || via == "hs" {
		ind = "    "
	}
	if !r.sharedBlock(&hb, bodies, ind, "") {
		*r = saved
		return "", ""
	}
	switch via {
	case "hm":
		r.share = "$hs->m(%d)"
		return "class HS {\n  function m($w) {\n" + hb.String() + "  }\n}\n", "$hs = new HS();\n"
	case "hs":
		r.share = "HS::s(%d)"
		return "class HS {\n  static function s($w) {\n" + hb.String() + "  }\n}\n", ""
	case "hc":
		r.share = "$hc(%d)"
		return "", "$hc = function($w) {\n" + hb.String() + "};\n"
	}
	r.share = "hsh(%d)"
	return "function hsh($w) {\n" + hb.String() + "}\n", ""
}

// ------------------------------------------------------------ the stream

var rerunVias = []string{"h", "hm", "hs", "hc"}

// clause lists over Error(2), Exception(1), Throwable(0), K3, K4: every single clause, every ordered pair, none
func rerunLists() [][][]int {
	ts := []int{2, 1, 0, 3, 4}
	res := [][][]int{{}}
	for _, a := range ts {
		res = append(res, [][]int{{a}})
	}
	for _, a := range ts {
		for _, b := range ts {
			if a != b {
				res = append(res, [][]int{{a}, {b}})
			}
		}
	}
	res = append(res, [][]int{{2, 3}}, [][]int{{2}, {3}, {1}}, [][]int{{4}, {2}, {0}})
	return res
}

// pool member → the leaf put into the slot. "exc" user `new Exception`, "k3" / "k4" user classes, "gp" host panic,
// "ie<k>" interpreter-raised error of kind k, "none" a marker
func poolLeaf(m string, site int) Stmt {
	switch {
	case m == "exc":
		return Stmt{K: "t", Cls: 1, N: site}
	case m == "k3":
		return Stmt{K: "t", Cls: 3, N: site}
	case m == "k4":
		return Stmt{K: "t", Cls: 4, N: site}
	case m == "gp":
		return Stmt{K: "gp"}
	case strings.HasPrefix(m, "ie"):
		k := 0
		fmt.Sscanf(m[2:], "%d", &k)
		return Stmt{K: "ie", N: k}
	}
	return Stmt{K: "e", N: 40}
}

// the body of the shared function for one call. nest "single": m1 try1{ slot m2 } clauses [finally] m3 ·
// "nested": the same try inside `try2 { … } catch (Throwable) { m5 } finally { m6 }` of the same function ·
// "thrower": the slot sits in a second function called from the try block (the thrown value arrives as the call's control)
func rerunBody(list [][]int, fin bool, nest string, leaf Stmt) []Stmt {
	slot := []Stmt{leaf, {K: "e", N: 2}}
	if nest == "thrower" {
		slot = []Stmt{{K: "f", Body: []Stmt{leaf}}, {K: "e", N: 2}}
	}
	t := Stmt{K: "y", N: 1, Body: slot}
	for k, tys := range list {
		t.Catches = append(t.Catches, Catch{Types: tys, Body: []Stmt{{K: "e", N: 10 + k}}})
	}
	if fin || len(list) == 0 {
		t.HasFin = true
		t.Fin = []Stmt{{K: "e", N: 20}}
	}
	inner := []Stmt{{K: "e", N: 1}, t, {K: "e", N: 3}}
	if nest == "nested" {
		o := Stmt{K: "y", N: 2, Body: inner, Catches: []Catch{{Types: []int{0}, Body: []Stmt{{K: "e", N: 5}}}}, HasFin: true, Fin: []Stmt{{K: "e", N: 6}}}
		return []Stmt{o, {K: "e", N: 7}}
	}
	return inner
}

func rerunCase(list [][]int, fin bool, nest, via string, seq []string, tag string) Case {
	var prog []Stmt
	for j, m := range seq {
		prog = append(prog, Stmt{K: "f", Via: via, Body: rerunBody(list, fin, nest, poolLeaf(m, j+1))})
	}
	prog = append(prog, Stmt{K: "e", N: 30})
	return Case{G: enumGraph(), Prog: prog, Share: true, Tag: tag}
}

func seqs(pool []string, k int) [][]string {
	if k == 0 {
		return [][]string{nil}
	}
	var res [][]string
	for _, s := range seqs(pool, k-1) {
		for _, m := range pool {
			res = append(res, append(append([]string{}, s...), m))
		}
	}
	return res
}

// enumRerun: clause list × (finally alternating) × nest × all sequences of length 2 (3, 4) over the pool; the callee
// kind rotates. usable = the interpreter-raised kinds probeKinds admitted.
func enumRerun(full bool, usable []int, emit func(Case)) {
	ie := func(i int) string {
		if len(usable) == 0 {
			return "gp"
		}
		return fmt.Sprintf("ie%d", usable[i%len(usable)])
	}
	n := 0
	out := func(list [][]int, fin bool, nest string, seq []string, tag string) {
		emit(rerunCase(list, fin, nest, rerunVias[n%len(rerunVias)], seq, tag))
		n++
	}
	for li, list := range rerunLists() {
		fin := li%2 == 1
		var pool2, pool3, pool4 []string
		if full {
			pool2 = []string{"exc", "gp", "k3", "k4", "none"}
			for i := range usable {
				pool2 = append(pool2, ie(i))
			}
			pool3 = []string{"exc", "gp", ie(2 * li), ie(2*li + 1), "k3", "k4", "none"}
			pool4 = []string{"exc", ie(li), "k3", "none"}
		} else {
			pool2 = []string{"exc", "gp", "k3", "k4", "none", ie(2 * li), ie(2*li + 1)}
			pool3 = []string{"exc", []string{"gp", ie(li)}[li%2], "k3", "none"}
		}
		for _, nest := range []string{"single", "nested", "thrower"} {
			if !full && ((nest == "thrower" && li%3 != 0) || (nest == "nested" && li%2 != 0)) {
				continue
			}
			for _, s := range seqs(pool2, 2) {
				out(list, fin, nest, s, fmt.Sprintf("rerun/2/%s/list%d", nest, li))
			}
			if (nest == "single" && li%2 == 1) || full {
				for _, s := range seqs(pool3, 3) {
					out(list, fin, nest, s, fmt.Sprintf("rerun/3/%s/list%d", nest, li))
				}
			}
			if full && nest == "single" {
				for _, s := range seqs(pool4, 4) {
					out(list, fin, nest, s, fmt.Sprintf("rerun/4/%s/list%d", nest, li))
				}
			}
		}
	}
}

// randRerunCase: a random clause list (1–3 clauses, unions included), k = 2..4 calls, random pool members
func randRerunCase(r *vh.Rand, usable []int) Case {
	ts := []int{2, 1, 0, 3, 4, 5, 6, 10, 11}
	var list [][]int
	for i, n := 0, r.Intn(4); i < n; i++ {
		cl := []int{ts[r.Intn(len(ts))]}
		if r.Intn(5) == 0 {
			cl = append(cl, ts[r.Intn(len(ts))])
		}
		list = append(list, cl)
	}
	pool := []string{"exc", "exc", "gp", "k3", "k4", "none"}
	for _, u := range usable {
		pool = append(pool, fmt.Sprintf("ie%d", u))
	}
	k := 2 + r.Intn(3)
	seq := make([]string, k)
	for j := range seq {
		seq[j] = pool[r.Intn(len(pool))]
	}
	nest := []string{"single", "nested", "thrower"}[r.Intn(3)]
	return rerunCase(list, r.Intn(2) == 0, nest, rerunVias[r.Intn(len(rerunVias))], seq, "rerun/random")
}
