package c05

import (
	"fmt"
	"strings"

	"verif/harness/vh"
)

// ------------------------------------------------------------ long-running programs
//
// Model.Exc has no state that survives a statement: C05_iteration_independence proves that every iteration of a loop
// does what the first one does (same outcome, same events), whatever the body calls. The interpreter has such state —
// counters, stacks and caches of the VM that a call enters and must leave again on EVERY exit path — and a resource
// that is not restored on the exceptional path shows only after hundreds of iterations. So these programs are ONE
// loop of thousands of iterations whose body is a closed try statement: an exception (or a return, break, continue,
// host panic) leaves 0–5 nested calls — functions, methods, static methods, closures, constructors, with try/finally
// and catch/rethrow frames on the way — and is handled outside; handler identity and the finally count are compared
// on every iteration, and the report names the first iteration that departs.

// the shape the iteration theorem (and the driver's `iter` command) is about: main = [ l<N>{ m<M0> … } ]
func (c Case) longShape() bool {
	return len(c.Prog) == 1 && c.Prog[0].K == "l" && len(c.Prog[0].Body) > 0 && c.Prog[0].Body[0].K == "e" &&
		len(c.Fns) == 0 && c.Depth == 0 && !hasKind(c.Prog, "cf")
}

func (c Case) iterations() int { return c.Prog[0].N }

// the marker every iteration prints first
func (c Case) iterDelim() string { return fmt.Sprintf("m%d", c.Prog[0].Body[0].N) }

// the trace cut into iterations: element 0 is what precedes the first iteration (empty for these programs)
func splitIters(trace, delim string) []string {
	segs := []string{""}
	for _, t := range tokens(trace) {
		if t == delim {
			segs = append(segs, "")
		}
		segs[len(segs)-1] += t + ";"
	}
	return segs
}

// run-length summary of a long trace: consecutive identical iterations are written once, `(…)×k`
func rle(trace, delim string) string {
	segs := splitIters(trace, delim)
	var sb strings.Builder
	sb.WriteString(segs[0])
	for i := 1; i < len(segs); {
		j := i
		for j < len(segs) && segs[j] == segs[i] {
			j++
		}
		if j-i > 1 {
			fmt.Fprintf(&sb, "(%s)×%d ", segs[i], j-i)
		} else {
			sb.WriteString(segs[i] + " ")
		}
		i = j
	}
	s := strings.TrimSpace(sb.String())
	if len(s) > 1500 {
		s = s[:1500] + "…"
	}
	return s
}

// the first iteration (1-based) whose events differ; 0 when the traces are equal
func firstDeparture(got, exp, delim string) (iter int, gotSeg, expSeg string, nGot, nExp int) {
	g, e := splitIters(got, delim), splitIters(exp, delim)
	nGot, nExp = len(g)-1, len(e)-1
	for i := 0; i < len(g) || i < len(e); i++ {
		gs, es := "<the run had ended>", "<the loop had ended>"
		if i < len(g) {
			gs = g[i]
		}
		if i < len(e) {
			es = e[i]
		}
		if gs != es {
			return i, gs, es, nGot, nExp
		}
	}
	return 0, "", "", nGot, nExp
}

// kind of departure of a long-running program: judged on the first iteration that departs; `drift-…` when the
// iterations before it were right (the program did the same thing and the interpreter stopped doing it)
func longDivergence(c Case, gotFinal, gotTrace, expFinal, expTrace string) string {
	whole := divergence(gotFinal, gotTrace, expFinal, expTrace)
	if whole == "" {
		return ""
	}
	it, gs, es, _, _ := firstDeparture(gotTrace, expTrace, c.iterDelim())
	if it == 0 {
		return whole // same events, another end
	}
	k := divergence("", gs, "", es)
	if k == "" {
		k = whole
	}
	if it > 1 {
		return "drift-" + k
	}
	return k
}

func describeDeparture(c Case, impl implRes, ef, et string) string {
	it, gs, es, ng, ne := firstDeparture(impl.Trace, et, c.iterDelim())
	if it == 0 {
		return fmt.Sprintf("all %d iterations print the same; origami ends %s, PHP's rules end %s", ne, impl.Final, ef)
	}
	before := ""
	if it > 1 {
		before = fmt.Sprintf("iterations 1–%d as PHP's rules say; ", it-1)
	}
	return fmt.Sprintf("%sfirst departure in iteration %d of %d: origami prints %q, PHP's rules (every iteration alike, Lean: C05_iteration_independence) %q; origami ran %d iteration(s) and ended %s, PHP's rules run %d and end %s",
		before, it, c.iterations(), gs, es, ng, impl.Final, ne, ef)
}

func viaFeatures(c Case) string {
	set := map[string]bool{}
	for _, b := range c.blocks() {
		walk(b, func(s Stmt) {
			if s.K == "f" {
				set[viaName(s.Via)] = true
			}
		})
	}
	var fs []string
	for _, v := range viaKinds {
		if set[viaName(v)] {
			fs = append(fs, viaName(v))
		}
	}
	return strings.Join(fs, "+")
}

func (r *runner) checkLong(c Case, replayMode bool) {
	if !c.longShape() {
		r.c.Note("long case %s has not the shape `l<N>{ m… }`; skipped", c.Tag)
		return
	}
	ef, et, steps, _ := referenceFull(c)
	if steps > c.stepLimit() && !replayMode {
		r.c.Hit("skipped-too-long")
		return
	}
	impl := runScript(c.script())
	r.c.Eval(c.modelProg()+"#"+c.G.model()+"#"+viaFeatures(c), true)
	r.c.Hit("final:" + strings.SplitN(ef, ":", 2)[0])
	r.c.Hit("long:calls-via:" + viaFeatures(c))
	r.c.HitN("long:iterations", c.iterations())
	toks := tokens(et)
	r.c.HitN("events:T", len(countTok(toks, "T")))
	r.c.HitN("events:F", len(countTok(toks, "F")))
	r.c.HitN("events:C", len(countTok(toks, "C")))
	delim := c.iterDelim()
	r.c.SampleSome(map[string]any{"prog": c.modelProg(), "graph": c.G.model(), "trace": rle(et, delim), "final": ef, "script-calls": viaFeatures(c)}, 97)

	// property: the real interpreter against PHP's rules, every iteration
	if kind := longDivergence(c, impl.Final, impl.Trace, ef, et); kind != "" {
		r.failures++
		sc := c
		if r.shrunk[kind] < 1 || replayMode {
			r.shrunk[kind]++
			sc = shrink(c, kind)
		}
		si := runScript(sc.script())
		sf, st := reference(sc)
		sig := "exc:" + kind + ":" + features(sc)
		r.c.Violation(sig, fmt.Sprintf("long-running program %q over %s (calls through %s): %s", sc.modelProg(), sc.G.model(), viaFeatures(sc), describeDeparture(sc, si, sf, st)),
			replay{Kind: "prog", Case: &sc})
	}

	// correspondence: the real interpreter against the Lean model. The model is asked through the iteration theorem:
	// `iter` runs the body once from the empty trace and repeats it (C05_long_run proves that this is Model.Exc.run)
	if r.m != nil {
		ans, err := r.m.Ask("iter\tfixed\t" + c.G.model() + "\t" + c.modelProg())
		if err != nil {
			r.c.Mismatch(replay{Kind: "prog", Case: &c}, impl.Final+"|"+rle(impl.Trace, delim), "model error: "+err.Error(), "")
			return
		}
		r.c.Res.Traces++
		if ans != impl.String() {
			r.failures++
			mf, mt := ans, ""
			if p := strings.SplitN(ans, "|", 2); len(p) == 2 {
				mf, mt = p[0], p[1]
			}
			r.c.Mismatch(replay{Kind: "prog", Case: &c}, impl.Final+"|"+rle(impl.Trace, delim), mf+"|"+rle(mt, delim),
				"long-running program: "+describeDeparture(c, impl, mf, mt))
		}
		// the driver's two routes agree (proved: C05_long_run); re-checked each run on 300 iterations of every
		// eighth program (the full evaluation threads the growing trace through every statement: quadratic)
		if r.longFull%8 == 0 || replayMode {
			mid := cloneCase(c)
			if mid.Prog[0].N > 300 {
				mid.Prog[0].N = 300
			}
			it, e1 := r.m.Ask("iter\tfixed\t" + mid.G.model() + "\t" + mid.modelProg())
			full, e2 := r.m.Ask("run\tfixed\t" + mid.G.model() + "\t" + mid.modelProg())
			if e1 == nil && e2 == nil && full != it {
				r.c.Mismatch(replay{Kind: "prog", Case: &mid}, "model-iter "+rle(it, delim), "model-run "+rle(full, delim), "the two routes through the Lean model disagree")
			}
		}
		r.longFull++
		// the Lean spec and the Go reference, on the same program with three iterations
		small := cloneCase(c)
		small.Prog[0].N = 3
		sf, st := reference(small)
		if sp, err := r.m.Ask("spec\t" + small.G.model() + "\t" + small.modelProg()); err == nil && sp != sf+"|"+st {
			r.c.Mismatch(replay{Kind: "prog", Case: &small}, "go-reference "+sf+"|"+st, "lean-spec "+sp, "Spec.Exc and the Go reference interpreter disagree")
		}
	}
	if replayMode {
		r.c.Note("replay: %s", describeDeparture(c, impl, ef, et))
	}
}

// ------------------------------------------------------------ generators

// what leaves the innermost callee
var longActions = []string{"throw", "throwother", "throwchild", "gopanic", "ret", "fall"}

// what every call level on the way wraps the next call in
var longMids = []string{"plain", "finally", "catch-rethrow", "catch-throw"}

type longSpec struct {
	N      int
	Action string
	Chain  []string // kind of callee per call level, outermost first
	Mid    string
	Jump   string // "" | brk | cont: the handler (or, without calls, the try block) leaves an inner loop with it
}

// l<N>{ m ; [l2{] y1{ m <chain> m } k6{ m } k3{ m [jump] } k0{ m } F{ m } [}] ; m }
func buildLong(sp longSpec) Case {
	b := &builder{}
	innermost := func() []Stmt {
		switch sp.Action {
		case "throw":
			return []Stmt{b.e(), b.thr(thrownCls)}
		case "throwother":
			return []Stmt{b.e(), b.thr(otherCls)}
		case "throwchild":
			return []Stmt{b.e(), b.thr(5)}
		case "gopanic":
			return []Stmt{b.e(), {K: "gp"}}
		case "ret":
			b.tryID++
			id := b.tryID
			b.marker++
			return []Stmt{b.e(), {K: "y", N: 10 + id, Body: []Stmt{{K: "r", N: b.marker}}, HasFin: true, Fin: []Stmt{b.e()}}}
		case "brk":
			return []Stmt{b.e(), {K: "b"}, b.e()}
		case "cont":
			return []Stmt{b.e(), {K: "c"}, b.e()}
		}
		return []Stmt{b.e()}
	}
	var chain func(level int) []Stmt
	chain = func(level int) []Stmt {
		if level == len(sp.Chain) {
			return innermost()
		}
		call := Stmt{K: "f", Via: sp.Chain[level], Body: chain(level + 1)}
		b.tryID++
		id := 20 + b.tryID
		switch sp.Mid {
		case "finally":
			return []Stmt{b.e(), {K: "y", N: id, Body: []Stmt{call}, HasFin: true, Fin: []Stmt{b.e()}}, b.e()}
		case "catch-rethrow":
			return []Stmt{b.e(), {K: "y", N: id, Body: []Stmt{call}, Catches: []Catch{{Types: []int{0}, Body: []Stmt{{K: "rt"}}}}}, b.e()}
		case "catch-throw":
			return []Stmt{b.e(), {K: "y", N: id, Body: []Stmt{call}, Catches: []Catch{{Types: []int{12}, Body: []Stmt{b.e()}}, {Types: []int{0}, Body: []Stmt{b.thr(thrownCls)}}}, HasFin: true, Fin: []Stmt{b.e()}}, b.e()}
		}
		return []Stmt{b.e(), call, b.e()}
	}
	first := b.e()
	body := append([]Stmt{b.e()}, chain(0)...)
	body = append(body, b.e())
	handler := func() []Stmt {
		if sp.Jump != "" && len(sp.Chain) > 0 {
			return []Stmt{b.e(), {K: map[string]string{"brk": "b", "cont": "c"}[sp.Jump]}, b.e()}
		}
		return []Stmt{b.e()}
	}
	t := Stmt{K: "y", N: 1, Body: body,
		Catches: []Catch{{Types: []int{otherCls}, Body: handler()}, {Types: []int{3}, Body: handler()}, {Types: []int{0}, Body: handler()}},
		HasFin:  true, Fin: []Stmt{b.e()}}
	var loopBody []Stmt
	if sp.Jump != "" {
		loopBody = []Stmt{first, {K: "l", N: 2, Body: []Stmt{b.e(), t, b.e()}}, b.e()}
	} else {
		loopBody = []Stmt{first, t, b.e()}
	}
	return Case{G: enumGraph(), Long: true, Prog: []Stmt{{K: "l", N: sp.N, Body: loopBody}}}
}

func uniformChain(via string, depth int) []string {
	ch := make([]string, depth)
	for i := range ch {
		ch[i] = via
	}
	return ch
}

// every kind of callee at every level of a 5-deep chain, starting the rotation at `from`
func mixedChain(from, depth int) []string {
	ch := make([]string, depth)
	for i := range ch {
		ch[i] = viaKinds[(from+i)%len(viaKinds)]
	}
	return ch
}

// longN: iterations of the long-running programs (well above any call-depth / nesting limit of the interpreter)
func longN(full bool, k int) int {
	if full && k%7 == 0 {
		return 6000
	}
	return 2000 + k%5*100
}

// what leaves the callee × frames on the way × (kind of callee × depth 1, 2, 3, 5 | mixed kinds, depth 5), and break /
// continue / return leaving the try statement itself. Reduced (quick): depths {1, 3} and two mixed chains, one kind
// of frame on the way per program, rotating; full (thorough): everything.
func enumLong(full bool, emit func(Case)) {
	k := 0
	out := func(sp longSpec, tag string) {
		sp.N = longN(full, k)
		k++
		c := buildLong(sp)
		c.Tag = "long/" + tag
		emit(c)
	}
	depths := []int{1, 3}
	nmixed := 2
	if full {
		depths = []int{1, 2, 3, 5}
		nmixed = len(viaKinds)
	}
	var chains [][]string
	for _, v := range viaKinds {
		for _, d := range depths {
			chains = append(chains, uniformChain(v, d))
		}
	}
	for m := 0; m < nmixed; m++ {
		chains = append(chains, mixedChain(m*2, 5))
	}
	rot := 0
	for _, act := range longActions {
		for ci, ch := range chains {
			mids := longMids
			if !full {
				mids = []string{longMids[(rot+ci/2)%len(longMids)]}
				rot++
			}
			for _, mid := range mids {
				if act == "fall" && mid != "plain" && mid != "finally" { // nothing to catch
					if full {
						continue
					}
					mid = map[string]string{"catch-rethrow": "plain", "catch-throw": "finally"}[mid]
				}
				out(longSpec{Action: act, Chain: ch, Mid: mid}, fmt.Sprintf("%s/%s/%s", act, strings.Join(ch, "."), mid))
			}
		}
	}
	// break / continue leaving the try block, and leaving a handler after the exception came out of the calls
	for _, j := range []string{"brk", "cont"} {
		out(longSpec{Action: j, Jump: j, Mid: "plain"}, "jump-from-try/"+j)
		for _, v := range viaKinds {
			d := 1 + k%3
			out(longSpec{Action: "throw", Chain: uniformChain(v, d), Mid: longMids[k%len(longMids)], Jump: j}, fmt.Sprintf("jump-from-handler/%s/%s.%d", j, viaName(v), d))
		}
	}
}

// a random long-running program: a short random body (calls of random kinds, tries to depth 2) inside a guarded try,
// thousands of times
func randLongCase(r *vh.Rand) Case {
	x := &rgen{r: r, g: randGraph(r), vias: true}
	first := x.b.e()
	var body []Stmt
	for try := 0; try < 20; try++ {
		x.budget = 5 + r.Intn(8)
		body = x.block(1+r.Intn(2), false, false, true)
		if !returnsValue(body) { // a top-level return would end the program in the first iteration
			break
		}
	}
	x.b.tryID = 90
	t := Stmt{K: "y", N: 91, Body: body, Catches: []Catch{{Types: []int{0}, Body: []Stmt{x.b.e()}}}, HasFin: true, Fin: []Stmt{x.b.e()}}
	if r.Chance(50) {
		t.Catches = append([]Catch{{Types: x.catchTypes(), Body: []Stmt{x.b.e()}}}, t.Catches...)
	}
	return Case{G: x.g, Long: true, Tag: "random-long", Prog: []Stmt{{K: "l", N: 2000 + r.Intn(500), Body: []Stmt{first, t, x.b.e()}}}}
}
