package c05

import (
	"fmt"
	"regexp"
	"strconv"
	"strings"

	"github.com/php-any/origami/data"

	"verif/harness/vh"
)

// verif_panic(): a host function that panics, the way a buggy extension or an
// unchecked assertion inside a built-in does.
type panicFn struct{}

func (panicFn) Call(ctx data.Context) (data.GetValue, data.Control) {
	panic("verif: host function failure")
}
func (panicFn) GetName() string               { return "verif_panic" }
func (panicFn) GetModifier() data.Modifier    { return data.ModifierPublic }
func (panicFn) GetIsStatic() bool             { return false }
func (panicFn) GetParams() []data.GetValue    { return nil }
func (panicFn) GetVariables() []data.Variable { return nil }
func (panicFn) GetReturnType() data.Types     { return nil }

type implRes struct {
	Final string // ok | ret<n> | uncaught:<cls>:<site> | uncaught:internal | stray | gopanic | parse-error(...) | late(...)
	Trace string // canonical marker trace
	Raw   string // raw output
}

func (r implRes) String() string { return r.Final + "|" + r.Trace }

var nameRe = regexp.MustCompile(`^[KI](\d+)$`)

func nameToNum(s string) string {
	switch s {
	case "Throwable":
		return "0"
	case "Exception":
		return "1"
	case "Error":
		return "2"
	}
	if m := nameRe.FindStringSubmatch(s); m != nil {
		return m[1]
	}
	return "?" + s
}

// canonical trace: class names → numbers inside C tokens; everything else verbatim
func canonTrace(out string) string {
	toks := strings.Split(out, ";")
	for i, t := range toks {
		if strings.HasPrefix(t, "C") {
			p := strings.SplitN(t, ":", 3)
			if len(p) == 3 {
				toks[i] = p[0] + ":" + nameToNum(p[1]) + ":" + p[2]
			}
		}
	}
	return strings.Join(toks, ";")
}

var siteRe = regexp.MustCompile(`^s(\d{1,6})$`)

func describeThrow(tv *data.ThrowValue) string {
	if tv.Object != nil && tv.Error != nil {
		if m := siteRe.FindStringSubmatch(tv.Error.Error()); m != nil {
			return nameToNum(tv.Object.Class.GetName()) + ":" + m[1]
		}
	}
	return "internal"
}

// runScript parses and runs src on a brand-new VM, the way vh.RunSource does, but keeps the value of a
// top-level return and the control handed to the VM's handler.
func runScript(src string) (res implRes) {
	env := vh.NewEnv()
	env.VM.AddFunc(panicFn{})
	var handed []data.Control
	env.VM.SetThrowControl(func(acl data.Control) { handed = append(handed, acl) })
	var sb strings.Builder
	old := data.WriteOutput
	data.WriteOutput = func(s string) { sb.WriteString(s) }
	var val data.GetValue
	var late data.Control
	parsed := false
	func() {
		defer func() {
			if r := recover(); r != nil {
				if acl, ok := r.(data.Control); ok {
					handed = append(handed, acl)
					return
				}
				res.Final = "gopanic"
			}
		}()
		p := env.Parser.Clone()
		prog, acl := p.ParseString(src, "/verif-c05.php")
		if acl != nil {
			res.Final = "parse-error(" + firstLine(acl.AsString()) + ")"
			return
		}
		parsed = true
		vars := p.GetVariables()
		ctx := env.VM.CreateContext(vars)
		if env.Raw != nil {
			env.Raw.RegisterGlobalContext(vars, ctx)
		}
		val, late = prog.GetValue(ctx)
	}()
	data.WriteOutput = old
	res.Raw = sb.String()
	out := res.Raw
	ended := strings.HasSuffix(out, "END;")
	if ended {
		out = strings.TrimSuffix(out, "END;")
	}
	res.Trace = canonTrace(out)
	if res.Final != "" || !parsed {
		return
	}
	switch {
	case len(handed) > 0:
		if tv, ok := handed[0].(*data.ThrowValue); ok {
			res.Final = "uncaught:" + describeThrow(tv)
		} else {
			res.Final = "stray"
		}
	case late != nil:
		res.Final = "late(" + firstLine(late.AsString()) + ")"
	case ended:
		res.Final = "ok"
	default:
		if iv, ok := val.(*data.IntValue); ok {
			res.Final = "ret" + strconv.Itoa(iv.Value)
		} else {
			res.Final = fmt.Sprintf("ret?(%T)", val)
		}
	}
	return
}

func firstLine(s string) string {
	if i := strings.IndexByte(s, '\n'); i >= 0 {
		s = s[:i]
	}
	if len(s) > 160 {
		s = s[:160]
	}
	return s
}
