package c12

// ------------------------------------------------------------ shared-body stream
//
// Every other stream defines things THROUGH a VM with code that was parsed for that VM (a
// stub handed to AddX, a file or generated script parsed by the VM's own LoadAndRun). What
// origami actually serves requests with is different: code parsed ONCE on the base VM (a
// bootstrap function, a static method, a route handler) whose AST is then EXECUTED through
// every TempVM. Which VM a declaration inside such a body registers into, and which
// definition a call / `new` inside it resolves, is decided at run time by ctx.GetVM(); any
// state kept on the shared AST node ("declared once", "resolved once") is state shared by
// all VMs.
//
// Operations:  run v b   VM v runs a script that calls base-defined callable b
//              add v k n VM v registers a stub (function / class) — the existing API op
//              dis v     discard
//
// Oracle (noninterference by purging, no model involved): what VM v resolves after a
// history h, and what every script run on v printed, must be exactly what it resolves /
// printed after purge_v(h) = the operations of h invoked on v or on the base (for the base:
// on the base only), executed in a fresh process-twin (fresh base VM, freshly parsed
// bodies). In the twin v is the first VM ever to run each body, so the oracle says "what an
// earlier, unrelated TempVM did with the shared code changes nothing for v". The snapshot
// oracle of the other streams (an operation on TempVM i changes nobody else's table) is
// applied to every step as well.

import (
	"fmt"
	"os"
	"path/filepath"
	"strings"

	"verif/harness/vh"
)

type sharedBody struct {
	tag  string
	kind string // decl | use | include
	code string // PHP source of the callable (namespace N); %INC% = path of the include file
	call string // how a script calls it
}

// the base-defined callables. Declarations use pool names so the ordinary resolve tables
// observe them: functions N\D (two different bodies declare it), N\G, N\E, N\C; class / interface
// statements inside a body register at parse time on the base (enumerated all the same).
var sharedBodies = []sharedBody{
	{"fn", "decl", "function c12_b0() { function D() { return 'b0'; } }", `\N\c12_b0();`},
	{"cond", "decl", "function c12_b1() { if (!function_exists('N\\\\D')) { function D() { return 'b1'; } } }", `\N\c12_b1();`},
	{"nested", "decl", "function c12_b2() { function c12_in2() { function G() { return 'b2'; } } c12_in2(); }", `\N\c12_b2();`},
	{"method", "decl", "class C12S { static function m() { function E() { return 'b3'; } } }", `\N\C12S::m();`},
	{"two", "decl", "function c12_b4() { function C() { return 'b4'; } function D() { return 'b4'; } }", `\N\c12_b4();`},
	{"class", "decl", "function c12_b5() { class C12K {} }", `\N\c12_b5();`},
	{"iface", "decl", "function c12_b6() { interface C12I {} }", `\N\c12_b6();`},
	{"call", "use", "function c12_u0() { echo \\N\\D(); }", `\N\c12_u0();`},
	{"exists", "use", "function c12_u1() { echo function_exists('N\\\\D') ? 'y' : 'n'; }", `\N\c12_u1();`},
	{"new", "use", "function c12_u2() { $o = new \\N\\G(); echo 'new'; }", `\N\c12_u2();`},
	{"include", "include", "function c12_i0() { include %INC%; }", `\N\c12_i0();`},
}

const sharedIncFile = 10 // inc/m5.php: class N\G, function N\D

type sharedOp struct {
	K  string `json:"k"` // run | add | dis
	V  int    `json:"v"`
	B  int    `json:"b,omitempty"`  // run: body
	Kd string `json:"kd,omitempty"` // add: c | n
	N  int    `json:"n,omitempty"`
	ID int    `json:"id,omitempty"`
}

func (o sharedOp) String() string {
	switch o.K {
	case "run":
		return fmt.Sprintf("run %s %s", vmTag(o.V), sharedBodies[o.B].tag)
	case "add":
		return fmt.Sprintf("add %s %s %d %d", vmTag(o.V), o.Kd, o.N, o.ID)
	}
	return fmt.Sprintf("dis %d", o.V)
}

type sharedCase struct {
	Stream string     `json:"stream"` // "shared"
	NT     int        `json:"nt"`
	Inc    bool       `json:"inc,omitempty"` // the boot script has the include body (known sub-stream)
	Ops    []sharedOp `json:"ops"`
}

func (sc sharedCase) key() string {
	var sb strings.Builder
	fmt.Fprintf(&sb, "shared;%d;%v;", sc.NT, sc.Inc)
	for _, o := range sc.Ops {
		sb.WriteString(o.String())
		sb.WriteByte('|')
	}
	return sb.String()
}

type sharedObs struct {
	outs []string   // per op: what the script printed (+ "!err" / "!panic"), "+<n>" controls thrown
	tabs [][]string // final resolve tables, base first
	leak string     // first snapshot-oracle finding ("" = none)
}

// extra names the bodies declare outside the pool
func (w *world) sharedExtra(vi int) string {
	v := w.base
	if vi > 0 {
		v = w.temps[vi-1]
	}
	s := ""
	func() {
		defer func() {
			if r := recover(); r != nil {
				s = "!"
			}
		}()
		_, c := v.GetClass(`N\C12K`)
		_, i := v.GetInterface(`N\C12I`)
		_, f := v.GetFunc(`N\c12_in2`)
		s = fmt.Sprint(b01(c), b01(i), b01(f))
	}()
	return s
}

func (w *world) sharedTables() [][]string {
	ts := w.tables(allPool())
	for i := range ts {
		ts[i] = append(ts[i], w.sharedExtra(i))
	}
	return ts
}

// runShared executes a history of the shared-body stream on fresh real VMs
func runShared(d *disk, sc sharedCase) (sharedObs, bool) {
	var o sharedObs
	w := newWorld(d, sc.NT, sc.Inc)
	defer w.close()
	// boot: the base VM parses the callables once
	var sb strings.Builder
	sb.WriteString("<?php\nnamespace N;\n")
	for _, b := range sharedBodies {
		if b.kind == "include" && !sc.Inc {
			continue
		}
		sb.WriteString(strings.ReplaceAll(b.code, "%INC%", phpStr(w.paths[sharedIncFile])))
		sb.WriteByte('\n')
	}
	boot := filepath.Join(d.root, "scripts", "c12_boot.php")
	if sc.Inc {
		boot = filepath.Join(w.incDir, "c12_boot.php")
	}
	if d.wrote[boot] != sb.String() {
		os.WriteFile(boot, []byte(sb.String()), 0o644)
		d.wrote[boot] = sb.String()
	}
	if out := w.runFile(w.base, boot); out != "" || w.thrown != 0 {
		return o, false
	}
	before := w.sharedTables()
	for si, op := range sc.Ops {
		thrown := w.thrown
		var out string
		switch op.K {
		case "run":
			// a path of its own per step: the file cache is shared between the VMs of a world
			p := d.scriptFile(fmt.Sprintf("sh_%d_%d.php", si, op.B), "<?php\n"+sharedBodies[op.B].call+"\n")
			out = w.runFile(w.vm(op.V), p)
		case "add":
			out = w.exec(opOfShared(op))
		default:
			out = w.exec(op_dis(op.V))
		}
		if w.thrown != thrown {
			out += fmt.Sprintf("+%d", w.thrown-thrown)
		}
		o.outs = append(o.outs, out)
		after := w.sharedTables()
		if op.V >= 0 && o.leak == "" {
			for vi := range after {
				if vi != op.V+1 && !eqTab(before[vi], after[vi]) {
					o.leak = fmt.Sprintf("step %d (%s) through TempVM %d changed what VM %s resolves: before %s after %s", si, op, op.V, vmTag(vi-1), strings.Join(before[vi], ","), strings.Join(after[vi], ","))
					break
				}
			}
		}
		before = after
	}
	o.tabs = before
	return o, true
}

func opOfShared(o sharedOp) op { return op{K: "add", V: o.V, Kd: o.Kd, N: o.N, ID: o.ID} }
func op_dis(v int) op          { return op{K: "dis", V: v} }

// purge_v: the operations invoked on v or on the base, with their positions in h
func purgeShared(sc sharedCase, v int) (sharedCase, []int) {
	out := sharedCase{Stream: sc.Stream, NT: sc.NT, Inc: sc.Inc}
	var pos []int
	for i, o := range sc.Ops {
		if o.V == v || o.V < 0 {
			out.Ops = append(out.Ops, o)
			pos = append(pos, i)
		}
	}
	return out, pos
}

// judgeShared: (signature, description) of every way the history breaks the oracle
func judgeShared(d *disk, sc sharedCase) (fs []finding, ok bool) {
	full, ok := runShared(d, sc)
	if !ok {
		return nil, false
	}
	if full.leak != "" {
		fs = append(fs, finding{sig: "leak:shared-run", what: full.leak})
	}
	for v := -1; v < sc.NT; v++ {
		p, pos := purgeShared(sc, v)
		if len(p.Ops) == len(sc.Ops) {
			continue
		}
		twin, ok := runShared(d, p)
		if !ok {
			return fs, false
		}
		who := "the base VM"
		if v >= 0 {
			who = fmt.Sprintf("TempVM %d", v)
		}
		if !eqTab(full.tabs[v+1], twin.tabs[v+1]) {
			sig := "nonint:shared-decl"
			if sc.Inc {
				sig = "nonint:shared-include"
			}
			fs = append(fs, finding{sig: sig, what: fmt.Sprintf("what %s resolves depends on what other TempVMs did with code shared through the base: after the whole history %s, after only its own and the base's operations (fresh twin) %s", who, strings.Join(full.tabs[v+1], ","), strings.Join(twin.tabs[v+1], ","))})
		}
		for j, i := range pos {
			if sc.Ops[i].V != v {
				continue // the base's own operations are judged when v = base
			}
			if full.outs[i] != twin.outs[j] {
				sig := "nonint:shared-run"
				if sc.Ops[i].K == "run" {
					b := sharedBodies[sc.Ops[i].B]
					sig = "nonint:shared-" + b.kind
					if b.kind == "use" {
						sig += ":" + b.tag
					}
				}
				// a use that SUCCEEDS on this VM with a definition it would not have got on its
				// own is the resolve-once cache of the call / new node (known finding); a use
				// that fails or prints less than in the twin is something else
				if (sig == "nonint:shared-use:call" || sig == "nonint:shared-use:new") && !strings.ContainsAny(full.outs[i], "+!") {
					sig += ":foreign-hit"
				}
				if sc.Inc {
					sig = "nonint:shared-include"
				}
				fs = append(fs, finding{sig: sig, step: i, what: fmt.Sprintf("step %d (%s) on %s printed %q, in the fresh twin with only its own and the base's operations %q: code shared through the base behaves differently on this VM because of what another TempVM did", i, sc.Ops[i], who, full.outs[i], twin.outs[j])})
				break
			}
		}
	}
	return fs, true
}

func (r *runner) hasSharedSig(sc sharedCase, sig string) (string, bool) {
	fs, _ := judgeShared(r.d, sc)
	for _, f := range fs {
		if f.sig == sig {
			return f.what, true
		}
	}
	return "", false
}

func (r *runner) runSharedCase(sc sharedCase) {
	fs, ok := judgeShared(r.d, sc)
	vs := map[int]bool{}
	tdecl := false
	for _, o := range sc.Ops {
		vs[o.V] = true
		if o.V >= 0 && o.K != "dis" {
			tdecl = true
		}
		if o.K == "run" {
			r.c.Hit(fmt.Sprintf("shared:run:%s:%s", sharedBodies[o.B].tag, map[bool]string{true: "base", false: "temp"}[o.V < 0]))
		}
	}
	r.c.Eval(sc.key(), tdecl && len(vs) >= 2)
	r.c.Hit(fmt.Sprintf("shared:len=%d", len(sc.Ops)))
	if !ok {
		r.c.Mismatch(sc, "boot failed", "", "the base VM could not load the shared callables of the shared-body stream")
		return
	}
	seen := map[string]bool{}
	for _, f := range fs {
		if seen[f.sig] {
			continue
		}
		seen[f.sig] = true
		small, what := sc, f.what
		if !r.c.Known[f.sig] && r.shrunk[f.sig] < 2 {
			r.shrunk[f.sig]++
			for changed := true; changed; {
				changed = false
				for i := 0; i < len(small.Ops); i++ {
					cand := small
					cand.Ops = append(append([]sharedOp{}, small.Ops[:i]...), small.Ops[i+1:]...)
					if w, hit := r.hasSharedSig(cand, f.sig); hit {
						small, what, changed = cand, w, true
						i--
					}
				}
			}
		}
		r.c.Violation(f.sig, what, small)
	}
}

func sharedAlphabet(nt int, bodies []int, adds []sharedOp) []sharedOp {
	var out []sharedOp
	for v := -1; v < nt; v++ {
		for _, b := range bodies {
			out = append(out, sharedOp{K: "run", V: v, B: b})
		}
		for _, a := range adds {
			a.V = v
			out = append(out, a)
		}
		if v >= 0 {
			out = append(out, sharedOp{K: "dis", V: v})
		}
	}
	return out
}

func canonicalShared(ops []sharedOp) bool {
	next := 0
	for _, o := range ops {
		if o.V > next {
			return false
		}
		if o.V == next {
			next++
		}
	}
	return true
}

func stampShared(ops []sharedOp) []sharedOp {
	out := make([]sharedOp, len(ops))
	for i, o := range ops {
		if o.K == "add" {
			o.ID = 100 + i
		}
		out[i] = o
	}
	return out
}

func (r *runner) sharedExhaustive(alpha []sharedOp, length, nt int, inc bool) int {
	count := 0
	cur := make([]sharedOp, 0, length)
	var rec func()
	rec = func() {
		if len(cur) == length {
			count++
			if r.take() {
				r.runSharedCase(sharedCase{Stream: "shared", NT: nt, Inc: inc, Ops: stampShared(cur)})
			}
			return
		}
		for _, o := range alpha {
			cur = append(cur, o)
			if canonicalShared(cur) {
				rec()
			}
			cur = cur[:len(cur)-1]
		}
	}
	rec()
	return count
}

// sharedStream: exhaustive short histories over base + 2 TempVMs (all orders of T0, T1 and
// the base running every body), seeded longer ones over base + 3 TempVMs, and the include
// body (known: the file cache and node.includeOnceCache are shared) in a sub-stream of its own.
func (r *runner) sharedStream() string {
	var decl, use, all []int
	for i, b := range sharedBodies {
		switch b.kind {
		case "decl":
			decl = append(decl, i)
			all = append(all, i)
		case "use":
			use = append(use, i)
			all = append(all, i)
		}
	}
	adds := []sharedOp{{K: "add", Kd: "n", N: 5}, {K: "add", Kd: "c", N: 7}}
	a2 := sharedAlphabet(2, all, adds)
	core := []int{decl[0], decl[1], decl[3], use[0], use[2]}
	a3 := sharedAlphabet(2, core, adds[1:])
	if r.c.Thorough() {
		a3 = a2
	}
	n1 := r.sharedExhaustive(a2, 1, 2, false)
	n2 := r.sharedExhaustive(a2, 2, 2, false)
	n3 := r.sharedExhaustive(a3, 3, 2, false)
	full := sharedAlphabet(3, all, adds)
	for i := 0; i < r.c.N(600, 20000); i++ {
		n := r.c.Rand.Range(3, 12)
		ops := make([]sharedOp, n)
		for j := range ops {
			ops[j] = vh.Pick(r.c.Rand, full)
		}
		if r.take() {
			r.runSharedCase(sharedCase{Stream: "shared", NT: 3, Ops: stampShared(ops)})
		}
	}
	// include body: known sub-stream
	inc := []int{decl[0], len(sharedBodies) - 1}
	ai := sharedAlphabet(2, inc, nil)
	k2 := r.sharedExhaustive(ai, 2, 2, true)
	k3 := 0
	if r.c.Thorough() {
		k3 = r.sharedExhaustive(ai, 3, 2, true)
	}
	return fmt.Sprintf("; shared bodies (callables parsed once on the base — function / conditional / nested / static-method / two-function / class / interface declarations, call / function_exists / new uses — run through base, TempVM 0, TempVM 1 in every order, plus AddFunc / AddClass stubs and discard): all %d + %d sequences of length 1, 2 over %d operations and all %d of length 3 over %d, each judged against its purged twins; include body (known sub-stream): all %d of length 2 and %d of length 3 over %d", n1, n2, len(a2), n3, len(a3), k2, k3, len(ai))
}
