// Package c12: correspondence + violation search for C12 (request-scoped
// TempVMs are isolated: temporary definitions never leak; base definitions are
// visible everywhere).
//
// The real runtime.VM / runtime.TempVM are driven through their Go API: stub
// ClassStmt/InterfaceStmt/FuncStmt values for the AddX routes, tiny PHP files in
// c.Scratch for the LoadAndRun / ParseFile / autoload routes, and — for every route by
// which *script code* running on a VM can define something (eval, include / require,
// function statements executed at run time, spl_autoload_register callbacks, classes
// needed by new / extends / trait use, define, class_alias, anonymous classes and
// closures) — a generated script run on that VM through LoadAndRun. After every
// operation the resolve tables (GetClass/GetInterface/GetFunc of every pool name
// on the base and on every TempVM, identified by *which* definition answers) are
// compared with the Lean model `vm_c12`, and judged by an oracle that does not
// involve the model: before/after snapshots (isolation), base ⊆ temp
// (visibility) and set-based bookkeeping of what was offered through which VM.
package c12

import (
	"context"
	"encoding/json"
	"fmt"
	"os"
	"os/exec"
	"path/filepath"
	goruntime "runtime"
	"runtime/debug"
	"sort"
	"strings"
	"time"

	"github.com/php-any/origami/data"
	"github.com/php-any/origami/node"
	"github.com/php-any/origami/parser"
	"github.com/php-any/origami/runtime"
	"github.com/php-any/origami/std/php"
	"github.com/php-any/origami/std/php/core"
	"github.com/php-any/origami/std/php/spl"
	"github.com/php-any/origami/utils"

	"verif/harness/vh"
)

func init() { vh.Register("C12", Run) }

// ------------------------------------------------------------ environment (the disk)

// name pool: 8 names with deliberate collisions (two case variants twice; every
// name is used for classes, interfaces and functions alike).
var names = []string{`N\A`, `N\a`, `N\B`, `N\b`, `N\C`, `N\D`, `N\E`, `N\G`}

// fold representative (strings.EqualFold classes inside the pool)
var foldRep = map[int]int{1: 0, 3: 2}

type decl struct {
	kind string // c | i | n
	name int
}

type fileSpec struct {
	rel   string
	decls []decl // empty + missing=true: the file does not exist
	miss  bool
}

// files 0,1,2,4 live in the class-path directory (namespace N), 3,5..8,10 are plain
// include files, 9 does not exist. The include files also serve as the code units handed
// to eval() and as the files the autoload callbacks include.
var files = []fileSpec{
	{rel: "cls/A.php", decls: []decl{{"c", 0}, {"n", 0}}},
	{rel: "cls/B.php", decls: []decl{{"i", 2}, {"n", 3}}},
	{rel: "cls/C.php", decls: []decl{{"c", 4}, {"i", 5}}},
	{rel: "inc/m0.php", decls: []decl{{"i", 5}, {"n", 4}}},
	{rel: "cls/E.php", decls: []decl{{"c", 7}}},
	{rel: "inc/m1.php", decls: []decl{{"c", 0}, {"i", 2}, {"n", 0}, {"n", 4}}},
	{rel: "inc/m2.php", decls: []decl{{"i", 0}, {"c", 3}, {"n", 3}, {"c", 6}}},
	{rel: "inc/m3.php", decls: []decl{{"c", 1}, {"c", 2}, {"n", 7}, {"n", 0}}},
	{rel: "inc/m4.php", decls: []decl{{"n", 0}, {"n", 5}, {"c", 5}}},
	{rel: "inc/nope.php", miss: true},
	{rel: "inc/m5.php", decls: []decl{{"c", 7}, {"n", 5}}},
}

// class-path lookup as FindClassFile answers on this disk (a.php / b.php do not
// exist, so the case-insensitive file match finds A.php / B.php; there is no file for
// N\D and N\G: those names reach the spl_autoload callbacks); checked against the real
// FindClassFile at start-up.
var find = map[int]int{0: 0, 1: 0, 2: 1, 3: 1, 4: 2, 6: 4}

// the autoload callbacks scripts can register: callback k includes file cbs[k][n] when it
// is asked for name n (and returns false, like an autoloader that leaves the verdict to
// the class table). Callback 0 loads a file that declares what was asked for; callback 1
// loads a file that declares other things (and, for N\D, a class of that name).
var cbs = []map[int]int{{7: 10, 5: 3}, {7: 7, 5: 8}}

// constants scripts define() (shared by design: TempVM.SetConstant writes the base)
var constNames = []string{"C12_K0", "C12_K1"}

// the directory of a file decides how it is addressed: the include files are linked into a
// directory of their own for every case that includes one (node.includeOnceCache is
// process-wide and never forgets a path)
func isIncFile(f int) bool { return strings.HasPrefix(files[f].rel, "inc/") }

type disk struct {
	root    string
	paths   []string
	byPath  map[string]int
	written map[string]bool
	byRaw   map[string]int // memo: GetSource() string as reported → file id (-1 unknown)
	parser  *parser.Parser // one parser (lexer tables) re-bound to every fresh base VM of this process
	fields  [3]string      // model-side description (constant)
	units   []string       // file id → its text without the open tag (what eval() is handed)
	cwd     string
	serial  int               // private include directories handed out so far
	wrote   map[string]string // generated script path → content last written
	scripts string            // normalised directory of the generated scripts
}

func (d *disk) fileOf(src string) (int, bool) {
	if f, ok := d.byRaw[src]; ok {
		return f, f >= 0
	}
	f, ok := d.byPath[utils.NormalizePhpFilePath(src)]
	if !ok {
		f = -1
	}
	d.byRaw[src] = f
	return f, ok
}

func short(n int) string { return strings.TrimPrefix(names[n], `N\`) }

func writeDisk(root string) (*disk, error) {
	d := &disk{root: root, byPath: map[string]int{}, byRaw: map[string]int{}, written: map[string]bool{}, wrote: map[string]string{}}
	d.cwd, _ = os.Getwd()
	if err := os.MkdirAll(filepath.Join(root, "scripts"), 0o755); err != nil {
		return nil, err
	}
	d.scripts = utils.NormalizePhpFilePath(filepath.Join(root, "scripts"))
	for i, f := range files {
		p := filepath.Join(root, f.rel)
		d.paths = append(d.paths, p)
		d.byPath[utils.NormalizePhpFilePath(p)] = i
		d.units = append(d.units, "")
		if f.miss {
			continue
		}
		if err := os.MkdirAll(filepath.Dir(p), 0o755); err != nil {
			return nil, err
		}
		var sb strings.Builder
		sb.WriteString("<?php\nnamespace N;\n")
		for _, dc := range f.decls {
			switch dc.kind {
			case "c":
				fmt.Fprintf(&sb, "class %s {}\n", short(dc.name))
			case "i":
				fmt.Fprintf(&sb, "interface %s {}\n", short(dc.name))
			case "n":
				fmt.Fprintf(&sb, "function %s() {}\n", short(dc.name))
			}
		}
		if err := os.WriteFile(p, []byte(sb.String()), 0o644); err != nil {
			return nil, err
		}
		d.units[i] = strings.TrimPrefix(sb.String(), "<?php\n")
	}
	return d, nil
}

// model-side description of the autoload callbacks and of the constant pool
func cbsField() string {
	var gs []string
	for _, cb := range cbs {
		var ps []string
		for n := 0; n < len(names); n++ {
			if f, ok := cb[n]; ok {
				ps = append(ps, fmt.Sprintf("%d>%d", n, f))
			}
		}
		gs = append(gs, strings.Join(ps, ","))
	}
	return strings.Join(gs, ";")
}

func cpoolField() string {
	ps := make([]string, len(constNames))
	for i := range constNames {
		ps[i] = fmt.Sprint(i)
	}
	return strings.Join(ps, ",")
}

func (d *disk) modelFields() (string, string, string) {
	if d.fields[0] == "" {
		a, b, c := d.computeFields()
		d.fields = [3]string{a, b, c}
	}
	return d.fields[0], d.fields[1], d.fields[2]
}

// model-side description of the disk (constant)
func (d *disk) computeFields() (string, string, string) {
	var fs, fd, fo []string
	for i, f := range files {
		if f.miss {
			continue
		}
		var ds []string
		for _, dc := range f.decls {
			ds = append(ds, fmt.Sprintf("%s%d", dc.kind, dc.name))
		}
		fs = append(fs, fmt.Sprintf("%d=%s", i, strings.Join(ds, ",")))
	}
	for n := 0; n < len(names); n++ {
		if f, ok := find[n]; ok {
			fd = append(fd, fmt.Sprintf("%d>%d", n, f))
		}
		if r, ok := foldRep[n]; ok {
			fo = append(fo, fmt.Sprintf("%d>%d", n, r))
		}
	}
	return strings.Join(fs, ";"), strings.Join(fd, ","), strings.Join(fo, ",")
}

// ------------------------------------------------------------ operations

// API operations: add | lar | pf | golc | goli | pkg | dis.
// Script routes (a generated script run on VM V through LoadAndRun):
//
//	ev   eval() of the declarations of file F            sp: literal | variable | inside a function
//	inc  include / require of file F                     sp bit0 _once, bit1 require, bit2 relative path
//	rfn  function N declared by a statement executed at run time   sp: nested | conditional | inside a method
//	areg spl_autoload_register(callback N)               sp: closure | static closure
//	use  the script needs class N                        sp: new | new $name | extends | trait use (2,3 = parse time)
//	def  define(constant N)
//	als  class_alias(N, F)  (F = the alias name id)
//	nop  defines nothing                                 sp: anonymous class | closure | arrow fn | run_php_file
type op struct {
	K  string `json:"k"`
	V  int    `json:"v"`            // -1 = base, i = TempVM slot i
	Kd string `json:"kd,omitempty"` // add: c | i | n
	N  int    `json:"n,omitempty"`  // name id (add / golc / goli / pkg / rfn / use / als), callback (areg), constant (def)
	F  int    `json:"f,omitempty"`  // file id (lar / pf / ev / inc), alias name id (als)
	ID int    `json:"id,omitempty"` // identity of the stub statement (add) / of the script's definitions (ev, rfn)
	Sp int    `json:"sp,omitempty"` // spelling of a script route (the model does not see it, except inc bit1 and use >= 2)
}

func (o op) isScript() bool {
	switch o.K {
	case "ev", "inc", "rfn", "areg", "use", "def", "als", "nop":
		return true
	}
	return false
}

func b01(b bool) int {
	if b {
		return 1
	}
	return 0
}

func vmTag(v int) string {
	if v < 0 {
		return "b"
	}
	return fmt.Sprintf("t%d", v)
}

func (o op) model() string {
	switch o.K {
	case "add":
		return fmt.Sprintf("add %s %s %d %d", vmTag(o.V), o.Kd, o.N, o.ID)
	case "lar", "pf":
		return fmt.Sprintf("%s %s %d", o.K, vmTag(o.V), o.F)
	case "golc", "goli", "pkg":
		return fmt.Sprintf("%s %s %d", o.K, vmTag(o.V), o.N)
	case "dis":
		return fmt.Sprintf("dis %d", o.V)
	case "ev":
		return fmt.Sprintf("ev %s %d %d", vmTag(o.V), o.F, o.ID)
	case "inc":
		return fmt.Sprintf("inc %s %d %d", vmTag(o.V), o.F, b01(o.Sp&2 != 0))
	case "rfn":
		return fmt.Sprintf("rfn %s %d %d", vmTag(o.V), o.N, o.ID)
	case "areg":
		return fmt.Sprintf("areg %s %d", vmTag(o.V), o.N)
	case "use":
		return fmt.Sprintf("use %s %d %d", vmTag(o.V), o.N, b01(o.Sp >= 2))
	case "def":
		return fmt.Sprintf("def %s %d", vmTag(o.V), o.N)
	case "als":
		return fmt.Sprintf("als %s %d %d", vmTag(o.V), o.N, o.F)
	case "nop":
		return fmt.Sprintf("nop %s", vmTag(o.V))
	}
	return "?"
}

// Go-level name of the method an op exercises (used in violation signatures)
func (o op) method() string {
	switch o.K {
	case "add":
		return map[string]string{"c": "AddClass", "i": "AddInterface", "n": "AddFunc"}[o.Kd]
	case "lar":
		return "LoadAndRun"
	case "pf":
		return "ParseFile"
	case "golc":
		return "GetOrLoadClass"
	case "goli":
		return "GetOrLoadInterface"
	case "pkg":
		return "LoadPkg"
	case "dis":
		return "discard"
	case "ev":
		return "eval"
	case "inc":
		return "include"
	case "rfn":
		return "function-at-run-time"
	case "areg":
		return "spl_autoload_register"
	case "use":
		return "class-use"
	case "def":
		return "define"
	case "als":
		return "class_alias"
	case "nop":
		return "inert-script"
	}
	return "?"
}

func (o op) String() string {
	if o.isScript() && o.Sp != 0 {
		return fmt.Sprintf("%s sp%d", o.model(), o.Sp)
	}
	return o.model()
}

// what an autoload of name n can define (class-path file, else the callbacks' files)
func autoOffers(n int) []decl {
	if f, ok := find[n]; ok {
		return files[f].decls
	}
	var out []decl
	for _, cb := range cbs {
		if f, ok := cb[n]; ok {
			out = append(out, files[f].decls...)
		}
	}
	return out
}

// what an operation can define (set-based bookkeeping of the oracle)
func (o op) offers() []decl {
	switch o.K {
	case "add":
		return []decl{{o.Kd, o.N}}
	case "lar", "pf", "ev", "inc":
		return files[o.F].decls
	case "golc", "goli", "pkg", "use":
		return autoOffers(o.N)
	case "rfn":
		return []decl{{"n", o.N}}
	}
	return nil
}

// the routes of the known finding: a TempVM asks the *base* to autoload (the base's
// autoloader has something to try: a class-path file, or — once a script registered one —
// an autoload callback)
func (o op) knownRoute(autoRegistered bool) bool {
	if o.V < 0 || (o.K != "goli" && o.K != "pkg") {
		return false
	}
	_, ok := find[o.N]
	return ok || autoRegistered
}

// sanitize keeps a main-stream history free of the known routes: GetOrLoadInterface /
// LoadPkg through a TempVM are dropped once an autoload callback is registered
func sanitize(ops []op) []op {
	out := ops[:0:0]
	reg := false
	for _, o := range ops {
		if o.knownRoute(reg) {
			continue
		}
		if o.K == "areg" {
			reg = true
		}
		out = append(out, o)
	}
	return out
}

// ------------------------------------------------------------ the real VMs

type world struct {
	d       *disk
	base    data.VM
	temps   []data.VM
	thrown  int
	stubs   map[any]int
	paths   []string       // file id → path in this world
	incDir  string         // private copy of the include files ("" = the shared directory)
	priv    map[string]int // normalised private path → file id
	scripts map[string]int // normalised path of a generated script → identity of what it defines
	step    int            // operations executed so far (names the generated script)
}

// the builtins the script routes call (php.Load would also install process-wide hooks)
func builtins() []data.FuncStmt {
	return []data.FuncStmt{php.NewEvalFunction(), core.NewDefineFunction(), php.NewClassAliasFunction(),
		spl.NewSplAutoloadRegisterFunction(), php.NewRunPhpFileFunction(),
		php.NewClassExistsFunction(), php.NewFunctionExistsFunction()}
}

// newWorld: a fresh base VM + nt TempVMs. private = the history includes files from
// scripts: node.includeOnceCache remembers every included path for the life of the
// process, so such a history gets the include files under paths nobody used before.
func newWorld(d *disk, nt int, private bool) *world {
	w := &world{d: d, stubs: map[any]int{}, paths: d.paths, scripts: map[string]int{}}
	// the class path manager learns directories while files are parsed (a `namespace N;`
	// statement registers the file's directory): every world starts from a fresh one
	d.parser.SetClassPathManager(parser.NewDefaultClassPathManager())
	// runtime.NewVM binds the parser to the new VM (parser.SetVM); the parser carries no
	// definitions itself, so one instance serves every fresh base VM of this process.
	w.base = runtime.NewVM(d.parser)
	w.base.AddNamespace("N", filepath.Join(d.root, "cls"))
	w.base.SetThrowControl(func(acl data.Control) { w.thrown++ })
	for _, f := range builtins() {
		w.base.AddFunc(f)
	}
	for i := 0; i < nt; i++ {
		w.temps = append(w.temps, runtime.NewTempVM(w.base))
	}
	if private {
		d.serial++
		w.incDir = filepath.Join(d.root, fmt.Sprintf("i%d", d.serial))
		os.MkdirAll(w.incDir, 0o755)
		w.paths = append([]string{}, d.paths...)
		w.priv = map[string]int{}
		ndir := utils.NormalizePhpFilePath(w.incDir)
		for f := range files {
			if !isIncFile(f) {
				continue
			}
			base := filepath.Base(files[f].rel)
			w.paths[f] = filepath.Join(w.incDir, base)
			w.priv[filepath.Join(ndir, base)] = f
			if files[f].miss {
				continue
			}
			if err := os.Link(d.paths[f], w.paths[f]); err != nil {
				b, _ := os.ReadFile(d.paths[f])
				os.WriteFile(w.paths[f], b, 0o644)
			}
		}
	}
	return w
}

// close forgets what this world left in process-wide state
func (w *world) close() {
	for _, f := range parser.GetAutoLoad() {
		parser.RemoveAutoLoad(f)
	}
	if w.incDir != "" {
		os.RemoveAll(w.incDir)
	}
}

func needsPrivate(ops []op) bool {
	for _, o := range ops {
		if o.K == "inc" || o.K == "areg" {
			return true
		}
	}
	return false
}

func (w *world) vm(v int) data.VM {
	if v < 0 {
		return w.base
	}
	return w.temps[v]
}

type fromer interface{ GetFrom() data.From }

func isNil(x any) bool {
	if x == nil {
		return true
	}
	switch v := x.(type) {
	case *node.ClassStatement:
		return v == nil
	case *node.InterfaceStatement:
		return v == nil
	case *node.FunctionStatement:
		return v == nil
	}
	return false
}

// identity of a definition: the stub handed to AddX, or the file it was parsed from
func (w *world) src(x any) string {
	if isNil(x) {
		return "-"
	}
	if id, ok := w.stubs[x]; ok {
		return fmt.Sprintf("s%d", id)
	}
	if g, ok := x.(fromer); ok && g.GetFrom() != nil {
		src := g.GetFrom().GetSource()
		if strings.HasPrefix(src, w.d.scripts) {
			// declared by a generated script, or by the string it handed to eval()
			// ("<script>(<line>) : eval()'d code")
			if i := strings.Index(src, ".php("); i >= 0 && strings.HasSuffix(src, "eval()'d code") {
				src = src[:i+4]
			}
			if id, ok := w.scripts[src]; ok {
				return fmt.Sprintf("s%d", id)
			}
		}
		if f, ok := w.priv[src]; ok {
			return fmt.Sprintf("f%d", f)
		}
		if w.incDir != "" && strings.HasPrefix(src, w.d.root) {
			if f, ok := w.priv[utils.NormalizePhpFilePath(src)]; ok {
				return fmt.Sprintf("f%d", f)
			}
		}
		if f, ok := w.d.fileOf(src); ok {
			return fmt.Sprintf("f%d", f)
		}
		return "?" + filepath.Base(src)
	}
	return fmt.Sprintf("?%T", x)
}

func (w *world) cell(v data.VM, kind string, n int) (s string) {
	defer func() {
		if r := recover(); r != nil {
			s = "!"
		}
	}()
	switch kind {
	case "c":
		if c, ok := v.GetClass(names[n]); ok {
			return w.src(c)
		}
	case "i":
		if c, ok := v.GetInterface(names[n]); ok {
			return w.src(c)
		}
	case "n":
		if c, ok := v.GetFunc(names[n]); ok {
			return w.src(c)
		}
	}
	return "-"
}

var kinds = []string{"c", "i", "n"}

// resolve table of one VM over the pool
func (w *world) table(v data.VM, pool []int) []string {
	t := make([]string, 0, 3*len(pool))
	for _, k := range kinds {
		for _, n := range pool {
			t = append(t, w.cell(v, k, n))
		}
	}
	return t
}

func (w *world) tables(pool []int) [][]string {
	ts := [][]string{w.table(w.base, pool)}
	for _, t := range w.temps {
		ts = append(ts, w.table(t, pool))
	}
	return ts
}

func showTables(ts [][]string) string {
	p := make([]string, len(ts))
	for i, t := range ts {
		p[i] = strings.Join(t, ",")
	}
	return strings.Join(p, "/")
}

// what every VM answers for the constant pool; constants are shared by design, so the
// rows agree and one is shown
func (w *world) consts() string {
	var rows []string
	for _, v := range append([]data.VM{w.base}, w.temps...) {
		var sb strings.Builder
		func() {
			defer func() {
				if r := recover(); r != nil {
					sb.WriteString("!")
				}
			}()
			for _, c := range constNames {
				if _, ok := v.GetConstant(c); ok {
					sb.WriteByte('1')
				} else {
					sb.WriteByte('0')
				}
			}
		}()
		rows = append(rows, sb.String())
	}
	for _, r := range rows[1:] {
		if r != rows[0] {
			return "split:" + strings.Join(rows, "/")
		}
	}
	return rows[0]
}

func phpStr(s string) string {
	return "'" + strings.NewReplacer(`\`, `\\`, `'`, `\'`).Replace(s) + "'"
}

// the path a script uses for file f (sp bit2: relative to the working directory, which is
// what node.IncludeCore resolves a relative path against)
func (w *world) incPath(f int, relative bool) string {
	if relative {
		if r, err := filepath.Rel(w.d.cwd, w.paths[f]); err == nil {
			return r
		}
	}
	return w.paths[f]
}

// scriptBody: the script of one script route (k names what it declares besides the pool names)
func (w *world) scriptBody(o op, k int) string {
	var sb strings.Builder
	sb.WriteString("<?php\n")
	switch o.K {
	case "ev":
		code := phpStr(w.d.units[o.F])
		switch o.Sp % 3 {
		case 0:
			fmt.Fprintf(&sb, "eval(%s);\n", code)
		case 1:
			fmt.Fprintf(&sb, "$c12 = %s;\neval($c12);\n", code)
		default:
			fmt.Fprintf(&sb, "function c12_ev%d() { eval(%s); }\nc12_ev%d();\n", k, code, k)
		}
	case "inc":
		kw := []string{"include", "include_once", "require", "require_once"}[o.Sp&3]
		fmt.Fprintf(&sb, "%s %s;\n", kw, phpStr(w.incPath(o.F, o.Sp&4 != 0)))
	case "rfn":
		switch o.Sp % 3 {
		case 0:
			fmt.Fprintf(&sb, "namespace N;\nfunction c12_o%d() { function %s() {} }\nc12_o%d();\n", k, short(o.N), k)
		case 1:
			fmt.Fprintf(&sb, "namespace N;\nif (true) { function %s() {} }\n", short(o.N))
		default:
			fmt.Fprintf(&sb, "namespace N;\nclass C12W%d { static function m() { function %s() {} } }\nC12W%d::m();\n", k, short(o.N), k)
		}
	case "areg":
		if o.Sp%2 == 1 {
			sb.WriteString("spl_autoload_register(static function($c) {")
		} else {
			sb.WriteString("spl_autoload_register(function($c) {")
		}
		if o.N >= 0 && o.N < len(cbs) {
			for n := 0; n < len(names); n++ {
				if f, ok := cbs[o.N][n]; ok {
					fmt.Fprintf(&sb, " if ($c == %s) { include %s; }", phpStr(names[n]), phpStr(w.paths[f]))
				}
			}
		}
		sb.WriteString(" return false; });\n")
	case "use":
		switch o.Sp % 4 {
		case 0:
			fmt.Fprintf(&sb, "$o = new \\%s();\n", names[o.N])
		case 1:
			fmt.Fprintf(&sb, "$c12 = %s;\n$o = new $c12();\n", phpStr(names[o.N]))
		case 2:
			fmt.Fprintf(&sb, "class C12U%d extends \\%s {}\n", k, names[o.N])
		default:
			fmt.Fprintf(&sb, "class C12U%d { use \\%s; }\n", k, names[o.N])
		}
	case "def":
		fmt.Fprintf(&sb, "define(%s, 1);\n", phpStr(constNames[o.N%len(constNames)]))
	case "als":
		fmt.Fprintf(&sb, "echo class_alias(%s, %s) ? '1' : '0';\n", phpStr(names[o.N]), phpStr(names[o.F]))
	case "nop":
		switch o.Sp % 4 {
		case 0:
			sb.WriteString("$o = new class { function f() { return 1; } };\n$o->f();\n")
		case 1:
			sb.WriteString("$f = function() { return 2; };\n$f();\n")
		case 2:
			sb.WriteString("$g = fn($x) => $x + 1;\n$g(1);\n")
		default:
			fmt.Fprintf(&sb, "try { run_php_file(%s); } catch (\\Throwable $e) { }\n", phpStr(filepath.Join(w.d.root, "scripts", fmt.Sprintf("compiled%d.php", k))))
		}
	}
	return sb.String()
}

// runBody runs a script text on v through LoadAndRun ("" = it ran through)
func (w *world) runBody(v data.VM, body string) string {
	path := filepath.Join(w.d.scripts, fmt.Sprintf("w%d.php", w.step))
	w.step++
	if w.d.wrote[path] != body {
		os.WriteFile(path, []byte(body), 0o644)
		w.d.wrote[path] = body
	}
	if out := w.runFile(v, path); out != "" {
		return out
	}
	return "ok"
}

// execScript runs the script of a script route on its VM through LoadAndRun
func (w *world) execScript(o op) string {
	k := w.step
	path := filepath.Join(w.d.scripts, fmt.Sprintf("w%d.php", k))
	body := w.scriptBody(o, k)
	if w.d.wrote[path] != body {
		os.WriteFile(path, []byte(body), 0o644)
		w.d.wrote[path] = body
	}
	w.scripts[path] = o.ID
	out := w.runFile(w.vm(o.V), path)
	switch {
	case strings.Contains(out, "!panic"):
		return "crash"
	case strings.Contains(out, "!err"):
		return "err"
	case o.K == "als" && !strings.HasPrefix(out, "1"):
		return "err"
	}
	return "ok:-"
}

func (w *world) exec(o op) (res string) {
	defer func() {
		w.step++
		if r := recover(); r != nil {
			res = "crash"
		}
	}()
	if o.isScript() {
		return w.execScript(o)
	}
	okIf := func(acl data.Control) string {
		if acl != nil {
			return "err"
		}
		return "ok:-"
	}
	v := w.vm(o.V)
	switch o.K {
	case "add":
		switch o.Kd {
		case "c":
			s := node.NewClassStatement(nil, names[o.N], "", nil, nil, nil)
			w.stubs[s] = o.ID
			return okIf(v.AddClass(s))
		case "i":
			s := node.NewInterfaceStatement(nil, names[o.N], nil, nil)
			w.stubs[s] = o.ID
			return okIf(v.AddInterface(s))
		default:
			s := node.NewFunctionStatement(nil, names[o.N], nil, nil, nil, nil, false)
			w.stubs[s] = o.ID
			return okIf(v.AddFunc(s))
		}
	case "lar":
		_, acl := v.LoadAndRun(w.paths[o.F])
		return okIf(acl)
	case "pf":
		_, acl := v.ParseFile(w.paths[o.F], data.NewObjectValue())
		return okIf(acl)
	case "golc":
		c, acl := v.GetOrLoadClass(names[o.N])
		if acl != nil {
			return "err"
		}
		return "ok:" + w.src(c)
	case "goli":
		c, acl := v.GetOrLoadInterface(names[o.N])
		if acl != nil {
			return "err"
		}
		return "ok:" + w.src(c)
	case "pkg":
		c, acl := v.LoadPkg(names[o.N])
		if acl != nil {
			return "err"
		}
		return "ok:" + w.src(c)
	case "dis":
		w.temps[o.V] = runtime.NewTempVM(w.base)
		return "ok:-"
	}
	return "?"
}

// ------------------------------------------------------------ one case

type caseT struct {
	Stream string `json:"stream"` // main | known
	NT     int    `json:"nt"`     // number of TempVM slots
	Pool   []int  `json:"pool"`   // names observed
	Ops    []op   `json:"ops"`
}

func (cs caseT) modelLine(d *disk) string {
	fs, fd, fo := d.modelFields()
	ps := make([]string, len(cs.Pool))
	for i, n := range cs.Pool {
		ps[i] = fmt.Sprint(n)
	}
	os_ := make([]string, len(cs.Ops))
	for i, o := range cs.Ops {
		os_[i] = o.model()
	}
	return strings.Join([]string{"run", fs, fd, fo, strings.Join(ps, ","), fmt.Sprint(cs.NT), strings.Join(os_, "|"), cbsField(), cpoolField()}, "\t")
}

type finding struct {
	sig, what string
	step      int
}

type stepObs struct {
	res    string
	thrown int
	tabs   [][]string
	consts string
}

func (s stepObs) String() string {
	return fmt.Sprintf("%s;%d;%s;%s", s.res, s.thrown, showTables(s.tabs), s.consts)
}

func eqTab(a, b []string) bool {
	if len(a) != len(b) {
		return false
	}
	for i := range a {
		if a[i] != b[i] {
			return false
		}
	}
	return true
}

func foldOf(n int) int {
	if r, ok := foldRep[n]; ok {
		return r
	}
	return n
}

// runImpl executes the case on fresh real VMs and judges every step with the
// model-independent oracle.
func runImpl(d *disk, cs caseT) (obs []stepObs, fs []finding) {
	w := newWorld(d, cs.NT, needsPrivate(cs.Ops))
	defer w.close()
	autoReg := false // a script registered an autoload callback (process-wide, survives discards)
	// set-based bookkeeping: what was offered through which VM
	offBase := map[decl]bool{}
	offTemp := make([]map[decl]bool, cs.NT)
	for i := range offTemp {
		offTemp[i] = map[decl]bool{}
	}
	polluted := false // known stream: after a known leak the bookkeeping bound no longer applies
	before := w.tables(cs.Pool)
	for si, o := range cs.Ops {
		known := o.knownRoute(autoReg)
		thrownBefore := w.thrown
		res := w.exec(o)
		if o.K == "areg" {
			autoReg = true
		}
		after := w.tables(cs.Pool)
		obs = append(obs, stepObs{res, w.thrown, after, w.consts()})
		add := func(sig, what string) {
			fs = append(fs, finding{sig, fmt.Sprintf("step %d (%s): %s", si, o, what), si})
		}
		for _, t := range after {
			for _, c := range t {
				if c == "!" {
					add("crash:getter", "a Get* lookup panicked")
				}
			}
		}
		// (1) isolation: an operation invoked on TempVM i changes nobody else's table
		if o.V >= 0 {
			for vi := range after {
				if vi == o.V+1 {
					continue
				}
				if !eqTab(before[vi], after[vi]) {
					who := "base"
					sig := "leak:" + o.method()
					if vi > 0 {
						who = fmt.Sprintf("TempVM %d", vi-1)
						if eqTab(before[0], after[0]) {
							sig = "leak-temp:" + o.method()
						}
					}
					add(sig, fmt.Sprintf("%s through TempVM %d changed what %s resolves: before %s after %s", o.method(), o.V, who, strings.Join(before[vi], ","), strings.Join(after[vi], ",")))
					if known {
						polluted = true
					}
					break
				}
			}
		}
		// bookkeeping
		if o.K == "dis" {
			offTemp[o.V] = map[decl]bool{}
			if !eqTab(after[0], after[o.V+1]) {
				add("discard:residue", "a fresh TempVM does not resolve exactly what the base resolves")
			}
		} else {
			for _, dc := range o.offers() {
				if o.V < 0 {
					offBase[dc] = true
				} else {
					offTemp[o.V][dc] = true
				}
			}
		}
		np := len(cs.Pool)
		for vi, t := range after {
			for ki, k := range kinds {
				for pi, n := range cs.Pool {
					c := t[ki*np+pi]
					if c == "-" {
						// (2) base definitions are visible through every TempVM
						if vi > 0 && after[0][ki*np+pi] != "-" {
							add("hidden:"+k, fmt.Sprintf("base resolves %s %s but TempVM %d does not", k, names[n], vi-1))
						}
						continue
					}
					// (3) nothing is resolved that was not offered through this VM or the base
					if polluted {
						continue
					}
					okb := offBase[decl{k, n}]
					if k == "c" && !okb {
						for m := range names {
							if foldOf(m) == foldOf(n) && offBase[decl{k, m}] {
								okb = true
							}
						}
					}
					if vi == 0 && !okb {
						add("foreign:base", fmt.Sprintf("base resolves %s %s which was never offered through the base", k, names[n]))
					}
					if vi > 0 && !okb && !offTemp[vi-1][decl{k, n}] {
						add("foreign:temp", fmt.Sprintf("TempVM %d resolves %s %s which was offered neither through it nor through the base", vi-1, k, names[n]))
					}
				}
			}
		}
		// (4) a stub registered through a TempVM is visible to that TempVM
		if o.K == "add" && o.V >= 0 && res == "ok:-" {
			ki := map[string]int{"c": 0, "i": 1, "n": 2}[o.Kd]
			for pi, n := range cs.Pool {
				if n == o.N && after[o.V+1][ki*np+pi] == "-" {
					add("own:invisible:"+o.Kd, fmt.Sprintf("TempVM %d does not resolve the %s %s it just registered", o.V, o.Kd, names[n]))
				}
			}
		}
		if o.K == "rfn" && o.V >= 0 && res == "ok:-" && w.thrown == thrownBefore {
			for pi, n := range cs.Pool {
				if n == o.N && after[o.V+1][2*np+pi] == "-" {
					add("own:invisible:n", fmt.Sprintf("TempVM %d does not resolve the function %s a script running on it just declared", o.V, names[n]))
				}
			}
		}
		before = after
	}
	return
}

func nontrivial(cs caseT) bool {
	// at least one definition through a TempVM and one through another VM
	vs := map[int]bool{}
	tdef := false
	for _, o := range cs.Ops {
		if o.K == "dis" {
			continue
		}
		vs[o.V] = true
		if o.V >= 0 && (o.K == "add" || o.K == "lar" || o.K == "pf" || o.K == "golc" || o.K == "inc" || o.K == "rfn" || o.K == "use" || o.K == "ev") {
			tdef = true
		}
	}
	return tdef && len(vs) >= 2
}

type runner struct {
	c *vh.Ctx
	m *vh.Model
	d *disk
	// compare the known-stream cases with the model only while the pinned
	// routes still behave as modelled
	knownAsModelled bool
	shrunk          map[string]int
	shard, nshards  int
	idx             int
	batch           []caseT
}

func (r *runner) sameSig(cs caseT, sig string) bool {
	_, fs := runImpl(r.d, cs)
	for _, f := range fs {
		if f.sig == sig {
			return true
		}
	}
	return false
}

// shrink removes operations while a finding with the same signature remains
func (r *runner) shrink(cs caseT, sig string) caseT {
	cur := cs
	for changed := true; changed; {
		changed = false
		for i := 0; i < len(cur.Ops); i++ {
			cand := cur
			cand.Ops = append(append([]op{}, cur.Ops[:i]...), cur.Ops[i+1:]...)
			if r.sameSig(cand, sig) {
				cur = cand
				changed = true
				i--
			}
		}
	}
	return cur
}

func (r *runner) judge(cs caseT, fs []finding) {
	seen := map[string]bool{}
	for _, f := range fs {
		if seen[f.sig] {
			continue
		}
		seen[f.sig] = true
		small := cs
		what := f.what
		if !r.c.Known[f.sig] {
			if r.shrunk[f.sig] >= 2 {
				// two shrunk replays per signature are kept; further hits are only counted
				r.c.Violation(f.sig, what, nil)
				continue
			}
			r.shrunk[f.sig]++
			small = r.shrink(cs, f.sig)
			_, fs2 := runImpl(r.d, small)
			for _, g := range fs2 {
				if g.sig == f.sig {
					what = g.what
					break
				}
			}
		}
		r.c.Violation(f.sig, what, small)
	}
}

func (cs caseT) key() string {
	var sb strings.Builder
	fmt.Fprintf(&sb, "%d;", cs.NT)
	for _, o := range cs.Ops {
		sb.WriteString(o.model())
		sb.WriteByte('|')
	}
	return sb.String()
}

func (r *runner) account(cs caseT, obs []stepObs) {
	r.c.Eval(cs.key(), nontrivial(cs))
	r.c.Hit(fmt.Sprintf("%s:len=%d", cs.Stream, len(cs.Ops)))
	for i, o := range cs.Ops {
		via := "temp"
		if o.V < 0 {
			via = "base"
		}
		r.c.Hit("op:" + o.method() + ":" + via)
		if i < len(obs) {
			r.c.Hit("res:" + strings.SplitN(obs[i].res, ":", 2)[0])
		}
	}
	r.c.Res.Traces++
}

// batch of cases: implementation first, then one pipelined model round
func (r *runner) runBatch(batch []caseT) {
	if len(batch) == 0 {
		return
	}
	type done struct {
		obs []stepObs
	}
	ds := make([]done, len(batch))
	lines := make([]string, len(batch))
	for i, cs := range batch {
		obs, fs := runImpl(r.d, cs)
		ds[i] = done{obs}
		lines[i] = cs.modelLine(r.d)
		r.account(cs, obs)
		r.c.SampleSome(map[string]any{"case": cs, "last": lastObs(obs)}, 9973)
		r.judge(cs, fs)
	}
	if r.m == nil {
		return
	}
	mres, err := r.m.AskBatch(lines)
	if err != nil {
		r.c.Note("model failed: %v", err)
		r.m = nil
		return
	}
	for i, cs := range batch {
		if cs.Stream == "known" && !r.knownAsModelled {
			continue
		}
		r.compare(cs, ds[i].obs, mres[i])
	}
}

func lastObs(obs []stepObs) string {
	if len(obs) == 0 {
		return ""
	}
	return obs[len(obs)-1].String()
}

func (r *runner) compare(cs caseT, obs []stepObs, mline string) {
	recs := strings.Split(mline, "|")
	if mline == "" {
		recs = nil
	}
	if len(recs) != len(obs) {
		r.c.Mismatch(cs, fmt.Sprintf("%d steps", len(obs)), mline, "model answered a different number of steps")
		return
	}
	for i := range obs {
		impl := obs[i].String()
		mrec := recs[i]
		if j := strings.LastIndex(mrec, ";"); j >= 0 {
			mrec = mrec[:j] // drop the model's `leaky` flag
		}
		if os.Getenv("C12_TRACE") != "" {
			fmt.Fprintf(os.Stderr, "step %d %-28s impl  %s\n%37smodel %s\n", i, cs.Ops[i], impl, "", mrec)
		}
		if impl != mrec {
			r.c.Mismatch(cs, impl, mrec, fmt.Sprintf("step %d (%s): runtime.VM/TempVM vs Model.Temp", i, cs.Ops[i]))
			return
		}
	}
}

// ------------------------------------------------------------ generators

func allPool() []int { return []int{0, 1, 2, 3, 4, 5, 6, 7} }

func allFiles() []int {
	out := make([]int, len(files))
	for i := range files {
		out[i] = i
	}
	return out
}

func pfFiles() []int { return []int{0, 1, 5, 6, 7, 8, 9, 10} }

// main-stream alphabet: everything except the known routes (GetOrLoadInterface /
// LoadPkg through a TempVM for a name the class path has a file for)
type alphaSpec struct {
	nt     int   // TempVM slots
	add    []int // names for AddClass/AddInterface/AddFunc
	lar    []int // files for LoadAndRun
	pf     []int // files for ParseFile
	golc   []int // names for GetOrLoadClass
	lookup []int // names for GetOrLoadInterface / LoadPkg (known routes are left out)
}

func (a alphaSpec) ops() []op {
	var out []op
	for v := -1; v < a.nt; v++ {
		for _, k := range kinds {
			for _, n := range a.add {
				out = append(out, op{K: "add", V: v, Kd: k, N: n})
			}
		}
		for _, f := range a.lar {
			out = append(out, op{K: "lar", V: v, F: f})
		}
		for _, f := range a.pf {
			out = append(out, op{K: "pf", V: v, F: f})
		}
		for _, n := range a.golc {
			out = append(out, op{K: "golc", V: v, N: n})
		}
		for _, n := range a.lookup {
			for _, k := range []string{"goli", "pkg"} {
				if o := (op{K: k, V: v, N: n}); !o.knownRoute(false) {
					out = append(out, o)
				}
			}
		}
		if v >= 0 {
			out = append(out, op{K: "dis", V: v})
		}
	}
	return out
}

func alphabet(nt int, ns []int, lar []int, pf []int) []op {
	return alphaSpec{nt: nt, add: ns, lar: lar, pf: pf, golc: ns, lookup: ns}.ops()
}

// the script routes, on every VM (spelling 0; spell() varies it)
type routeSpec struct {
	nt   int
	ev   []int    // units handed to eval()
	inc  [][2]int // {file, 1 = require}
	rfn  []int    // names declared by a statement executed at run time
	areg []int    // callbacks
	use  [][2]int // {name, 1 = needed at parse time}
	def  []int    // constants
	als  [][2]int // {original, alias}
	nop  bool
}

func (a routeSpec) ops() []op {
	var out []op
	for v := -1; v < a.nt; v++ {
		for _, f := range a.ev {
			out = append(out, op{K: "ev", V: v, F: f})
		}
		for _, fr := range a.inc {
			out = append(out, op{K: "inc", V: v, F: fr[0], Sp: 2 * fr[1]})
		}
		for _, n := range a.rfn {
			out = append(out, op{K: "rfn", V: v, N: n})
		}
		for _, cb := range a.areg {
			out = append(out, op{K: "areg", V: v, N: cb})
		}
		for _, np := range a.use {
			out = append(out, op{K: "use", V: v, N: np[0], Sp: 2 * np[1]})
		}
		for _, c := range a.def {
			out = append(out, op{K: "def", V: v, N: c})
		}
		for _, ab := range a.als {
			out = append(out, op{K: "als", V: v, N: ab[0], F: ab[1]})
		}
		if a.nop {
			out = append(out, op{K: "nop", V: v})
		}
	}
	return out
}

// every script route over the whole pool
func allRoutes(nt int) []op {
	a := routeSpec{nt: nt, areg: []int{0, 1}, def: []int{0, 1}, nop: true,
		als: [][2]int{{0, 6}, {1, 0}, {4, 7}, {7, 4}, {5, 6}, {3, 2}, {6, 1}, {2, 5}}}
	for f := range files {
		if !files[f].miss {
			a.ev = append(a.ev, f)
		}
		if isIncFile(f) {
			a.inc = append(a.inc, [2]int{f, 0}, [2]int{f, 1})
		}
	}
	for n := range names {
		a.rfn = append(a.rfn, n)
		a.use = append(a.use, [2]int{n, 0}, [2]int{n, 1})
	}
	return a.ops()
}

// spell picks one of the spellings of a script route that mean the same to the model
func spell(o op, x int) op {
	switch o.K {
	case "ev", "rfn":
		o.Sp = x % 3
	case "areg":
		o.Sp = x % 2
	case "nop":
		o.Sp = x % 4
	case "inc":
		o.Sp = o.Sp&2 | x&1 | (x>>1)&1<<2
	case "use":
		o.Sp = o.Sp&2 | x&1
	}
	return o
}

// the known routes only
func knownAlphabet(nt int, ns []int) []op {
	var a []op
	for v := 0; v < nt; v++ {
		for _, n := range ns {
			for _, k := range []string{"goli", "pkg"} {
				if o := (op{K: k, V: v, N: n}); o.knownRoute(true) {
					a = append(a, o)
				}
			}
		}
	}
	return a
}

func stamp(ops []op) []op {
	out := make([]op, len(ops))
	for i, o := range ops {
		if o.K == "add" || o.K == "ev" || o.K == "rfn" {
			o.ID = 100 + i
		}
		out[i] = o
	}
	return out
}

// canonical under renaming of TempVM slots: slot i+1 is used only after slot i
func canonicalTemps(ops []op) bool {
	next := 0
	for _, o := range ops {
		if o.V > next {
			return false
		}
		if o.V == next {
			next++
		}
	}
	return true
}

// take says whether the next generated case belongs to this shard (cases are
// generated identically in every shard, so the explored set does not depend on
// the number of workers).
func (r *runner) take() bool {
	i := r.idx
	r.idx++
	return r.nshards <= 1 || i%r.nshards == r.shard
}

func (r *runner) push(cs caseT) {
	if !r.take() {
		return
	}
	r.batch = append(r.batch, cs)
	if len(r.batch) >= 1000 {
		r.flush()
	}
}

func (r *runner) flush() {
	r.runBatch(r.batch)
	r.batch = r.batch[:0]
}

// exhaustive enumerates every sequence of exactly `length` operations over alpha
// (TempVM slots up to renaming) and returns how many there are (all shards).
func (r *runner) exhaustive(alpha []op, length int, nt int, pool []int) int {
	count := 0
	cur := make([]op, 0, length)
	var rec func()
	rec = func() {
		if len(cur) == length {
			count++
			if r.take() {
				ops := stamp(cur)
				for i := range ops {
					if ops[i].isScript() {
						ops[i] = spell(ops[i], count+3*i)
					}
				}
				r.batch = append(r.batch, caseT{Stream: "main", NT: nt, Pool: pool, Ops: ops})
				if len(r.batch) >= 1000 {
					r.flush()
				}
			}
			return
		}
		for _, o := range alpha {
			cur = append(cur, o)
			if canonicalTemps(cur) && len(sanitize(cur)) == len(cur) {
				rec()
			}
			cur = cur[:len(cur)-1]
		}
	}
	rec()
	r.flush()
	return count
}

func (r *runner) randomOps(alpha []op, n int) []op {
	ops := make([]op, n)
	for i := range ops {
		ops[i] = vh.Pick(r.c.Rand, alpha)
		if ops[i].isScript() {
			ops[i] = spell(ops[i], r.c.Rand.Intn(8))
		}
	}
	return ops
}

func (r *runner) randomCase(alpha []op, n int, stream string) caseT {
	ops := r.randomOps(alpha, n)
	if stream == "main" {
		ops = sanitize(ops)
	}
	return caseT{Stream: stream, NT: 4, Pool: allPool(), Ops: stamp(ops)}
}

// ------------------------------------------------------------ script stream
//
// The same resolve tables observed from *scripts*: after a seeded operation sequence a
// probe script (class_exists(name, false) / function_exists(name) for the whole pool) is
// run through every VM with LoadAndRun and must agree with what the Go API answered;
// then one `new \N\X()` or `\N\X()` is run through one VM: a class / function that VM
// resolves must be usable by code running on it, a function it does not resolve must not
// be callable, and — like every operation on a TempVM — it must not change what anybody
// else resolves.

type scriptCase struct {
	Stream string `json:"stream"` // "script"
	Ops    []op   `json:"ops"`
	UseV   int    `json:"use_v"` // VM the use-script runs on (-1 base)
	UseK   string `json:"use_k"` // new | call
	UseN   int    `json:"use_n"`
}

func (d *disk) scriptFile(name, body string) string {
	p := filepath.Join(d.root, "scripts", name)
	if _, ok := d.written[p]; !ok {
		os.MkdirAll(filepath.Dir(p), 0o755)
		os.WriteFile(p, []byte(body), 0o644)
		d.written[p] = true
	}
	return p
}

func probeBody() string {
	var sb strings.Builder
	sb.WriteString("<?php\n")
	for _, n := range names {
		fmt.Fprintf(&sb, "echo class_exists('%s', false) ? '1' : '0';\n", strings.ReplaceAll(n, `\`, `\\`))
	}
	sb.WriteString("echo '|';\n")
	for _, n := range names {
		fmt.Fprintf(&sb, "echo function_exists('%s') ? '1' : '0';\n", strings.ReplaceAll(n, `\`, `\\`))
	}
	return sb.String()
}

// runFile runs a file through v.LoadAndRun and returns what it echoed
func (w *world) runFile(v data.VM, path string) (out string) {
	var sb strings.Builder
	old := data.WriteOutput
	data.WriteOutput = func(s string) { sb.WriteString(s) }
	defer func() {
		data.WriteOutput = old
		out = sb.String()
		if r := recover(); r != nil {
			out += "!panic"
		}
	}()
	if _, acl := v.LoadAndRun(path); acl != nil {
		sb.WriteString("!err")
	}
	if data.FlushAllBuffersFn != nil {
		data.FlushAllBuffersFn()
	}
	return
}

func (r *runner) runScript(sc scriptCase) {
	d := r.d
	w := newWorld(d, 4, needsPrivate(sc.Ops))
	defer w.close()
	pool := allPool()
	for _, o := range sc.Ops {
		w.exec(o)
	}
	tabs := w.tables(pool)
	np := len(pool)
	r.c.Eval("script;"+caseT{NT: 4, Ops: sc.Ops}.key()+fmt.Sprint(sc.UseV, sc.UseK, sc.UseN), len(sc.Ops) > 0)
	r.c.Hit("script:cases")
	allVMs := append([]data.VM{w.base}, w.temps...)
	for vi, v := range allVMs {
		got := w.runFile(v, d.scriptFile(fmt.Sprintf("probe_%d.php", vi), probeBody()))
		var want strings.Builder
		for ki, k := range kinds {
			if k == "i" {
				want.WriteByte('|')
				continue
			}
			for pi := range pool {
				if tabs[vi][ki*np+pi] != "-" {
					want.WriteByte('1')
				} else {
					want.WriteByte('0')
				}
			}
		}
		if got != want.String() {
			r.c.Violation("script:exists", fmt.Sprintf("class_exists/function_exists run on VM %s answer %q, the VM's GetClass/GetFunc answer %q", vmTag(vi-1), got, want.String()), sc)
			return
		}
	}
	// one use through one VM
	before := w.tables(pool)
	vi := sc.UseV + 1
	var body string
	ki := 0
	if sc.UseK == "new" {
		body = fmt.Sprintf("<?php\n$o = new \\%s();\necho 'done';\n", names[sc.UseN])
	} else {
		ki = 2
		body = fmt.Sprintf("<?php\n\\%s();\necho 'done';\n", names[sc.UseN])
	}
	thrownBefore := w.thrown
	got := w.runFile(allVMs[vi], d.scriptFile(fmt.Sprintf("use_%s_%d.php", sc.UseK, sc.UseN), body))
	after := w.tables(pool)
	visible := before[vi][ki*np+sc.UseN] != "-"
	r.c.Hit(fmt.Sprintf("script:%s:visible=%v:done=%v", sc.UseK, visible, got == "done"))
	if visible && got != "done" {
		r.c.Violation("script:unusable:"+sc.UseK, fmt.Sprintf("VM %s resolves %s %s but a script running on it cannot use it (output %q, %d thrown)", vmTag(sc.UseV), sc.UseK, names[sc.UseN], got, w.thrown-thrownBefore), sc)
	}
	if sc.UseK == "call" && !visible && got == "done" {
		r.c.Violation("script:callable-though-invisible", fmt.Sprintf("VM %s does not resolve function %s but a script running on it called it", vmTag(sc.UseV), names[sc.UseN]), sc)
	}
	if sc.UseV >= 0 {
		for j := range after {
			if j != vi && !eqTab(before[j], after[j]) {
				r.c.Violation("leak:script:"+sc.UseK, fmt.Sprintf("a script using %s %s on TempVM %d changed what VM %s resolves", sc.UseK, names[sc.UseN], sc.UseV, vmTag(j-1)), sc)
				break
			}
		}
	}
}

func (r *runner) scriptStream() {
	alpha := append(alphabet(4, allPool(), allFiles(), pfFiles()), allRoutes(4)...)
	for i := 0; i < r.c.N(1500, 30000); i++ {
		n := r.c.Rand.Range(0, 25)
		ops := sanitize(r.randomOps(alpha, n))
		sc := scriptCase{Stream: "script", Ops: stamp(ops), UseV: r.c.Rand.Range(-1, 3), UseK: vh.Pick(r.c.Rand, []string{"new", "call"}), UseN: r.c.Rand.Intn(len(names))}
		if r.take() {
			r.runScript(sc)
		}
	}
}

// ------------------------------------------------------------ flavour stream
//
// Every declaration form the parser registers at parse time (class_parser,
// abstract_class_parser, trait_parser, enum_parser, interface_parser all end in
// p.vm.AddClass / p.vm.AddInterface), through every route that parses code, on the base and
// on a TempVM; plus a class named by an attribute (parse-time GetOrLoadClass through the
// parser's VM). Outside the Lean model (its files declare plain classes and `new` /
// `extends` of such a name would need the flavour); judged by the snapshot oracle: a
// declaration through TempVM 0 is resolved by TempVM 0 and by nobody else, one through the
// base by everybody.

var flavours = []struct{ tag, decl, name string }{
	{"class", "class FlClass {}", `N\FlClass`},
	{"abstract", "abstract class FlAbstract {}", `N\FlAbstract`},
	{"final", "final class FlFinal {}", `N\FlFinal`},
	{"trait", "trait FlTrait {}", `N\FlTrait`},
	{"enum", "enum FlEnum {}", `N\FlEnum`},
	{"interface", "interface FlIface {}", `N\FlIface`},
	{"attribute", "#[\\N\\C]\nclass FlAttr {}", `N\C`}, // names an autoloadable class (cls/C.php)
}

var flavourRoutes = []string{"run", "include", "eval", "parsefile"}

type flavourCase struct {
	Stream  string `json:"stream"` // "flavour"
	Flavour int    `json:"flavour"`
	Route   string `json:"route"`
	V       int    `json:"v"`
}

func (w *world) extra(v data.VM) (s string) {
	defer func() {
		if r := recover(); r != nil {
			s = "!"
		}
	}()
	var sb strings.Builder
	for _, f := range flavours {
		_, c := v.GetClass(f.name)
		_, i := v.GetInterface(f.name)
		sb.WriteString(fmt.Sprint(b01(c), b01(i)))
	}
	return sb.String()
}

func (r *runner) runFlavour(fc flavourCase) {
	d := r.d
	fl := flavours[fc.Flavour]
	w := newWorld(d, 2, true)
	defer w.close()
	code := "namespace N;\n" + fl.decl + "\n"
	file := filepath.Join(w.incDir, "fl_"+fl.tag+".php")
	os.WriteFile(file, []byte("<?php\n"+code), 0o644)
	all := append([]data.VM{w.base}, w.temps...)
	snap := func() []string {
		out := make([]string, len(all))
		for i, v := range all {
			out[i] = strings.Join(w.table(v, allPool()), ",") + ";" + w.extra(v)
		}
		return out
	}
	v := w.vm(fc.V)
	before := snap()
	res := "ok"
	func() {
		defer func() {
			if p := recover(); p != nil {
				res = "crash"
			}
		}()
		var acl data.Control
		switch fc.Route {
		case "run":
			_, acl = v.LoadAndRun(file)
		case "parsefile":
			_, acl = v.ParseFile(file, data.NewObjectValue())
		case "include":
			res = w.runBody(v, "<?php\nrequire "+phpStr(file)+";\n")
		case "eval":
			res = w.runBody(v, "<?php\neval("+phpStr(code)+");\n")
		}
		if acl != nil {
			res = "err"
		}
	}()
	after := snap()
	r.c.Eval(fmt.Sprintf("flavour;%s;%s;%d", fl.tag, fc.Route, fc.V), true)
	vi := fc.V + 1
	visible := after[vi] != before[vi]
	r.c.Hit(fmt.Sprintf("flavour:%s:%s:%s:declared=%v", fl.tag, fc.Route, vmTag(fc.V), visible))
	if fc.V >= 0 {
		for j := range after {
			if j != vi && after[j] != before[j] {
				r.c.Violation("leak:flavour:"+fc.Route, fmt.Sprintf("`%s` declared through %s on TempVM %d (%s) changed what VM %s resolves: before %s after %s", fl.decl, fc.Route, fc.V, res, vmTag(j-1), before[j], after[j]), fc)
				break
			}
		}
		return
	}
	// through the base: whatever the base gained every TempVM resolves too
	for j := 1; j < len(after); j++ {
		if after[j] != after[0] {
			r.c.Violation("hidden:flavour", fmt.Sprintf("`%s` declared through %s on the base (%s): base resolves %s, TempVM %d resolves %s", fl.decl, fc.Route, res, after[0], j-1, after[j]), fc)
			break
		}
	}
}

func (r *runner) flavourStream() {
	for fi := range flavours {
		for _, route := range flavourRoutes {
			for v := -1; v < 1; v++ {
				r.runFlavour(flavourCase{Stream: "flavour", Flavour: fi, Route: route, V: v})
			}
		}
	}
}

// ------------------------------------------------------------ known stream

// the negation witnesses of Proofs/Properties/C12.lean, replayed on the real code
func witnessGoli() caseT {
	return caseT{Stream: "known", NT: 2, Pool: allPool(), Ops: []op{{K: "goli", V: 0, N: 2}}}
}
func witnessPkg() caseT {
	return caseT{Stream: "known", NT: 2, Pool: allPool(), Ops: []op{{K: "pkg", V: 0, N: 4}}}
}

// starvation: the file cache is shared by design while definitions are private, so a
// class file autoloaded through one TempVM can no longer be autoloaded through another
// (Lean: C12_shared_file_cache_starves_autoload).
func (r *runner) starvation() {
	alone := caseT{Stream: "known", NT: 2, Pool: allPool(), Ops: []op{{K: "lar", V: 1, F: 9}, {K: "golc", V: 1, N: 0}}}
	after := caseT{Stream: "known", NT: 2, Pool: allPool(), Ops: []op{{K: "lar", V: 0, F: 0}, {K: "lar", V: 1, F: 9}, {K: "golc", V: 1, N: 0}}}
	oa, _ := runImpl(r.d, alone)
	ob, _ := runImpl(r.d, after)
	ra, rb := oa[len(oa)-1].res, ob[len(ob)-1].res
	if strings.HasPrefix(ra, "ok:f") && rb != ra {
		r.c.Violation("starve:GetOrLoadClass", fmt.Sprintf("GetOrLoadClass(%s) on TempVM 1 answers %s on a fresh base but %s after TempVM 0 loaded the class file (shared file cache, private definitions)", names[0], ra, rb), map[string]any{"stream": "starve"})
	}
	r.runBatch([]caseT{alone, after})
}

// implementsLeak: the same root cause reached from GetOrLoadClass — after autoloading a
// class, LoadClass asks the (Temp)VM for every interface the class implements, and
// TempVM.GetOrLoadInterface autoloads those through the base. Not in the Lean model
// (files there declare plain classes); judged by the snapshot oracle only.
func (r *runner) implementsLeak() {
	d := r.d
	hp := filepath.Join(d.root, "cls", "H.php")
	if !d.written[hp] {
		os.WriteFile(hp, []byte("<?php\nnamespace N;\nclass H implements B {}\n"), 0o644)
		d.written[hp] = true
	}
	w := newWorld(d, 2, false)
	defer w.close()
	w.exec(op{K: "lar", V: 0, F: 9}) // binds TempVM 0's parser (the file itself is missing)
	before := w.tables(allPool())
	res := func() (s string) {
		defer func() {
			if r := recover(); r != nil {
				s = "crash"
			}
		}()
		if _, acl := w.temps[0].GetOrLoadClass(`N\H`); acl != nil {
			return "err"
		}
		return "ok"
	}()
	after := w.tables(allPool())
	r.c.Hit("known:implements:" + res)
	if !eqTab(before[0], after[0]) {
		r.c.Violation("leak:GetOrLoadClass:implements", fmt.Sprintf("GetOrLoadClass(N\\H) through TempVM 0 (class H implements B, %s) changed what base resolves: before %s after %s", res, strings.Join(before[0], ","), strings.Join(after[0], ",")), map[string]any{"stream": "implements"})
	}
}

func (r *runner) knownStream() {
	r.knownAsModelled = true
	for _, wc := range []struct {
		cs  caseT
		sig string
	}{{witnessGoli(), "leak:GetOrLoadInterface"}, {witnessPkg(), "leak:LoadPkg"}} {
		_, fs := runImpl(r.d, wc.cs)
		hit := false
		for _, f := range fs {
			if f.sig == wc.sig {
				hit = true
			}
		}
		if !hit {
			r.knownAsModelled = false
			if r.shard == 0 {
				r.c.Note("known finding %s does not reproduce on this tree; known-stream cases are judged by the oracle only", wc.sig)
			}
		}
	}
	if r.shard == 0 {
		r.runBatch([]caseT{witnessGoli(), witnessPkg()})
		r.starvation()
		r.implementsLeak()
	}
	alpha := append(alphabet(4, allPool(), allFiles(), []int{0, 1, 5, 6, 8}), knownAlphabet(4, allPool())...)
	alpha = append(alpha, allRoutes(4)...)
	for i := 0; i < r.c.N(3000, 60000); i++ {
		r.push(r.randomCase(alpha, r.c.Rand.Range(1, 40), "known"))
	}
	r.flush()
}

// ------------------------------------------------------------ runner

func checkDisk(d *disk) error {
	p := parser.NewParser()
	vm := runtime.NewVM(p)
	vm.AddNamespace("N", filepath.Join(d.root, "cls"))
	d.parser = p
	// a parsed `namespace N;` adds the file's directory to the class path: the lookup table
	// must hold with the include directory known as well
	p.GetClassPathManager().AddNamespace("N", filepath.Join(d.root, "inc"))
	for n := range names {
		got, ok := p.GetClassPathManager().FindClassFile(names[n])
		want, wok := find[n]
		if ok != wok || (ok && utils.NormalizePhpFilePath(got) != utils.NormalizePhpFilePath(d.paths[want])) {
			return fmt.Errorf("FindClassFile(%s) = %q,%v; the harness disk table expects file %d,%v", names[n], got, ok, want, wok)
		}
	}
	return nil
}

const rule = "every sequence of exactly L operations (all shorter ones are its prefixes, judged step by step) over an alphabet {AddClass/AddInterface/AddFunc of a stub, LoadAndRun, ParseFile, GetOrLoadClass, GetOrLoadInterface, LoadPkg, discard} x {base, TempVM 0, TempVM 1} x colliding names/files, TempVM slots up to renaming; the same for the script routes — a generated script run on the VM through LoadAndRun: eval() of a declaration unit, include/include_once/require/require_once (absolute and relative path, existing and missing file), a function statement executed at run time (nested in a function, conditional, nested in a method), spl_autoload_register of a callback that includes a file, a class needed at run time (new, new $name) or at parse time (extends, trait use), define(), class_alias, scripts that define nothing (anonymous class, closure, arrow fn, run_php_file) — together with the API operations they interact with; plus seeded sequences of 5..40 operations over 1 base + 4 TempVMs, 8 colliding names (2 case-variant pairs; each name used as class, interface and function), 11 files (one missing; two names reachable only through autoload callbacks), all API operations and all script routes in every spelling; after every operation the resolve tables of all VMs (3 kinds x pool lookups each, identified by which definition answers), the call result, the ThrowControl count and the constants are compared with the Lean model and the tables judged by the snapshot/bookkeeping oracle. The routes of the known finding (GetOrLoadInterface/LoadPkg through a TempVM for a name the base's autoloader can try) run in a separate stream; every declaration form (class, abstract, final, trait, enum, interface, attribute) through every parsing route in an oracle-only stream; code parsed ONCE on the base VM (function / static-method bodies with function declarations — plain, function_exists-guarded, nested, two in a row —, class / interface statements, and call / function_exists / new uses) executed through base, TempVM 0, TempVM 1 in every order, with AddFunc / AddClass stubs and discard, judged by noninterference against purged twins (what VM v resolves and what its scripts print after a history must equal what it resolves / prints after only its own and the base's operations in a fresh world). non-trivial = a definition through a TempVM and an operation on another VM; distinct = distinct operation sequence"

func workers(c *vh.Ctx) int {
	w := goruntime.NumCPU() / 2
	if c.Workers > 0 && w > c.Workers {
		w = c.Workers
	}
	if s := os.Getenv("VERIF_WORKERS"); s != "" {
		fmt.Sscan(s, &w)
	}
	if w < 1 {
		w = 1
	}
	return w
}

func Run(c *vh.Ctx) {
	if s := os.Getenv("C12_SHARD"); s != "" {
		var k, n int
		if _, err := fmt.Sscanf(s, "%d/%d", &k, &n); err == nil && n > 0 {
			runShard(c, k, n)
			return
		}
	}
	if w := workers(c); len(c.ReplayRaw) == 0 && w > 1 {
		runParent(c, w)
		return
	}
	runShard(c, 0, 1)
}

// runParent: the real VM is exercised in worker processes (origami keeps
// package-level state, so in-process parallelism is not an option); every worker
// generates the same case list and executes its residue class.
func runParent(c *vh.Ctx, n int) {
	c.Res.Rule = rule
	kf := filepath.Join(c.Scratch, "known.json")
	var ks []string
	for k := range c.Known {
		ks = append(ks, k)
	}
	kb, _ := json.Marshal(ks)
	os.WriteFile(kf, kb, 0o644)
	type out struct {
		res *vh.Result
		err string
	}
	outs := make([]out, n)
	done := make(chan int, n)
	limit := 25 * time.Minute
	if !c.Thorough() {
		limit = 8 * time.Minute
	}
	for k := 0; k < n; k++ {
		go func(k int) {
			defer func() { done <- k }()
			of := filepath.Join(c.Scratch, fmt.Sprintf("shard%d.json", k))
			args := []string{"C12", "--tier", c.Tier, "--seed", fmt.Sprint(c.Seed), "--out", of, "--known-file", kf, "--repo", c.Repo}
			if c.ModelPath != "" {
				args = append(args, "--model", c.ModelPath)
			}
			ctx, cancel := context.WithTimeout(context.Background(), limit)
			defer cancel()
			cmd := exec.CommandContext(ctx, vh.Self(), args...)
			cmd.Env = append(os.Environ(), fmt.Sprintf("C12_SHARD=%d/%d", k, n))
			b, err := cmd.CombinedOutput()
			rb, rerr := os.ReadFile(of)
			if rerr != nil {
				outs[k].err = fmt.Sprintf("worker %d/%d: %v %v: %s", k, n, err, rerr, tailStr(string(b), 600))
				return
			}
			var res vh.Result
			if jerr := json.Unmarshal(rb, &res); jerr != nil {
				outs[k].err = fmt.Sprintf("worker %d/%d: bad result: %v", k, n, jerr)
				return
			}
			outs[k].res = &res
		}(k)
	}
	for i := 0; i < n; i++ {
		<-done
	}
	evals, lines, traces := 0, 0, 0
	modelUsed := c.ModelPath != ""
	notes := map[string]bool{}
	for k, o := range outs {
		if o.res == nil {
			c.Mismatch(nil, o.err, "", "a worker process of the correspondence run did not complete")
			continue
		}
		res := o.res
		evals += res.Evaluations
		lines += res.ModelLines
		traces += res.Traces
		modelUsed = modelUsed && res.ModelUsed
		for i := 0; i < res.Distinct; i++ {
			c.Eval(fmt.Sprintf("%d.%d", k, i), true)
		}
		for hk, hv := range res.Histogram {
			c.HitN(hk, hv)
		}
		c.Res.MismatchCount += res.MismatchCount
		for _, m := range res.Mismatches {
			if len(c.Res.Mismatches) < 20 {
				c.Res.Mismatches = append(c.Res.Mismatches, m)
			}
		}
		c.Res.ViolationCount += res.ViolationCount
		for _, v := range res.Violations {
			dup := 0
			for _, have := range c.Res.Violations {
				if have.Sig == v.Sig {
					dup++
				}
			}
			if v.Case != nil && dup < 2 && len(c.Res.Violations) < 20 {
				c.Res.Violations = append(c.Res.Violations, v)
			}
		}
		for sig, what := range res.KnownConfirmed {
			c.KnownStillThere(sig, what)
		}
		for _, nt := range res.Notes {
			if !notes[nt] {
				notes[nt] = true
				c.Note("%s", nt)
			}
		}
		for _, sm := range res.Samples {
			if k%4 == 0 {
				c.Sample(sm)
			}
		}
		if k == 0 {
			c.Res.Exhaustive = res.Exhaustive
			c.Res.ExhaustiveWhat = res.ExhaustiveWhat
		}
	}
	c.Res.Evaluations = evals
	c.Res.ModelLines = lines
	c.Res.Traces = traces
	c.Res.ModelUsed = modelUsed
	c.Note("%d worker processes, each executing its residue class of the same generated case list", n)
}

func tailStr(s string, n int) string {
	if len(s) > n {
		return s[len(s)-n:]
	}
	return s
}

func runShard(c *vh.Ctx, shard, nshards int) {
	debug.SetGCPercent(400) // parser clones are allocation-heavy; trade memory for time
	r := &runner{c: c, shrunk: map[string]int{}, shard: shard, nshards: nshards}
	if c.ModelPath != "" {
		m, err := vh.StartModel(c.ModelPath)
		if err != nil {
			c.Note("cannot start model: %v", err)
		} else {
			defer m.Close()
			r.m = m
			c.Res.ModelUsed = true
		}
	}
	d, err := writeDisk(filepath.Join(c.Scratch, "disk"))
	if err != nil {
		c.Mismatch(nil, err.Error(), "", "cannot write the scratch class files")
		return
	}
	r.d = d
	if err := checkDisk(d); err != nil {
		c.Mismatch(nil, err.Error(), "", "class-path environment differs from the table handed to the model")
		return
	}
	if len(c.ReplayRaw) > 0 {
		var cs caseT
		if err := json.Unmarshal(c.ReplayRaw, &cs); err != nil {
			c.Note("bad replay: %v", err)
			return
		}
		if cs.Stream == "script" {
			var sc scriptCase
			json.Unmarshal(c.ReplayRaw, &sc)
			r.runScript(sc)
			return
		}
		if cs.Stream == "shared" {
			var sc sharedCase
			json.Unmarshal(c.ReplayRaw, &sc)
			if sc.NT == 0 {
				sc.NT = 2
			}
			for _, o := range sc.Ops {
				if o.B < 0 || o.B >= len(sharedBodies) || o.V >= sc.NT {
					return
				}
			}
			r.runSharedCase(sc)
			return
		}
		if cs.Stream == "flavour" {
			var fc flavourCase
			json.Unmarshal(c.ReplayRaw, &fc)
			if fc.Flavour >= 0 && fc.Flavour < len(flavours) {
				r.runFlavour(fc)
			}
			return
		}
		if cs.NT == 0 {
			cs.NT = 4
		}
		if len(cs.Pool) == 0 {
			cs.Pool = allPool()
		}
		if cs.Stream == "" {
			cs.Stream = "main"
		}
		r.knownAsModelled = true
		if cs.Stream == "starve" {
			r.starvation()
			return
		}
		if cs.Stream == "implements" {
			r.implementsLeak()
			return
		}
		r.runBatch([]caseT{cs})
		return
	}
	c.Res.Rule = rule
	if os.Getenv("C12_ONLY") == "shared" { // development aid: the shared-body stream alone
		c.Res.ExhaustiveWhat = r.sharedStream()
		return
	}

	// ---- committed corpus first (minimised past failures and hand-picked sequences)
	if shard == 0 {
		r.knownAsModelled = true
		paths, _ := filepath.Glob(filepath.Join("..", "corpus", "C12", "*.json"))
		sort.Strings(paths)
		for _, p := range paths {
			b, err := os.ReadFile(p)
			var cs caseT
			if err != nil || json.Unmarshal(b, &cs) != nil || cs.NT == 0 || len(cs.Pool) == 0 {
				c.Note("corpus file %s could not be read", p)
				continue
			}
			cs.Stream = "main"
			c.Hit("corpus:cases")
			r.runBatch([]caseT{cs})
		}
	}

	// ---- exhaustive part (base + 2 TempVMs)
	exPool := []int{0, 1, 2, 3, 4}
	a3 := alphabet(2, []int{0, 1, 2}, []int{0, 5, 6}, []int{0, 5})
	a4 := alphaSpec{nt: 2, add: []int{0, 1}, lar: []int{5}, pf: []int{5}, golc: []int{0}}.ops()
	if c.Thorough() {
		a4 = a3
	}
	n3 := r.exhaustive(a3, 3, 2, exPool)
	n4 := r.exhaustive(a4, 4, 2, exPool)
	c.Res.Exhaustive = true
	c.Res.ExhaustiveWhat = fmt.Sprintf("all %d sequences of length 3 over %d operations and all %d sequences of length 4 over %d operations on base + 2 TempVMs (slots up to renaming), every prefix judged after every step", n3, len(a3), n4, len(a4))

	// ---- exhaustive part over the script routes (base + 2 TempVMs): every route on every VM,
	// together with the API operations they interact with (same file loaded / included /
	// eval'd, autoload through a registered callback, discard)
	rt := routeSpec{nt: 2, ev: []int{5}, inc: [][2]int{{5, 0}, {9, 1}}, rfn: []int{0}, areg: []int{0},
		use: [][2]int{{7, 0}, {5, 1}}, def: []int{0}, als: [][2]int{{0, 7}}, nop: true}.ops()
	r2 := append(alphaSpec{nt: 2, add: []int{0}, lar: []int{5}, golc: []int{7}}.ops(), rt...)
	r3 := r2
	if !c.Thorough() {
		r3 = append(alphaSpec{nt: 2, add: []int{0}, lar: []int{5}}.ops(),
			routeSpec{nt: 2, ev: []int{5}, inc: [][2]int{{5, 0}}, rfn: []int{0}, areg: []int{0}, use: [][2]int{{7, 0}}}.ops()...)
	}
	m2 := r.exhaustive(r2, 2, 2, allPool())
	m3 := r.exhaustive(r3, 3, 2, allPool())
	c.Res.ExhaustiveWhat += fmt.Sprintf("; script routes {eval, include/require, function at run time, spl_autoload_register, class use at run / parse time, define, class_alias, inert} + API: all %d sequences of length 2 over %d operations and all %d of length 3 over %d", m2, len(r2), m3, len(r3))

	// ---- seeded part: 1 base + 4 TempVMs, 8 names, all files, API operations and script routes
	alpha := append(alphabet(4, allPool(), allFiles(), pfFiles()), allRoutes(4)...)
	for i := 0; i < c.N(20000, 400000); i++ {
		r.push(r.randomCase(alpha, c.Rand.Range(5, 40), "main"))
	}
	r.flush()

	// ---- the same tables seen from scripts
	r.scriptStream()

	// ---- every declaration form through every parsing route (oracle only)
	if shard == 0 {
		r.flavourStream()
	}

	// ---- code parsed once on the base, executed through several VMs (purge-twin oracle)
	c.Res.ExhaustiveWhat += r.sharedStream()

	// ---- known stream
	r.knownStream()
	if r.m != nil {
		c.Res.ModelLines = r.m.Lines
	}
}
