package c18

import (
	"fmt"
	"strings"

	"verif/harness/vh"
)

// Nested error locations (round 4). The flat stream of loc.go plants the fault as a top-level
// statement; a location that is right where the error is raised can still be REWRITTEN while the
// error propagates outward through the constructs that enclose it (a loop filling in "its"
// statement, a call frame stamping the call site, a try/finally re-raising, a callback trampoline
// building a new error). This stream puts the fault under a stack of enclosing constructs drawn
// from every construct that can contain statements or expressions, with filler statements before
// it at every level, so that the line of the fault differs from the start line of every enclosing
// statement and of every call on the way out. The oracle is by construction: the line on which
// the generator wrote the faulty construct.

type nestCase struct {
	Mode  string   `json:"mode"` // nest
	Ext   string   `json:"ext"`
	CRLF  bool     `json:"crlf"`
	Lines []string `json:"lines"`
	Fault int      `json:"fault"`          // 1-based line of the faulty construct
	Alt   []int    `json:"alt,omitempty"`  // other acceptable lines (the `throw $e` of a catch-and-rethrow on the way out)
	Kind  string   `json:"kind"`           // fault kind
	Form  string   `json:"form"`           // how the faulty expression is embedded in its statement
	Path  []string `json:"path,omitempty"` // enclosing constructs, outermost first
	CLI   bool     `json:"cli,omitempty"`  // judged on the message printed by the real binary
}

// a piece of program text under construction: which of its lines carries the fault (-1: none; the
// fault then sits in a hoisted declaration) and which carry a rethrow
type blk struct {
	lines []string
	fault int
	alts  []int
}

func (b blk) shifted(by int) blk {
	nb := blk{lines: b.lines, fault: b.fault}
	if nb.fault >= 0 {
		nb.fault += by
	}
	for _, a := range b.alts {
		nb.alts = append(nb.alts, a+by)
	}
	return nb
}

// cat concatenates pieces; plain strings are single lines
func cat(parts ...any) blk {
	out := blk{fault: -1}
	for _, p := range parts {
		switch x := p.(type) {
		case string:
			out.lines = append(out.lines, x)
		case []string:
			out.lines = append(out.lines, x...)
		case blk:
			s := x.shifted(len(out.lines))
			out.lines = append(out.lines, x.lines...)
			if s.fault >= 0 {
				out.fault = s.fault
			}
			out.alts = append(out.alts, s.alts...)
		}
	}
	return out
}

func indent(b blk) blk {
	nb := blk{fault: b.fault, alts: b.alts}
	raw := false // inside a heredoc / nowdoc / multi-line string filler: the text is significant
	for _, l := range b.lines {
		if raw {
			nb.lines = append(nb.lines, l)
			if l == "EOT;" || l == "RAW;" || strings.HasPrefix(l, "lines") {
				raw = false
			}
			continue
		}
		nb.lines = append(nb.lines, "  "+l)
		if strings.Contains(l, "<<<") || strings.HasSuffix(l, "= \"two") {
			raw = true
		}
	}
	return nb
}

type nfault struct {
	kind  string
	expr  string   // expression form ("" = statement only)
	stmt  string   // statement form ("" = `expr;`)
	pre   []string // statements that must precede it in the same body
	hoist []string // a declaration it needs (top level, before use)
	parse bool
}

var nfaults = []nfault{
	{kind: "throw", stmt: "throw new Exception('boom');"},
	{kind: "throw-expr", expr: "throw new Exception('boom')"},
	{kind: "undefined-fn", expr: "undefined_fn_xyz(1)"},
	{kind: "mod-zero", expr: "($one % $zero)", pre: []string{"$one = 1; $zero = 0;"}},
	{kind: "div-zero", expr: "($one / $zero)", pre: []string{"$one = 1; $zero = 0;"}},
	{kind: "call-non-callable", expr: "$five()", pre: []string{"$five = 5;"}},
	{kind: "dynamic-undefined-fn", expr: "$fname()", pre: []string{"$fname = 'nosuchfn_xyz';"}},
	{kind: "string-method", expr: "$str->foo()", pre: []string{"$str = 'abc';"}},
	{kind: "property-of-non-object", expr: "$five->x->y()", pre: []string{"$five = 5;"}},
	{kind: "clone-non-object", expr: "clone $five", pre: []string{"$five = 5;"}},
	{kind: "abstract-new", expr: "new AbsK()", hoist: []string{"abstract class AbsK {", "}"}},
	{kind: "undefined-exception-class", stmt: "throw new NoSuchExcXyz('x');"},
	{kind: "undefined-method", expr: "$ob->nope()", pre: []string{"$ob = new stdClass();"}},
	{kind: "undefined-method-new", expr: "(new stdClass())->nope()"},
	{kind: "undefined-class", expr: "new NoSuchClassXyz()"},
	{kind: "undefined-static", expr: "NoSuchClassXyz::m()"},
	{kind: "null-call", expr: "$nul->m()", pre: []string{"$nul = null;"}},
	{kind: "parse:stray-paren", stmt: ") ;", parse: true},
	{kind: "parse:new-nothing", stmt: "$q = new ;", parse: true},
	{kind: "parse:foreach-novar", stmt: "foreach ($arr as ) { }", parse: true},
	{kind: "parse:unclosed-call", stmt: "$q = strlen('a' ;", parse: true},
}

// errors raised by the Go code of a built-in function: the known stream of nestrun.go
var builtinFaults = []nfault{
	{kind: "builtin:trigger_error", expr: "trigger_error('boom')"},
	{kind: "builtin:call_user_func-non-callable", expr: "call_user_func($five)", pre: []string{"$five = 5;"}},
	{kind: "builtin:typed-parameter", expr: "array_filter([1], $five)", pre: []string{"$five = 5;"}},
}

// expression embeddings: how the faulty expression E sits in its statement; the fault is on the
// line that holds E
type eform struct {
	name string
	mk   func(e string, n int) blk
}

var eforms = []eform{
	{"stmt", func(e string, n int) blk { return blk{lines: []string{e + ";"}, fault: 0} }},
	{"assign", func(e string, n int) blk { return blk{lines: []string{fmt.Sprintf("$r%d = %s;", n, e)}, fault: 0} }},
	{"array-literal", func(e string, n int) blk {
		return blk{lines: []string{fmt.Sprintf("$r%d = [", n), "  1,", "  " + e + ",", "  3,", "];"}, fault: 2}
	}},
	{"array-literal-keyed", func(e string, n int) blk {
		return blk{lines: []string{fmt.Sprintf("$r%d = array(", n), "  'a' => 1,", "  'b' =>", "    " + e + ",", ");"}, fault: 3}
	}},
	{"argument-list", func(e string, n int) blk {
		return blk{lines: []string{fmt.Sprintf("$r%d = max(", n), "  1,", "  " + e, ");"}, fault: 2}
	}},
	{"nested-calls", func(e string, n int) blk {
		return blk{lines: []string{fmt.Sprintf("$r%d = nid(nid(", n), "  nid(", "    " + e + ")));"}, fault: 2}
	}},
	{"binary-chain", func(e string, n int) blk {
		return blk{lines: []string{fmt.Sprintf("$r%d = 1 +", n), "  2 +", "  " + e + ";"}, fault: 2}
	}},
	{"concat-echo", func(e string, n int) blk {
		return blk{lines: []string{"echo 'a' .", "  'b' .", "  " + e + ";"}, fault: 2}
	}},
	{"ternary", func(e string, n int) blk {
		return blk{lines: []string{fmt.Sprintf("$t%d = 1; $r%d = $t%d == 1", n, n, n), "  ? " + e, "  : 0;"}, fault: 1}
	}},
	{"coalesce", func(e string, n int) blk {
		return blk{lines: []string{fmt.Sprintf("$t%d = null; $r%d = $t%d", n, n, n), "  ?? " + e + ";"}, fault: 1}
	}},
	{"if-condition", func(e string, n int) blk {
		return blk{lines: []string{"if (", "  " + e, ") {", fmt.Sprintf("  $r%d = 1;", n), "}"}, fault: 1}
	}},
	{"while-condition", func(e string, n int) blk {
		return blk{lines: []string{"while (", "  " + e, ") {", "  break;", "}"}, fault: 1}
	}},
	{"switch-subject", func(e string, n int) blk {
		return blk{lines: []string{"switch (", "  " + e, ") {", "  default:", fmt.Sprintf("    $r%d = 1;", n), "}"}, fault: 1}
	}},
	{"foreach-subject", func(e string, n int) blk {
		return blk{lines: []string{"foreach (", "  " + e, fmt.Sprintf("  as $fv%d) {", n), "}"}, fault: 1}
	}},
	{"for-condition", func(e string, n int) blk {
		return blk{lines: []string{fmt.Sprintf("for ($fi%d = 0;", n), "  " + e + ";", fmt.Sprintf("  $fi%d++) {", n), "  break;", "}"}, fault: 1}
	}},
	{"match-arm", func(e string, n int) blk {
		return blk{lines: []string{fmt.Sprintf("$t%d = 2; $r%d = match ($t%d) {", n, n, n), "  1 => 0,", "  2 => " + e + ",", "  default => 3,", "};"}, fault: 2}
	}},
	{"match-default", func(e string, n int) blk {
		return blk{lines: []string{fmt.Sprintf("$t%d = 2; $r%d = match ($t%d) {", n, n, n), "  1 => 0,", "  default =>", "    " + e + ",", "};"}, fault: 3}
	}},
	{"arrow-fn", func(e string, n int) blk {
		return blk{lines: []string{fmt.Sprintf("$af%d = fn($x) =>", n), "  $x +", "  " + e + ";", fmt.Sprintf("$r%d = $af%d(1);", n, n)}, fault: 2}
	}},
	{"return", func(e string, n int) blk {
		return blk{lines: []string{fmt.Sprintf("$rf%d = function () {", n), "  return 1 +", "    " + e + ";", "};", fmt.Sprintf("$rf%d();", n)}, fault: 2}
	}},
	{"interpolation-at", func(e string, n int) blk {
		return blk{lines: []string{fmt.Sprintf("$r%d = \"first line", n), "second line", "third @{" + e + "} line\";"}, fault: 2}
	}},
	{"interpolation-heredoc", func(e string, n int) blk {
		return blk{lines: []string{fmt.Sprintf("$r%d = <<<EOT", n), "first line", "second {" + e + "} line", "EOT;"}, fault: 2}
	}},
	{"interpolation", func(e string, n int) blk {
		return blk{lines: []string{fmt.Sprintf("$r%d = \"first line", n), "second {" + e + "} line\";"}, fault: 1}
	}},
}

// fillers that may be repeated (loop bodies) and need no declaration
var nestFillers = [][]string{
	{"$v%d = 1;"},
	{"// a comment"},
	{"/* c */ $w%d = 2;"},
	{""},
	{"$s%d = \"two", "lines\";"},
	{"/* block", "   comment", "*/"},
	{"$h%d = <<<EOT", "hello $s", "world", "EOT;"},
	{"$n%d = <<<'RAW'", "raw $x", "RAW;"},
	{"$u%d = 'ünï中'; // 注释"},
	{"if ($v%d ?? 0) {", "  $q%d = 3;", "} else {", "  $q%d = 4;", "}"},
	{"$arr%d = [", "  1,", "  2,", "];"},
	{"$z%d = strlen(", "  'abc'", ");"},
}

type nestGen struct {
	r       *vh.Rand
	n       int   // unique-name counter
	hoisted []blk // declarations, innermost first (declared before use)
	path    []string
}

func (g *nestGen) id() int { g.n++; return g.n }

func (g *nestGen) filler(min, max int) []string {
	var out []string
	for i, k := 0, g.r.Range(min, max); i < k; i++ {
		f := vh.Pick(g.r, nestFillers)
		id := g.id()
		for _, l := range f {
			out = append(out, strings.ReplaceAll(l, "%d", fmt.Sprint(id)))
		}
	}
	return out
}

// body = fillers, the inner piece, sometimes a trailing filler
func (g *nestGen) body(inner blk) blk {
	b := cat(g.filler(1, 2), inner)
	if g.r.Chance(40) {
		b = cat(b, g.filler(1, 1))
	}
	return indent(b)
}

type wrapper struct {
	name  string
	frame bool // the inner piece moves into a callable: later wrappers enclose the call
	apply func(g *nestGen, in blk) blk
}

var wrappers []wrapper

func init() {
	w := func(name string, f func(g *nestGen, in blk) blk) { wrappers = append(wrappers, wrapper{name: name, apply: f}) }
	fr := func(name string, f func(g *nestGen, in blk) blk) {
		wrappers = append(wrappers, wrapper{name: name, frame: true, apply: f})
	}
	// ---- statements that contain statements
	w("for", func(g *nestGen, in blk) blk {
		n := g.id()
		return cat(fmt.Sprintf("for ($i%d = 0; $i%d < 2; $i%d++) {", n, n, n), g.body(in), "}")
	})
	w("foreach-array", func(g *nestGen, in blk) blk {
		return cat(fmt.Sprintf("foreach ([1, 2] as $e%d) {", g.id()), g.body(in), "}")
	})
	w("foreach-keys", func(g *nestGen, in blk) blk {
		n := g.id()
		return cat(fmt.Sprintf("foreach (['a' => 1, 'b' => 2] as $k%d => $e%d) {", n, n), g.body(in), "}")
	})
	w("foreach-generator", func(g *nestGen, in blk) blk {
		n := g.id()
		g.hoisted = append(g.hoisted, cat(fmt.Sprintf("function gen%d() {", n), "  yield 1;", "  yield 2;", "}"))
		return cat(fmt.Sprintf("foreach (gen%d() as $e%d) {", n, n), g.body(in), "}")
	})
	w("foreach-generator-keys", func(g *nestGen, in blk) blk {
		n := g.id()
		g.hoisted = append(g.hoisted, cat(fmt.Sprintf("function gen%d() {", n), "  yield 'a' => 1;", "  yield 'b' => 2;", "}"))
		return cat(fmt.Sprintf("foreach (gen%d() as $k%d => $e%d) {", n, n, n), g.body(in), "}")
	})
	w("foreach-iterator", func(g *nestGen, in blk) blk {
		n := g.id()
		g.hoisted = append(g.hoisted, iteratorClass(n))
		return cat(fmt.Sprintf("foreach (new It%d() as $k%d => $e%d) {", n, n, n), g.body(in), "}")
	})
	w("foreach-aggregate", func(g *nestGen, in blk) blk {
		n := g.id()
		g.hoisted = append(g.hoisted, cat(fmt.Sprintf("class Ag%d implements IteratorAggregate {", n),
			"  public function getIterator(): Iterator {", "    return new ArrayIterator([1, 2]);", "  }", "}"))
		return cat(fmt.Sprintf("foreach (new Ag%d() as $e%d) {", n, n), g.body(in), "}")
	})
	w("while", func(g *nestGen, in blk) blk {
		n := g.id()
		return cat(fmt.Sprintf("$w%d = 0;", n), fmt.Sprintf("while ($w%d < 2) {", n), fmt.Sprintf("  $w%d++;", n), g.body(in), "}")
	})
	w("do-while", func(g *nestGen, in blk) blk {
		n := g.id()
		return cat(fmt.Sprintf("$d%d = 0;", n), "do {", g.body(in), fmt.Sprintf("} while ($d%d++ < 1);", n))
	})
	w("if", func(g *nestGen, in blk) blk {
		n := g.id()
		return cat(fmt.Sprintf("$c%d = 1;", n), fmt.Sprintf("if ($c%d == 1) {", n), g.body(in), "}")
	})
	w("else", func(g *nestGen, in blk) blk {
		n := g.id()
		return cat(fmt.Sprintf("$c%d = 1;", n), fmt.Sprintf("if ($c%d == 2) {", n), indent(cat(g.filler(1, 2))), "} else {", g.body(in), "}")
	})
	w("elseif", func(g *nestGen, in blk) blk {
		n := g.id()
		return cat(fmt.Sprintf("$c%d = 1;", n), fmt.Sprintf("if ($c%d == 2) {", n), indent(cat(g.filler(1, 1))),
			fmt.Sprintf("} elseif ($c%d == 1) {", n), g.body(in), "} else {", indent(cat(g.filler(1, 1))), "}")
	})
	w("else-if", func(g *nestGen, in blk) blk {
		n := g.id()
		return cat(fmt.Sprintf("$c%d = 1;", n), fmt.Sprintf("if ($c%d == 2) {", n), indent(cat(g.filler(1, 1))),
			fmt.Sprintf("} else if ($c%d == 1) {", n), g.body(in), "}")
	})
	w("switch-case", func(g *nestGen, in blk) blk {
		n := g.id()
		return cat(fmt.Sprintf("$c%d = 1;", n), fmt.Sprintf("switch ($c%d) {", n), "  case 0:", indent(indent(cat(g.filler(1, 1), "break;"))),
			"  case 1:", indent(g.body(in)), "    break;", "  default:", indent(indent(cat(g.filler(1, 1)))), "}")
	})
	w("switch-default", func(g *nestGen, in blk) blk {
		n := g.id()
		return cat(fmt.Sprintf("$c%d = 1;", n), fmt.Sprintf("switch ($c%d) {", n), "  case 0:", indent(indent(cat(g.filler(1, 1), "break;"))),
			"  default:", indent(g.body(in)), "}")
	})
	w("switch-fallthrough", func(g *nestGen, in blk) blk {
		n := g.id()
		return cat(fmt.Sprintf("$c%d = 1;", n), fmt.Sprintf("switch ($c%d) {", n), "  case 1:", indent(indent(cat(g.filler(1, 1)))),
			"  case 2:", indent(g.body(in)), "    break;", "}")
	})
	w("try-finally", func(g *nestGen, in blk) blk {
		return cat("try {", g.body(in), "} finally {", indent(cat(g.filler(1, 2))), "}")
	})
	w("try-catch-other", func(g *nestGen, in blk) blk {
		n := g.id()
		g.hoisted = append(g.hoisted, cat(fmt.Sprintf("class OtherErr%d extends Exception {", n), "}"))
		return cat("try {", g.body(in), fmt.Sprintf("} catch (OtherErr%d $x%d) {", n, n), indent(cat(g.filler(1, 1))), "}")
	})
	w("try-catch-other-finally", func(g *nestGen, in blk) blk {
		n := g.id()
		g.hoisted = append(g.hoisted, cat(fmt.Sprintf("class OtherErr%d extends Exception {", n), "}"), cat(fmt.Sprintf("class ThirdErr%d extends Exception {", n), "}"))
		return cat("try {", g.body(in), fmt.Sprintf("} catch (OtherErr%d | ThirdErr%d $x%d) {", n, n, n), indent(cat(g.filler(1, 1))),
			"} finally {", indent(cat(g.filler(1, 1))), "}")
	})
	w("try-rethrow", func(g *nestGen, in blk) blk {
		n := g.id()
		re := blk{lines: []string{fmt.Sprintf("throw $x%d;", n)}, fault: -1, alts: []int{0}}
		return cat("try {", g.body(in), fmt.Sprintf("} catch (\\Throwable $x%d) {", n), indent(cat(g.filler(1, 2), re)), "}")
	})
	w("finally-body", func(g *nestGen, in blk) blk {
		return cat("try {", indent(cat(g.filler(1, 2))), "} finally {", g.body(in), "}")
	})
	w("catch-body", func(g *nestGen, in blk) blk {
		n := g.id()
		g.hoisted = append(g.hoisted, cat(fmt.Sprintf("class OtherErr%d extends Exception {", n), "}"))
		return cat("try {", indent(cat(g.filler(1, 1), fmt.Sprintf("throw new OtherErr%d('first');", n))),
			fmt.Sprintf("} catch (OtherErr%d $x%d) {", n, n), g.body(in), "}")
	})

	// ---- callables: the piece becomes the body, the nest goes on around the call
	fr("function", func(g *nestGen, in blk) blk {
		n := g.id()
		g.hoisted = append(g.hoisted, cat(fmt.Sprintf("function ff%d($p) {", n), g.body(in), "  return $p;", "}"))
		return cat(fmt.Sprintf("ff%d(1);", n))
	})
	fr("function-multiline-call", func(g *nestGen, in blk) blk {
		n := g.id()
		g.hoisted = append(g.hoisted, cat(fmt.Sprintf("function ff%d($p, $q) {", n), g.body(in), "  return $p;", "}"))
		return cat(fmt.Sprintf("$r%d = ff%d(", n, n), "  1,", "  2", ");")
	})
	fr("function-nested-calls", func(g *nestGen, in blk) blk {
		n := g.id()
		g.hoisted = append(g.hoisted, cat(fmt.Sprintf("function ff%d($p) {", n), g.body(in), "  return $p;", "}"),
			cat(fmt.Sprintf("function id%d($p) {", n), "  return $p;", "}"))
		return cat(fmt.Sprintf("$r%d = id%d(id%d(", n, n, n), fmt.Sprintf("  ff%d(1)));", n))
	})
	fr("method", func(g *nestGen, in blk) blk {
		n := g.id()
		g.hoisted = append(g.hoisted, cat(fmt.Sprintf("class K%d {", n), "  public $f = 1;", indent(cat("public function m($p) {", g.body(in), "  return $this->f;", "}")), "}"))
		return cat(fmt.Sprintf("$o%d = new K%d();", n, n), fmt.Sprintf("$o%d->m(1);", n))
	})
	fr("method-chain", func(g *nestGen, in blk) blk {
		n := g.id()
		g.hoisted = append(g.hoisted, cat(fmt.Sprintf("class K%d {", n), "  public function self() {", "    return $this;", "  }",
			indent(cat("public function m($p) {", g.body(in), "  return $this;", "}")), "}"))
		return cat(fmt.Sprintf("$o%d = new K%d();", n, n), fmt.Sprintf("$o%d->self()", n), "  ->self()", "  ->m(1);")
	})
	fr("static-method", func(g *nestGen, in blk) blk {
		n := g.id()
		g.hoisted = append(g.hoisted, cat(fmt.Sprintf("class K%d {", n), indent(cat("public static function sm($p) {", g.body(in), "  return $p;", "}")), "}"))
		return cat(fmt.Sprintf("K%d::sm(1);", n))
	})
	fr("constructor", func(g *nestGen, in blk) blk {
		n := g.id()
		g.hoisted = append(g.hoisted, cat(fmt.Sprintf("class K%d {", n), indent(cat("public function __construct($p) {", g.body(in), "}")), "}"))
		return cat(fmt.Sprintf("$o%d = new K%d(1);", n, n))
	})
	fr("inherited-method", func(g *nestGen, in blk) blk {
		n := g.id()
		g.hoisted = append(g.hoisted, cat(fmt.Sprintf("class B%d {", n), indent(cat("public function m($p) {", g.body(in), "  return $p;", "}")), "}"),
			cat(fmt.Sprintf("class K%d extends B%d {", n, n), "  public function other() {", "    return 1;", "  }", "}"))
		return cat(fmt.Sprintf("$o%d = new K%d();", n, n), fmt.Sprintf("$o%d->m(1);", n))
	})
	fr("closure", func(g *nestGen, in blk) blk {
		n := g.id()
		return cat(fmt.Sprintf("$cl%d = function ($p) {", n), g.body(in), "  return $p;", "};", fmt.Sprintf("$cl%d(1);", n))
	})
	fr("closure-use", func(g *nestGen, in blk) blk {
		n := g.id()
		return cat(fmt.Sprintf("$cv%d = 5;", n), fmt.Sprintf("$cl%d = function () use ($cv%d) {", n, n), g.body(in), fmt.Sprintf("  return $cv%d;", n), "};", fmt.Sprintf("$cl%d();", n))
	})
	fr("closure-immediate", func(g *nestGen, in blk) blk {
		// a parenthesised closure whose body contains `=>` outside an array literal (arrow fn, match arm)
		// is a parse error ("参数缺少变量名", a parser limitation, not a location matter): those bodies
		// are called through a variable instead
		for _, l := range in.lines {
			if strings.Contains(l, "=>") {
				n := g.id()
				return cat(fmt.Sprintf("$ci%d = function () {", n), g.body(in), "};", fmt.Sprintf("$ci%d();", n))
			}
		}
		return cat("(function () {", g.body(in), "})();")
	})
	fr("callback-array_map", func(g *nestGen, in blk) blk {
		n := g.id()
		return cat(fmt.Sprintf("$r%d = array_map(function ($p) {", n), g.body(in), "  return $p;", "}, [1, 2]);")
	})
	fr("callback-call_user_func", func(g *nestGen, in blk) blk {
		n := g.id()
		return cat(fmt.Sprintf("$cl%d = function () {", n), g.body(in), "  return 1;", "};", fmt.Sprintf("call_user_func($cl%d);", n))
	})
	fr("generator-body", func(g *nestGen, in blk) blk {
		n := g.id()
		g.hoisted = append(g.hoisted, cat(fmt.Sprintf("function gb%d() {", n), "  yield 1;", g.body(in), "  yield 2;", "}"))
		return cat(fmt.Sprintf("foreach (gb%d() as $e%d) {", n, n), indent(cat(g.filler(1, 2))), "}")
	})
	fr("generator-body-first", func(g *nestGen, in blk) blk {
		n := g.id()
		g.hoisted = append(g.hoisted, cat(fmt.Sprintf("function gb%d() {", n), g.body(in), "  yield 1;", "}"))
		return cat(fmt.Sprintf("foreach (gb%d() as $e%d) {", n, n), indent(cat(g.filler(1, 2))), "}")
	})
	fr("iterator-next", func(g *nestGen, in blk) blk {
		n := g.id()
		g.hoisted = append(g.hoisted, iteratorClassWith(n, "next", in, g))
		return cat(fmt.Sprintf("foreach (new It%d() as $e%d) {", n, n), indent(cat(g.filler(1, 2))), "}")
	})
	fr("iterator-current", func(g *nestGen, in blk) blk {
		n := g.id()
		g.hoisted = append(g.hoisted, iteratorClassWith(n, "current", in, g))
		return cat(fmt.Sprintf("foreach (new It%d() as $e%d) {", n, n), indent(cat(g.filler(1, 2))), "}")
	})
	fr("magic-get", func(g *nestGen, in blk) blk {
		n := g.id()
		g.hoisted = append(g.hoisted, cat(fmt.Sprintf("class K%d {", n), indent(cat("public function __get($name) {", g.body(in), "  return 1;", "}")), "}"))
		return cat(fmt.Sprintf("$o%d = new K%d();", n, n), fmt.Sprintf("$s%d = $o%d->nothere;", n, n))
	})
	fr("magic-call", func(g *nestGen, in blk) blk {
		n := g.id()
		g.hoisted = append(g.hoisted, cat(fmt.Sprintf("class K%d {", n), indent(cat("public function __call($name, $args) {", g.body(in), "  return 1;", "}")), "}"))
		return cat(fmt.Sprintf("$o%d = new K%d();", n, n), fmt.Sprintf("$o%d->anything(1);", n))
	})
	fr("invoke", func(g *nestGen, in blk) blk {
		n := g.id()
		g.hoisted = append(g.hoisted, cat(fmt.Sprintf("class K%d {", n), indent(cat("public function __invoke($p) {", g.body(in), "  return $p;", "}")), "}"))
		return cat(fmt.Sprintf("$o%d = new K%d();", n, n), fmt.Sprintf("$o%d(1);", n))
	})
}

func iteratorClass(n int) blk {
	return cat(fmt.Sprintf("class It%d implements Iterator {", n), "  private $i = 0;",
		"  public function current(): mixed { return $this->i * 10; }",
		"  public function key(): mixed { return $this->i; }",
		"  public function next(): void { $this->i++; }",
		"  public function rewind(): void { $this->i = 0; }",
		"  public function valid(): bool { return $this->i < 2; }", "}")
}

// an Iterator class whose method `which` carries the piece
func iteratorClassWith(n int, which string, in blk, g *nestGen) blk {
	cur := any("  public function current(): mixed { return $this->i * 10; }")
	nxt := any("  public function next(): void { $this->i++; }")
	if which == "current" {
		cur = indent(cat("public function current(): mixed {", g.body(in), "  return $this->i * 10;", "}"))
	} else {
		nxt = indent(cat("public function next(): void {", g.body(in), "  $this->i++;", "}"))
	}
	return cat(fmt.Sprintf("class It%d implements Iterator {", n), "  private $i = 0;", cur,
		"  public function key(): mixed { return $this->i; }", nxt,
		"  public function rewind(): void { $this->i = 0; }",
		"  public function valid(): bool { return $this->i < 2; }", "}")
}

func wrapperByName(name string) *wrapper {
	for i := range wrappers {
		if wrappers[i].name == name {
			return &wrappers[i]
		}
	}
	return nil
}

func eformByName(name string) *eform {
	for i := range eforms {
		if eforms[i].name == name {
			return &eforms[i]
		}
	}
	return nil
}

func nfaultByKind(kind string) *nfault {
	for i := range nfaults {
		if nfaults[i].kind == kind {
			return &nfaults[i]
		}
	}
	return nil
}

// buildNest assembles the program for a fault, an embedding and a path of enclosing constructs
// (outermost first); r drives the fillers, the file kind and the line ends only.
func buildNest(r *vh.Rand, ft *nfault, ef *eform, path []string) nestCase {
	g := &nestGen{r: r}
	nc := nestCase{Mode: "nest", Ext: vh.Pick(r, []string{"zy", "php"}), CRLF: r.Chance(35), Kind: ft.kind, Form: ef.name, Path: path}
	var core blk
	if ft.expr != "" {
		core = ef.mk(ft.expr, g.id())
	} else {
		core = blk{lines: []string{ft.stmt}, fault: 0}
		nc.Form = "stmt"
	}
	cur := cat(ft.pre, core)
	if len(ft.hoist) > 0 {
		g.hoisted = append(g.hoisted, cat(ft.hoist))
	}
	if nc.Form == "nested-calls" {
		g.hoisted = append(g.hoisted, cat("function nid($p) {", "  return $p;", "}"))
	}
	return assemble(r, g, nc, cur, path)
}

// assemble wraps the piece into the enclosing constructs of path (outermost first), puts the hoisted
// declarations and fillers around it and fills in the lines and the fault line of nc
func assemble(r *vh.Rand, g *nestGen, nc nestCase, cur blk, path []string) nestCase {
	for i := len(path) - 1; i >= 0; i-- {
		w := wrapperByName(path[i])
		if w == nil {
			continue
		}
		cur = w.apply(g, cur)
	}
	shebang := r.Chance(20)
	var top blk
	switch {
	case shebang:
		top = cat("#!/usr/bin/env zy", "<?php")
	case nc.Ext == "php":
		top = cat("<?php")
	default:
		top = cat()
	}
	top = cat(top, g.filler(1, 3)) // never on line 1: a default location is line 1
	for _, h := range g.hoisted {
		top = cat(top, h)
		if r.Chance(30) {
			top = cat(top, g.filler(1, 1))
		}
	}
	top = cat(top, g.filler(0, 2), cur, g.filler(0, 2), "echo 'end';")
	nc.Lines = top.lines
	nc.Fault = top.fault + 1
	for _, a := range top.alts {
		nc.Alt = append(nc.Alt, a+1)
	}
	return nc
}

// ---------------------------------------------------------------- interpolation in multi-line literals (round 5)

// What may stand in a string / heredoc before the interpolated fragment. The line of the fragment is
// computed from positions inside the literal, so everything that makes rune index, byte offset and
// column differ, or that a position scan could mistake for something else, goes here.
type strSeg struct {
	name, text string
	quoted     bool // legal in a double-quoted string
	heredoc    bool // legal in a heredoc
}

var strSegs = []strSeg{
	{"ascii", "plain ascii text", true, true},
	{"empty", "", true, true},
	{"latin2", strings.Repeat("é", 14), true, true},
	{"cjk3", "标题：这是一个很长的中文标题", true, true},
	{"emoji4", strings.Repeat("😀", 9), true, true},
	{"mixed", "aé中😀 aé中😀 aé中😀", true, true},
	{"escaped-quote", `say \"hi\" twice \"ok\"`, true, false},
	{"escape-seq", `tab\there\nnot a line end\\`, true, true},
	{"simple-var", "value $pv and $pv", true, true},
	{"braced-var", "value {$pv} and {$pv}", true, true},
	{"braces-text", "json { \"a\": 1 } text", false, true},
}

func strSegByName(n string) *strSeg {
	for i := range strSegs {
		if strSegs[i].name == n {
			return &strSegs[i]
		}
	}
	return nil
}

var interpQuotings = []string{"quoted-brace", "quoted-at", "heredoc-brace", "heredoc-blank-first"}

// buildInterp: a literal of the given quoting whose lines before the fragment are prev, with same in
// front of the fragment on its own line
func buildInterp(r *vh.Rand, quoting string, prev []*strSeg, same *strSeg, path []string) (nestCase, bool) {
	heredoc := strings.HasPrefix(quoting, "heredoc")
	for _, sg := range append(append([]*strSeg{}, prev...), same) {
		if heredoc && !sg.heredoc || !heredoc && !sg.quoted {
			return nestCase{}, false
		}
	}
	g := &nestGen{r: r}
	n := g.id()
	var frag, kind string
	pre := []string{"$pv = 'p';"}
	switch quoting {
	case "quoted-at":
		frag, kind = "@{undefined_fn_xyz(1)}", "undefined-fn"
	default:
		frag, kind = "{$ob->nope()}", "undefined-method"
		pre = append(pre, "$ob = new stdClass();")
	}
	var names []string
	var lines []string
	open := fmt.Sprintf("$r%d = \"", n)
	if heredoc {
		lines = append(lines, fmt.Sprintf("$r%d = <<<EOT", n))
		open = ""
		if quoting == "heredoc-blank-first" {
			lines = append(lines, "") // a blank first body line (ExtractHeredocBody skips it)
		}
	}
	for i, sg := range prev {
		names = append(names, sg.name)
		if i == 0 {
			lines = append(lines, open+sg.text)
		} else {
			lines = append(lines, sg.text)
		}
	}
	if len(prev) == 0 {
		lines = append(lines, open+"first")
	}
	fl := same.text + " " + frag + " tail"
	if heredoc {
		lines = append(lines, fl, "EOT;")
	} else {
		lines = append(lines, fl+"\";")
	}
	core := blk{lines: lines, fault: len(lines) - 1}
	if heredoc {
		core.fault = len(lines) - 2
	}
	nc := nestCase{Mode: "nest", Ext: vh.Pick(r, []string{"zy", "php"}), CRLF: r.Chance(35), Kind: kind,
		Form: "interp:" + quoting + ":" + strings.Join(names, "+") + "/" + same.name, Path: path}
	return assemble(r, g, nc, cat(pre, core), path), true
}

func (nc nestCase) source() string {
	return locCase{CRLF: nc.CRLF, Lines: nc.Lines}.source()
}
