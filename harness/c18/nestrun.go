package c18

import (
	"bytes"
	"context"
	"encoding/json"
	"fmt"
	"os"
	"os/exec"
	"path/filepath"
	"regexp"
	"strconv"
	"strings"
	"time"

	"verif/harness/vh"
)

// formsFor: the embeddings in which a faulty expression is legal / meaningful
func formOK(ft *nfault, ef *eform) bool {
	if ft.expr == "" {
		return ef.name == "stmt"
	}
	switch ft.kind {
	case "throw-expr":
		switch ef.name {
		case "stmt", "ternary", "coalesce", "match-arm", "match-default":
			return true
		}
		return false
	case "clone-non-object":
		if strings.HasPrefix(ef.name, "interpolation") || ef.name == "foreach-subject" {
			return false
		}
	}
	if ef.name == "interpolation" || ef.name == "interpolation-heredoc" {
		return strings.HasPrefix(ft.expr, "$") && !strings.HasSuffix(ft.expr, "$zero)")
	}
	if ef.name == "foreach-subject" {
		// the error must come from evaluating the subject, not from iterating its value
		return true
	}
	return true
}

func nestSig(nc nestCase, got int) string {
	// the innermost enclosing construct whose line was reported instead names the failure best, but
	// is not known here: the signature is the fault kind, its embedding and the set of constructs
	sig := "nest:" + nc.Kind
	if got == -1 {
		return sig + ":none"
	}
	seen := map[string]bool{}
	var ps []string
	for _, p := range nc.Path {
		if !seen[p] {
			seen[p] = true
			ps = append(ps, p)
		}
	}
	return sig + ":" + nc.Form + ":" + strings.Join(ps, ">")
}

func (nc nestCase) accepts(line int) bool {
	if line == nc.Fault {
		return true
	}
	for _, a := range nc.Alt {
		if a == line {
			return true
		}
	}
	return false
}

func checkNest(c *vh.Ctx, nc nestCase, n int) bool {
	var got int
	var what, file string
	if nc.CLI {
		got, what = cliReportedLine(c, nc, n)
		if got == -2 {
			return true // binary not available: noted once
		}
		c.Hit("nest:cli")
	} else {
		got, file, what = reportedFileLine(c, nc.source(), nc.Ext, n)
	}
	key := fmt.Sprintf("nest|%v|%s|%v|%s", nc.CLI, nc.Ext, nc.CRLF, strings.Join(nc.Lines, "\n"))
	c.Eval(key, len(nc.Path) >= 1 || nc.Form != "stmt")
	c.Hit("nest:fault:" + nc.Kind)
	c.Hit("nest:form:" + nc.Form)
	c.Hit(fmt.Sprintf("nest:depth:%d", len(nc.Path)))
	for _, p := range nc.Path {
		c.Hit("nest:in:" + p)
	}
	c.SampleSome(map[string]any{"nest-kind": nc.Kind, "form": nc.Form, "path": nc.Path, "ext": nc.Ext, "crlf": nc.CRLF, "cli": nc.CLI, "fault_line": nc.Fault, "reported": got}, 97)
	if nc.accepts(got) {
		return true
	}
	if f := os.Getenv("C18_DUMP"); f != "" { // development aid: every failing case, one JSON object per line
		if fh, err := os.OpenFile(f, os.O_APPEND|os.O_CREATE|os.O_WRONLY, 0o644); err == nil {
			b, _ := json.Marshal(map[string]any{"case": nc, "got": got, "what": what})
			fh.Write(append(b, '\n'))
			fh.Close()
		}
	}
	via := "Error.From of the uncaught error"
	if nc.CLI {
		via = "the diagnostic printed by the binary"
	}
	if strings.HasPrefix(nc.Kind, "builtin:") && got == -1 && !nc.CLI && strings.HasPrefix(what, "error without a location") {
		// the binary prints `in :1:1` for it (ShowControl falls back to the base parser's current token);
		// under a `for` body the loop fills in its statement
		c.Violation("loc:builtin:no-location", fmt.Sprintf("error raised by a built-in (%s) on line %d of the script under [%s]: %s", nc.Kind, nc.Fault, strings.Join(nc.Path, " > "), what), nc)
		return false
	}
	if strings.HasPrefix(nc.Kind, "builtin:") && got == -1 && !nc.CLI && strings.HasPrefix(what, "location names file") {
		// known findings: an error raised by Go code of the interpreter is located in the interpreter's own
		// source (utils.NewThrow: runtime.Caller), not in the script
		sig := ""
		if strings.HasSuffix(file, ".go") {
			sig = "loc:builtin:go-source"
		}
		if sig != "" {
			c.Violation(sig, fmt.Sprintf("error raised by a built-in (%s) on line %d of the script under [%s]: %s", nc.Kind, nc.Fault, strings.Join(nc.Path, " > "), what), nc)
			return false
		}
	}
	c.Violation(nestSig(nc, got), fmt.Sprintf("fault %q (%s) planted on line %d of a .%s file (crlf=%v) under [%s] is reported on line %d by %s (%s)",
		nc.Kind, nc.Form, nc.Fault, nc.Ext, nc.CRLF, strings.Join(nc.Path, " > "), got, via, what), nc)
	return false
}

// ---------------------------------------------------------------- the real binary

var (
	cliBin   string
	cliTried bool
)

func goEnv() []string {
	var env []string
	for _, e := range os.Environ() {
		if strings.HasPrefix(e, "GOFLAGS=") || strings.HasPrefix(e, "GOPROXY=") || strings.HasPrefix(e, "GOTOOLCHAIN=") || strings.HasPrefix(e, "GOSUMDB=") {
			continue
		}
		env = append(env, e)
	}
	return append(env, "GOFLAGS=-mod=mod", "GOPROXY=off")
}

func buildCLI(c *vh.Ctx) string {
	if cliTried {
		return cliBin
	}
	cliTried = true
	bin := filepath.Join(c.Scratch, "zy")
	ctx, cancel := context.WithTimeout(context.Background(), 10*time.Minute)
	defer cancel()
	cmd := exec.CommandContext(ctx, "go", "build", "-o", bin, ".")
	cmd.Dir = c.Repo
	cmd.Env = goEnv()
	if out, err := cmd.CombinedOutput(); err != nil {
		ls := strings.Split(strings.TrimSpace(string(out)), "\n")
		c.Mismatch(map[string]string{"mode": "nest-cli"}, fmt.Sprintf("go build %s: %v: %s", c.Repo, err, ls[len(ls)-1]), "", "the interpreter binary could not be built from the tree; printed locations not judged")
		return ""
	}
	cliBin = bin
	return bin
}

var (
	reFatal  = regexp.MustCompile(`(?m)^(?:ZY |PHP )?(?:Fatal error|Parse error|Warning)[^\n]* in (\S+?):(\d+)(?::(\d+))?\s*$`)
	reThrown = regexp.MustCompile(`(?m)^\s*thrown at (\S+?):(\d+):(\d+)\s*$`)
	reOnLine = regexp.MustCompile(`(?m) in (\S+) on line (\d+)\s*$`)
)

// cliReportedLine runs the binary on the program and parses `… in <file>:<line>[:<col>]` from its
// diagnostic; the file must be the script, and a `thrown at` line, when printed, must agree.
func cliReportedLine(c *vh.Ctx, nc nestCase, n int) (int, string) {
	bin := buildCLI(c)
	if bin == "" {
		return -2, ""
	}
	dir := filepath.Join(c.Scratch, "nestcli")
	os.MkdirAll(dir, 0o755)
	path := filepath.Join(dir, fmt.Sprintf("n%d.%s", n, nc.Ext))
	os.WriteFile(path, []byte(nc.source()), 0o644)
	defer os.Remove(path)
	ctx, cancel := context.WithTimeout(context.Background(), 30*time.Second)
	defer cancel()
	cmd := exec.CommandContext(ctx, bin, path)
	cmd.Dir = dir
	var so, se bytes.Buffer
	cmd.Stdout, cmd.Stderr = &so, &se
	cmd.WaitDelay = 2 * time.Second
	cmd.Run()
	if ctx.Err() != nil {
		return -1, "binary did not terminate within 30 s"
	}
	all := se.String() + "\n" + so.String()
	file, line := "", -1
	if m := reFatal.FindStringSubmatch(all); m != nil {
		file = m[1]
		line, _ = strconv.Atoi(m[2])
	} else if m := reOnLine.FindStringSubmatch(all); m != nil {
		file = m[1]
		line, _ = strconv.Atoi(m[2])
	} else {
		return -1, "no `in <file>:<line>` diagnostic: " + trunc(strings.TrimSpace(all), 200)
	}
	first := firstLineOf(strings.TrimSpace(se.String()))
	if filepath.Base(file) != filepath.Base(path) {
		return -1, fmt.Sprintf("diagnostic names file %s, the script is %s: %s", file, path, first)
	}
	if m := reThrown.FindStringSubmatch(all); m != nil {
		if tl, _ := strconv.Atoi(m[2]); tl != line {
			// two different lines printed for one error: report the one that is wrong
			if nc.accepts(line) {
				return tl, "`thrown at` line differs from the `in` line: " + first
			}
		}
	}
	return line, first
}

// ---------------------------------------------------------------- streams

// past failures, repaired in the repository (props/C18.json, status fixed): re-run first on every run
var pastNest = []nestCase{
	// 723fdcd: "class not found" was located at `:1:1` of no file
	{Mode: "nest", Ext: "php", Lines: []string{"<?php", "$a = 1;", "$b = 2;", "$r = new NoSuchClassXyz();", "echo 'end';"}, Fault: 4, Kind: "undefined-class", Form: "assign"},
	{Mode: "nest", Ext: "zy", Lines: []string{"$a = 1;", "function ff1($p) {", "  $q = 2;", "  return NoSuchClassXyz::m();", "}", "ff1(1);", "echo 'end';"}, Fault: 4, Kind: "undefined-static", Form: "return", Path: []string{"function"}},
	// eb1d0e7: an interpolation on the n-th line of a string / heredoc was located on the line the literal starts
	{Mode: "nest", Ext: "php", Lines: []string{"<?php", "$ob = new stdClass();", "$t = \"line one", "  {$ob->nope()} two\";", "echo 'end';"}, Fault: 4, Kind: "undefined-method", Form: "interpolation"},
	{Mode: "nest", Ext: "zy", Lines: []string{"$ob = new stdClass();", "$t = <<<EOT", "first line", "", "second {$ob->nope()} line", "EOT;", "echo 'end';"}, Fault: 5, Kind: "undefined-method", Form: "interpolation-heredoc"},
	// f0ffd63: an argument refused by a built-in function's typed parameter had no location at all (`in :1:1`)
	{Mode: "nest", Ext: "zy", Lines: []string{"$a = 1;", "$five = 5;", "$r1 = array_filter([1], $five);", "echo 'end';"}, Fault: 3, Kind: "builtin:typed-parameter", Form: "assign"},
}

func runNest(c *vh.Ctx) {
	n := 0
	run := func(nc nestCase) {
		checkNest(c, nc, n)
		n++
	}
	// errors raised by built-in functions (Go code): kept out of the main streams, confirmed here
	for i := range builtinFaults {
		for _, path := range [][]string{nil, {"for"}, {"function"}, {"method", "foreach-generator"}} {
			run(buildNest(c.Rand, &builtinFaults[i], &eforms[1], path))
		}
	}
	for _, nc := range pastNest {
		run(nc)
		nc.CLI = true
		run(nc)
	}
	// 1. complete small space: every enclosing construct alone and every ordered pair of them, with a
	// fault / embedding chosen per case (the pair space is covered with a rotating fault kind)
	runtimeFaults := []*nfault{}
	for i := range nfaults {
		if !nfaults[i].parse {
			runtimeFaults = append(runtimeFaults, &nfaults[i])
		}
	}
	k := int(c.Seed)
	pick := func() (*nfault, *eform) {
		for {
			k++
			ft := runtimeFaults[k%len(runtimeFaults)]
			ef := &eforms[(k/len(runtimeFaults)+k)%len(eforms)]
			if ft.expr == "" {
				return ft, &eforms[0]
			}
			if formOK(ft, ef) {
				return ft, ef
			}
		}
	}
	// every fault × every embedding, bare and under one loop
	for i := range nfaults {
		for j := range eforms {
			ft, ef := &nfaults[i], &eforms[j]
			if !formOK(ft, ef) || ft.parse && ef.name != "stmt" {
				continue
			}
			run(buildNest(c.Rand, ft, ef, nil))
			run(buildNest(c.Rand, ft, ef, []string{"for"}))
		}
	}
	for i := range wrappers {
		for _, ft := range runtimeFaults {
			ef := &eforms[0]
			if ft.expr != "" {
				ef = &eforms[1]
			}
			run(buildNest(c.Rand, ft, ef, []string{wrappers[i].name}))
		}
		for j := range nfaults {
			if nfaults[j].parse {
				run(buildNest(c.Rand, &nfaults[j], &eforms[0], []string{wrappers[i].name}))
			}
		}
	}
	for i := range wrappers {
		for j := range wrappers {
			ft, ef := pick()
			run(buildNest(c.Rand, ft, ef, []string{wrappers[i].name, wrappers[j].name}))
		}
	}
	// interpolation in multi-line literals: every quoting × every kind of text on the line before the
	// fragment × every kind of text in front of it on its own line (bare), then two lines before
	// it (under a loop / in a function)
	for _, q := range interpQuotings {
		for i := range strSegs {
			for j := range strSegs {
				if nc, ok := buildInterp(c.Rand, q, []*strSeg{&strSegs[i]}, &strSegs[j], nil); ok {
					run(nc)
				}
				if nc, ok := buildInterp(c.Rand, q, []*strSeg{&strSegs[j], &strSegs[i]}, &strSegs[0], vh.Pick(c.Rand, [][]string{{"for"}, {"function"}, {"method", "while"}})); ok {
					run(nc)
				}
			}
		}
	}
	for i := 0; i < c.N(300, 6000); i++ {
		var prev []*strSeg
		for k := c.Rand.Range(0, 4); k > 0; k-- {
			prev = append(prev, &strSegs[c.Rand.Intn(len(strSegs))])
		}
		depth := c.Rand.Intn(3)
		var path []string
		for k := 0; k < depth; k++ {
			path = append(path, wrappers[c.Rand.Intn(len(wrappers))].name)
		}
		if nc, ok := buildInterp(c.Rand, vh.Pick(c.Rand, interpQuotings), prev, &strSegs[c.Rand.Intn(len(strSegs))], path); ok {
			nc.CLI = i%25 == 0
			run(nc)
		}
	}
	c.Res.ExhaustiveWhat += "; error locations: every fault kind × every embedding (bare and under a loop), every enclosing construct × every fault kind, every ordered pair of the " + fmt.Sprint(len(wrappers)) + " enclosing constructs; interpolation in multi-line literals: 4 quotings × every ordered pair of the " + fmt.Sprint(len(strSegs)) + " kinds of preceding text (ASCII, 2/3/4-byte UTF-8, escapes, earlier interpolations)"
	// 2. seeded deeper nests
	for i := 0; i < c.N(1200, 30000); i++ {
		run(genNestOK(c.Rand))
	}
	// 3. the same through the real binary (the printed message)
	for i := 0; i < c.N(120, 2500); i++ {
		nc := genNestOK(c.Rand)
		nc.CLI = true
		run(nc)
	}
}

func genNestOK(r *vh.Rand) nestCase {
	for {
		ft := &nfaults[r.Intn(len(nfaults))]
		ef := &eforms[r.Intn(len(eforms))]
		if ft.parse || ft.expr == "" {
			ef = &eforms[0]
		}
		if !formOK(ft, ef) {
			continue
		}
		depth := vh.Pick(r, []int{0, 1, 1, 2, 2, 2, 3, 3, 4})
		var path []string
		for i := 0; i < depth; i++ {
			path = append(path, wrappers[r.Intn(len(wrappers))].name)
		}
		return buildNest(r, ft, ef, path)
	}
}

func runNestReplay(c *vh.Ctx, raw json.RawMessage) {
	var nc nestCase
	if json.Unmarshal(raw, &nc) == nil {
		checkNest(c, nc, 0)
	}
}
