package c18

import (
	"bytes"
	"context"
	"encoding/json"
	"fmt"
	"os"
	"os/exec"
	"path/filepath"
	"regexp"
	"strconv"
	"strings"
	"time"

	"verif/harness/vh"
)

// formsFor: the embeddings in which a faulty expression is legal / meaningful
func formOK(ft *nfault, ef *eform) bool {
	if ft.expr == "" {
		return ef.name == "stmt"
	}
	switch ft.kind {
	case "throw-expr":
		switch ef.name {
		case "stmt", "ternary", "coalesce", "match-arm", "match-default":
			return true
		}
		return false
	}
	if ef.name == "interpolation" {
		return strings.HasPrefix(ft.expr, "$")
	}
	if ef.name == "foreach-subject" {
		// the error must come from evaluating the subject, not from iterating its value
		return true
	}
	return true
}

func nestSig(nc nestCase, got int) string {
	// the innermost enclosing construct whose line was reported instead names the failure best, but
	// is not known here: the signature is the fault kind, its embedding and the set of constructs
	sig := "nest:" + nc.Kind
	if got == -1 {
		return sig + ":none"
	}
	seen := map[string]bool{}
	var ps []string
	for _, p := range nc.Path {
		if !seen[p] {
			seen[p] = true
			ps = append(ps, p)
		}
	}
	return sig + ":" + nc.Form + ":" + strings.Join(ps, ">")
}

func (nc nestCase) accepts(line int) bool {
	if line == nc.Fault {
		return true
	}
	for _, a := range nc.Alt {
		if a == line {
			return true
		}
	}
	return false
}

func checkNest(c *vh.Ctx, nc nestCase, n int) bool {
	var got int
	var what string
	if nc.CLI {
		got, what = cliReportedLine(c, nc, n)
		if got == -2 {
			return true // binary not available: noted once
		}
		c.Hit("nest:cli")
	} else {
		got, what = reportedAt(c, nc.source(), nc.Ext, n)
	}
	key := fmt.Sprintf("nest|%v|%s|%v|%s", nc.CLI, nc.Ext, nc.CRLF, strings.Join(nc.Lines, "\n"))
	c.Eval(key, len(nc.Path) >= 1 || nc.Form != "stmt")
	c.Hit("nest:fault:" + nc.Kind)
	c.Hit("nest:form:" + nc.Form)
	c.Hit(fmt.Sprintf("nest:depth:%d", len(nc.Path)))
	for _, p := range nc.Path {
		c.Hit("nest:in:" + p)
	}
	c.SampleSome(map[string]any{"nest-kind": nc.Kind, "form": nc.Form, "path": nc.Path, "ext": nc.Ext, "crlf": nc.CRLF, "cli": nc.CLI, "fault_line": nc.Fault, "reported": got}, 97)
	if nc.accepts(got) {
		return true
	}
	via := "Error.From of the uncaught error"
	if nc.CLI {
		via = "the diagnostic printed by the binary"
	}
	c.Violation(nestSig(nc, got), fmt.Sprintf("fault %q (%s) planted on line %d of a .%s file (crlf=%v) under [%s] is reported on line %d by %s (%s)",
		nc.Kind, nc.Form, nc.Fault, nc.Ext, nc.CRLF, strings.Join(nc.Path, " > "), got, via, what), nc)
	return false
}

// ---------------------------------------------------------------- the real binary

var (
	cliBin   string
	cliTried bool
)

func goEnv() []string {
	var env []string
	for _, e := range os.Environ() {
		if strings.HasPrefix(e, "GOFLAGS=") || strings.HasPrefix(e, "GOPROXY=") || strings.HasPrefix(e, "GOTOOLCHAIN=") || strings.HasPrefix(e, "GOSUMDB=") {
			continue
		}
		env = append(env, e)
	}
	return append(env, "GOFLAGS=-mod=mod", "GOPROXY=off")
}

func buildCLI(c *vh.Ctx) string {
	if cliTried {
		return cliBin
	}
	cliTried = true
	bin := filepath.Join(c.Scratch, "zy")
	ctx, cancel := context.WithTimeout(context.Background(), 10*time.Minute)
	defer cancel()
	cmd := exec.CommandContext(ctx, "go", "build", "-o", bin, ".")
	cmd.Dir = c.Repo
	cmd.Env = goEnv()
	if out, err := cmd.CombinedOutput(); err != nil {
		ls := strings.Split(strings.TrimSpace(string(out)), "\n")
		c.Mismatch(map[string]string{"mode": "nest-cli"}, fmt.Sprintf("go build %s: %v: %s", c.Repo, err, ls[len(ls)-1]), "", "the interpreter binary could not be built from the tree; printed locations not judged")
		return ""
	}
	cliBin = bin
	return bin
}

var (
	reFatal  = regexp.MustCompile(`(?m)^(?:ZY |PHP )?(?:Fatal error|Parse error|Warning)[^\n]* in (\S+?):(\d+)(?::(\d+))?\s*$`)
	reThrown = regexp.MustCompile(`(?m)^\s*thrown at (\S+?):(\d+):(\d+)\s*$`)
	reOnLine = regexp.MustCompile(`(?m) in (\S+) on line (\d+)\s*$`)
)

// cliReportedLine runs the binary on the program and parses `… in <file>:<line>[:<col>]` from its
// diagnostic; the file must be the script, and a `thrown at` line, when printed, must agree.
func cliReportedLine(c *vh.Ctx, nc nestCase, n int) (int, string) {
	bin := buildCLI(c)
	if bin == "" {
		return -2, ""
	}
	dir := filepath.Join(c.Scratch, "nestcli")
	os.MkdirAll(dir, 0o755)
	path := filepath.Join(dir, fmt.Sprintf("n%d.%s", n, nc.Ext))
	os.WriteFile(path, []byte(nc.source()), 0o644)
	defer os.Remove(path)
	ctx, cancel := context.WithTimeout(context.Background(), 30*time.Second)
	defer cancel()
	cmd := exec.CommandContext(ctx, bin, path)
	cmd.Dir = dir
	var so, se bytes.Buffer
	cmd.Stdout, cmd.Stderr = &so, &se
	cmd.WaitDelay = 2 * time.Second
	cmd.Run()
	if ctx.Err() != nil {
		return -1, "binary did not terminate within 30 s"
	}
	all := se.String() + "\n" + so.String()
	file, line := "", -1
	if m := reFatal.FindStringSubmatch(all); m != nil {
		file = m[1]
		line, _ = strconv.Atoi(m[2])
	} else if m := reOnLine.FindStringSubmatch(all); m != nil {
		file = m[1]
		line, _ = strconv.Atoi(m[2])
	} else {
		return -1, "no `in <file>:<line>` diagnostic: " + trunc(strings.TrimSpace(all), 200)
	}
	first := firstLineOf(strings.TrimSpace(se.String()))
	if filepath.Base(file) != filepath.Base(path) {
		return -1, fmt.Sprintf("diagnostic names file %s, the script is %s: %s", file, path, first)
	}
	if m := reThrown.FindStringSubmatch(all); m != nil {
		if tl, _ := strconv.Atoi(m[2]); tl != line {
			// two different lines printed for one error: report the one that is wrong
			if nc.accepts(line) {
				return tl, "`thrown at` line differs from the `in` line: " + first
			}
		}
	}
	return line, first
}

// ---------------------------------------------------------------- streams

func runNest(c *vh.Ctx) {
	n := 0
	run := func(nc nestCase) {
		checkNest(c, nc, n)
		n++
	}
	// 1. complete small space: every enclosing construct alone and every ordered pair of them, with a
	// fault / embedding chosen per case (the pair space is covered with a rotating fault kind)
	runtimeFaults := []*nfault{}
	for i := range nfaults {
		if !nfaults[i].parse {
			runtimeFaults = append(runtimeFaults, &nfaults[i])
		}
	}
	k := int(c.Seed)
	pick := func() (*nfault, *eform) {
		for {
			k++
			ft := runtimeFaults[k%len(runtimeFaults)]
			ef := &eforms[(k/len(runtimeFaults)+k)%len(eforms)]
			if ft.expr == "" {
				return ft, &eforms[0]
			}
			if formOK(ft, ef) {
				return ft, ef
			}
		}
	}
	// every fault × every embedding, bare and under one loop
	for i := range nfaults {
		for j := range eforms {
			ft, ef := &nfaults[i], &eforms[j]
			if !formOK(ft, ef) || ft.parse && ef.name != "stmt" {
				continue
			}
			run(buildNest(c.Rand, ft, ef, nil))
			run(buildNest(c.Rand, ft, ef, []string{"for"}))
		}
	}
	for i := range wrappers {
		for _, ft := range runtimeFaults {
			ef := &eforms[0]
			if ft.expr != "" {
				ef = &eforms[1]
			}
			run(buildNest(c.Rand, ft, ef, []string{wrappers[i].name}))
		}
		for j := range nfaults {
			if nfaults[j].parse {
				run(buildNest(c.Rand, &nfaults[j], &eforms[0], []string{wrappers[i].name}))
			}
		}
	}
	for i := range wrappers {
		for j := range wrappers {
			ft, ef := pick()
			run(buildNest(c.Rand, ft, ef, []string{wrappers[i].name, wrappers[j].name}))
		}
	}
	c.Res.ExhaustiveWhat += "; error locations: every fault kind × every embedding (bare and under a loop), every enclosing construct × every fault kind, every ordered pair of the " + fmt.Sprint(len(wrappers)) + " enclosing constructs"
	// 2. seeded deeper nests
	for i := 0; i < c.N(1200, 30000); i++ {
		run(genNestOK(c.Rand))
	}
	// 3. the same through the real binary (the printed message)
	for i := 0; i < c.N(120, 2500); i++ {
		nc := genNestOK(c.Rand)
		nc.CLI = true
		run(nc)
	}
}

func genNestOK(r *vh.Rand) nestCase {
	for {
		ft := &nfaults[r.Intn(len(nfaults))]
		ef := &eforms[r.Intn(len(eforms))]
		if ft.parse || ft.expr == "" {
			ef = &eforms[0]
		}
		if !formOK(ft, ef) {
			continue
		}
		depth := vh.Pick(r, []int{0, 1, 1, 2, 2, 2, 3, 3, 4})
		var path []string
		for i := 0; i < depth; i++ {
			path = append(path, wrappers[r.Intn(len(wrappers))].name)
		}
		return buildNest(r, ft, ef, path)
	}
}

func runNestReplay(c *vh.Ctx, raw json.RawMessage) {
	var nc nestCase
	if json.Unmarshal(raw, &nc) == nil {
		checkNest(c, nc, 0)
	}
}
