// Package c18: token spans (correspondence of the top-level token list with
// Model.Lex through vm_c01, and the four span laws judged directly on the Go
// output) — error-location clause: see loc.go.
package c18

import (
	"encoding/hex"
	"encoding/json"
	"fmt"
	"os"
	"strings"
	"unicode/utf8"

	"github.com/php-any/origami/token"

	"verif/harness/lexh"
	"verif/harness/vh"
)

func init() { vh.Register("C18", Run) }

type Case struct {
	Name string `json:"name"`
	Mode string `json:"mode"`
	Hex  string `json:"hex"`
}

// lawSig classifies a span-law violation for the known-findings file.
func lawSig(src string, mode string, v lexh.LawViolation, toks []lexh.Tok) string {
	t := toks[v.Tok]
	switch v.Law {
	case "line":
		return "span:line:" + kindOf(t)
	case "literal":
		if !utf8.ValidString(src[t.Start:t.End]) {
			return "span:literal:invalid-utf8"
		}
		if token.TokenType(t.Ty) == token.IDENTIFIER && strings.HasPrefix(t.Lit, "\\") && strings.HasPrefix(src[t.Start:t.End], "\\") {
			// `\` merged with following name tokens across white space / an HTML part
			return "span:literal:ns-merge-gap"
		}
		return "span:literal:" + kindOf(t)
	}
	return "span:" + v.Law
}

func kindOf(t lexh.Tok) string { return fmt.Sprintf("type%d", t.Ty) }

func Run(c *vh.Ctx) {
	defer lexh.RemoveLexDir()
	var m *vh.Model
	if c.ModelPath != "" {
		var err error
		if m, err = vh.StartModel(c.ModelPath); err != nil {
			c.Note("cannot start model: %v", err)
			m = nil
		} else {
			defer m.Close()
			c.Res.ModelUsed = true
		}
	}
	var cases []Case
	add := func(name, mode, src string) {
		cases = append(cases, Case{name, mode, hex.EncodeToString([]byte(src))})
	}
	if os.Getenv("C18_ONLY") == "nest" && len(c.ReplayRaw) == 0 { // development aid: only the nested error-location streams
		runNest(c)
		return
	}
	if len(c.ReplayRaw) > 0 {
		var rc Case
		if err := json.Unmarshal(c.ReplayRaw, &rc); err != nil {
			c.Note("bad replay: %v", err)
			return
		}
		if rc.Kind() == "loc" {
			runLocReplay(c, c.ReplayRaw)
			return
		}
		if rc.Kind() == "nest" {
			runNestReplay(c, c.ReplayRaw)
			return
		}
		cases = []Case{rc}
	} else {
		c.Res.Rule = "inputs: every file of the tests/+examples/ corpus in both lexing modes; seeded mutants of corpus files (CRLF, multi-byte and raw bytes, heredocs, interpolation, inline HTML, truncation, deletion, duplication); snippet-built programs and their mutants; all 1- and 2-byte strings over a boundary alphabet. non-trivial = input yields at least 3 top-level tokens; distinct = distinct (mode, input bytes)"
		// past failures and the replays of the known findings run first
		for _, pf := range [][2]string{{"s", "#!a\nx"}, {"s", "\\ App"}, {"s", "\\\xe3"}, {"s", "$a;\n// c\r\n$b"}, {"s", "b'a\nb'; $x;"},
			{"t", "<?php $a;\n// c\r\n$b"}, {"s", "\\class\\use\\Foo::x()"}, {"t", "<?php \\ ?>abc<?php \\x"}, {"t", "<?php echo \"1\"; \\ ?>abc<?php echo \"2\";"}, {"s", "<<<X\nabc \"q\" $x"},
			{"s", "$n = 1;\n$i = <<<MSG\nHello, $n!\nMSG;"}, {"t", "<?php\n$i = <<<MSG\n\n\nHello, {$n}\nMSG;\n$x"},
			{"s", "$a = 1;\n$h = <<<EOT\nx\ry\nhello $a\nEOT;\n"}, // known: frag:line:heredoc-lone-cr
			{"s", "$s = \"标题：这是一个很长的中文标题\n{$o->nope()} end\";"}, {"s", "$h = <<<EOT\n中文中文中文中文\n\nsecond {$o->nope()} line $a\nEOT;\n"}} { // 7866f92: heredoc with interpolation carried the line of its body
			add("past", pf[0], pf[1])
		}
		corpus := lexh.Corpus(c.Repo)
		c.Note("corpus files: %d", len(corpus))
		for _, in := range corpus {
			add(in.Name, "s", in.Src)
			add(in.Name, "t", in.Src)
		}
		// complete small space: all strings of length ≤ 2 over a boundary alphabet
		alpha := []string{"$", "\\", "\"", "'", "`", "/", "*", "<", "?", ">", "\n", "\r", " ", "a", "1", "-", ".", "e", "b", "#", "!", "{", "}", "@", "\xe3", "\x80", "\xff", "é", "_", "=", ";"}
		for _, a := range alpha {
			add("alpha1", "s", a)
			add("alpha1", "t", "<?php "+a)
			for _, b := range alpha {
				add("alpha2", "s", a+b)
				add("alpha2", "t", "<?php "+a+b)
			}
		}
		nm := c.N(1500, 40000)
		for i := 0; i < nm; i++ {
			base := vh.Pick(c.Rand, corpus).Src
			if len(base) > 3000 {
				s := c.Rand.Intn(len(base) - 3000)
				base = base[s : s+3000]
			}
			mu, kinds := lexh.Mutate(c.Rand, base)
			add("corpus-mutant:"+kinds, vh.Pick(c.Rand, []string{"s", "t"}), mu)
		}
		ng := c.N(1500, 40000)
		for i := 0; i < ng; i++ {
			p := lexh.GenProgram(c.Rand)
			name := "generated"
			if c.Rand.Chance(60) {
				var k string
				p, k = lexh.Mutate(c.Rand, p)
				name = "generated-mutant:" + k
			}
			add(name, vh.Pick(c.Rand, []string{"s", "t"}), p)
		}
	}
	reqs := make([]lexh.Req, len(cases))
	for i, cs := range cases {
		reqs[i] = lexh.Req{ID: i, Mode: cs.Mode, Hex: cs.Hex, Lex: true}
	}
	pool := lexh.NewPool(c.Workers)
	verd := pool.Run(reqs)
	// model answers (batched)
	var mans []string
	if m != nil {
		lines := make([]string, len(cases))
		for i, cs := range cases {
			lines[i] = "lex " + cs.Mode + " " + cs.Hex
		}
		var err error
		// the driver is stateless per line: answer with several driver processes
		if mans, err = vh.AskParallel(c.ModelPath, lines, 8); err != nil {
			c.Note("model failed: %v", err)
			mans = nil
		}
		c.Res.ModelLines = len(lines)
	}
	for i, cs := range cases {
		v := verd[i]
		b, _ := hex.DecodeString(cs.Hex)
		src := string(b)
		kind := strings.SplitN(cs.Name, ":", 2)[0]
		if strings.HasPrefix(kind, "tests/") || strings.HasPrefix(kind, "examples/") {
			kind = "corpus-file"
		}
		c.Hit("input:" + kind)
		c.Hit("mode:" + cs.Mode)
		if v.Hung || v.Died != "" || v.Resp == nil || v.Resp.LexPanic != "" {
			// a crash of the lexer is C01's finding; here it only breaks the comparison
			what := "lexer did not return"
			if v.Resp != nil {
				what = "lexer panic: " + v.Resp.LexPanic
			} else if v.Died != "" {
				what = "process died: " + v.Died
			}
			c.Eval(cs.Mode+cs.Hex, false)
			c.Mismatch(cs, what, "", "lexer crashed or hung (see C01)")
			continue
		}
		toks := v.Resp.Toks
		c.Eval(cs.Mode+cs.Hex, len(toks) >= 3)
		c.SampleSome(map[string]any{"name": cs.Name, "mode": cs.Mode, "bytes": len(src), "tokens": len(toks), "head": trunc(src, 60)}, 701)
		// 1. span laws on the Go output (model-independent)
		if !(cs.Mode == "s" && strings.HasPrefix(src, "<!DOCTYPE")) {
			seen := map[string]bool{}
			for _, lv := range lexh.SpanLaws(src, toks) {
				sig := lawSig(src, cs.Mode, lv, toks)
				if !seen[sig] {
					seen[sig] = true
					c.Violation(sig, lv.Law+" law: "+lv.What, cs)
				}
			}
		}
		// 1b. interpolation fragments (children; not modelled): line of every uniquely locatable fragment
		if strings.Contains(src, "$") || strings.Contains(src, "@{") {
			fv, nfrag := fragLaws(cs.Mode, src)
			if nfrag > 0 {
				c.Hit("frag:inputs-with-located-fragments")
			}
			seenF := map[string]bool{}
			for _, v := range fv {
				if !seenF[v.Sig] {
					seenF[v.Sig] = true
					c.Violation(v.Sig, v.What, cs)
				}
			}
		}
		// 2. correspondence with the model
		if mans != nil {
			mk, _, mt := lexh.ParseModel(mans[i])
			switch mk {
			case "tokens":
				if d := lexh.Diff(toks, mt); d != "" {
					c.Mismatch(cs, d, "", "lexer.Tokenize vs Model.Lex.tokenize")
				}
				c.Hit("model:tokens")
			case "html":
				c.Hit("model:html-not-modelled")
			default:
				c.Mismatch(cs, fmt.Sprintf("%d tokens", len(toks)), mans[i], "model outcome "+mk)
			}
		}
	}
	if len(c.ReplayRaw) == 0 {
		c.Res.Exhaustive = true
		c.Res.ExhaustiveWhat = "all corpus files × both modes; all strings of length ≤ 2 over a 31-symbol boundary alphabet × both modes"
		runLoc(c)
		runNest(c)
	}
}

func (cs Case) Kind() string {
	if cs.Mode == "loc" || cs.Mode == "nest" {
		return cs.Mode
	}
	return "lex"
}

func trunc(s string, n int) string {
	if len(s) > n {
		return s[:n] + "…"
	}
	return s
}
