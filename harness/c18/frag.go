package c18

import (
	"fmt"
	"strings"

	"github.com/php-any/origami/lexer"
	"github.com/php-any/origami/token"
)

// Interpolation fragments (round 5). The tokens re-lexed out of `{$…}`, `$name`, `@{…}` inside a
// string or heredoc are children of the top-level INTERPOLATION_TOKEN; their line is what an error
// raised inside the fragment reports. It is computed from positions INSIDE the literal (rune
// indices into the content, newlines counted before the fragment), i.e. by arithmetic that mixes
// units: a place where rune index / byte offset / line-relative column can be confused, visible
// only when non-ASCII text precedes the fragment. The model does not cover children; this oracle
// is independent of the lexer's arithmetic: a fragment whose text occurs exactly ONCE in the
// source text of its parent token must carry the line on which that occurrence starts.

type fragViolation struct {
	Sig  string
	What string
}

// fragLaws lexes src in-process (the pool has already shown that the lexer returns on it) and
// judges the line of every interpolation fragment that can be located unambiguously.
func fragLaws(mode, src string) (out []fragViolation, fragments int) {
	defer func() {
		if r := recover(); r != nil {
			out, fragments = nil, 0 // a crash is C01's matter and has been reported by the pool
		}
	}()
	l := lexer.NewLexer()
	var ts []lexer.Token
	if mode == "t" {
		ts = l.TokenizeTemplate(src)
	} else {
		ts = l.Tokenize(src)
	}
	for _, t := range ts {
		lt, ok := t.(*lexer.LingToken)
		if !ok || t.Type() != token.INTERPOLATION_TOKEN || t.Start() < 0 || t.End() > len(src) || t.Start() >= t.End() {
			continue
		}
		parent := src[t.Start():t.End()]
		nlBefore := strings.Count(src[:t.Start()], "\n")
		if t.Line() != nlBefore {
			continue // the top-level line law has already flagged this token
		}
		for _, ch := range lt.Children() {
			cl, ok := ch.(*lexer.LingToken)
			if !ok || len(cl.Children()) == 0 {
				continue // a plain string piece
			}
			text := ch.Literal()
			if text == "" || strings.Count(parent, text) != 1 {
				continue
			}
			fragments++
			at := strings.Index(parent, text)
			want := nlBefore + strings.Count(parent[:at], "\n")
			if ch.Line() != want {
				sig := "frag:line:fragment"
				if strings.HasPrefix(parent, "<<<") && loneCRs(parent[:at]) > 0 && ch.Line() == want+loneCRs(parent[:at]) {
					// known: the heredoc body is normalised (a lone \r becomes \n) before the newlines are counted
					sig = "frag:line:heredoc-lone-cr"
				}
				out = append(out, fragViolation{sig, fmt.Sprintf("interpolation fragment %q of the string token at [%d,%d) (line %d) starts on line %d of the source (0-based) but carries line %d",
					trunc(text, 40), t.Start(), t.End(), t.Line(), want, ch.Line())})
				continue
			}
			// the re-lexed tokens: the first one sits on the fragment's first line (after leading
			// newlines inside the fragment, if any), none before it and none after its last line
			lastLine := want + strings.Count(text, "\n")
			for i, v := range cl.Children() {
				if v.Line() < want || v.Line() > lastLine {
					out = append(out, fragViolation{"frag:line:child", fmt.Sprintf("token %q (#%d) re-lexed from the interpolation fragment %q (source lines %d..%d, 0-based) carries line %d",
						trunc(v.Literal(), 30), i, trunc(text, 40), want, lastLine, v.Line())})
					break
				}
			}
		}
	}
	return out, fragments
}

// loneCRs counts the \r bytes that are not followed by \n
func loneCRs(s string) int {
	n := 0
	for i := 0; i < len(s); i++ {
		if s[i] == '\r' && (i+1 >= len(s) || s[i+1] != '\n') {
			n++
		}
	}
	return n
}
