package c18

import (
	"encoding/json"
	"fmt"
	"os"
	"path/filepath"
	"strings"

	"github.com/php-any/origami/data"

	"verif/harness/vh"
)

// Error-location clause of C18: programs with ONE planted fault at a known
// line; the line origami reports for the parse error / uncaught runtime error
// must be that line. No Lean model for this clause (oracle only): the expected
// line is known by construction.

type locCase struct {
	Mode  string   `json:"mode"` // loc
	Ext   string   `json:"ext"`  // zy | php
	CRLF  bool     `json:"crlf"`
	Lines []string `json:"lines"` // physical lines of the program (without line ends)
	Fault int      `json:"fault"` // 1-based line of the planted fault
	Kind  string   `json:"kind"`
}

type filler struct {
	lines []string
	php   bool // needs template mode
}

var fillers = []filler{
	{lines: []string{"$v1 = 1;"}},
	{lines: []string{"// a comment"}},
	{lines: []string{"/* c */ $v2 = 2;"}},
	{lines: []string{""}},
	{lines: []string{"$s1 = \"two", "lines\";"}},
	{lines: []string{"/* block", "   comment", "*/"}},
	{lines: []string{"$h = <<<EOT", "hello $v1", "world", "EOT;"}},
	{lines: []string{"$n = <<<'RAW'", "raw $x", "RAW;"}},
	{lines: []string{"$u = 'ünï中'; // 注释"}},
	{lines: []string{"function g1($p) {", "  return $p + 1;", "}"}},
	{lines: []string{"if ($v1 > 0) {", "  $v3 = 3;", "} else {", "  $v3 = 4;", "}"}},
	{lines: []string{"$arr = [", "  1,", "  2,", "];"}},
	{lines: []string{"?>", "<b>html</b>", "<?php"}, php: true},
}

type fault struct {
	kind  string
	lines []string
	at    int // which of its lines carries the fault (0-based)
	parse bool
}

var faults = []fault{
	{kind: "throw", lines: []string{"throw new Exception('boom');"}},
	{kind: "undefined-fn", lines: []string{"undefined_fn_xyz(1);"}},
	{kind: "throw-in-fn", lines: []string{"function ff1() {", "  throw new Exception('in fn');", "}", "ff1();"}, at: 1},
	{kind: "div-zero", lines: []string{"$dz = 1 % 0;"}},
	{kind: "undefined-method", lines: []string{"$ob = new stdClass();", "$ob->nope();"}, at: 1},
	{kind: "parse:stray-paren", lines: []string{") ;"}, parse: true},
	{kind: "parse:class-noname", lines: []string{"class { }"}, parse: true},
	{kind: "parse:new-nothing", lines: []string{"$q = new ;"}, parse: true},
	{kind: "parse:foreach-novar", lines: []string{"foreach ($arr as ) { }"}, parse: true},
}

func genLoc(r *vh.Rand) locCase {
	lc := locCase{Mode: "loc", Ext: vh.Pick(r, []string{"zy", "php"}), CRLF: r.Chance(35)}
	shebang := r.Chance(20)
	if shebang {
		// a shebang line: the rest of the file is lexed in template mode in both file kinds, and
		// positions must still be those of the file
		lc.Lines = append(lc.Lines, "#!/usr/bin/env zy", "<?php")
	} else if lc.Ext == "php" {
		lc.Lines = append(lc.Lines, "<?php")
	}
	add := func(n int) {
		for i := 0; i < n; i++ {
			f := vh.Pick(r, fillers)
			if f.php && lc.Ext != "php" && !shebang {
				continue
			}
			for _, l := range f.lines {
				// declarations must be unique within a program
				lc.Lines = append(lc.Lines, strings.ReplaceAll(l, "g1(", fmt.Sprintf("g%d(", len(lc.Lines))))
			}
		}
	}
	add(r.Range(0, 7))
	ft := vh.Pick(r, faults)
	lc.Kind = ft.kind
	lc.Fault = len(lc.Lines) + ft.at + 1
	lc.Lines = append(lc.Lines, ft.lines...)
	add(r.Range(1, 3))
	lc.Lines = append(lc.Lines, "echo 'end';")
	return lc
}

func (lc locCase) source() string {
	sep := "\n"
	if lc.CRLF {
		sep = "\r\n"
	}
	return strings.Join(lc.Lines, sep) + sep
}

// reportedLine runs the program from a file and returns the 1-based line of the error location.
func reportedLine(c *vh.Ctx, lc locCase, n int) (line int, what string) {
	return reportedAt(c, lc.source(), lc.Ext, n)
}

func reportedAt(c *vh.Ctx, src, ext string, n int) (line int, what string) {
	line, _, what = reportedFileLine(c, src, ext, n)
	return line, what
}

// reportedFileLine: as reportedAt; when the location names another file than the script, line is -1
// and file is the name it carries ("" = a location without a file)
func reportedFileLine(c *vh.Ctx, src, ext string, n int) (line int, file string, what string) {
	path := filepath.Join(c.Scratch, fmt.Sprintf("loc%d.%s", n, ext))
	os.WriteFile(path, []byte(src), 0o644)
	defer os.Remove(path)
	env := vh.NewEnv()
	var ctl data.Control
	// an uncaught throwable at top level is handed to the VM's throw handler, not returned
	env.VM.SetThrowControl(func(acl data.Control) {
		if ctl == nil {
			ctl = acl
		}
	})
	func() {
		defer func() {
			if r := recover(); r != nil {
				if a, ok := r.(data.Control); ok {
					ctl = a
				} else {
					what = fmt.Sprintf("go-panic: %v", r)
				}
			}
		}()
		old := data.WriteOutput
		data.WriteOutput = func(string) {}
		defer func() { data.WriteOutput = old }()
		p := env.Parser.Clone()
		prog, acl := p.ParseFile(path)
		if acl != nil {
			ctl = acl
			return
		}
		vars := p.GetVariables()
		ctx := env.VM.CreateContext(vars)
		if _, c2 := prog.GetValue(ctx); c2 != nil && ctl == nil {
			ctl = c2
		}
	}()
	if what != "" {
		return -1, path, what
	}
	if ctl == nil {
		return -1, path, "no error reported"
	}
	tv, ok := ctl.(*data.ThrowValue)
	if !ok || tv.Error == nil || tv.Error.From == nil {
		return -1, path, "error without a location: " + firstLineOf(ctl.AsString())
	}
	sl, _ := tv.Error.From.GetStartPosition()
	if src := tv.Error.From.GetSource(); src != path {
		// the property speaks of the file AND the line printed
		return -1, src, fmt.Sprintf("location names file %q line %d, the script is %s: %s", src, sl+1, filepath.Base(path), firstLineOf(ctl.AsString()))
	}
	return sl + 1, path, firstLineOf(ctl.AsString())
}

func firstLineOf(s string) string {
	if i := strings.IndexByte(s, '\n'); i >= 0 {
		return s[:i]
	}
	return s
}

func checkLoc(c *vh.Ctx, lc locCase, n int) {
	got, what := reportedLine(c, lc, n)
	key := fmt.Sprintf("%s|%v|%s", lc.Ext, lc.CRLF, strings.Join(lc.Lines, "\n"))
	c.Eval("loc:"+key, len(lc.Lines) >= 4)
	c.Hit("loc:" + lc.Kind)
	c.SampleSome(map[string]any{"loc-kind": lc.Kind, "ext": lc.Ext, "crlf": lc.CRLF, "fault_line": lc.Fault, "reported": got}, 211)
	if got != lc.Fault {
		sig := "loc:" + lc.Kind
		if got == -1 {
			sig += ":none"
		}
		c.Violation(sig, fmt.Sprintf("fault %q planted on line %d of a .%s file (crlf=%v) is reported on line %d (%s)", lc.Kind, lc.Fault, lc.Ext, lc.CRLF, got, what), lc)
	}
}

func runLoc(c *vh.Ctx) {
	for i := 0; i < c.N(600, 12000); i++ {
		checkLoc(c, genLoc(c.Rand), i)
	}
}

func runLocReplay(c *vh.Ctx, raw json.RawMessage) {
	var lc locCase
	if json.Unmarshal(raw, &lc) == nil {
		checkLoc(c, lc, 0)
	}
}
