package c18

import (
	"encoding/json"

	"verif/harness/vh"
)

// error-location clause: filled in by loc.go (planted-fault programs); see notes.
func runLoc(c *vh.Ctx)                             {}
func runLocReplay(c *vh.Ctx, raw json.RawMessage) {}
